------------------------------- MODULE Onion -------------------------------
(***************************************************************************)
(* C14 -- what a sender, the hops of a route and the sender again may      *)
(* observe of one payment onion, stated only over observable things:       *)
(*   - the route handed to the sender as a list of per-hop payload         *)
(*     descriptors (what each hop is asked to do) and whether an onion     *)
(*     could be built for it,                                              *)
(*   - what each hop, using its own key, reads out of the packet it is     *)
(*     given (forward: next channel, amount, expiry + a packet for the     *)
(*     next hop; receive: the recipient fields; or reject),                *)
(*   - modifications of the packet / ephemeral key / payment hash between  *)
(*     two hops,                                                           *)
(*   - a failure originated at a hop that saw the packet, re-wrapped by    *)
(*     each earlier hop in turn, and what the sender decodes from it,      *)
(*   - fulfil attribution data built hop by hop and the hold times the     *)
(*     sender decodes.                                                     *)
(* Every action takes the *observed* result as a parameter and guards it;  *)
(* an implementation keeps the property iff each of its executions is a    *)
(* behaviour of this specification.  Cryptography is not modelled: the     *)
(* spec only fixes shapes, sizes and verdicts.                             *)
(*                                                                         *)
(* 64-bit quantities (msat amounts, channel ids, TLV types) are sequences  *)
(* of three limbs <<bits 0..23, bits 24..47, bits 48..63>> because TLC     *)
(* integers are 32-bit; expiries and lengths are plain integers.           *)
(***************************************************************************)
EXTENDS Integers, Sequences, FiniteSets, TLC

CONSTANT MaxAttrHops   \* hops whose hold times fit in attribution data (BOLT 4: 20)

HopDataLen == 1300
HmacLen == 32
PacketLen == 1 + 33 + HopDataLen + HmacLen   \* version, ephemeral key, hop data, hmac = 1366

Fields == {"version", "pubkey", "hop_data", "hmac", "payment_hash"}

VARIABLES
  route,     \* sequence of per-hop payload descriptors (see HopLen for the fields)
  phase,     \* "idle" | "nobuild" | "fwd" | "rejected" | "received" | "failing" | "attributed"
             \*        | "fulfilling" | "fattributed"
  pos,       \* number of hops that have peeled the packet so far
  tainted,   \* the packet now in flight was modified after the previous hop / the sender made it
  fail,      \* [k, code, dlen, head] of the failure travelling back (k = 0: none)
  wrapped,   \* lowest hop index that has processed the failure / fulfil on its way back
  holds      \* holds[j] = hold time reported by hop j (-1 = none yet)

ovars == <<route, phase, pos, tainted, fail, wrapped, holds>>

N == Len(route)
Min(a, b) == IF a < b THEN a ELSE b
Max(a, b) == IF a > b THEN a ELSE b

-----------------------------------------------------------------------------
(* Size arithmetic of BOLT 4 TLV payloads (part of the property: "for every *)
(* route that fits in a packet").                                           *)
Bytes24(x) == IF x = 0 THEN 0 ELSE IF x < 256 THEN 1 ELSE IF x < 65536 THEN 2 ELSE 3
\* minimal big-endian length of a 64-bit value (tu64 encoding)
Len64(l) == IF l[3] > 0 THEN 6 + Bytes24(l[3])
            ELSE IF l[2] > 0 THEN 3 + Bytes24(l[2]) ELSE Bytes24(l[1])
\* minimal length of a 32-bit value (tu32 encoding)
Len32(x) == IF x = 0 THEN 0 ELSE IF x < 256 THEN 1 ELSE IF x < 65536 THEN 2
            ELSE IF x < 16777216 THEN 3 ELSE 4
\* BigSize length of a small integer / of a 64-bit limb value
BigSizeLen(x) == IF x < 253 THEN 1 ELSE IF x < 65536 THEN 3 ELSE 5
BigSizeLen64(l) == IF l[3] = 0 /\ l[2] = 0 /\ l[1] < 253 THEN 1
                   ELSE IF l[3] = 0 /\ l[2] = 0 /\ l[1] < 65536 THEN 3
                   ELSE IF l[3] = 0 /\ l[2] < 256 THEN 5 ELSE 9

RECURSIVE SumCustoms(_)
SumCustoms(cs) == IF cs = <<>> THEN 0
                  ELSE BigSizeLen64(Head(cs).t) + BigSizeLen(Head(cs).len) + Head(cs).len
                       + SumCustoms(Tail(cs))
KeysendLen(h) == IF h.keysend # "" THEN 9 + 1 + 32 ELSE 0   \* type 5482373484, 32-byte preimage
EncLen(h) == 1 + BigSizeLen(h.enc_len) + h.enc_len          \* encrypted_recipient_data (type 10)
IntroLen(h) == IF h.intro THEN 1 + 1 + 33 ELSE 0            \* current_path_key (type 12)

\* length of the TLV stream of hop descriptor h
ContentLen(h) ==
  CASE h.kind = "fwd" ->
         (2 + Len64(h.amt)) + (2 + Len32(h.cltv)) + (2 + 8)
    [] h.kind = "final" ->
         (2 + Len64(h.amt)) + (2 + Len32(h.cltv))
         + (IF h.secret # "" THEN 2 + 32 + Len64(h.total) ELSE 0)
         + (IF h.meta_len >= 0 THEN 1 + BigSizeLen(h.meta_len) + h.meta_len ELSE 0)
         + SumCustoms(h.customs) + KeysendLen(h)
    [] h.kind = "bfwd" -> EncLen(h) + IntroLen(h)
    [] h.kind = "bfinal" ->
         (2 + Len64(h.amt)) + (2 + Len32(h.cltv)) + EncLen(h) + IntroLen(h)
         + (2 + Len64(h.total)) + SumCustoms(h.customs) + KeysendLen(h)
\* bytes hop descriptor h occupies in hop_data: length prefix, TLV stream, hmac of the next layer
HopLen(h) == BigSizeLen(ContentLen(h)) + ContentLen(h) + HmacLen

RECURSIVE SumLens(_)
SumLens(r) == IF r = <<>> THEN 0 ELSE HopLen(Head(r)) + SumLens(Tail(r))
Fits(r) == SumLens(r) <= HopDataLen

IsFinalKind(h) == h.kind \in {"final", "bfinal"}
IsBlindedKind(h) == h.kind \in {"bfwd", "bfinal"}
WellFormed(r) ==
  /\ Len(r) >= 1
  /\ IsFinalKind(r[Len(r)])
  /\ \A i \in 1..(Len(r) - 1) : ~IsFinalKind(r[i])
  /\ \A i \in 1..(Len(r) - 1) : IsBlindedKind(r[i]) => IsBlindedKind(r[i + 1])
  \* the library requires a payment secret or a keysend preimage at the recipient
  /\ r[Len(r)].kind = "final" => (r[Len(r)].secret # "" \/ r[Len(r)].keysend # "")
Unblinded(r) == \A i \in 1..Len(r) : ~IsBlindedKind(r[i])

-----------------------------------------------------------------------------
NoFail == [k |-> 0, code |-> 0, dlen |-> 0, head |-> <<>>]
Init ==
  /\ route = <<>> /\ phase = "idle" /\ pos = 0 /\ tainted = FALSE
  /\ fail = NoFail /\ wrapped = 0 /\ holds = <<>>

(* The sender is handed route r.  If r fits it must produce a packet (of    *)
(* the fixed size).  If it does not fit nothing is required of `ok`: a      *)
(* packet built anyway is simply held to the same per-hop requirements.     *)
Build(r, ok, pktlen) ==
  /\ phase = "idle"
  /\ WellFormed(r)
  /\ Fits(r) => ok
  /\ ok => pktlen = PacketLen
  /\ route' = r
  /\ phase' = IF ok THEN "fwd" ELSE "nobuild"
  /\ pos' = 0 /\ tainted' = FALSE
  /\ holds' = [j \in 1..Len(r) |-> -1]
  /\ UNCHANGED <<fail, wrapped>>

(* Somebody flips a bit of `field` in the packet travelling to hop i.       *)
Corrupt(i, field) ==
  /\ phase = "fwd" /\ i = pos + 1 /\ i <= N
  /\ field \in Fields
  /\ tainted' = TRUE
  /\ UNCHANGED <<route, phase, pos, fail, wrapped, holds>>

SameForward(res, h) ==
  /\ res.res = "forward"
  /\ res.amt = h.amt /\ res.cltv = h.cltv /\ res.scid = h.scid
  /\ res.pkt_len = PacketLen
SameReceive(res, h) ==
  /\ res.res = "receive"
  /\ res.amt = h.amt /\ res.cltv = h.cltv
  /\ res.secret = h.secret
  /\ (h.secret # "" \/ h.kind = "bfinal") => res.total = h.total
  /\ res.meta_len = h.meta_len /\ res.meta_fp = h.meta_fp
  /\ res.customs = h.customs
  /\ res.keysend = h.keysend

(* Hop i processes the packet with its own key and reports res.             *)
Peel(i, res) ==
  /\ phase = "fwd" /\ i = pos + 1 /\ i <= N
  /\ IF tainted
       THEN /\ res.res = "reject"
            /\ phase' = "rejected" /\ pos' = pos
       ELSE IF i < N
         THEN /\ SameForward(res, route[i])
              /\ phase' = "fwd" /\ pos' = i
         ELSE /\ SameReceive(res, route[i])
              /\ phase' = "received" /\ pos' = i
  /\ tainted' = FALSE
  /\ UNCHANGED <<route, fail, wrapped, holds>>

-----------------------------------------------------------------------------
(* Failures.  Codes with the BADONION bit are excluded: they are reported   *)
(* by the *next* hop in update_fail_malformed_htlc and converted, so "the   *)
(* hop that produced it" is ambiguous.  Routes with blinded hops are        *)
(* excluded as well (failures inside a blinded path are deliberately        *)
(* anonymised).                                                             *)
(*                                                                         *)
(* A failure message is <<code, data>>.  Of the data the specification      *)
(* sees its length `dlen` and its first bytes `head` (at most HeadLen of    *)
(* them): BOLT 4 puts the fixed-size fields of every failure message and    *)
(* the length of the channel_update of an UPDATE message there.             *)
BadOnion(code) == code >= 32768
IsPerm(code) == (code \div 16384) % 2 = 1
NodeBit(code) == (code \div 8192) % 2 = 1
UpdateBit(code) == (code \div 4096) % 2 = 1
HeadLen == 12
\* codes only a recipient sends and for which the sender blames nobody on the path
RecipientCodes == {16384 + 15, 18, 19, 23}

(* BOLT 4, "Failure Messages": the UPDATE messages are                      *)
(*   temporary_channel_failure (UPDATE|7), expiry_too_soon (UPDATE|14):     *)
(*                                 [u16:len][len*byte:channel_update]       *)
(*   amount_below_minimum (UPDATE|11), fee_insufficient (UPDATE|12):        *)
(*                  [u64:htlc_msat][u16:len][len*byte:channel_update]       *)
(*   incorrect_cltv_expiry (UPDATE|13):                                     *)
(*                [u32:cltv_expiry][u16:len][len*byte:channel_update]       *)
(*   channel_disabled (UPDATE|20):                                          *)
(*             [u16:disabled_flags][u16:len][len*byte:channel_update]       *)
(* FixedLen = number of bytes before the u16 length; -1 for a code that     *)
(* BOLT 4 does not define (its layout is unknown).                          *)
FixedLen(code) ==
  CASE code \in {4096 + 7, 4096 + 14} -> 0
    [] code \in {4096 + 11, 4096 + 12} -> 8
    [] code = 4096 + 13 -> 4
    [] code = 4096 + 20 -> 2
    [] OTHER -> -1
\* the data of UPDATE message `code` is exactly fixed fields + length + that many bytes
WellFormedUpdate(code, dlen, head) ==
  LET d == FixedLen(code) IN
  /\ d >= 0
  /\ dlen >= d + 2 /\ Len(head) >= d + 2
  /\ dlen = d + 2 + head[d + 1] * 256 + head[d + 2]

(* Hop k, which has seen the packet, gives up and originates a failure.     *)
FailAt(k, code, hold, dlen, head) ==
  /\ \/ phase = "fwd" /\ k = pos /\ k >= 1 /\ ~tainted
     \/ phase = "received" /\ k = N
  /\ Unblinded(route)
  /\ code >= 0 /\ ~BadOnion(code)
  /\ hold >= 0
  /\ dlen >= 0 /\ Len(head) <= HeadLen /\ Len(head) <= dlen
  /\ fail' = [k |-> k, code |-> code, dlen |-> dlen, head |-> head]
  /\ wrapped' = k
  /\ holds' = [holds EXCEPT ![k] = hold]
  /\ phase' = "failing"
  /\ UNCHANGED <<route, pos, tainted>>

(* Hop i = the hop just before the last one that handled the failure adds   *)
(* its layer (and its hold time).                                           *)
WrapBack(i, hold) ==
  /\ phase = "failing" /\ i = wrapped - 1 /\ i >= 1
  /\ hold >= 0
  /\ wrapped' = i
  /\ holds' = [holds EXCEPT ![i] = hold]
  /\ UNCHANGED <<route, phase, pos, tainted, fail>>

(* Channel c (1-based: channel c leads into hop c) touches hop k.           *)
TouchesHop(c, k) == c \in {k, k + 1} /\ c <= N
HoldTimesOK(ht, upto) ==
  /\ Len(ht) = Min(upto, MaxAttrHops)
  /\ \A j \in 1..Len(ht) : ht[j] = holds[j]

(* What the sender must CONCLUDE from a failure of hop k (BOLT 4,           *)
(* "Receiving Failure Codes", and the documentation of                      *)
(* Event::PaymentPathFailed / NetworkUpdate), as a function of the hop      *)
(* position, the class bits of the code and -- for UPDATE -- the data:      *)
(*   "node"      NODE bit, forwarding hop: the erring node is removed from  *)
(*               consideration, permanently iff PERM is set;                *)
(*   "chan_perm" PERM without NODE from a forwarding hop: the channel       *)
(*               outgoing from the erring node (channel k+1) is eliminated  *)
(*               for good;                                                  *)
(*   "chan_temp" UPDATE without PERM/NODE from a forwarding hop with a      *)
(*               well-formed message: that same channel, temporarily;       *)
(*   "any"       everything BOLT 4 leaves open (final hop, malformed or     *)
(*               unknown UPDATE data, codes without class bits): the blame  *)
(*               must only stay with hop k (node k or an adjacent channel). *)
BlameClass(k, code, dlen, head) ==
  IF k = N THEN "any"
  ELSE IF NodeBit(code) THEN "node"
  ELSE IF IsPerm(code) THEN "chan_perm"
  ELSE IF UpdateBit(code) /\ WellFormedUpdate(code, dlen, head) THEN "chan_temp"
  ELSE "any"

(* What the sender decodes: a.code, a.hold_times, and the blame it assigns: *)
(* a network update (nu_kind "node": nu_node, "channel": nu_chan, with      *)
(* nu_perm = is_permanent; or "none"), the channel to avoid when retrying   *)
(* (has_scid, chan) and whether the payment as a whole failed (perm).       *)
AttrOK(a) ==
  LET k == fail.k
      cls == BlameClass(k, fail.code, fail.dlen, fail.head) IN
  /\ a.code = fail.code
  /\ ~a.blinded
  /\ HoldTimesOK(a.hold_times, k)
  /\ a.nu_kind \in {"none", "node", "channel"}
  /\ a.nu_kind = "node" => a.nu_node = k
  /\ a.nu_kind = "channel" => TouchesHop(a.nu_chan, k)
  /\ a.has_scid => TouchesHop(a.chan, k)
  /\ \/ a.nu_kind \in {"node", "channel"}
     \/ a.has_scid
     \/ k = N /\ fail.code \in RecipientCodes
  /\ cls = "node" => (a.nu_kind = "node" /\ a.has_scid)
  \* whoever removes a node because of a NODE failure does so for good iff PERM is set
  /\ (NodeBit(fail.code) /\ a.nu_kind = "node") => a.nu_perm = IsPerm(fail.code)
  /\ cls \in {"chan_perm", "chan_temp"} =>
       /\ a.nu_kind = "channel" /\ a.nu_chan = k + 1
       /\ a.nu_perm = (cls = "chan_perm")
       /\ a.has_scid /\ a.chan = k + 1
  \* a failure of the recipient ends the payment iff it is permanent; no other failure does
  /\ a.perm = (k = N /\ IsPerm(fail.code))

Attribute(a) ==
  /\ phase = "failing" /\ wrapped = 1
  /\ AttrOK(a)
  /\ phase' = "attributed"
  /\ UNCHANGED <<route, pos, tainted, fail, wrapped, holds>>

-----
(* Fulfil attribution data: created by the recipient, extended by every hop *)
(* on the way back, decoded by the sender into per-hop hold times.          *)
FulfillAt(k, hold) ==
  /\ phase = "received" /\ k = N
  /\ Unblinded(route)
  /\ hold >= 0
  /\ wrapped' = k
  /\ holds' = [holds EXCEPT ![k] = hold]
  /\ phase' = "fulfilling"
  /\ UNCHANGED <<route, pos, tainted, fail>>

FulfillWrap(i, hold) ==
  /\ phase = "fulfilling" /\ i = wrapped - 1 /\ i >= 1
  /\ hold >= 0
  /\ wrapped' = i
  /\ holds' = [holds EXCEPT ![i] = hold]
  /\ UNCHANGED <<route, phase, pos, tainted, fail>>

FulfillAttribute(ht) ==
  /\ phase = "fulfilling" /\ wrapped = 1
  /\ HoldTimesOK(ht, N)
  /\ phase' = "fattributed"
  /\ UNCHANGED <<route, pos, tainted, fail, wrapped, holds>>

-----------------------------------------------------------------------------
Phases == {"idle", "nobuild", "fwd", "rejected", "received", "failing", "attributed",
           "fulfilling", "fattributed"}
TypeOK ==
  /\ phase \in Phases
  /\ pos \in 0..N
  /\ tainted \in BOOLEAN
  /\ phase = "idle" => route = <<>>
  /\ phase # "idle" => WellFormed(route)
  /\ phase \in {"received", "fulfilling", "fattributed"} => pos = N
  /\ phase \in {"failing", "attributed"} => (fail.k \in 1..N /\ fail.k <= pos /\ wrapped \in 1..fail.k)
  /\ phase \in {"failing", "attributed"} => \A j \in wrapped..fail.k : holds[j] >= 0
  /\ phase \in {"fulfilling", "fattributed"} => \A j \in wrapped..N : holds[j] >= 0
=============================================================================
