SPECIFICATION MCSpec
CONSTANTS
  ReqTicks = 1
  NP = 1
  Manual = FALSE
  Hold = FALSE
  Offs = {2}
  MaxPay = 2
  MaxKeep = 1
  MaxTick = 3
  MaxRestart = 0
  MaxSave = 0
  MaxAband = 0
  MaxErr = 0
  MaxMsgRecv = 1
  MaxSend = 0
  MaxOps = 6
  MinOps = 4
  CodeTicks = 1
  Idem = 1
  Stale = FALSE
  Bug = "none"
CONSTRAINT Bound
VIEW View
INVARIANT TermSane
INVARIANT OneHashPerId
INVARIANT OnePaymentPerId
INVARIANT DesignSane
INVARIANT EmitScripts
CHECK_DEADLOCK TRUE
