SPECIFICATION Spec
CONSTANTS
  H = {1, 2}
  BlockerMode = "none"
  MaxCrash = 2
INVARIANT PreimageBeforeForget
INVARIANT NoLoss
INVARIANT NoTheft
CHECK_DEADLOCK TRUE
