----------------------------- MODULE GossipTrace -----------------------------
(* Trace validation for C17: every recorded run of the real NetworkGraph / P2PGossipSync /
   RapidGossipSync must be a behaviour of Gossip.  After every step the projection of the real
   graph (through its public read-only view) must equal the graph the rules prescribe, the
   class of the return value must fit, and the graph must have survived a write/read round
   trip (rt).  The invariants of Gossip (OnlyAuthentic, NeverOlder, NodeCleanup, Confluence)
   are evaluated on every trace state, i.e. on the real graph.
   A trace file holds many runs; each starts with a `reset` record. *)
EXTENDS Gossip, Json, IOUtils

VARIABLE l

Rec == ndJsonDeserialize(IOEnv.TRACE)

tvars == <<avars, l>>

TraceInit ==
  /\ l = 1
  /\ G = EmptyG /\ Gprev = EmptyG /\ lookup = FALSE /\ amode = FALSE /\ caps = <<>>
  /\ tombC = {} /\ tombN = {} /\ remC = {} /\ remN = {} /\ delivered = {} /\ eff = {} /\ pure = TRUE /\ pend = <<>>

IsEvent(e) == l <= Len(Rec) /\ Rec[l].ev = e /\ l' = l + 1

(* the recorded projection *)
PDir(r) == [has |-> r.has, ts |-> r.ts, en |-> r.en, cltv |-> r.cltv, hmin |-> r.hmin,
            hmax |-> r.hmax, fb |-> r.fb, fp |-> r.fp]
PChans(g) == {g.chans[i].c : i \in DOMAIN g.chans}
PNodes(g) == {g.nodes[i].n : i \in DOMAIN g.nodes}
\* the model's channel record without the (unobservable) time the announcement was received
Visible(ch) == [n1 |-> ch.n1, n2 |-> ch.n2, cap |-> ch.cap, d0 |-> ch.d0, d1 |-> ch.d1]
ProjMatches(g, m) ==
  /\ Len(g.chans) = Cardinality(PChans(g))
  /\ Len(g.nodes) = Cardinality(PNodes(g))
  /\ PChans(g) = Chs(m)
  /\ PNodes(g) = Nds(m)
  /\ \A i \in DOMAIN g.chans :
       LET r == g.chans[i] IN
       Visible(m.ch[r.c]) = [n1 |-> r.n1, n2 |-> r.n2, cap |-> r.cap, d0 |-> PDir(r.d0), d1 |-> PDir(r.d1)]
  /\ \A i \in DOMAIN g.nodes :
       LET r == g.nodes[i] IN
       /\ m.nd[r.n] = [ha |-> r.ha, ats |-> r.ats, ap |-> r.ap, ad |-> r.ad]
       /\ SeqToSet(r.chans) = ChansOf(m, r.n)
       /\ Len(r.chans) = Cardinality(SeqToSet(r.chans))

TReset ==
  /\ IsEvent("reset")
  /\ G' = EmptyG /\ Gprev' = EmptyG
  /\ lookup' = Rec[l].lookup
  /\ amode' = Rec[l].async
  /\ pend' = <<>>
  /\ caps' = [c \in 1..Len(Rec[l].caps) |-> Rec[l].caps[c]]
  /\ tombC' = {} /\ tombN' = {} /\ remC' = {} /\ remN' = {} /\ delivered' = {} /\ eff' = {} /\ pure' = TRUE

\* return value: an applied message must have been reported Ok, a message the property
\* requires to be refused must have been reported as an error; otherwise not prescribed
ResFits(r, m, o) ==
  /\ (o \in {"add", "replace", "set"}) => r.res = "ok"    \* "pending": not prescribed
  /\ MustErr(m) => r.res = "err"

TDeliver ==
  /\ IsEvent("deliver")
  /\ LET r == Rec[l] IN
     /\ r.rt
     /\ \E o \in Allowed(r.m) :
          /\ Deliver(r.m, o)
          /\ ResFits(r, r.m, o)
          /\ ProjMatches(r.g, G')

TFailC ==
  /\ IsEvent("failc")
  /\ Rec[l].rt
  /\ FailChan(Rec[l].c)
  /\ ProjMatches(Rec[l].g, G')

TFailN ==
  /\ IsEvent("failn")
  /\ Rec[l].rt
  /\ FailNode(Rec[l].n)
  /\ ProjMatches(Rec[l].g, G')

\* the set of channels the implementation pruned is read off the recorded graph; Prune
\* checks that it lies between what must and what may be pruned
TPrune ==
  /\ IsEvent("prune")
  /\ Rec[l].rt
  /\ Prune(Rec[l].t, Chs(G) \ PChans(Rec[l].g))
  /\ ProjMatches(Rec[l].g, G')

TReload ==
  /\ IsEvent("reload")
  /\ Rec[l].rt /\ Rec[l].read_ok
  /\ Reload
  /\ ProjMatches(Rec[l].g, G')

TRgs ==
  /\ IsEvent("rgs")
  /\ LET r == Rec[l]
         g2 == RgsGraph(G, r.ts, r.anns, r.nodes, r.upds) IN
     /\ r.rt
     \* whether a snapshot application ends with a pruning pass is not prescribed (the
     \* implementation skips it for a snapshot without updates)
     /\ \E p \in (IF r.prune THEN {TRUE, FALSE} ELSE {FALSE}) :
          Rgs(r.ts, r.anns, r.nodes, r.upds, p, r.t, IF p THEN Chs(g2) \ PChans(r.g) ELSE {})
     /\ ProjMatches(r.g, G')

\* the asynchronous lookup of scid c completes (ok: the UTXO exists)
TResolve ==
  /\ IsEvent("resolve")
  /\ LET r == Rec[l]
         known == r.c \in Pending
         ca == IF known THEN pend[r.c].ca ELSE NoMsg
         C1 == IF known THEN HeldCU(r.c, 0) \cup {NoMsg} ELSE {NoMsg}
         C2 == IF known THEN HeldCU(r.c, 1) \cup {NoMsg} ELSE {NoMsg}
         C3 == IF known THEN HeldNA(r.c, ca.n1) \cup {NoMsg} ELSE {NoMsg}
         C4 == IF known THEN HeldNA(r.c, ca.n2) \cup {NoMsg} ELSE {NoMsg} IN
     /\ r.rt
     /\ \E o \in (IF known /\ r.ok THEN {"none", "add", "replace"} ELSE {"none"}) :
        \E p1 \in C1, p2 \in C2, p3 \in C3, p4 \in C4 :
          Resolve(r.c, r.ok, o, <<p1, p2, p3, p4>>)
     /\ ProjMatches(r.g, G')

TraceNext == TReset \/ TDeliver \/ TFailC \/ TFailN \/ TPrune \/ TReload \/ TRgs \/ TResolve

TraceSpec == TraceInit /\ [][TraceNext]_tvars

TraceAccepted ==
  LET d == TLCGet("stats").diameter IN
  IF d - 1 = Len(Rec) THEN TRUE
  ELSE /\ PrintT(<<"REJECT", d, Len(Rec)>>)
       /\ FALSE
=============================================================================
