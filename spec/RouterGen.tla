----------------------------- MODULE RouterGen -----------------------------
(* Case generator for C16.  TLC enumerates structured small graphs x parameter classes x amounts
   and prints every case as one driver script (engine input of harness/src/bin/router.rs):
        PrintT(<<"SCRIPT", ToJson(case)>>)
   The boundary values (limits exactly at / one off the amount a hop has to carry, fee and CLTV
   limits exactly at the path's totals) are computed with the SAME operators (Fee, MulDivM) that
   the validity predicate of Router.tla uses.

   Topologies (payer = node 0), `main` = the designated payer->payee path, as channel indices:
     1 line3          0-1-2
     2 line4          0-1-2-3
     3 diamond        0-1-3 / 0-2-3
     4 parallel       0=1=2            (two channels between each pair)
     5 triangle+tail  0-1-2-3 / 0-2
     6 mesh5          5 nodes, 7 channels
     7 line5  8 line6  9 line7   single paths of 4, 5 and 6 hops (families D, F, G only)
   One channel of `main` (position `focus`) gets the parameter class under test in its forward
   direction; all other directions get the default policy of the fee class.                     *)
EXTENDS Router, Json

VARIABLE c

Big == 1000000000

Topo(t) ==
  CASE t = 1 -> [n |-> 3, payee |-> 2, chans |-> <<<<0,1>>, <<1,2>>>>, main |-> <<1,2>>]
    [] t = 2 -> [n |-> 4, payee |-> 3, chans |-> <<<<0,1>>, <<1,2>>, <<2,3>>>>, main |-> <<1,2,3>>]
    [] t = 3 -> [n |-> 4, payee |-> 3, chans |-> <<<<0,1>>, <<1,3>>, <<0,2>>, <<2,3>>>>, main |-> <<1,2>>]
    [] t = 4 -> [n |-> 3, payee |-> 2, chans |-> <<<<0,1>>, <<0,1>>, <<1,2>>, <<1,2>>>>, main |-> <<1,3>>]
    [] t = 5 -> [n |-> 4, payee |-> 3, chans |-> <<<<0,1>>, <<1,2>>, <<0,2>>, <<2,3>>>>, main |-> <<1,2,4>>]
    [] t = 6 -> [n |-> 5, payee |-> 4,
                 chans |-> <<<<0,1>>, <<1,2>>, <<2,4>>, <<0,3>>, <<3,4>>, <<1,3>>, <<2,3>>>>,
                 main |-> <<1,2,3>>]
    [] t \in {7, 8, 9} ->   \* a line of t - 3 channels: 0-1-...-(t-3)
       [n |-> t - 2, payee |-> t - 3, chans |-> [i \in 1..(t - 3) |-> <<i - 1, i>>],
        main |-> [i \in 1..(t - 3) |-> i]]

FeeClass(f) ==
  CASE f = "zero"     -> [base |-> 0,      prop |-> 0]
    [] f = "normal"   -> [base |-> 1000,   prop |-> 100]
    [] f = "baseonly" -> [base |-> 1500,   prop |-> 0]
    [] f = "extreme"  -> [base |-> 100000, prop |-> 200000]

DefPol(f) == [has |-> TRUE, en |-> TRUE, base |-> FeeClass(f).base, prop |-> FeeClass(f).prop,
              cltv |-> 40, min |-> 1, max |-> Big]

(* amount carried over main[i] when every main channel has the default policy *)
RECURSIVE NeedMain(_, _, _, _)
NeedMain(t, f, amt, i) ==
  IF i = Len(Topo(t).main) THEN amt
  ELSE LET nx == NeedMain(t, f, amt, i + 1) IN nx + Fee(DefPol(f), nx)

MainCltv(t) == (Len(Topo(t).main) - 1) * 40 + 42

Ceil1000(x) == (x + 999) \div 1000

FocusPol(p) ==
  LET need == NeedMain(p.topo, p.fee, p.amt, p.focus)
      d == DefPol(p.fee)
      mn == CASE p.min = "low" -> 1 [] p.min = "eq" -> need [] p.min = "above" -> need + 1
              [] p.min = "x2" -> 2 * p.amt [] p.min = "x4" -> 4 * p.amt + 1
              \* relative to what the hop carries: twice that; what it carries when the router searches at
              \* 3 * amt (its "recommended value", the largest amount it raises to), and one above that
              [] p.min = "n2" -> 2 * need
              [] p.min = "n3" -> NeedMain(p.topo, p.fee, 3 * p.amt, p.focus)
              [] p.min = "n3above" -> NeedMain(p.topo, p.fee, 3 * p.amt, p.focus) + 1
      mx == CASE p.max = "below" -> Max2(1, need - 1) [] p.max = "eq" -> need
              [] p.max = "above" -> need + 1 [] p.max = "half" -> Max2(1, need \div 2)
              [] p.max = "big" -> Big
  IN [d EXCEPT !.min = mn, !.max = mx,
               !.en = (p.state # "disabled"), !.has = (p.state # "noupdate")]

(* the second feature of family F, on main channel p.g *)
SecondPol(p) ==
  LET need == NeedMain(p.topo, p.fee, p.amt, p.g)
      d == DefPol(p.fee)
  IN CASE p.k2 = "min2"  -> [d EXCEPT !.min = 2 * need]
       [] p.k2 = "maxeq" -> [d EXCEPT !.max = need]
       [] p.k2 = "max2"  -> [d EXCEPT !.max = 2 * need]
       [] p.k2 = "prop"  -> [d EXCEPT !.prop = 100000]

AltPol(p) ==
  LET d == DefPol(p.fee) IN
  CASE p.alt = "same" -> d
    [] p.alt = "free" -> [d EXCEPT !.base = 0, !.prop = 0]
    [] p.alt = "half" -> [d EXCEPT !.max = Max2(1, p.amt \div 2 + 1)]
    [] p.alt = "off"  -> [d EXCEPT !.en = FALSE]

IsMain(p, k) == \E i \in DOMAIN Topo(p.topo).main : Topo(p.topo).main[i] = k
FocusChan(p) == Topo(p.topo).main[p.focus]
SecondChan(p) == IF p.g = 0 THEN 0 ELSE Topo(p.topo).main[p.g]
(* p.priv: the payer's first main channel is unannounced (known from the first-hop set only) *)
PrivChan(p) == IF p.priv THEN Topo(p.topo).main[1] ELSE 0
FhScid(p, k) == IF k = PrivChan(p) THEN 700 + k ELSE k
HintChan(p) == Topo(p.topo).main[Len(Topo(p.topo).main)]

Chan(p, k) ==
  LET ab == Topo(p.topo).chans[k]
      fwd == IF k = FocusChan(p) THEN FocusPol(p)
             ELSE IF k = SecondChan(p) THEN SecondPol(p)
             ELSE IF k = Topo(p.topo).main[1] /\ p.sh = "eq"
               \* the first main channel is shared by the parts: exactly enough for ONE part of the full amount
               THEN [DefPol(p.fee) EXCEPT !.max = NeedMain(p.topo, p.fee, p.amt, 1)]
             ELSE IF IsMain(p, k) THEN DefPol(p.fee) ELSE AltPol(p)
      rev == IF k = FocusChan(p) /\ p.state = "norev" THEN [DefPol(p.fee) EXCEPT !.has = FALSE]
             ELSE DefPol(p.fee)
      cap == IF k # FocusChan(p) THEN -1
             ELSE CASE p.cap = "none" -> -1 [] p.cap = "eq" -> Ceil1000(fwd.max) [] p.cap = "big" -> 2000000
  IN [scid |-> k, a |-> ab[1], b |-> ab[2], cap |-> cap, ab |-> fwd, ba |-> rev]

FirstHops(p) ==
  LET T == Topo(p.topo)
      mine == SelectSeq([k \in 1..Len(T.chans) |-> k], LAMBDA k : T.chans[k][1] = 0 /\ ~(p.hint /\ k = HintChan(p)))
      need1 == NeedMain(p.topo, p.fee, p.amt, 1)
      lim(k) == IF k # T.main[1] THEN Big
                ELSE CASE p.fh = "big" -> Big [] p.fh = "eq" -> need1 [] p.fh = "below" -> Max2(1, need1 - 1)
                       [] p.fh = "min_above" -> Big
      mn(k) == IF k = T.main[1] /\ p.fh = "min_above" THEN need1 + 1 ELSE 0
  IN IF p.fh = "none" THEN [some |-> FALSE, list |-> <<>>]
     ELSE [some |-> TRUE,
           list |-> [i \in 1..Len(mine) |->
                       [scid |-> FhScid(p, mine[i]), peer |-> T.chans[mine[i]][2], min |-> mn(mine[i]), limit |-> lim(mine[i])]]]

Hints(p) ==
  IF ~p.hint THEN <<>>
  ELSE LET k == HintChan(p)
           pol == IF k = FocusChan(p) THEN FocusPol(p) ELSE DefPol(p.fee)
       IN <<<<[src |-> Topo(p.topo).chans[k][1], scid |-> 900, base |-> pol.base, prop |-> pol.prop,
              cltv |-> pol.cltv, min |-> pol.min, max |-> IF pol.max = Big THEN -1 ELSE pol.max]>>>>

Case(p) ==
  LET T == Topo(p.topo)
      ks == SelectSeq([k \in 1..Len(T.chans) |-> k], LAMBDA k : ~(p.hint /\ k = HintChan(p)) /\ k # PrivChan(p))
      alts == SelectSeq([k \in 1..Len(T.chans) |-> k], LAMBDA k : ~IsMain(p, k))
      fee1 == NeedMain(p.topo, p.fee, p.amt, 1) - p.amt
  IN [n |-> T.n, payer |-> 0, payee |-> T.payee,
      chans |-> [i \in 1..Len(ks) |-> Chan(p, ks[i])],
      fh |-> FirstHops(p), hints |-> Hints(p),
      amt |-> p.amt,
      max_fee |-> CASE p.lim = "fee_eq" -> fee1 [] p.lim = "fee_below" -> Max2(0, fee1 - 1) [] OTHER -> -1,
      max_cltv |-> CASE p.lim = "cltv_eq" -> MainCltv(p.topo) [] p.lim = "cltv_below" -> MainCltv(p.topo) - 1
                     [] p.lim = "cltv_slack" -> MainCltv(p.topo) + 80 [] OTHER -> 1008,
      max_paths |-> p.paths,
      max_len |-> CASE p.lim = "len_eq" -> Len(T.main) [] p.lim = "len_below" -> Max2(1, Len(T.main) - 1)
                    [] OTHER -> 19,
      final_cltv |-> 42, mpp |-> p.mpp, sat |-> p.sat,
      failed |-> IF p.lim = "failed_alt" THEN alts
                 ELSE IF p.lim = "failed_main" THEN <<FocusChan(p)>>
                 ELSE CASE p.fail = "none" -> <<>>
                        [] p.fail = "hint" -> <<900>>
                        [] p.fail = "fh"   -> <<FhScid(p, T.main[1])>>
                        [] p.fail = "both" -> <<900, FhScid(p, T.main[1])>>
                        [] p.fail = "mid"  -> <<T.main[2]>>
                        [] p.fail = "alt"  -> alts,
      scorer |-> [params |-> 0, seed |-> 0],
      tag |-> p]

-----------------------------------------------------------------------------
CONSTANTS Topos,     \* subset of 1..6
          Amts      \* subset of {1, 1000, 100000, 2000000}
Foci(t) == 1..Len(Topo(t).main)
Fees == {"zero", "normal", "baseonly", "extreme"}
Fams == {"A", "B", "C", "D", "E", "F", "G"}
Long(t) == t > 6

Base == [fam |-> "x", topo |-> 1, focus |-> 1, amt |-> 1000, fee |-> "normal", min |-> "low", max |-> "big",
         cap |-> "none", state |-> "ok", fh |-> "none", hint |-> FALSE, mpp |-> FALSE, paths |-> 1,
         lim |-> "loose", alt |-> "same", sat |-> 2, sh |-> "big",
         g |-> 0, k2 |-> "none", priv |-> FALSE, fail |-> "none"]

(* the cases of family fam on topology t with amount a *)
Fam(fam, t, a) ==
  LET B0 == [Base EXCEPT !.fam = fam, !.topo = t, !.amt = a] IN
  CASE fam = "A" ->   \* htlc_minimum / htlc_maximum of one hop around the amount it carries
       IF a = 1 \/ Long(t) THEN {} ELSE
       {[B0 EXCEPT !.focus = f, !.fee = fe, !.min = mn, !.max = mx,
                   !.mpp = m, !.paths = IF m THEN 3 ELSE 1, !.alt = al] :
          f \in Foci(t), fe \in Fees,
          mn \in {"low", "eq", "above", "x2", "x4"}, mx \in {"below", "eq", "above", "big"},
          m \in BOOLEAN, al \in {"same", "off"}}
    [] fam = "B" ->   \* capacity, disabled / missing updates, saturation
       IF a \notin {1, 100000} \/ Long(t) THEN {} ELSE
       {[B0 EXCEPT !.focus = f, !.fee = fe, !.state = st, !.cap = cp,
                   !.max = mx, !.mpp = m, !.paths = IF m THEN 3 ELSE 1, !.sat = s, !.alt = al] :
          f \in Foci(t), fe \in {"zero", "normal"},
          st \in {"ok", "disabled", "noupdate", "norev"}, cp \in {"none", "eq", "big"}, mx \in {"eq", "big"},
          m \in BOOLEAN, s \in {0, 2}, al \in {"same", "off"}}
    [] fam = "C" ->   \* first hops and route hints
       IF Long(t) THEN {} ELSE
       {[B0 EXCEPT !.focus = f, !.fee = fe, !.fh = h, !.hint = hi,
                   !.max = mx, !.mpp = m, !.paths = IF m THEN 3 ELSE 1, !.alt = al] :
          f \in {1, 2}, fe \in {"zero", "normal", "extreme"},
          h \in {"none", "big", "eq", "below", "min_above"}, hi \in BOOLEAN, mx \in {"eq", "big"},
          m \in BOOLEAN, al \in {"same", "off"}}
    [] fam = "D" ->   \* the request's limits right at / below the path's totals, excluded channels
       {[B0 EXCEPT !.fee = fe, !.lim = l, !.mpp = m, !.paths = IF m THEN 3 ELSE 1, !.alt = al] :
          fe \in Fees,
          l \in {"loose", "fee_eq", "fee_below", "cltv_eq", "cltv_below", "cltv_slack", "len_eq", "len_below",
                 "failed_alt", "failed_main"},
          m \in BOOLEAN, al \in IF Long(t) THEN {"same"} ELSE {"same", "free", "off"}}
    [] fam = "E" ->   \* amounts no single channel can carry -> multi-part over parallel / shared channels
       IF t \notin {3, 4, 5, 6} \/ a = 1 THEN {} ELSE
       {[B0 EXCEPT !.focus = f, !.fee = fe, !.max = mx, !.alt = al,
                   !.mpp = TRUE, !.paths = pc, !.sat = s, !.sh = sh] :
          f \in Foci(t), fe \in Fees, sh \in {"big", "eq"},
          mx \in {"half", "eq", "below", "big"}, al \in {"half", "same"}, pc \in {2, 3, 10}, s \in {0, 2}}
    [] fam = "F" ->   \* single paths of 4-6 hops: an htlc_minimum above the carried amount at EVERY hop position
                      \* (first, middle, last), proportional fees at every other position (fee classes) or at one
                      \* position only (k2 = "prop"), a second raise / an htlc_maximum at / above the un-raised
                      \* amount at another position; MPP-capable payee (the router may raise) and not
       IF ~Long(t) \/ a = 1 THEN {} ELSE
       {q \in {[B0 EXCEPT !.focus = f, !.fee = fe, !.min = mn, !.g = gk[1], !.k2 = gk[2],
                          !.mpp = m, !.paths = IF m THEN 3 ELSE 1] :
                 f \in Foci(t), fe \in Fees, mn \in {"eq", "above", "x2", "n2", "n3", "n3above"}, m \in BOOLEAN,
                 gk \in {<<0, "none">>} \cup (Foci(t) \X {"min2", "maxeq", "max2", "prop"})} :
          q.g # q.focus /\ (q.mpp \/ q.g = 0)}
    [] fam = "G" ->   \* retries: previously_failed_channels names a route-hint hop, the (un)announced first hop,
                      \* both, a middle channel of the main path, or every alternative channel
       IF a \notin {1000, 100000} THEN {} ELSE
       {q \in {[B0 EXCEPT !.fee = fe, !.fh = h, !.priv = pv, !.hint = hi, !.fail = fl,
                          !.mpp = m, !.paths = IF m THEN 3 ELSE 1, !.alt = al] :
                 fe \in {"zero", "normal"}, h \in {"none", "big"}, pv \in BOOLEAN, hi \in BOOLEAN,
                 fl \in {"hint", "fh", "both", "mid", "alt"}, m \in BOOLEAN,
                 al \in IF Long(t) THEN {"same"} ELSE {"same", "off"}} :
          /\ q.priv => q.fh = "big"
          /\ q.fail \in {"hint", "both"} => q.hint
          /\ q.fail \in {"fh", "both"} => q.fh = "big"
          /\ q.fail = "mid" => Len(Topo(t).main) >= 3
          /\ q.fail = "alt" => ~Long(t)}

(* level 0: one marker state per (family, topology, amount), so that TLC's workers generate the
   partitions in parallel; level 1: the cases *)
VARIABLE lvl
Init == lvl = 0 /\ c \in {[Base EXCEPT !.fam = fam, !.topo = t, !.amt = a] : fam \in Fams, t \in Topos, a \in Amts}
Expand == lvl = 0 /\ lvl' = 1 /\ c' \in Fam(c.fam, c.topo, c.amt)
Next == Expand
Spec == Init /\ [][Next]_<<c, lvl>>

Emit == lvl = 1 => PrintT(<<"SCRIPT", ToJson(Case(c))>>)
=============================================================================
