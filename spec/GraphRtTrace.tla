----------------------------- MODULE GraphRtTrace -----------------------------
(* Trace validation for C12, network graph part: every recorded write/read round trip of a real
   NetworkGraph (engine `gossip --mode rtsweep`) must be a step of "persisted objects survive
   serialization unchanged": the write succeeds, reading the written bytes succeeds and uses all of
   them, the re-read graph equals the original under the library's own ==, and the re-read graph's
   own encoding has the same size and reads back to the same graph again.
   The graphs are built from really signed gossip messages whose variable-length tail (`what` says
   which message carries it, `len` how long it is) sweeps every length across the codec's
   length-prefix boundaries; neither field is judged: the guard holds for every graph.
   Byte identity of successive encodings is not prescribed (the file is written in map order).
   Any other record (e.g. `panic`) matches no action and is rejected. *)
EXTENDS Naturals, Sequences, TLC, Json, IOUtils

VARIABLE l

Rec == ndJsonDeserialize(IOEnv.TRACE)

TraceInit == l = 1

IsEvent(e) == l <= Len(Rec) /\ Rec[l].ev = e /\ l' = l + 1

TRtGraph ==
  /\ IsEvent("rt_graph")
  /\ LET r == Rec[l] IN
     /\ r.write_ok
     /\ r.read_ok /\ r.consumed
     /\ r.equal
     /\ r.rewrite_equal

TraceNext == TRtGraph

TraceSpec == TraceInit /\ [][TraceNext]_l

TraceAccepted ==
  LET d == TLCGet("stats").diameter IN
  IF d - 1 = Len(Rec) THEN TRUE
  ELSE /\ PrintT(<<"REJECT", d, Len(Rec)>>)
       /\ FALSE
=============================================================================
