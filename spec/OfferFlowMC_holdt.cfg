SPECIFICATION MCSpec
CONSTANTS
  ReqTicks = 1
  NP = 1
  Manual = FALSE
  Hold = TRUE
  Offs = {1, 3}
  MaxPay = 2
  MaxKeep = 1
  MaxTick = 3
  MaxRestart = 1
  MaxSave = 1
  MaxAband = 1
  MaxErr = 1
  MaxMsgRecv = 1
  MaxSend = 0
  MaxOps = 8
  MinOps = 7
  CodeTicks = 1
  Idem = 1
  Stale = FALSE
  Bug = "none"
CONSTRAINT Bound
VIEW View
INVARIANT TermSane
INVARIANT OneHashPerId
INVARIANT OnePaymentPerId
INVARIANT DesignSane
INVARIANT EmitScripts
CHECK_DEADLOCK TRUE
