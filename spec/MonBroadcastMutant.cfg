SPECIFICATION Spec
CONSTANTS
  Lock = FALSE
  Kinds = {"add", "reply", "remove", "fee"}
INVARIANT NeverRevokeBroadcast
CHECK_DEADLOCK TRUE
