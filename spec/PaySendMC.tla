----------------------------- MODULE PaySendMC -----------------------------
(***************************************************************************)
(* Design model of the payer (lightning/src/ln/outbound_payment.rs) at the *)
(* granularity of the code, composed with the observable specification     *)
(* PaySend: every step of the algorithm appends the observations it causes  *)
(* (API results, messages, events handed to the user) to `obs`; `MObs`      *)
(* feeds them one by one to the guards of PaySend.  An observation whose    *)
(* guard does not hold leaves the model without successor, i.e. TLC reports *)
(* a deadlock (CHECK_DEADLOCK TRUE) with the offending behaviour.           *)
(*                                                                         *)
(* Network: payer A = node 0, K forwarding nodes B_k = node k, recipient D; *)
(* part k of a payment travels A -chan k-> B_k -chan K+k-> D.  A part is     *)
(*   out -> held (at D) -> retFul | retFail -> dlvFul | dlvFail -> done     *)
(* where dlv* = handed to A but not yet irrevocably committed (a            *)
(* reconnection or a restart makes the peer hand it over again).           *)
(*                                                                         *)
(* Stale = TRUE adds the restart from a manager snapshot the monitors have  *)
(* overtaken (ChannelManager::read: the channels whose monitors are ahead   *)
(* are closed, the HTLCs found in their monitors are re-added to the        *)
(* payment -- insert_from_monitor_on_startup --, the HTLCs the snapshot     *)
(* holds but the monitors no longer do are failed) and what follows on      *)
(* chain: the commitment confirms, B_k claims the HTLC output with the      *)
(* preimage or the HTLC times out.  MaxRetry > 0 makes a single-part send   *)
(* a payment with automatic retries (Retry::Attempts): a failed attempt is  *)
(* followed by a new HTLC over the next unused branch.                      *)
(***************************************************************************)
EXTENDS PaySend, Json

CONSTANTS NP,          \* payment ids 1..NP (id p pays hash p)
          K,           \* branches = maximal number of parts
          MaxSend,     \* send calls per id
          MaxDup,      \* duplicate deliveries
          MaxRestart,
          Idem,        \* IDEMPOTENCY_TIMEOUT_TICKS of the model
          MaxOps,      \* bound on the script length
          MaxRetry,    \* automatic retries of a single-part payment
          Stale        \* restarts from a snapshot the monitors have overtaken

VARIABLES dst, dparts, dn, evq, ticks, saved, dirty, net, nextId, decided, paid,
          nDup, nRestart, nSend, obs, hist, quiet, nops,
          rleft,     \* [p -> automatic retries left]  (the retry strategy is not persisted: 0 after a restart)
          dch,       \* channels A-B_k whose monitor was updated since the last manager snapshot
          closed,    \* channels A-B_k closed by a stale restart
          confirmed, \* ... whose commitment transaction has confirmed
          sentSince, \* the user handled a PaymentSent since the last snapshot
          feat   \* features the behaviour has shown so far (part of the state, so that a behaviour with a
                 \* repeated event / duplicate delivery / refused send is printed even if it ends in a
                 \* state that a plainer behaviour reaches too)

dvars == <<dst, dparts, dn, evq, ticks, saved, dirty, net, nextId, decided, paid, nDup, nRestart, nSend, rleft, dch, closed, confirmed, sentSince>>
xvars == <<rleft, dch, closed, confirmed, sentSince>>
mvars == <<svars, dvars, obs, hist, quiet, nops, feat>>

P == 1..NP
Amt == 1000
Fee == 10
Init0 == 1000000
D == K + 1

MCInit ==
  /\ SInit
  /\ dst = [p \in P |-> "none"] /\ dparts = [p \in P |-> {}] /\ dn = [p \in P |-> 0]
  /\ evq = <<>> /\ ticks = [p \in P |-> 0] /\ saved = <<>> /\ dirty = TRUE
  /\ net = [x \in P \X (1..K) |-> [loc |-> "no", id |-> 0, id2 |-> 0, origin |-> 0]]
  /\ nextId = [c \in 1..(2 * K) |-> 0]
  /\ decided = [p \in P |-> "none"] /\ paid = 0
  /\ nDup = 0 /\ nRestart = 0 /\ nSend = [p \in P |-> 0]
  /\ rleft = [p \in P |-> 0] /\ dch = {} /\ closed = {} /\ confirmed = {} /\ sentSince = FALSE
  /\ obs = <<[t |-> "open"]>> /\ hist = <<>> /\ quiet = FALSE /\ nops = 0 /\ feat = {}

H(op) == hist' = Append(hist, op) /\ nops' = nops + 1
F(S) == feat' = feat \cup S
Idle == obs = <<>>
Path(k) == <<k, K + k>>

\* ---------------------------------------------------------------- observations -> PaySend
MObs ==
  /\ obs # <<>>
  /\ LET o == Head(obs) IN
     CASE o.t = "open" -> SOpen(0..D, [n \in 0..D |-> Init0])
       [] o.t = "send" -> SSend(0, o.p, o.p, o.n * Amt, o.n, o.fixed, o.res)
       [] o.t = "add" -> SAdd(o.node, o.chan, o.id, o.hash, Amt)
       [] o.t = "failmsg" -> SFailMsg(o.chan, o.adder, o.id)
       [] o.t = "resolve" -> SResolve(o.chan, 0, o.id, o.how)
       [] o.t = "claimcall" -> SClaimCall(o.hash)
       [] o.t = "evsent" -> SEvSent(0, o.p, o.p, TRUE, o.fee)
       [] o.t = "evfailed" -> SEvFailed(0, o.p)
       [] o.t = "evpathfailed" -> SEvPathFailed(0, o.p, o.p, o.blamed, FALSE, o.path)
       [] o.t = "evother" -> UNCHANGED svars
       [] o.t = "save" -> SSave(0)
       [] o.t = "restart" -> SRestart(0, o.stale)
       [] o.t = "chaincommit" -> SChainCommit(o.chan, o.outs)
       [] o.t = "chainhtlc" -> SChainHtlc(o.chan, o.hash, o.preimage)
       [] o.t = "quietchain" -> SQuietChainOK /\ UNCHANGED svars
       [] o.t = "recent" -> SRecentAfterRestart(0, o.listed)
       [] o.t = "quiet" -> SQuietOK([n \in 0..D |-> IF n = 0 THEN Init0 - paid ELSE Init0], IF o.idle THEN {0} ELSE {}) /\ UNCHANGED svars
  /\ obs' = Tail(obs)
  /\ LET o == Head(obs) IN
     F(IF o.t = "evsent" /\ o.p \in Pids /\ pay[o.p].term = "sent" THEN {"sent-repeated"}
       ELSE IF o.t = "evfailed" /\ o.p \in Pids /\ pay[o.p].term = "failed" /\ pay[o.p].owed = 0 THEN {"failed-repeated"}
       ELSE {})
  /\ UNCHANGED <<dvars, hist, quiet, nops>>

Emit(seq) == obs' = seq /\ UNCHANGED svars

\* ---------------------------------------------------------------- the user
Retries(n) == IF n = 1 THEN MaxRetry ELSE 0
MSend(p, n) ==
  /\ Idle /\ nSend[p] < MaxSend /\ n \in 1..K /\ closed = {}
  /\ nSend' = [nSend EXCEPT ![p] = @ + 1]
  /\ IF dst[p] \in {"none", "gone"}
     THEN /\ dst' = [dst EXCEPT ![p] = "retry"]
          /\ dparts' = [dparts EXCEPT ![p] = 1..n]
          /\ dn' = [dn EXCEPT ![p] = n]
          /\ ticks' = [ticks EXCEPT ![p] = 0]
          /\ decided' = [decided EXCEPT ![p] = "none"]
          /\ net' = [x \in DOMAIN net |-> IF x[1] = p /\ x[2] <= n
                                          THEN [loc |-> "out", id |-> nextId[x[2]], id2 |-> 0, origin |-> 0]
                                          ELSE IF x[1] = p THEN [net[x] EXCEPT !.loc = "no"] ELSE net[x]]
          /\ nextId' = [c \in DOMAIN nextId |-> IF c <= n THEN nextId[c] + 1 ELSE nextId[c]]
          /\ dirty' = TRUE /\ dch' = dch \cup (1..n)
          /\ rleft' = [rleft EXCEPT ![p] = Retries(n)]
          /\ Emit(<<[t |-> "send", p |-> p, n |-> n, fixed |-> Retries(n) = 0, res |-> "ok"]>>
                  \o [k \in 1..n |-> [t |-> "add", node |-> 0, chan |-> k, id |-> nextId[k], hash |-> p]])
          /\ UNCHANGED <<evq, saved, paid, nDup, nRestart, closed, confirmed, sentSince>>
     ELSE /\ Emit(<<[t |-> "send", p |-> p, n |-> n, fixed |-> Retries(n) = 0, res |-> "dup"]>>)
          /\ UNCHANGED <<dst, dparts, dn, evq, ticks, saved, dirty, net, nextId, decided, paid, nDup, nRestart, xvars>>
  /\ H([op |-> "send", p |-> p, n |-> n, retries |-> Retries(n)]) /\ quiet' = FALSE /\ F(IF dst[p] \in {"none", "gone"} THEN {} ELSE {"send-refused"})

\* the terminal events: abandon_payment / fail_htlc push PaymentFailed once no part remains
MAbandon(p) ==
  /\ Idle /\ dst[p] = "retry"
  /\ IF dparts[p] = {}
     THEN dst' = [dst EXCEPT ![p] = "gone"] /\ evq' = Append(evq, [k |-> "failed", p |-> p])
     ELSE dst' = [dst EXCEPT ![p] = "aband"] /\ UNCHANGED evq
  /\ UNCHANGED <<svars, obs, dparts, dn, ticks, saved, dirty, net, nextId, decided, paid, nDup, nRestart, nSend, xvars>>
  /\ H([op |-> "abandon", p |-> p]) /\ quiet' = FALSE /\ F(IF dparts[p] # {} THEN {"abandon-in-flight"} ELSE {})

MHandle ==
  /\ Idle /\ evq # <<>>
  /\ LET e == Head(evq) IN
     Emit(<<CASE e.k = "sent" -> [t |-> "evsent", p |-> e.p, fee |-> e.fee]
              [] e.k = "failed" -> [t |-> "evfailed", p |-> e.p]
              [] e.k = "pathfailed" -> [t |-> "evpathfailed", p |-> e.p, blamed |-> e.blamed, path |-> e.path]
              [] OTHER -> [t |-> "evother"]>>)
  /\ evq' = Tail(evq)
  /\ sentSince' = (sentSince \/ Head(evq).k = "sent")
  /\ UNCHANGED <<dst, dparts, dn, ticks, saved, dirty, net, nextId, decided, paid, nDup, nRestart, nSend, rleft, dch, closed, confirmed>>
  /\ H([op |-> "handle"]) /\ quiet' = FALSE /\ F({})

\* remove_stale_payments
InQueue(p) == \E i \in 1..Len(evq) : evq[i].p = p /\ evq[i].k \in {"sent", "pathok", "pathfailed"}
MTick ==
  /\ Idle /\ \E p \in P : dst[p] = "ful" /\ dparts[p] = {}
  /\ LET old(p) == dst[p] = "ful" /\ dparts[p] = {} /\ ~InQueue(p) IN
     /\ ticks' = [p \in P |-> IF old(p) THEN ticks[p] + 1 ELSE IF dst[p] = "ful" THEN 0 ELSE ticks[p]]
     /\ dst' = [p \in P |-> IF old(p) /\ ticks[p] + 1 > Idem THEN "gone" ELSE dst[p]]
  /\ UNCHANGED <<svars, obs, dparts, dn, evq, saved, dirty, net, nextId, decided, paid, nDup, nRestart, nSend, xvars>>
  /\ H([op |-> "tick"]) /\ quiet' = FALSE /\ F({})

MSave ==
  /\ Idle /\ nRestart < MaxRestart /\ closed = {}
  /\ saved' = [dst |-> dst, dparts |-> dparts, dn |-> dn, evq |-> evq, ticks |-> ticks]
  /\ dirty' = FALSE /\ dch' = {} /\ sentSince' = FALSE
  /\ Emit(<<[t |-> "save"]>>)
  /\ UNCHANGED <<dst, dparts, dn, evq, ticks, net, nextId, decided, paid, nDup, nRestart, nSend, rleft, closed, confirmed>>
  /\ H([op |-> "save"]) /\ quiet' = FALSE /\ F({})

\* restart from a snapshot the monitors have not moved past
MRestart ==
  /\ Idle /\ DOMAIN saved # {} /\ ~dirty /\ nRestart < MaxRestart /\ closed = {}
  /\ dst' = saved.dst /\ dparts' = saved.dparts /\ dn' = saved.dn /\ evq' = saved.evq /\ ticks' = saved.ticks
  /\ net' = [x \in DOMAIN net |-> IF net[x].loc = "dlvFul" THEN [net[x] EXCEPT !.loc = "retFul"]
                                  ELSE IF net[x].loc = "dlvFail" THEN [net[x] EXCEPT !.loc = "retFail"] ELSE net[x]]
  /\ nRestart' = nRestart + 1
  /\ Emit(<<[t |-> "restart", stale |-> FALSE], [t |-> "recent", listed |-> {p \in P : saved.dst[p] \notin {"none", "gone"}}]>>)
  /\ rleft' = [p \in P |-> 0]
  /\ UNCHANGED <<saved, dirty, nextId, decided, paid, nDup, nSend, dch, closed, confirmed, sentSince>>
  /\ H([op |-> "restart"]) /\ quiet' = FALSE /\ F(IF saved.evq # <<>> THEN {"restart-with-queued-events"} ELSE {})

\* ---------------------------------------------------------------- the network and the recipient
MArrive(p, k) ==
  /\ Idle /\ net[<<p, k>>].loc = "out" /\ k \notin closed
  /\ net' = [net EXCEPT ![<<p, k>>].loc = "held", ![<<p, k>>].id2 = nextId[K + k]]
  /\ nextId' = [nextId EXCEPT ![K + k] = @ + 1]
  /\ Emit(<<[t |-> "add", node |-> k, chan |-> K + k, id |-> nextId[K + k], hash |-> p]>>)
  /\ dirty' = TRUE /\ dch' = dch \cup {k}     \* the commitment exchange that carries the HTLC to B_k updates A's monitor
  /\ UNCHANGED <<dst, dparts, dn, evq, ticks, saved, decided, paid, nDup, nRestart, nSend, rleft, closed, confirmed, sentSince>>
  /\ H([op |-> "arrive", p |-> p, k |-> k]) /\ quiet' = FALSE /\ F({})

\* B_k cannot forward (its channel to D is unusable): it fails the part back
MFailHop(p, k) ==
  /\ Idle /\ net[<<p, k>>].loc = "out" /\ k \notin closed
  /\ net' = [net EXCEPT ![<<p, k>>].loc = "retFail", ![<<p, k>>].origin = 1]
  /\ Emit(<<[t |-> "failmsg", chan |-> k, adder |-> 0, id |-> net[<<p, k>>].id]>>)
  /\ dirty' = TRUE /\ dch' = dch \cup {k}
  /\ UNCHANGED <<dst, dparts, dn, evq, ticks, saved, nextId, decided, paid, nDup, nRestart, nSend, rleft, closed, confirmed, sentSince>>
  /\ H([op |-> "failhop", p |-> p, k |-> k]) /\ quiet' = FALSE /\ F({})

\* D claims: only a complete set of parts (all-or-nothing recipient)
MClaim(p) ==
  /\ Idle /\ decided[p] = "none" /\ dn[p] > 0
  /\ Cardinality({k \in 1..K : net[<<p, k>>].loc = "held"}) = dn[p]
  /\ decided' = [decided EXCEPT ![p] = "claim"]
  /\ net' = [x \in DOMAIN net |-> IF x[1] = p /\ net[x].loc = "held" THEN [net[x] EXCEPT !.loc = "retFul"] ELSE net[x]]
  /\ Emit(<<[t |-> "claimcall", hash |-> p]>>)
  /\ UNCHANGED <<dst, dparts, dn, evq, ticks, saved, dirty, nextId, paid, nDup, nRestart, nSend, xvars>>
  /\ H([op |-> "claim", p |-> p]) /\ quiet' = FALSE /\ F({})

\* D fails back whatever it holds of the payment (fail_htlc_backwards / MPP timeout)
MFailR(p) ==
  /\ Idle /\ decided[p] # "claim"
  /\ \E k \in 1..K : net[<<p, k>>].loc = "held"
  /\ LET ks == {k \in 1..K : net[<<p, k>>].loc = "held"}
         sq == SelectSeq([i \in 1..K |-> i], LAMBDA i : i \in ks)
     IN /\ net' = [x \in DOMAIN net |-> IF x[1] = p /\ x[2] \in ks THEN [net[x] EXCEPT !.loc = "retFail", !.origin = 2] ELSE net[x]]
        /\ Emit([i \in 1..(2 * Len(sq)) |->
                   LET k == sq[(i + 1) \div 2] IN
                   IF i % 2 = 1 THEN [t |-> "failmsg", chan |-> K + k, adder |-> k, id |-> net[<<p, k>>].id2]
                                ELSE [t |-> "failmsg", chan |-> k, adder |-> 0, id |-> net[<<p, k>>].id]])
  /\ UNCHANGED <<dst, dparts, dn, evq, ticks, saved, dirty, nextId, decided, paid, nDup, nRestart, nSend, xvars>>
  /\ H([op |-> "failr", p |-> p]) /\ quiet' = FALSE /\ F({})

\* claim_htlc: the first fulfil of a payment that is not yet fulfilled queues PaymentSent
ClaimHtlc(p) ==
  IF dst[p] \in {"retry", "aband"}
  THEN /\ dst' = [dst EXCEPT ![p] = "ful"]
       /\ evq' = Append(evq, [k |-> "sent", p |-> p, fee |-> Fee * Cardinality(dparts[p])])
  ELSE UNCHANGED <<dst, evq>>

\* the resolution of part k is handed to A (update_fulfill_htlc acts at once, update_fail_htlc
\* only when irrevocably committed)
MDeliver(p, k) ==
  /\ Idle /\ net[<<p, k>>].loc \in {"retFul", "retFail"} /\ k \notin closed
  /\ IF net[<<p, k>>].loc = "retFul"
     THEN /\ net' = [net EXCEPT ![<<p, k>>].loc = "dlvFul"]
          /\ ClaimHtlc(p)
          /\ Emit(<<[t |-> "resolve", chan |-> k, id |-> net[<<p, k>>].id, how |-> "ful"]>>)
     ELSE /\ net' = [net EXCEPT ![<<p, k>>].loc = "dlvFail"]
          /\ UNCHANGED <<dst, evq>>
          /\ Emit(<<[t |-> "resolve", chan |-> k, id |-> net[<<p, k>>].id, how |-> "fail"]>>)
  /\ UNCHANGED <<dparts, dn, ticks, saved, dirty, nextId, decided, paid, nDup, nRestart, nSend, xvars>>
  /\ H([op |-> "deliver", p |-> p, k |-> k]) /\ quiet' = FALSE /\ F({})

\* the link A - B_k drops before the resolution is committed: B_k hands it over again
MDup(p, k) ==
  /\ Idle /\ nDup < MaxDup /\ net[<<p, k>>].loc \in {"dlvFul", "dlvFail"} /\ k \notin closed
  /\ nDup' = nDup + 1
  /\ IF net[<<p, k>>].loc = "dlvFul"
     THEN ClaimHtlc(p) /\ Emit(<<[t |-> "resolve", chan |-> k, id |-> net[<<p, k>>].id, how |-> "ful"]>>)
     ELSE UNCHANGED <<dst, evq>> /\ Emit(<<[t |-> "resolve", chan |-> k, id |-> net[<<p, k>>].id, how |-> "fail"]>>)
  /\ UNCHANGED <<dparts, dn, ticks, saved, dirty, net, nextId, decided, paid, nRestart, nSend, xvars>>
  /\ H([op |-> "dup", p |-> p, k |-> k]) /\ quiet' = FALSE /\ F(IF net[<<p, k>>].loc = "dlvFul" THEN {"dup-fulfil"} ELSE {"dup-fail"})

\* the removal becomes irrevocable: finalize_claims / fail_htlc
Blamed(k, origin) == IF origin = 1 THEN K + k ELSE 0
SentQueued(p) == \E i \in 1..Len(evq) : evq[i].p = p /\ evq[i].k = "sent"
\* the next unused branch (a retry avoids the channel that failed)
FreeBranch(p) == {j \in 1..K : net[<<p, j>>].loc = "no" /\ j \notin closed}
MinOf(S) == CHOOSE x \in S : \A y \in S : x <= y
MCommit(p, k) ==
  /\ Idle /\ net[<<p, k>>].loc \in {"dlvFul", "dlvFail"} /\ k \notin closed
  \* the monitor update that makes a fulfil irrevocable is held back until the user has handled PaymentSent
  /\ net[<<p, k>>].loc = "dlvFul" => ~SentQueued(p)
  /\ dirty' = TRUE
  /\ IF net[<<p, k>>].loc = "dlvFul"
     THEN /\ paid' = paid + Amt + Fee
          /\ net' = [net EXCEPT ![<<p, k>>].loc = "done"]
          /\ IF k \in dparts[p] /\ dst[p] = "ful"
             THEN dparts' = [dparts EXCEPT ![p] = @ \ {k}] /\ evq' = Append(evq, [k |-> "pathok", p |-> p])
             ELSE UNCHANGED <<dparts, evq>>
          /\ dch' = dch \cup {k}
          /\ Emit(<<>>)
          /\ UNCHANGED <<dst, rleft, nextId>>
     ELSE /\ UNCHANGED paid
          /\ IF k \notin dparts[p] \/ dst[p] \in {"none", "gone"}
             THEN /\ UNCHANGED <<dparts, evq, dst, rleft, nextId>> /\ Emit(<<>>) /\ dch' = dch \cup {k}
                  /\ net' = [net EXCEPT ![<<p, k>>].loc = "done"]
             ELSE IF dst[p] = "ful"
             THEN /\ dparts' = [dparts EXCEPT ![p] = @ \ {k}] /\ UNCHANGED <<evq, dst, rleft, nextId>> /\ Emit(<<>>) /\ dch' = dch \cup {k}
                  /\ net' = [net EXCEPT ![<<p, k>>].loc = "done"]
             ELSE LET left == dparts[p] \ {k}
                      pf == [k |-> "pathfailed", p |-> p, blamed |-> Blamed(k, net[<<p, k>>].origin), path |-> Path(k)]
                  IN IF dst[p] = "retry" /\ rleft[p] > 0
                     THEN \* automatic retry (check_retry_payments in process_pending_htlc_forwards): a new HTLC
                          \* over the next unused branch, or PaymentFailed if there is no route left
                          /\ rleft' = [rleft EXCEPT ![p] = @ - 1]
                          /\ IF FreeBranch(p) = {}
                             THEN /\ dparts' = [dparts EXCEPT ![p] = left]
                                  /\ IF left = {} THEN dst' = [dst EXCEPT ![p] = "gone"] /\ evq' = evq \o <<pf, [k |-> "failed", p |-> p]>>
                                                  ELSE dst' = [dst EXCEPT ![p] = "aband"] /\ evq' = Append(evq, pf)
                                  /\ net' = [net EXCEPT ![<<p, k>>].loc = "done"]
                                  /\ Emit(<<>>) /\ dch' = dch \cup {k} /\ UNCHANGED nextId
                             ELSE LET j == MinOf(FreeBranch(p)) IN
                                  /\ dparts' = [dparts EXCEPT ![p] = left \cup {j}]
                                  /\ evq' = Append(evq, pf) /\ UNCHANGED dst
                                  /\ net' = [net EXCEPT ![<<p, k>>].loc = "done",
                                                         ![<<p, j>>] = [loc |-> "out", id |-> nextId[j], id2 |-> 0, origin |-> 0]]
                                  /\ nextId' = [nextId EXCEPT ![j] = @ + 1]
                                  /\ dch' = dch \cup {k, j}
                                  /\ Emit(<<[t |-> "add", node |-> 0, chan |-> j, id |-> nextId[j], hash |-> p]>>)
                     ELSE /\ dparts' = [dparts EXCEPT ![p] = left]
                          /\ IF left = {}
                             THEN dst' = [dst EXCEPT ![p] = "gone"] /\ evq' = evq \o <<pf, [k |-> "failed", p |-> p]>>
                             ELSE dst' = [dst EXCEPT ![p] = "aband"] /\ evq' = Append(evq, pf)
                          /\ net' = [net EXCEPT ![<<p, k>>].loc = "done"]
                          /\ Emit(<<>>) /\ dch' = dch \cup {k} /\ UNCHANGED <<rleft, nextId>>
  /\ UNCHANGED <<dn, ticks, saved, decided, nDup, nRestart, nSend, closed, confirmed, sentSince>>
  /\ H([op |-> "commit", p |-> p, k |-> k]) /\ quiet' = FALSE
  /\ F(IF net[<<p, k>>].loc = "dlvFail" /\ k \in dparts[p] /\ dst[p] = "retry" /\ rleft[p] > 0 THEN {"retry"} ELSE {})

\* ---------------------------------------------------------------- stale restart and the chain
InMon == {"out", "held", "retFul", "retFail", "dlvFul", "dlvFail"}
\* fail_htlc on a manager that cannot retry any more: the sequence of events and the resulting payment state
RECURSIVE FailParts(_, _, _, _)
FailParts(p, ks, st, parts) ==      \* -> [dst, parts, evs]
  IF ks = {} THEN [dst |-> st, parts |-> parts, evs |-> <<>>]
  ELSE LET k == MinOf(ks)
           left == parts \ {k}
           pf == [k |-> "pathfailed", p |-> p, blamed |-> 0, path |-> Path(k)]
       IN IF st \in {"none", "gone"} \/ k \notin parts THEN FailParts(p, ks \ {k}, st, parts)
          ELSE IF st = "ful" THEN FailParts(p, ks \ {k}, st, left)
          ELSE IF left = {}
               THEN [dst |-> "gone", parts |-> {}, evs |-> <<pf, [k |-> "failed", p |-> p]>>]
               ELSE LET r == FailParts(p, ks \ {k}, "aband", left) IN [r EXCEPT !.evs = <<pf>> \o @]

\* ChannelManager::read with monitors that are ahead of the manager
Reload(p, cl) ==
  LET sd == saved.dst[p]
      sp == saved.dparts[p]
      mon == {k \in cl : net[<<p, k>>].loc \in InMon}
      \* insert_from_monitor_on_startup
      st1 == IF sd \in {"none", "gone"} THEN (IF mon = {} THEN sd ELSE "retry") ELSE sd
      p1 == IF sd \in {"none", "gone"} THEN mon ELSE IF sd = "retry" THEN sp \cup mon ELSE sp
      \* HTLCs the snapshot holds on a closed channel which the monitor no longer has
      missing == {k \in sp \cap cl : k \notin mon}
  IN FailParts(p, missing, st1, p1)

MRestartStale ==
  /\ Stale /\ Idle /\ DOMAIN saved # {} /\ dch # {} /\ nRestart < MaxRestart /\ closed = {}
  \* user behaviours of the recorded findings are left out: payment id used twice, PaymentSent handled since the snapshot
  /\ \A p \in Pids : pay[p].gen = 1
  /\ ~sentSince
  /\ LET cl == dch
         r == [p \in P |-> Reload(p, cl)]
         RECURSIVE Evs(_)
         Evs(ps) == IF ps = {} THEN <<>> ELSE LET q == MinOf(ps) IN r[q].evs \o Evs(ps \ {q})
     IN /\ closed' = cl
        /\ dst' = [p \in P |-> r[p].dst]
        /\ dparts' = [p \in P |-> r[p].parts]
        /\ evq' = saved.evq \o Evs(P)
        /\ Emit(<<[t |-> "restart", stale |-> TRUE], [t |-> "recent", listed |-> {p \in P : r[p].dst \notin {"none", "gone"}}]>>)
  /\ dn' = saved.dn /\ ticks' = saved.ticks
  \* a resolution that was handed over on a closed channel but not committed is settled on chain
  /\ net' = [x \in DOMAIN net |-> IF net[x].loc = "dlvFul" THEN [net[x] EXCEPT !.loc = "retFul"]
                                  ELSE IF net[x].loc = "dlvFail" THEN [net[x] EXCEPT !.loc = "retFail"] ELSE net[x]]
  /\ nRestart' = nRestart + 1 /\ rleft' = [p \in P |-> 0]
  /\ UNCHANGED <<saved, dirty, nextId, decided, paid, nDup, nSend, dch, confirmed, sentSince>>
  /\ H([op |-> "restart_stale"]) /\ quiet' = FALSE
  /\ F({"stale-restart"} \cup (IF \E p \in P : saved.dst[p] = "retry" /\ \E k \in dch : k \notin saved.dparts[p] /\ net[<<p, k>>].loc \in InMon
                                THEN {"stale-readd"} ELSE {})
                         \cup (IF \E p \in P : saved.dst[p] \in {"none", "gone"} /\ \E k \in dch : net[<<p, k>>].loc \in InMon
                                THEN {"stale-recreate"} ELSE {}))

\* the commitment transaction of a closed channel confirms (the miner takes everything at once)
MConfirm(k) ==
  /\ Idle /\ k \in closed /\ k \notin confirmed
  /\ confirmed' = confirmed \cup {k}
  /\ Emit(<<[t |-> "chaincommit", chan |-> k, outs |-> IF \E p \in P : net[<<p, k>>].loc \in InMon THEN {Amt \div 1000} ELSE {}]>>)
  /\ UNCHANGED <<dst, dparts, dn, evq, ticks, saved, dirty, net, nextId, decided, paid, nDup, nRestart, nSend, rleft, dch, closed, sentSince>>
  /\ UNCHANGED <<hist, nops>> /\ quiet' = FALSE /\ F({})

\* B_k knows the preimage and claims the HTLC output: the payer learns the preimage from the chain
MChainClaim(p, k) ==
  /\ Idle /\ k \in confirmed /\ net[<<p, k>>].loc = "retFul"
  /\ net' = [net EXCEPT ![<<p, k>>].loc = "done"]
  /\ LET first == dst[p] \in {"retry", "aband"}
         sent == IF first THEN <<[k |-> "sent", p |-> p, fee |-> Fee * Cardinality(dparts[p])]>> ELSE <<>>
         st == IF first THEN "ful" ELSE dst[p]
     IN /\ dst' = [dst EXCEPT ![p] = st]
        /\ IF k \in dparts[p] /\ st = "ful"
           THEN dparts' = [dparts EXCEPT ![p] = @ \ {k}] /\ evq' = evq \o sent \o <<[k |-> "pathok", p |-> p]>>
           ELSE UNCHANGED dparts /\ evq' = evq \o sent
  /\ Emit(<<[t |-> "chainhtlc", chan |-> k, hash |-> p, preimage |-> TRUE]>>)
  /\ UNCHANGED <<dn, ticks, saved, dirty, nextId, decided, paid, nDup, nRestart, nSend, xvars>>
  /\ UNCHANGED <<hist, nops>> /\ quiet' = FALSE /\ F({"chain-claim"})

\* nobody can claim the HTLC output: it times out (the recipient has not claimed and no longer will)
MChainTimeout(p, k) ==
  /\ Idle /\ k \in confirmed /\ net[<<p, k>>].loc \in {"out", "held", "retFail"}
  /\ net[<<p, k>>].loc = "held" => decided[p] # "claim"
  /\ net' = [net EXCEPT ![<<p, k>>].loc = "done"]
  /\ decided' = [decided EXCEPT ![p] = IF @ = "none" THEN "timeout" ELSE @]
  /\ LET r == FailParts(p, {k}, dst[p], dparts[p]) IN
     dst' = [dst EXCEPT ![p] = r.dst] /\ dparts' = [dparts EXCEPT ![p] = r.parts] /\ evq' = evq \o r.evs
  /\ Emit(<<[t |-> "chainhtlc", chan |-> k, hash |-> p, preimage |-> FALSE]>>)
  /\ UNCHANGED <<dn, ticks, saved, dirty, nextId, paid, nDup, nRestart, nSend, xvars>>
  /\ UNCHANGED <<hist, nops>> /\ quiet' = FALSE /\ F({"chain-timeout"})

\* every link up and empty, every event handled
\* (once a channel was closed the chain settles: nothing stays behind on a closed channel, and what the
\* recipient still holds is failed back when it expires)
Moving == \/ \E x \in DOMAIN net : net[x].loc \in {"out", "retFul", "retFail", "dlvFul", "dlvFail"}
          \/ closed # {} /\ \E x \in DOMAIN net : net[x].loc = "held"
          \/ closed # confirmed
MQuiet ==
  /\ Idle /\ evq = <<>> /\ ~Moving /\ ~quiet /\ hist # <<>>
  /\ IF closed = {} THEN Emit(<<[t |-> "quiet", idle |-> \A x \in DOMAIN net : net[x].loc \in {"no", "done"}]>>)
                    ELSE Emit(<<[t |-> "quietchain"]>>)
  /\ quiet' = TRUE
  /\ UNCHANGED <<dvars, hist, nops, feat>>

MDone == quiet /\ Idle /\ UNCHANGED mvars

MCNext ==
  \/ MObs
  \/ \E p \in P, n \in 1..K : MSend(p, n)
  \/ \E p \in P : MAbandon(p) \/ MClaim(p) \/ MFailR(p)
  \/ MHandle \/ MTick \/ MSave \/ MRestart \/ MRestartStale
  \/ \E p \in P, k \in 1..K : MArrive(p, k) \/ MFailHop(p, k) \/ MDeliver(p, k) \/ MDup(p, k) \/ MCommit(p, k)
  \/ \E k \in 1..K : MConfirm(k)
  \/ \E p \in P, k \in 1..K : MChainClaim(p, k) \/ MChainTimeout(p, k)
  \/ MQuiet \/ MDone

MCSpec == MCInit /\ [][MCNext]_mvars

Bound == nops <= MaxOps
View == <<svars, dvars, obs, quiet, nops, feat>>

\* the design never needs a second terminal event and never forgets one (redundant with the
\* guards of PaySend, stated on the design state for readability of counterexamples)
DesignSane == \A p \in P : (dst[p] \in {"none", "gone"}) => dparts[p] = {}

EmitScripts == (quiet /\ Idle /\ Len(hist) > 3) => PrintT(<<"SCRIPT", ToJson([k |-> K, ops |-> hist, feat |-> feat])>>)
=============================================================================
