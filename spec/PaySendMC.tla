----------------------------- MODULE PaySendMC -----------------------------
(***************************************************************************)
(* Design model of the payer (lightning/src/ln/outbound_payment.rs) at the *)
(* granularity of the code, composed with the observable specification     *)
(* PaySend: every step of the algorithm appends the observations it causes  *)
(* (API results, messages, events handed to the user) to `obs`; `MObs`      *)
(* feeds them one by one to the guards of PaySend.  An observation whose    *)
(* guard does not hold leaves the model without successor, i.e. TLC reports *)
(* a deadlock (CHECK_DEADLOCK TRUE) with the offending behaviour.           *)
(*                                                                         *)
(* Network: payer A = node 0, K forwarding nodes B_k = node k, recipient D; *)
(* part k of a payment travels A -chan k-> B_k -chan K+k-> D.  A part is     *)
(*   out -> held (at D) -> retFul | retFail -> dlvFul | dlvFail -> done     *)
(* where dlv* = handed to A but not yet irrevocably committed (a            *)
(* reconnection or a restart makes the peer hand it over again).           *)
(*                                                                         *)
(* Stale = TRUE adds the restart from a manager snapshot the monitors have  *)
(* overtaken (ChannelManager::read: the channels whose monitors are ahead   *)
(* are closed, the HTLCs found in their monitors are re-added to the        *)
(* payment -- insert_from_monitor_on_startup --, the HTLCs the snapshot     *)
(* holds but the monitors no longer do are failed) and what follows on      *)
(* chain: the commitment confirms, B_k claims the HTLC output with the      *)
(* preimage or the HTLC times out.  MaxRetry > 0 makes a single-part send   *)
(* a payment with automatic retries (Retry::Attempts): a failed attempt is  *)
(* followed by a new HTLC over the next unused branch.                      *)
(*                                                                         *)
(* Outcomes: what send_payment_along_path may answer for every part of an  *)
(* attempt at send time (pay_route_internal collects the answers,           *)
(* handle_pay_route_err acts on them):                                      *)
(*   "sent"  Ok: the update_add_htlc leaves A,                              *)
(*   "wip"   Err(MonitorUpdateInProgress): the HTLC is in the channel, its  *)
(*           monitor write is in flight (asynchronous persistence); the     *)
(*           add leaves when the user reports the write complete            *)
(*           (MComplete); the part stays in the payment's bookkeeping,      *)
(*   "ref"   Err(ChannelUnavailable): refused by the first-hop channel      *)
(*           (peer disconnected, amount outside the channel's limits): the  *)
(*           part is removed, PaymentPathFailed (InitialSend) is queued and *)
(*           what was refused is retried at once over an unused branch if   *)
(*           retries are left (MppRetry for multi-part sends), otherwise    *)
(*           the payment is abandoned: PaymentFailed once no part remains,  *)
(*   "hc"    Ok, but the channel cannot build a commitment now (it waits    *)
(*           for the peer's revocation, or a monitor write of that channel  *)
(*           is in flight): the HTLC is parked in the channel's holding     *)
(*           cell, part of the payment's bookkeeping like a sent one.  When *)
(*           the channel can move again the holding cell is freed           *)
(*           (MRelease; ChannelManager::check_free_peer_holding_cells /     *)
(*           internal_revoke_and_ack -> Channel::free_holding_cell_htlcs):  *)
(*           the add leaves, or -- the HTLC has become unsendable meanwhile *)
(*           (limits changed, capacity used up) -- it is failed back        *)
(*           (fail_holding_cell_htlcs -> fail_htlc): PaymentPathFailed,     *)
(*           then a retry or PaymentFailed as for any failed part.          *)
(* Bug # "none" plants a defect (spec mutants: TLC must report a deadlock). *)
(***************************************************************************)
EXTENDS PaySend, Json

CONSTANTS NP,          \* payment ids 1..NP (id p pays hash p)
          K,           \* branches = maximal number of parts
          MaxSend,     \* send calls per id
          MaxDup,      \* duplicate deliveries
          MaxRestart,
          Idem,        \* IDEMPOTENCY_TIMEOUT_TICKS of the model
          MaxOps,      \* bound on the script length
          MaxRetry,    \* automatic retries of a single-part payment
          Stale,       \* restarts from a snapshot the monitors have overtaken
          Outcomes,    \* subset of {"sent", "wip", "ref", "hc"}: the answers of the first-hop channels at send time
          MppRetry,    \* set of retry counts of multi-part sends
          Bug          \* "none" | "forget_wip" | "reuse_held" | "drop_hc"

VARIABLES dst, dparts, dn, evq, ticks, saved, dirty, net, nextId, decided, paid,
          nDup, nRestart, nSend, obs, hist, quiet, nops,
          rleft,     \* [p -> automatic retries left]  (the retry strategy is not persisted: 0 after a restart)
          dch,       \* channels A-B_k whose monitor was updated since the last manager snapshot
          closed,    \* channels A-B_k closed by a stale restart
          confirmed, \* ... whose commitment transaction has confirmed
          sentSince, \* the user handled a PaymentSent since the last snapshot
          feat   \* features the behaviour has shown so far (part of the state, so that a behaviour with a
                 \* repeated event / duplicate delivery / refused send is printed even if it ends in a
                 \* state that a plainer behaviour reaches too)

dvars == <<dst, dparts, dn, evq, ticks, saved, dirty, net, nextId, decided, paid, nDup, nRestart, nSend, rleft, dch, closed, confirmed, sentSince>>
xvars == <<rleft, dch, closed, confirmed, sentSince>>
mvars == <<svars, dvars, obs, hist, quiet, nops, feat>>

P == 1..NP
Amt == 1000
Fee == 10
Init0 == 1000000
D == K + 1

MCInit ==
  /\ SInit
  /\ dst = [p \in P |-> "none"] /\ dparts = [p \in P |-> {}] /\ dn = [p \in P |-> 0]
  /\ evq = <<>> /\ ticks = [p \in P |-> 0] /\ saved = <<>> /\ dirty = TRUE
  /\ net = [x \in P \X (1..K) |-> [loc |-> "no", id |-> 0, id2 |-> 0, origin |-> 0, mult |-> 1]]
  /\ nextId = [c \in 1..(2 * K) |-> 0]
  /\ decided = [p \in P |-> "none"] /\ paid = 0
  /\ nDup = 0 /\ nRestart = 0 /\ nSend = [p \in P |-> 0]
  /\ rleft = [p \in P |-> 0] /\ dch = {} /\ closed = {} /\ confirmed = {} /\ sentSince = FALSE
  /\ obs = <<[t |-> "open"]>> /\ hist = <<>> /\ quiet = FALSE /\ nops = 0 /\ feat = {}

H(op) == hist' = Append(hist, op) /\ nops' = nops + 1
F(S) == feat' = feat \cup S
Idle == obs = <<>>
Path(k) == <<k, K + k>>
\* the next unused branch (a retry avoids the channel that failed)
FreeBranch(p) == {j \in 1..K : net[<<p, j>>].loc = "no" /\ j \notin closed}
MinOf(S) == CHOOSE x \in S : \A y \in S : x <= y

\* ---------------------------------------------------------------- observations -> PaySend
MObs ==
  /\ obs # <<>>
  /\ LET o == Head(obs) IN
     CASE o.t = "open" -> SOpen(0..D, [n \in 0..D |-> Init0])
       [] o.t = "send" -> SSend(0, o.p, o.p, o.n * Amt, [i \in 1..o.n |-> i], o.fixed, o.handled, o.res)
       [] o.t = "add" -> SAdd(o.node, o.chan, o.id, o.hash, o.mult * Amt)
       [] o.t = "persist" -> SPersistInProgress(0, o.chan, o.id)
       [] o.t = "complete" -> SPersistComplete(0, o.chan, o.id)
       [] o.t = "failmsg" -> SFailMsg(o.chan, o.adder, o.id)
       [] o.t = "resolve" -> SResolve(o.chan, 0, o.id, o.how)
       [] o.t = "claimcall" -> SClaimCall(o.hash)
       [] o.t = "evsent" -> SEvSent(0, o.p, o.p, TRUE, o.fee)
       \* (PaySend leaves open whether a PaymentFailed closes an earlier use of the id or the present one; the design
       \* knows: the events queued when the id was accepted again belong to the earlier use)
       [] o.t = "evfailed" -> SEvFailed(0, o.p, o.pend) /\ (nRestart = 0 => ((pay'[o.p].owed < pay[o.p].owed) <=> o.old))
       [] o.t = "evpathfailed" -> SEvPathFailed(0, o.p, o.p, o.blamed, o.initial, o.path)
       [] o.t = "evother" -> UNCHANGED svars
       [] o.t = "save" -> SSave(0)
       [] o.t = "restart" -> SRestart(0, o.stale)
       [] o.t = "chaincommit" -> SChainCommit(o.chan, o.outs)
       [] o.t = "chainhtlc" -> SChainHtlc(o.chan, o.hash, o.preimage)
       [] o.t = "quietchain" -> SQuietChainOK /\ UNCHANGED svars
       [] o.t = "recent" -> SRecentAfterRestart(0, o.listed)
       [] o.t = "quiet" -> SQuietOK([n \in 0..D |-> IF n = 0 THEN Init0 - paid ELSE Init0], IF o.idle THEN {0} ELSE {}) /\ UNCHANGED svars
  /\ obs' = Tail(obs)
  /\ LET o == Head(obs) IN
     F(IF o.t = "evsent" /\ o.p \in Pids /\ pay[o.p].term = "sent" THEN {"sent-repeated"}
       ELSE IF o.t = "evfailed" /\ o.p \in Pids /\ pay[o.p].term = "failed" /\ pay[o.p].owed = 0 THEN {"failed-repeated"}
       ELSE {})
  /\ UNCHANGED <<dvars, hist, quiet, nops>>

Emit(seq) == obs' = seq /\ UNCHANGED svars

\* ---------------------------------------------------------------- the user
RetryChoices(n) == IF n = 1 THEN {MaxRetry} ELSE MppRetry
RECURSIVE CatTo(_, _)
CatTo(f, i) == IF i = 0 THEN <<>> ELSE CatTo(f, i - 1) \o f[i]
InitFail(p, k) == [k |-> "pathfailed", p |-> p, blamed |-> k, path |-> Path(k), initial |-> TRUE]
\* what leaves A / what A's persister says when a part is handed to branch k with answer oc
PartObs(p, k, oc, id, mult) ==
  IF oc = "sent" THEN <<[t |-> "add", node |-> 0, chan |-> k, id |-> id, hash |-> p, mult |-> mult]>>
  ELSE IF oc = "wip" THEN <<[t |-> "persist", chan |-> k, id |-> id]>> ELSE <<>>
\* handle_pay_route_err -> find_route_and_send_payment: what was refused is retried at once, as one part, over the
\* cheapest unused branch (the highest one); roc: the answer of that branch (a second immediate retry is sent)
RECURSIVE Chain(_, _, _, _, _)
Chain(p, free, rl, roc, first) ==      \* -> [evs, part (0: gave up), oc, rl]
  IF rl = 0 \/ free = {} THEN [evs |-> <<>>, part |-> 0, oc |-> "none", rl |-> rl]
  ELSE LET j == MaxOf(free)
           oc == IF first THEN roc ELSE "sent"
       IN IF oc = "ref"
          THEN LET r == Chain(p, free \ {j}, rl - 1, roc, FALSE) IN [r EXCEPT !.evs = <<InitFail(p, j)>> \o @]
          ELSE [evs |-> <<>>, part |-> j, oc |-> oc, rl |-> rl - 1]

MSend(p, n, ocs, r, roc) ==
  /\ Idle /\ nSend[p] < MaxSend /\ n \in 1..K /\ closed = {}
  /\ ocs \in [1..n -> Outcomes] /\ r \in RetryChoices(n) /\ roc \in Outcomes \ {"hc"}
  /\ nSend' = [nSend EXCEPT ![p] = @ + 1]
  /\ LET R == {k \in 1..n : ocs[k] = "ref"}
         free == (n + 1)..K
         retried == R # {} /\ r > 0 /\ free # {}
         ch == IF R = {} THEN [evs |-> <<>>, part |-> 0, oc |-> "none", rl |-> r] ELSE Chain(p, free, r, roc, TRUE)
         \* a route the user chose (its router's answer to the first query); otherwise routed by the payer's router
         planted == n > 1 \/ ocs[1] # "sent"
         \* add_new_pending_payment knows every part; remove_session_privs forgets the refused ones
         keep == IF Bug = "forget_wip" /\ R # {} THEN {k \in 1..n : ocs[k] = "sent"} ELSE {k \in 1..n : ocs[k] # "ref"}
         parts == keep \cup (IF ch.part # 0 THEN {ch.part} ELSE {})
         gaveUp == R # {} /\ ch.part = 0
         accepted == \/ dst[p] \in {"none", "gone"}
                     \/ Bug = "reuse_held" /\ dst[p] = "aband" /\ \A k \in dparts[p] : net[<<p, k>>].loc = "wip"
         op == [op |-> "send", p |-> p, n |-> n, retries |-> r, ocs |-> ocs, roc |-> roc, planted |-> planted]
     IN
     /\ (~retried) => roc = "sent"          \* (canonical: the answer of a retry that is not sent is not chosen)
     /\ IF accepted
        THEN /\ dst' = [dst EXCEPT ![p] = IF gaveUp THEN (IF parts = {} THEN "gone" ELSE "aband") ELSE "retry"]
             /\ dparts' = [dparts EXCEPT ![p] = parts]
             /\ dn' = [dn EXCEPT ![p] = n]
             /\ ticks' = [ticks EXCEPT ![p] = 0]
             /\ decided' = [decided EXCEPT ![p] = "none"]
             /\ net' = [x \in DOMAIN net |->
                          IF x[1] = p /\ x[2] <= n /\ ocs[x[2]] # "ref"
                          THEN [loc |-> IF ocs[x[2]] = "sent" THEN "out" ELSE ocs[x[2]], id |-> nextId[x[2]], id2 |-> 0, origin |-> 0, mult |-> 1]
                          ELSE IF x[1] = p /\ x[2] = ch.part
                          THEN [loc |-> IF ch.oc = "sent" THEN "out" ELSE "wip", id |-> nextId[x[2]], id2 |-> 0, origin |-> 0, mult |-> Cardinality(R)]
                          ELSE IF x[1] = p /\ x[2] <= n THEN [net[x] EXCEPT !.loc = "refd"]      \* (previously_failed_channels)
                          ELSE IF x[1] = p THEN [net[x] EXCEPT !.loc = "no"] ELSE net[x]]
             \* (a parked HTLC gets its id when it leaves the holding cell)
             /\ nextId' = [c \in DOMAIN nextId |-> IF (c <= n /\ ocs[c] \in {"sent", "wip"}) \/ c = ch.part THEN nextId[c] + 1 ELSE nextId[c]]
             /\ dirty' = TRUE /\ dch' = dch \cup {k \in 1..n : ocs[k] # "ref"} \cup (IF ch.part # 0 THEN {ch.part} ELSE {})
             /\ rleft' = [rleft EXCEPT ![p] = IF gaveUp THEN 0 ELSE ch.rl]
             /\ evq' = [i \in 1..Len(evq) |-> IF evq[i].k = "failed" /\ evq[i].p = p THEN [evq[i] EXCEPT !.old = TRUE] ELSE evq[i]]
                           \o CatTo([k \in 1..n |-> IF ocs[k] = "ref" THEN <<InitFail(p, k)>> ELSE <<>>], n) \o ch.evs
                           \o (IF gaveUp /\ parts = {} THEN <<[k |-> "failed", p |-> p, old |-> FALSE]>> ELSE <<>>)
             /\ Emit(<<[t |-> "send", p |-> p, n |-> n, fixed |-> (r = 0 \/ planted), handled |-> evq = <<>>, res |-> "ok"]>>
                     \o CatTo([k \in 1..n |-> PartObs(p, k, ocs[k], nextId[k], 1)], n)
                     \o (IF ch.part # 0 THEN PartObs(p, ch.part, ch.oc, nextId[ch.part], Cardinality(R)) ELSE <<>>))
             /\ UNCHANGED <<saved, paid, nDup, nRestart, closed, confirmed, sentSince>>
        ELSE /\ \A k \in 1..n : ocs[k] = "sent"    \* (canonical: a refused call asks no channel)
             /\ Emit(<<[t |-> "send", p |-> p, n |-> n, fixed |-> (r = 0 \/ planted), handled |-> evq = <<>>, res |-> "dup"]>>)
             /\ UNCHANGED <<dst, dparts, dn, evq, ticks, saved, dirty, net, nextId, decided, paid, nDup, nRestart, xvars>>
     /\ H(op) /\ quiet' = FALSE
     /\ F((IF accepted THEN {} ELSE {"send-refused"})
          \cup (IF accepted /\ \E k \in 1..n : ocs[k] = "wip" THEN {"part-wip"} ELSE {})
          \cup (IF accepted /\ \E k \in 1..n : ocs[k] = "hc" THEN {"part-hc"} ELSE {})
          \cup (IF accepted /\ R # {} THEN {"part-refused"} ELSE {})
          \cup (IF accepted /\ R # {} /\ \E k \in 1..n : ocs[k] = "wip" THEN {"wip+refused"} ELSE {})
          \cup (IF accepted /\ ch.part # 0 THEN {"immediate-retry"} ELSE {})
          \cup (IF accepted /\ gaveUp /\ parts # {} THEN {"abandoned-with-parts-out"} ELSE {}))

\* the user reports the monitor write of channel A-B_k complete: the HTLCs it held back leave A
MComplete(k) ==
  /\ Idle /\ \E p \in P : net[<<p, k>>].loc = "wip"
  /\ net' = [x \in DOMAIN net |-> IF x[2] = k /\ net[x].loc = "wip" THEN [net[x] EXCEPT !.loc = "out"] ELSE net[x]]
  /\ Emit(CatTo([p \in P |-> IF net[<<p, k>>].loc = "wip"
                               THEN <<[t |-> "complete", chan |-> k, id |-> net[<<p, k>>].id],
                                      [t |-> "add", node |-> 0, chan |-> k, id |-> net[<<p, k>>].id, hash |-> p, mult |-> net[<<p, k>>].mult]>>
                               ELSE <<>>], NP))
  /\ dirty' = TRUE /\ dch' = dch \cup {k}
  /\ UNCHANGED <<dst, dparts, dn, evq, ticks, saved, nextId, decided, paid, nDup, nRestart, nSend, rleft, closed, confirmed, sentSince>>
  /\ H([op |-> "complete", k |-> k]) /\ quiet' = FALSE /\ F({})

\* the channel A-B_k can move again (the revocation arrived / the write it waited for completed): its holding cell is
\* freed.  fate "ok": the parked add leaves;  "fail": it has become unsendable and is failed back -- fail_htlc, as for a
\* part failed on the wire (MCommit), but naming the first hop; roc: the answer of the branch a retry is sent over.
\* Bug "drop_hc": the failed HTLC is dropped from the holding cell and nobody is told.
MRelease(p, k, fate, roc) ==
  /\ Idle /\ net[<<p, k>>].loc = "hc" /\ k \notin closed
  /\ fate \in {"ok", "fail"} /\ roc \in Outcomes \ {"ref", "hc"}
  /\ (roc # "sent") => (fate = "fail" /\ k \in dparts[p] /\ dst[p] = "retry" /\ rleft[p] > 0 /\ FreeBranch(p) # {} /\ Bug # "drop_hc")
  /\ dirty' = TRUE
  /\ IF fate = "ok"
     THEN /\ net' = [net EXCEPT ![<<p, k>>].loc = "out", ![<<p, k>>].id = nextId[k]]
          /\ nextId' = [nextId EXCEPT ![k] = @ + 1]
          /\ Emit(<<[t |-> "add", node |-> 0, chan |-> k, id |-> nextId[k], hash |-> p, mult |-> net[<<p, k>>].mult]>>)
          /\ dch' = dch \cup {k}
          /\ UNCHANGED <<dst, dparts, evq, rleft>>
     ELSE IF Bug = "drop_hc"
     THEN /\ net' = [net EXCEPT ![<<p, k>>].loc = "done"]
          /\ Emit(<<>>) /\ UNCHANGED <<dst, dparts, evq, rleft, nextId, dch>>
     ELSE IF k \notin dparts[p] \/ dst[p] \in {"none", "gone"}
     THEN /\ net' = [net EXCEPT ![<<p, k>>].loc = "done"]
          /\ Emit(<<>>) /\ UNCHANGED <<dst, dparts, evq, rleft, nextId, dch>>
     ELSE IF dst[p] = "ful"
     THEN /\ net' = [net EXCEPT ![<<p, k>>].loc = "done"]
          /\ dparts' = [dparts EXCEPT ![p] = @ \ {k}]
          /\ Emit(<<>>) /\ UNCHANGED <<dst, evq, rleft, nextId, dch>>
     ELSE LET left == dparts[p] \ {k}
              pf == [k |-> "pathfailed", p |-> p, blamed |-> k, path |-> Path(k), initial |-> FALSE]
          IN IF dst[p] = "retry" /\ rleft[p] > 0 /\ FreeBranch(p) # {}
             THEN LET j == MinOf(FreeBranch(p)) IN
                  /\ rleft' = [rleft EXCEPT ![p] = @ - 1]
                  /\ dparts' = [dparts EXCEPT ![p] = left \cup {j}]
                  /\ evq' = Append(evq, pf) /\ UNCHANGED dst
                  /\ net' = [net EXCEPT ![<<p, k>>].loc = "done",
                                         ![<<p, j>>] = [loc |-> IF roc = "sent" THEN "out" ELSE "wip", id |-> nextId[j], id2 |-> 0, origin |-> 0,
                                                        mult |-> net[<<p, k>>].mult]]
                  /\ nextId' = [nextId EXCEPT ![j] = @ + 1]
                  /\ dch' = dch \cup {j}
                  /\ Emit(PartObs(p, j, roc, nextId[j], net[<<p, k>>].mult))
             ELSE /\ rleft' = [rleft EXCEPT ![p] = IF dst[p] = "retry" /\ @ > 0 THEN @ - 1 ELSE @]
                  /\ dparts' = [dparts EXCEPT ![p] = left]
                  /\ IF left = {}
                     THEN dst' = [dst EXCEPT ![p] = "gone"] /\ evq' = evq \o <<pf, [k |-> "failed", p |-> p, old |-> FALSE]>>
                     ELSE dst' = [dst EXCEPT ![p] = "aband"] /\ evq' = Append(evq, pf)
                  /\ net' = [net EXCEPT ![<<p, k>>].loc = "done"]
                  /\ Emit(<<>>) /\ UNCHANGED <<nextId, dch>>
  /\ UNCHANGED <<dn, ticks, saved, decided, paid, nDup, nRestart, nSend, closed, confirmed, sentSince>>
  /\ H([op |-> "release", p |-> p, k |-> k, fate |-> fate, roc |-> roc]) /\ quiet' = FALSE
  /\ F((IF fate = "fail" THEN {"hc-failed"} ELSE {"hc-sent"})
       \cup (IF fate = "fail" /\ Bug # "drop_hc" /\ k \in dparts[p] /\ dst[p] = "retry" /\ rleft[p] > 0 /\ FreeBranch(p) # {} THEN {"hc-retry"} ELSE {}))

\* the terminal events: abandon_payment / fail_htlc push PaymentFailed once no part remains
MAbandon(p) ==
  /\ Idle /\ dst[p] = "retry"
  /\ IF dparts[p] = {}
     THEN dst' = [dst EXCEPT ![p] = "gone"] /\ evq' = Append(evq, [k |-> "failed", p |-> p, old |-> FALSE])
     ELSE dst' = [dst EXCEPT ![p] = "aband"] /\ UNCHANGED evq
  /\ UNCHANGED <<svars, obs, dparts, dn, ticks, saved, dirty, net, nextId, decided, paid, nDup, nRestart, nSend, xvars>>
  /\ H([op |-> "abandon", p |-> p]) /\ quiet' = FALSE /\ F(IF dparts[p] # {} THEN {"abandon-in-flight"} ELSE {})

\* what A's channels list for the payment (ChannelDetails::pending_outbound_htlcs): every HTLC that is in a channel or
\* its holding cell and whose removal is not yet irrevocable
Listed(p) == Cardinality({k \in 1..K : net[<<p, k>>].loc \in {"wip", "hc", "out", "held", "retFul", "retFail", "dlvFul", "dlvFail"}})
MHandle ==
  /\ Idle /\ evq # <<>>
  /\ LET e == Head(evq) IN
     Emit(<<CASE e.k = "sent" -> [t |-> "evsent", p |-> e.p, fee |-> e.fee]
              [] e.k = "failed" -> [t |-> "evfailed", p |-> e.p, old |-> e.old, pend |-> Listed(e.p)]
              [] e.k = "pathfailed" -> [t |-> "evpathfailed", p |-> e.p, blamed |-> e.blamed, path |-> e.path, initial |-> e.initial]
              [] OTHER -> [t |-> "evother"]>>)
  /\ evq' = Tail(evq)
  /\ sentSince' = (sentSince \/ Head(evq).k = "sent")
  /\ UNCHANGED <<dst, dparts, dn, ticks, saved, dirty, net, nextId, decided, paid, nDup, nRestart, nSend, rleft, dch, closed, confirmed>>
  /\ H([op |-> "handle"]) /\ quiet' = FALSE /\ F({})

\* remove_stale_payments
InQueue(p) == \E i \in 1..Len(evq) : evq[i].p = p /\ evq[i].k \in {"sent", "pathok", "pathfailed"}
MTick ==
  /\ Idle /\ \E p \in P : dst[p] = "ful" /\ dparts[p] = {}
  /\ LET old(p) == dst[p] = "ful" /\ dparts[p] = {} /\ ~InQueue(p) IN
     /\ ticks' = [p \in P |-> IF old(p) THEN ticks[p] + 1 ELSE IF dst[p] = "ful" THEN 0 ELSE ticks[p]]
     /\ dst' = [p \in P |-> IF old(p) /\ ticks[p] + 1 > Idem THEN "gone" ELSE dst[p]]
  /\ UNCHANGED <<svars, obs, dparts, dn, evq, saved, dirty, net, nextId, decided, paid, nDup, nRestart, nSend, xvars>>
  /\ H([op |-> "tick"]) /\ quiet' = FALSE /\ F({})

NoWip == \A x \in DOMAIN net : net[x].loc \notin {"wip", "hc"}
MSave ==
  /\ Idle /\ nRestart < MaxRestart /\ closed = {} /\ NoWip
  /\ saved' = [dst |-> dst, dparts |-> dparts, dn |-> dn, evq |-> evq, ticks |-> ticks]
  /\ dirty' = FALSE /\ dch' = {} /\ sentSince' = FALSE
  /\ Emit(<<[t |-> "save"]>>)
  /\ UNCHANGED <<dst, dparts, dn, evq, ticks, net, nextId, decided, paid, nDup, nRestart, nSend, rleft, closed, confirmed>>
  /\ H([op |-> "save"]) /\ quiet' = FALSE /\ F({})

\* restart from a snapshot the monitors have not moved past
MRestart ==
  /\ Idle /\ DOMAIN saved # {} /\ ~dirty /\ nRestart < MaxRestart /\ closed = {} /\ NoWip
  /\ dst' = saved.dst /\ dparts' = saved.dparts /\ dn' = saved.dn /\ evq' = saved.evq /\ ticks' = saved.ticks
  /\ net' = [x \in DOMAIN net |-> IF net[x].loc = "dlvFul" THEN [net[x] EXCEPT !.loc = "retFul"]
                                  ELSE IF net[x].loc = "dlvFail" THEN [net[x] EXCEPT !.loc = "retFail"] ELSE net[x]]
  /\ nRestart' = nRestart + 1
  /\ Emit(<<[t |-> "restart", stale |-> FALSE], [t |-> "recent", listed |-> {p \in P : saved.dst[p] \notin {"none", "gone"}}]>>)
  /\ rleft' = [p \in P |-> 0]
  /\ UNCHANGED <<saved, dirty, nextId, decided, paid, nDup, nSend, dch, closed, confirmed, sentSince>>
  /\ H([op |-> "restart"]) /\ quiet' = FALSE /\ F(IF saved.evq # <<>> THEN {"restart-with-queued-events"} ELSE {})

\* ---------------------------------------------------------------- the network and the recipient
MArrive(p, k) ==
  /\ Idle /\ net[<<p, k>>].loc = "out" /\ k \notin closed
  /\ net' = [net EXCEPT ![<<p, k>>].loc = "held", ![<<p, k>>].id2 = nextId[K + k]]
  /\ nextId' = [nextId EXCEPT ![K + k] = @ + 1]
  /\ Emit(<<[t |-> "add", node |-> k, chan |-> K + k, id |-> nextId[K + k], hash |-> p, mult |-> net[<<p, k>>].mult]>>)
  /\ dirty' = TRUE /\ dch' = dch \cup {k}     \* the commitment exchange that carries the HTLC to B_k updates A's monitor
  /\ UNCHANGED <<dst, dparts, dn, evq, ticks, saved, decided, paid, nDup, nRestart, nSend, rleft, closed, confirmed, sentSince>>
  /\ H([op |-> "arrive", p |-> p, k |-> k]) /\ quiet' = FALSE /\ F({})

\* B_k cannot forward (its channel to D is unusable): it fails the part back
MFailHop(p, k) ==
  /\ Idle /\ net[<<p, k>>].loc = "out" /\ k \notin closed
  /\ net' = [net EXCEPT ![<<p, k>>].loc = "retFail", ![<<p, k>>].origin = 1]
  /\ Emit(<<[t |-> "failmsg", chan |-> k, adder |-> 0, id |-> net[<<p, k>>].id]>>)
  /\ dirty' = TRUE /\ dch' = dch \cup {k}
  /\ UNCHANGED <<dst, dparts, dn, evq, ticks, saved, nextId, decided, paid, nDup, nRestart, nSend, rleft, closed, confirmed, sentSince>>
  /\ H([op |-> "failhop", p |-> p, k |-> k]) /\ quiet' = FALSE /\ F({})

RECURSIVE SumMult(_, _)
SumMult(ks, p) == IF ks = {} THEN 0 ELSE LET k == CHOOSE x \in ks : TRUE IN net[<<p, k>>].mult + SumMult(ks \ {k}, p)
\* D claims: only a complete set of parts (all-or-nothing recipient)
MClaim(p) ==
  /\ Idle /\ decided[p] = "none" /\ dn[p] > 0
  /\ SumMult({k \in 1..K : net[<<p, k>>].loc = "held"}, p) = dn[p]
  /\ decided' = [decided EXCEPT ![p] = "claim"]
  /\ net' = [x \in DOMAIN net |-> IF x[1] = p /\ net[x].loc = "held" THEN [net[x] EXCEPT !.loc = "retFul"] ELSE net[x]]
  /\ Emit(<<[t |-> "claimcall", hash |-> p]>>)
  /\ UNCHANGED <<dst, dparts, dn, evq, ticks, saved, dirty, nextId, paid, nDup, nRestart, nSend, xvars>>
  /\ H([op |-> "claim", p |-> p]) /\ quiet' = FALSE /\ F({})

\* D fails back whatever it holds of the payment (fail_htlc_backwards / MPP timeout)
MFailR(p) ==
  /\ Idle /\ decided[p] # "claim"
  /\ \E k \in 1..K : net[<<p, k>>].loc = "held"
  /\ LET ks == {k \in 1..K : net[<<p, k>>].loc = "held"}
         sq == SelectSeq([i \in 1..K |-> i], LAMBDA i : i \in ks)
     IN /\ net' = [x \in DOMAIN net |-> IF x[1] = p /\ x[2] \in ks THEN [net[x] EXCEPT !.loc = "retFail", !.origin = 2] ELSE net[x]]
        /\ Emit([i \in 1..(2 * Len(sq)) |->
                   LET k == sq[(i + 1) \div 2] IN
                   IF i % 2 = 1 THEN [t |-> "failmsg", chan |-> K + k, adder |-> k, id |-> net[<<p, k>>].id2]
                                ELSE [t |-> "failmsg", chan |-> k, adder |-> 0, id |-> net[<<p, k>>].id]])
  /\ UNCHANGED <<dst, dparts, dn, evq, ticks, saved, dirty, nextId, decided, paid, nDup, nRestart, nSend, xvars>>
  /\ H([op |-> "failr", p |-> p]) /\ quiet' = FALSE /\ F({})

\* claim_htlc: the first fulfil of a payment that is not yet fulfilled queues PaymentSent
ClaimHtlc(p) ==
  IF dst[p] \in {"retry", "aband"}
  THEN /\ dst' = [dst EXCEPT ![p] = "ful"]
       /\ evq' = Append(evq, [k |-> "sent", p |-> p, fee |-> Fee * Cardinality(dparts[p])])
  ELSE UNCHANGED <<dst, evq>>

\* the resolution of part k is handed to A (update_fulfill_htlc acts at once, update_fail_htlc
\* only when irrevocably committed)
MDeliver(p, k) ==
  /\ Idle /\ net[<<p, k>>].loc \in {"retFul", "retFail"} /\ k \notin closed
  /\ IF net[<<p, k>>].loc = "retFul"
     THEN /\ net' = [net EXCEPT ![<<p, k>>].loc = "dlvFul"]
          /\ ClaimHtlc(p)
          /\ Emit(<<[t |-> "resolve", chan |-> k, id |-> net[<<p, k>>].id, how |-> "ful"]>>)
     ELSE /\ net' = [net EXCEPT ![<<p, k>>].loc = "dlvFail"]
          /\ UNCHANGED <<dst, evq>>
          /\ Emit(<<[t |-> "resolve", chan |-> k, id |-> net[<<p, k>>].id, how |-> "fail"]>>)
  /\ UNCHANGED <<dparts, dn, ticks, saved, dirty, nextId, decided, paid, nDup, nRestart, nSend, xvars>>
  /\ H([op |-> "deliver", p |-> p, k |-> k]) /\ quiet' = FALSE /\ F({})

\* the link A - B_k drops before the resolution is committed: B_k hands it over again
MDup(p, k) ==
  /\ Idle /\ nDup < MaxDup /\ net[<<p, k>>].loc \in {"dlvFul", "dlvFail"} /\ k \notin closed
  /\ nDup' = nDup + 1
  /\ IF net[<<p, k>>].loc = "dlvFul"
     THEN ClaimHtlc(p) /\ Emit(<<[t |-> "resolve", chan |-> k, id |-> net[<<p, k>>].id, how |-> "ful"]>>)
     ELSE UNCHANGED <<dst, evq>> /\ Emit(<<[t |-> "resolve", chan |-> k, id |-> net[<<p, k>>].id, how |-> "fail"]>>)
  /\ UNCHANGED <<dparts, dn, ticks, saved, dirty, net, nextId, decided, paid, nRestart, nSend, xvars>>
  /\ H([op |-> "dup", p |-> p, k |-> k]) /\ quiet' = FALSE /\ F(IF net[<<p, k>>].loc = "dlvFul" THEN {"dup-fulfil"} ELSE {"dup-fail"})

\* the removal becomes irrevocable: finalize_claims / fail_htlc
Blamed(k, origin) == IF origin = 1 THEN K + k ELSE 0
SentQueued(p) == \E i \in 1..Len(evq) : evq[i].p = p /\ evq[i].k = "sent"
MCommit(p, k, roc) ==
  /\ Idle /\ net[<<p, k>>].loc \in {"dlvFul", "dlvFail"} /\ k \notin closed
  \* roc: the answer of the branch a retry is sent over ("sent", or "wip": its monitor write is in flight)
  /\ roc \in Outcomes \ {"ref", "hc"}
  /\ (roc # "sent") => (net[<<p, k>>].loc = "dlvFail" /\ k \in dparts[p] /\ dst[p] = "retry" /\ rleft[p] > 0 /\ FreeBranch(p) # {})
  \* the monitor update that makes a fulfil irrevocable is held back until the user has handled PaymentSent
  /\ net[<<p, k>>].loc = "dlvFul" => ~SentQueued(p)
  /\ dirty' = TRUE
  /\ IF net[<<p, k>>].loc = "dlvFul"
     THEN /\ paid' = paid + net[<<p, k>>].mult * Amt + Fee
          /\ net' = [net EXCEPT ![<<p, k>>].loc = "done"]
          /\ IF k \in dparts[p] /\ dst[p] = "ful"
             THEN dparts' = [dparts EXCEPT ![p] = @ \ {k}] /\ evq' = Append(evq, [k |-> "pathok", p |-> p])
             ELSE UNCHANGED <<dparts, evq>>
          /\ dch' = dch \cup {k}
          /\ Emit(<<>>)
          /\ UNCHANGED <<dst, rleft, nextId>>
     ELSE /\ UNCHANGED paid
          /\ IF k \notin dparts[p] \/ dst[p] \in {"none", "gone"}
             THEN /\ UNCHANGED <<dparts, evq, dst, rleft, nextId>> /\ Emit(<<>>) /\ dch' = dch \cup {k}
                  /\ net' = [net EXCEPT ![<<p, k>>].loc = "done"]
             ELSE IF dst[p] = "ful"
             THEN /\ dparts' = [dparts EXCEPT ![p] = @ \ {k}] /\ UNCHANGED <<evq, dst, rleft, nextId>> /\ Emit(<<>>) /\ dch' = dch \cup {k}
                  /\ net' = [net EXCEPT ![<<p, k>>].loc = "done"]
             ELSE LET left == dparts[p] \ {k}
                      pf == [k |-> "pathfailed", p |-> p, blamed |-> Blamed(k, net[<<p, k>>].origin), path |-> Path(k), initial |-> FALSE]
                  IN IF dst[p] = "retry" /\ rleft[p] > 0
                     THEN \* automatic retry (check_retry_payments in process_pending_htlc_forwards): a new HTLC
                          \* over the next unused branch, or PaymentFailed if there is no route left
                          /\ rleft' = [rleft EXCEPT ![p] = @ - 1]
                          /\ IF FreeBranch(p) = {}
                             THEN /\ dparts' = [dparts EXCEPT ![p] = left]
                                  /\ IF left = {} THEN dst' = [dst EXCEPT ![p] = "gone"] /\ evq' = evq \o <<pf, [k |-> "failed", p |-> p, old |-> FALSE]>>
                                                  ELSE dst' = [dst EXCEPT ![p] = "aband"] /\ evq' = Append(evq, pf)
                                  /\ net' = [net EXCEPT ![<<p, k>>].loc = "done"]
                                  /\ Emit(<<>>) /\ dch' = dch \cup {k} /\ UNCHANGED nextId
                             ELSE LET j == MinOf(FreeBranch(p)) IN
                                  /\ dparts' = [dparts EXCEPT ![p] = left \cup {j}]
                                  /\ evq' = Append(evq, pf) /\ UNCHANGED dst
                                  /\ net' = [net EXCEPT ![<<p, k>>].loc = "done",
                                                         ![<<p, j>>] = [loc |-> IF roc = "sent" THEN "out" ELSE "wip", id |-> nextId[j], id2 |-> 0, origin |-> 0,
                                                                        mult |-> net[<<p, k>>].mult]]
                                  /\ nextId' = [nextId EXCEPT ![j] = @ + 1]
                                  /\ dch' = dch \cup {k, j}
                                  /\ Emit(PartObs(p, j, roc, nextId[j], net[<<p, k>>].mult))
                     ELSE /\ dparts' = [dparts EXCEPT ![p] = left]
                          /\ IF left = {}
                             THEN dst' = [dst EXCEPT ![p] = "gone"] /\ evq' = evq \o <<pf, [k |-> "failed", p |-> p, old |-> FALSE]>>
                             ELSE dst' = [dst EXCEPT ![p] = "aband"] /\ evq' = Append(evq, pf)
                          /\ net' = [net EXCEPT ![<<p, k>>].loc = "done"]
                          /\ Emit(<<>>) /\ dch' = dch \cup {k} /\ UNCHANGED <<rleft, nextId>>
  /\ UNCHANGED <<dn, ticks, saved, decided, nDup, nRestart, nSend, closed, confirmed, sentSince>>
  /\ H([op |-> "commit", p |-> p, k |-> k, roc |-> roc]) /\ quiet' = FALSE
  /\ F((IF net[<<p, k>>].loc = "dlvFail" /\ k \in dparts[p] /\ dst[p] = "retry" /\ rleft[p] > 0 THEN {"retry"} ELSE {})
       \cup (IF roc = "wip" THEN {"retry-wip"} ELSE {}))

\* ---------------------------------------------------------------- stale restart and the chain
InMon == {"out", "held", "retFul", "retFail", "dlvFul", "dlvFail"}
\* fail_htlc on a manager that cannot retry any more: the sequence of events and the resulting payment state
RECURSIVE FailParts(_, _, _, _)
FailParts(p, ks, st, parts) ==      \* -> [dst, parts, evs]
  IF ks = {} THEN [dst |-> st, parts |-> parts, evs |-> <<>>]
  ELSE LET k == MinOf(ks)
           left == parts \ {k}
           pf == [k |-> "pathfailed", p |-> p, blamed |-> 0, path |-> Path(k), initial |-> FALSE]
       IN IF st \in {"none", "gone"} \/ k \notin parts THEN FailParts(p, ks \ {k}, st, parts)
          ELSE IF st = "ful" THEN FailParts(p, ks \ {k}, st, left)
          ELSE IF left = {}
               THEN [dst |-> "gone", parts |-> {}, evs |-> <<pf, [k |-> "failed", p |-> p, old |-> FALSE]>>]
               ELSE LET r == FailParts(p, ks \ {k}, "aband", left) IN [r EXCEPT !.evs = <<pf>> \o @]

\* ChannelManager::read with monitors that are ahead of the manager
Reload(p, cl) ==
  LET sd == saved.dst[p]
      sp == saved.dparts[p]
      mon == {k \in cl : net[<<p, k>>].loc \in InMon}
      \* insert_from_monitor_on_startup
      st1 == IF sd \in {"none", "gone"} THEN (IF mon = {} THEN sd ELSE "retry") ELSE sd
      p1 == IF sd \in {"none", "gone"} THEN mon ELSE IF sd = "retry" THEN sp \cup mon ELSE sp
      \* HTLCs the snapshot holds on a closed channel which the monitor no longer has
      missing == {k \in sp \cap cl : k \notin mon}
  IN FailParts(p, missing, st1, p1)

MRestartStale ==
  /\ Stale /\ Idle /\ DOMAIN saved # {} /\ dch # {} /\ nRestart < MaxRestart /\ closed = {} /\ NoWip
  \* user behaviours of the recorded findings are left out: payment id used twice, PaymentSent handled since the snapshot
  /\ \A p \in Pids : pay[p].gen = 1
  /\ ~sentSince
  /\ LET cl == dch
         r == [p \in P |-> Reload(p, cl)]
         RECURSIVE Evs(_)
         Evs(ps) == IF ps = {} THEN <<>> ELSE LET q == MinOf(ps) IN r[q].evs \o Evs(ps \ {q})
     IN /\ closed' = cl
        /\ dst' = [p \in P |-> r[p].dst]
        /\ dparts' = [p \in P |-> r[p].parts]
        /\ evq' = saved.evq \o Evs(P)
        /\ Emit(<<[t |-> "restart", stale |-> TRUE], [t |-> "recent", listed |-> {p \in P : r[p].dst \notin {"none", "gone"}}]>>)
  /\ dn' = saved.dn /\ ticks' = saved.ticks
  \* a resolution that was handed over on a closed channel but not committed is settled on chain
  /\ net' = [x \in DOMAIN net |-> IF net[x].loc = "dlvFul" THEN [net[x] EXCEPT !.loc = "retFul"]
                                  ELSE IF net[x].loc = "dlvFail" THEN [net[x] EXCEPT !.loc = "retFail"] ELSE net[x]]
  /\ nRestart' = nRestart + 1 /\ rleft' = [p \in P |-> 0]
  /\ UNCHANGED <<saved, dirty, nextId, decided, paid, nDup, nSend, dch, confirmed, sentSince>>
  /\ H([op |-> "restart_stale"]) /\ quiet' = FALSE
  /\ F({"stale-restart"} \cup (IF \E p \in P : saved.dst[p] = "retry" /\ \E k \in dch : k \notin saved.dparts[p] /\ net[<<p, k>>].loc \in InMon
                                THEN {"stale-readd"} ELSE {})
                         \cup (IF \E p \in P : saved.dst[p] \in {"none", "gone"} /\ \E k \in dch : net[<<p, k>>].loc \in InMon
                                THEN {"stale-recreate"} ELSE {}))

\* the commitment transaction of a closed channel confirms (the miner takes everything at once)
MConfirm(k) ==
  /\ Idle /\ k \in closed /\ k \notin confirmed
  /\ confirmed' = confirmed \cup {k}
  /\ Emit(<<[t |-> "chaincommit", chan |-> k, outs |-> {(net[<<p, k>>].mult * Amt) \div 1000 : p \in {q \in P : net[<<q, k>>].loc \in InMon}}]>>)
  /\ UNCHANGED <<dst, dparts, dn, evq, ticks, saved, dirty, net, nextId, decided, paid, nDup, nRestart, nSend, rleft, dch, closed, sentSince>>
  /\ UNCHANGED <<hist, nops>> /\ quiet' = FALSE /\ F({})

\* B_k knows the preimage and claims the HTLC output: the payer learns the preimage from the chain
MChainClaim(p, k) ==
  /\ Idle /\ k \in confirmed /\ net[<<p, k>>].loc = "retFul"
  /\ net' = [net EXCEPT ![<<p, k>>].loc = "done"]
  /\ LET first == dst[p] \in {"retry", "aband"}
         sent == IF first THEN <<[k |-> "sent", p |-> p, fee |-> Fee * Cardinality(dparts[p])]>> ELSE <<>>
         st == IF first THEN "ful" ELSE dst[p]
     IN /\ dst' = [dst EXCEPT ![p] = st]
        /\ IF k \in dparts[p] /\ st = "ful"
           THEN dparts' = [dparts EXCEPT ![p] = @ \ {k}] /\ evq' = evq \o sent \o <<[k |-> "pathok", p |-> p]>>
           ELSE UNCHANGED dparts /\ evq' = evq \o sent
  /\ Emit(<<[t |-> "chainhtlc", chan |-> k, hash |-> p, preimage |-> TRUE]>>)
  /\ UNCHANGED <<dn, ticks, saved, dirty, nextId, decided, paid, nDup, nRestart, nSend, xvars>>
  /\ UNCHANGED <<hist, nops>> /\ quiet' = FALSE /\ F({"chain-claim"})

\* nobody can claim the HTLC output: it times out (the recipient has not claimed and no longer will)
MChainTimeout(p, k) ==
  /\ Idle /\ k \in confirmed /\ net[<<p, k>>].loc \in {"out", "held", "retFail"}
  /\ net[<<p, k>>].loc = "held" => decided[p] # "claim"
  /\ net' = [net EXCEPT ![<<p, k>>].loc = "done"]
  /\ decided' = [decided EXCEPT ![p] = IF @ = "none" THEN "timeout" ELSE @]
  /\ LET r == FailParts(p, {k}, dst[p], dparts[p]) IN
     dst' = [dst EXCEPT ![p] = r.dst] /\ dparts' = [dparts EXCEPT ![p] = r.parts] /\ evq' = evq \o r.evs
  /\ Emit(<<[t |-> "chainhtlc", chan |-> k, hash |-> p, preimage |-> FALSE]>>)
  /\ UNCHANGED <<dn, ticks, saved, dirty, nextId, paid, nDup, nRestart, nSend, xvars>>
  /\ UNCHANGED <<hist, nops>> /\ quiet' = FALSE /\ F({"chain-timeout"})

\* every link up and empty, every event handled
\* (once a channel was closed the chain settles: nothing stays behind on a closed channel, and what the
\* recipient still holds is failed back when it expires)
Moving == \/ \E x \in DOMAIN net : net[x].loc \in {"out", "wip", "hc", "retFul", "retFail", "dlvFul", "dlvFail"}
          \/ closed # {} /\ \E x \in DOMAIN net : net[x].loc = "held"
          \/ closed # confirmed
MQuiet ==
  /\ Idle /\ evq = <<>> /\ ~Moving /\ ~quiet /\ hist # <<>>
  /\ IF closed = {} THEN Emit(<<[t |-> "quiet", idle |-> \A x \in DOMAIN net : net[x].loc \in {"no", "done"}]>>)
                    ELSE Emit(<<[t |-> "quietchain"]>>)
  /\ quiet' = TRUE
  /\ UNCHANGED <<dvars, hist, nops, feat>>

MDone == quiet /\ Idle /\ UNCHANGED mvars

MCNext ==
  \/ MObs
  \/ \E p \in P, n \in 1..K : \E r \in RetryChoices(n), roc \in Outcomes, ocs \in [1..n -> Outcomes] : MSend(p, n, ocs, r, roc)
  \/ \E k \in 1..K : MComplete(k)
  \/ \E p \in P, k \in 1..K, fate \in {"ok", "fail"}, roc \in Outcomes : MRelease(p, k, fate, roc)
  \/ \E p \in P : MAbandon(p) \/ MClaim(p) \/ MFailR(p)
  \/ MHandle \/ MTick \/ MSave \/ MRestart \/ MRestartStale
  \/ \E p \in P, k \in 1..K : MArrive(p, k) \/ MFailHop(p, k) \/ MDeliver(p, k) \/ MDup(p, k)
  \/ \E p \in P, k \in 1..K, roc \in Outcomes : MCommit(p, k, roc)
  \/ \E k \in 1..K : MConfirm(k)
  \/ \E p \in P, k \in 1..K : MChainClaim(p, k) \/ MChainTimeout(p, k)
  \/ MQuiet \/ MDone

MCSpec == MCInit /\ [][MCNext]_mvars

Bound == nops <= MaxOps
View == <<svars, dvars, obs, quiet, nops, feat>>

\* the design never needs a second terminal event and never forgets one (redundant with the
\* guards of PaySend, stated on the design state for readability of counterexamples)
DesignSane == \A p \in P : (dst[p] \in {"none", "gone"}) => dparts[p] = {}

EmitScripts == (quiet /\ Idle /\ Len(hist) > 3) => PrintT(<<"SCRIPT", ToJson([k |-> K, ops |-> hist, feat |-> feat])>>)
=============================================================================
