----------------------------- MODULE PaySendMC -----------------------------
(***************************************************************************)
(* Design model of the payer (lightning/src/ln/outbound_payment.rs) at the *)
(* granularity of the code, composed with the observable specification     *)
(* PaySend: every step of the algorithm appends the observations it causes  *)
(* (API results, messages, events handed to the user) to `obs`; `MObs`      *)
(* feeds them one by one to the guards of PaySend.  An observation whose    *)
(* guard does not hold leaves the model without successor, i.e. TLC reports *)
(* a deadlock (CHECK_DEADLOCK TRUE) with the offending behaviour.           *)
(*                                                                         *)
(* Network: payer A = node 0, K forwarding nodes B_k = node k, recipient D; *)
(* part k of a payment travels A -chan k-> B_k -chan K+k-> D.  A part is     *)
(*   out -> held (at D) -> retFul | retFail -> dlvFul | dlvFail -> done     *)
(* where dlv* = handed to A but not yet irrevocably committed (a            *)
(* reconnection or a restart makes the peer hand it over again).           *)
(***************************************************************************)
EXTENDS PaySend, Json

CONSTANTS NP,          \* payment ids 1..NP (id p pays hash p)
          K,           \* branches = maximal number of parts
          MaxSend,     \* send calls per id
          MaxDup,      \* duplicate deliveries
          MaxRestart,
          Idem,        \* IDEMPOTENCY_TIMEOUT_TICKS of the model
          MaxOps       \* bound on the script length

VARIABLES dst, dparts, dn, evq, ticks, saved, dirty, net, nextId, decided, paid,
          nDup, nRestart, nSend, obs, hist, quiet, nops,
          feat   \* features the behaviour has shown so far (part of the state, so that a behaviour with a
                 \* repeated event / duplicate delivery / refused send is printed even if it ends in a
                 \* state that a plainer behaviour reaches too)

dvars == <<dst, dparts, dn, evq, ticks, saved, dirty, net, nextId, decided, paid, nDup, nRestart, nSend>>
mvars == <<svars, dvars, obs, hist, quiet, nops, feat>>

P == 1..NP
Amt == 1000
Fee == 10
Init0 == 1000000
D == K + 1

MCInit ==
  /\ SInit
  /\ dst = [p \in P |-> "none"] /\ dparts = [p \in P |-> {}] /\ dn = [p \in P |-> 0]
  /\ evq = <<>> /\ ticks = [p \in P |-> 0] /\ saved = <<>> /\ dirty = TRUE
  /\ net = [x \in P \X (1..K) |-> [loc |-> "no", id |-> 0, id2 |-> 0, origin |-> 0]]
  /\ nextId = [c \in 1..(2 * K) |-> 0]
  /\ decided = [p \in P |-> "none"] /\ paid = 0
  /\ nDup = 0 /\ nRestart = 0 /\ nSend = [p \in P |-> 0]
  /\ obs = <<[t |-> "open"]>> /\ hist = <<>> /\ quiet = FALSE /\ nops = 0 /\ feat = {}

H(op) == hist' = Append(hist, op) /\ nops' = nops + 1
F(S) == feat' = feat \cup S
Idle == obs = <<>>
Path(k) == <<k, K + k>>

\* ---------------------------------------------------------------- observations -> PaySend
MObs ==
  /\ obs # <<>>
  /\ LET o == Head(obs) IN
     CASE o.t = "open" -> SOpen(0..D, [n \in 0..D |-> Init0])
       [] o.t = "send" -> SSend(0, o.p, o.p, o.n * Amt, o.n, TRUE, o.res)
       [] o.t = "add" -> SAdd(o.node, o.chan, o.id, o.hash)
       [] o.t = "failmsg" -> SFailMsg(o.chan, o.adder, o.id)
       [] o.t = "resolve" -> SResolve(o.chan, 0, o.id, o.how)
       [] o.t = "claimcall" -> SClaimCall(o.hash)
       [] o.t = "evsent" -> SEvSent(0, o.p, o.p, TRUE, o.fee)
       [] o.t = "evfailed" -> SEvFailed(0, o.p)
       [] o.t = "evpathfailed" -> SEvPathFailed(0, o.p, o.p, o.blamed, FALSE, o.path)
       [] o.t = "evother" -> UNCHANGED svars
       [] o.t = "save" -> SSave(0)
       [] o.t = "restart" -> SRestart(0)
       [] o.t = "recent" -> SRecentAfterRestart(0, o.listed)
       [] o.t = "quiet" -> SQuietOK([n \in 0..D |-> IF n = 0 THEN Init0 - paid ELSE Init0], IF o.idle THEN {0} ELSE {}) /\ UNCHANGED svars
  /\ obs' = Tail(obs)
  /\ LET o == Head(obs) IN
     F(IF o.t = "evsent" /\ o.p \in Pids /\ pay[o.p].term = "sent" THEN {"sent-repeated"}
       ELSE IF o.t = "evfailed" /\ o.p \in Pids /\ pay[o.p].term = "failed" /\ pay[o.p].owed = 0 THEN {"failed-repeated"}
       ELSE {})
  /\ UNCHANGED <<dvars, hist, quiet, nops>>

Emit(seq) == obs' = seq /\ UNCHANGED svars

\* ---------------------------------------------------------------- the user
MSend(p, n) ==
  /\ Idle /\ nSend[p] < MaxSend /\ n \in 1..K
  /\ nSend' = [nSend EXCEPT ![p] = @ + 1]
  /\ IF dst[p] \in {"none", "gone"}
     THEN /\ dst' = [dst EXCEPT ![p] = "retry"]
          /\ dparts' = [dparts EXCEPT ![p] = 1..n]
          /\ dn' = [dn EXCEPT ![p] = n]
          /\ ticks' = [ticks EXCEPT ![p] = 0]
          /\ decided' = [decided EXCEPT ![p] = "none"]
          /\ net' = [x \in DOMAIN net |-> IF x[1] = p /\ x[2] <= n
                                          THEN [loc |-> "out", id |-> nextId[x[2]], id2 |-> 0, origin |-> 0]
                                          ELSE IF x[1] = p THEN [net[x] EXCEPT !.loc = "no"] ELSE net[x]]
          /\ nextId' = [c \in DOMAIN nextId |-> IF c <= n THEN nextId[c] + 1 ELSE nextId[c]]
          /\ dirty' = TRUE
          /\ Emit(<<[t |-> "send", p |-> p, n |-> n, res |-> "ok"]>>
                  \o [k \in 1..n |-> [t |-> "add", node |-> 0, chan |-> k, id |-> nextId[k], hash |-> p]])
          /\ UNCHANGED <<evq, saved, paid, nDup, nRestart>>
     ELSE /\ Emit(<<[t |-> "send", p |-> p, n |-> n, res |-> "dup"]>>)
          /\ UNCHANGED <<dst, dparts, dn, evq, ticks, saved, dirty, net, nextId, decided, paid, nDup, nRestart>>
  /\ H([op |-> "send", p |-> p, n |-> n]) /\ quiet' = FALSE /\ F(IF dst[p] \in {"none", "gone"} THEN {} ELSE {"send-refused"})

\* the terminal events: abandon_payment / fail_htlc push PaymentFailed once no part remains
MAbandon(p) ==
  /\ Idle /\ dst[p] = "retry"
  /\ IF dparts[p] = {}
     THEN dst' = [dst EXCEPT ![p] = "gone"] /\ evq' = Append(evq, [k |-> "failed", p |-> p])
     ELSE dst' = [dst EXCEPT ![p] = "aband"] /\ UNCHANGED evq
  /\ UNCHANGED <<svars, obs, dparts, dn, ticks, saved, dirty, net, nextId, decided, paid, nDup, nRestart, nSend>>
  /\ H([op |-> "abandon", p |-> p]) /\ quiet' = FALSE /\ F(IF dparts[p] # {} THEN {"abandon-in-flight"} ELSE {})

MHandle ==
  /\ Idle /\ evq # <<>>
  /\ LET e == Head(evq) IN
     Emit(<<CASE e.k = "sent" -> [t |-> "evsent", p |-> e.p, fee |-> e.fee]
              [] e.k = "failed" -> [t |-> "evfailed", p |-> e.p]
              [] e.k = "pathfailed" -> [t |-> "evpathfailed", p |-> e.p, blamed |-> e.blamed, path |-> e.path]
              [] OTHER -> [t |-> "evother"]>>)
  /\ evq' = Tail(evq)
  /\ UNCHANGED <<dst, dparts, dn, ticks, saved, dirty, net, nextId, decided, paid, nDup, nRestart, nSend>>
  /\ H([op |-> "handle"]) /\ quiet' = FALSE /\ F({})

\* remove_stale_payments
InQueue(p) == \E i \in 1..Len(evq) : evq[i].p = p /\ evq[i].k \in {"sent", "pathok", "pathfailed"}
MTick ==
  /\ Idle /\ \E p \in P : dst[p] = "ful" /\ dparts[p] = {}
  /\ LET stale(p) == dst[p] = "ful" /\ dparts[p] = {} /\ ~InQueue(p) IN
     /\ ticks' = [p \in P |-> IF stale(p) THEN ticks[p] + 1 ELSE IF dst[p] = "ful" THEN 0 ELSE ticks[p]]
     /\ dst' = [p \in P |-> IF stale(p) /\ ticks[p] + 1 > Idem THEN "gone" ELSE dst[p]]
  /\ UNCHANGED <<svars, obs, dparts, dn, evq, saved, dirty, net, nextId, decided, paid, nDup, nRestart, nSend>>
  /\ H([op |-> "tick"]) /\ quiet' = FALSE /\ F({})

MSave ==
  /\ Idle /\ nRestart < MaxRestart
  /\ saved' = [dst |-> dst, dparts |-> dparts, dn |-> dn, evq |-> evq, ticks |-> ticks]
  /\ dirty' = FALSE
  /\ Emit(<<[t |-> "save"]>>)
  /\ UNCHANGED <<dst, dparts, dn, evq, ticks, net, nextId, decided, paid, nDup, nRestart, nSend>>
  /\ H([op |-> "save"]) /\ quiet' = FALSE /\ F({})

\* restart from a snapshot the monitors have not moved past
MRestart ==
  /\ Idle /\ DOMAIN saved # {} /\ ~dirty /\ nRestart < MaxRestart
  /\ dst' = saved.dst /\ dparts' = saved.dparts /\ dn' = saved.dn /\ evq' = saved.evq /\ ticks' = saved.ticks
  /\ net' = [x \in DOMAIN net |-> IF net[x].loc = "dlvFul" THEN [net[x] EXCEPT !.loc = "retFul"]
                                  ELSE IF net[x].loc = "dlvFail" THEN [net[x] EXCEPT !.loc = "retFail"] ELSE net[x]]
  /\ nRestart' = nRestart + 1
  /\ Emit(<<[t |-> "restart"], [t |-> "recent", listed |-> {p \in P : saved.dst[p] \notin {"none", "gone"}}]>>)
  /\ UNCHANGED <<saved, dirty, nextId, decided, paid, nDup, nSend>>
  /\ H([op |-> "restart"]) /\ quiet' = FALSE /\ F(IF saved.evq # <<>> THEN {"restart-with-queued-events"} ELSE {})

\* ---------------------------------------------------------------- the network and the recipient
MArrive(p, k) ==
  /\ Idle /\ net[<<p, k>>].loc = "out"
  /\ net' = [net EXCEPT ![<<p, k>>].loc = "held", ![<<p, k>>].id2 = nextId[K + k]]
  /\ nextId' = [nextId EXCEPT ![K + k] = @ + 1]
  /\ Emit(<<[t |-> "add", node |-> k, chan |-> K + k, id |-> nextId[K + k], hash |-> p]>>)
  /\ dirty' = TRUE      \* the commitment exchange that carries the HTLC to B_k updates A's monitor
  /\ UNCHANGED <<dst, dparts, dn, evq, ticks, saved, decided, paid, nDup, nRestart, nSend>>
  /\ H([op |-> "arrive", p |-> p, k |-> k]) /\ quiet' = FALSE /\ F({})

\* B_k cannot forward (its channel to D is unusable): it fails the part back
MFailHop(p, k) ==
  /\ Idle /\ net[<<p, k>>].loc = "out"
  /\ net' = [net EXCEPT ![<<p, k>>].loc = "retFail", ![<<p, k>>].origin = 1]
  /\ Emit(<<[t |-> "failmsg", chan |-> k, adder |-> 0, id |-> net[<<p, k>>].id]>>)
  /\ dirty' = TRUE
  /\ UNCHANGED <<dst, dparts, dn, evq, ticks, saved, nextId, decided, paid, nDup, nRestart, nSend>>
  /\ H([op |-> "failhop", p |-> p, k |-> k]) /\ quiet' = FALSE /\ F({})

\* D claims: only a complete set of parts (all-or-nothing recipient)
MClaim(p) ==
  /\ Idle /\ decided[p] = "none" /\ dn[p] > 0
  /\ \A k \in 1..dn[p] : net[<<p, k>>].loc = "held"
  /\ decided' = [decided EXCEPT ![p] = "claim"]
  /\ net' = [x \in DOMAIN net |-> IF x[1] = p /\ net[x].loc = "held" THEN [net[x] EXCEPT !.loc = "retFul"] ELSE net[x]]
  /\ Emit(<<[t |-> "claimcall", hash |-> p]>>)
  /\ UNCHANGED <<dst, dparts, dn, evq, ticks, saved, dirty, nextId, paid, nDup, nRestart, nSend>>
  /\ H([op |-> "claim", p |-> p]) /\ quiet' = FALSE /\ F({})

\* D fails back whatever it holds of the payment (fail_htlc_backwards / MPP timeout)
MFailR(p) ==
  /\ Idle /\ decided[p] # "claim"
  /\ \E k \in 1..K : net[<<p, k>>].loc = "held"
  /\ LET ks == {k \in 1..K : net[<<p, k>>].loc = "held"}
         sq == SelectSeq([i \in 1..K |-> i], LAMBDA i : i \in ks)
     IN /\ net' = [x \in DOMAIN net |-> IF x[1] = p /\ x[2] \in ks THEN [net[x] EXCEPT !.loc = "retFail", !.origin = 2] ELSE net[x]]
        /\ Emit([i \in 1..(2 * Len(sq)) |->
                   LET k == sq[(i + 1) \div 2] IN
                   IF i % 2 = 1 THEN [t |-> "failmsg", chan |-> K + k, adder |-> k, id |-> net[<<p, k>>].id2]
                                ELSE [t |-> "failmsg", chan |-> k, adder |-> 0, id |-> net[<<p, k>>].id]])
  /\ UNCHANGED <<dst, dparts, dn, evq, ticks, saved, dirty, nextId, decided, paid, nDup, nRestart, nSend>>
  /\ H([op |-> "failr", p |-> p]) /\ quiet' = FALSE /\ F({})

\* claim_htlc: the first fulfil of a payment that is not yet fulfilled queues PaymentSent
ClaimHtlc(p) ==
  IF dst[p] \in {"retry", "aband"}
  THEN /\ dst' = [dst EXCEPT ![p] = "ful"]
       /\ evq' = Append(evq, [k |-> "sent", p |-> p, fee |-> Fee * Cardinality(dparts[p])])
  ELSE UNCHANGED <<dst, evq>>

\* the resolution of part k is handed to A (update_fulfill_htlc acts at once, update_fail_htlc
\* only when irrevocably committed)
MDeliver(p, k) ==
  /\ Idle /\ net[<<p, k>>].loc \in {"retFul", "retFail"}
  /\ IF net[<<p, k>>].loc = "retFul"
     THEN /\ net' = [net EXCEPT ![<<p, k>>].loc = "dlvFul"]
          /\ ClaimHtlc(p)
          /\ Emit(<<[t |-> "resolve", chan |-> k, id |-> net[<<p, k>>].id, how |-> "ful"]>>)
     ELSE /\ net' = [net EXCEPT ![<<p, k>>].loc = "dlvFail"]
          /\ UNCHANGED <<dst, evq>>
          /\ Emit(<<[t |-> "resolve", chan |-> k, id |-> net[<<p, k>>].id, how |-> "fail"]>>)
  /\ UNCHANGED <<dparts, dn, ticks, saved, dirty, nextId, decided, paid, nDup, nRestart, nSend>>
  /\ H([op |-> "deliver", p |-> p, k |-> k]) /\ quiet' = FALSE /\ F({})

\* the link A - B_k drops before the resolution is committed: B_k hands it over again
MDup(p, k) ==
  /\ Idle /\ nDup < MaxDup /\ net[<<p, k>>].loc \in {"dlvFul", "dlvFail"}
  /\ nDup' = nDup + 1
  /\ IF net[<<p, k>>].loc = "dlvFul"
     THEN ClaimHtlc(p) /\ Emit(<<[t |-> "resolve", chan |-> k, id |-> net[<<p, k>>].id, how |-> "ful"]>>)
     ELSE UNCHANGED <<dst, evq>> /\ Emit(<<[t |-> "resolve", chan |-> k, id |-> net[<<p, k>>].id, how |-> "fail"]>>)
  /\ UNCHANGED <<dparts, dn, ticks, saved, dirty, net, nextId, decided, paid, nRestart, nSend>>
  /\ H([op |-> "dup", p |-> p, k |-> k]) /\ quiet' = FALSE /\ F(IF net[<<p, k>>].loc = "dlvFul" THEN {"dup-fulfil"} ELSE {"dup-fail"})

\* the removal becomes irrevocable: finalize_claims / fail_htlc
Blamed(k, origin) == IF origin = 1 THEN K + k ELSE 0
SentQueued(p) == \E i \in 1..Len(evq) : evq[i].p = p /\ evq[i].k = "sent"
MCommit(p, k) ==
  /\ Idle /\ net[<<p, k>>].loc \in {"dlvFul", "dlvFail"}
  \* the monitor update that makes a fulfil irrevocable is held back until the user has handled PaymentSent
  /\ net[<<p, k>>].loc = "dlvFul" => ~SentQueued(p)
  /\ net' = [net EXCEPT ![<<p, k>>].loc = "done"]
  /\ dirty' = TRUE
  /\ IF net[<<p, k>>].loc = "dlvFul"
     THEN /\ paid' = paid + Amt + Fee
          /\ IF k \in dparts[p] /\ dst[p] = "ful"
             THEN dparts' = [dparts EXCEPT ![p] = @ \ {k}] /\ evq' = Append(evq, [k |-> "pathok", p |-> p])
             ELSE UNCHANGED <<dparts, evq>>
          /\ UNCHANGED dst
     ELSE /\ UNCHANGED paid
          /\ IF k \notin dparts[p] \/ dst[p] \in {"none", "gone"} THEN UNCHANGED <<dparts, evq, dst>>
             ELSE IF dst[p] = "ful" THEN dparts' = [dparts EXCEPT ![p] = @ \ {k}] /\ UNCHANGED <<evq, dst>>
             ELSE LET left == dparts[p] \ {k}
                      pf == [k |-> "pathfailed", p |-> p, blamed |-> Blamed(k, net[<<p, k>>].origin), path |-> Path(k)]
                  IN /\ dparts' = [dparts EXCEPT ![p] = left]
                     /\ IF left = {}
                        THEN dst' = [dst EXCEPT ![p] = "gone"] /\ evq' = evq \o <<pf, [k |-> "failed", p |-> p]>>
                        ELSE dst' = [dst EXCEPT ![p] = "aband"] /\ evq' = Append(evq, pf)
  /\ UNCHANGED <<svars, obs, dn, ticks, saved, nextId, decided, nDup, nRestart, nSend>>
  /\ H([op |-> "commit", p |-> p, k |-> k]) /\ quiet' = FALSE /\ F({})

\* every link up and empty, every event handled
Moving == \E x \in DOMAIN net : net[x].loc \in {"out", "retFul", "retFail", "dlvFul", "dlvFail"}
MQuiet ==
  /\ Idle /\ evq = <<>> /\ ~Moving /\ ~quiet /\ hist # <<>>
  /\ Emit(<<[t |-> "quiet", idle |-> \A x \in DOMAIN net : net[x].loc \in {"no", "done"}]>>)
  /\ quiet' = TRUE
  /\ UNCHANGED <<dvars, hist, nops, feat>>

MDone == quiet /\ Idle /\ UNCHANGED mvars

MCNext ==
  \/ MObs
  \/ \E p \in P, n \in 1..K : MSend(p, n)
  \/ \E p \in P : MAbandon(p) \/ MClaim(p) \/ MFailR(p)
  \/ MHandle \/ MTick \/ MSave \/ MRestart
  \/ \E p \in P, k \in 1..K : MArrive(p, k) \/ MFailHop(p, k) \/ MDeliver(p, k) \/ MDup(p, k) \/ MCommit(p, k)
  \/ MQuiet \/ MDone

MCSpec == MCInit /\ [][MCNext]_mvars

Bound == nops <= MaxOps
View == <<svars, dvars, obs, quiet, nops, feat>>

\* the design never needs a second terminal event and never forgets one (redundant with the
\* guards of PaySend, stated on the design state for readability of counterexamples)
DesignSane == \A p \in P : (dst[p] \in {"none", "gone"}) => dparts[p] = {}

EmitScripts == (quiet /\ Idle /\ Len(hist) > 3) => PrintT(<<"SCRIPT", ToJson([k |-> K, ops |-> hist, feat |-> feat])>>)
=============================================================================
