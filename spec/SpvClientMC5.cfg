SPECIFICATION MCSpec
CONSTANTS
  MaxListeners = 3
  NB = 5
  MaxOps = 3
  EmitEvery = 1
  LieMode = FALSE
  SyncListeners = 0
CONSTRAINT Bound
VIEW View
INVARIANT TipAgreement
INVARIANT ListenerOnTree
INVARIANT EmitScripts
CHECK_DEADLOCK TRUE
