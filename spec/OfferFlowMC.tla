---------------------------- MODULE OfferFlowMC ----------------------------
(***************************************************************************)
(* Design model of the BOLT-12 payer / payee at the granularity of the     *)
(* code (ln/outbound_payment.rs: AwaitingInvoice -> InvoiceReceived ->     *)
(* Retryable -> Fulfilled / Abandoned, StaleExpiration::TimerTicks,        *)
(* RetryableInvoiceRequest.needs_retry; ln/channelmanager.rs:              *)
(* pay_for_offer_intern, the OffersMessageHandler impl, message_received;  *)
(* offers/flow.rs: enqueue_invoice_request, verify_invoice_request),       *)
(* composed with the observable specification OfferFlow: every step        *)
(* appends the observations it causes to `obs`; `MObs` feeds them one by   *)
(* one to the guards of OfferFlow.  An observation whose guard does not    *)
(* hold leaves the model without successor: TLC reports a deadlock         *)
(* (CHECK_DEADLOCK TRUE) with the offending behaviour.                     *)
(*                                                                         *)
(* Two nodes: payee 0 (issuer of offer 1; offer 2 is an altered copy of     *)
(* it), payer 1.  The NETWORK owns every onion message: `msgs` keeps each  *)
(* message that left a node; it may be delivered (and kept, to be          *)
(* delivered again: duplication / replay), in any order, or dropped.       *)
(* Details transcribed from the code:                                      *)
(*  - pay_for_offer_intern refuses a payment id that is in use before it   *)
(*    builds or enqueues anything: a refused call sends no invoice request *)
(*    (it did once: the request carried the pending id and its invoice was *)
(*    paid under that id -- Bug "dup_sends_request"); the scripts still    *)
(*    try to hand over the request / invoice of every refused call, which  *)
(*    may name another offer (offer 3: the payee's own, another amount);   *)
(*  - needs_retry is true from creation: the first message_received after  *)
(*    the call sends the request once more, later ones do not; a manager   *)
(*    restored from a snapshot that has needs_retry set does so again;     *)
(*  - TimerTicks(n): remove_stale_payments decrements while n > 0, fails   *)
(*    the id with InvoiceRequestExpired at the call that finds 0;          *)
(*  - handle_message(Invoice): mark_invoice_received + InvoiceReceived     *)
(*    event if manually_handle_bolt12_invoices, else pay; an invoice for   *)
(*    an id that is not awaiting is ignored (DuplicateInvoice /            *)
(*    UnexpectedInvoice); handle_message(InvoiceError) abandons the id of  *)
(*    the reply path's context with InvoiceRequestRejected;                *)
(*  - abandon_payment on AwaitingInvoice / InvoiceReceived removes the id  *)
(*    and queues PaymentFailed at once.                                    *)
(*  - Stale = TRUE: ChannelManager::read with a manager snapshot the        *)
(*    monitors have overtaken closes the channel; an HTLC found in the      *)
(*    monitor is taken up by its payment (insert_from_monitor_on_startup:   *)
(*    AwaitingInvoice / InvoiceReceived / unknown -> Retryable); the        *)
(*    commitment confirms, the HTLC output is claimed or times out.         *)
(* Retry::Attempts(0), one HTLC per payment (direct channel).              *)
(* Bug # "none" plants a defect (spec mutants: TLC must refute them).      *)
(***************************************************************************)
EXTENDS OfferFlow, Json

CONSTANTS NP,          \* payment ids 1..NP of the payer
          Manual,      \* the payer's user handles invoices itself (manually_handle_bolt12_invoices)
          Hold,        \* the payer's user handles events only when the script says so
          Offs,        \* offers a call may name: 1 (the payee's own), 2 (an altered copy), 3 (the payee's own, another amount)
          MaxPay,      \* pay_for_offer calls per id
          MaxKeep,     \* deliveries after which the network keeps a copy (duplicates)
          MaxTick, MaxRestart, MaxSave, MaxAband, MaxErr, MaxMsgRecv, MaxSend,
          MaxOps,      \* bound on the script length
          MinOps,      \* behaviours shorter than this are not printed (they are prefixes of printed ones)
          Idem,        \* IDEMPOTENCY_TIMEOUT_TICKS of the model
          CodeTicks,   \* n of StaleExpiration::TimerTicks(n) in pay_for_offer (the check instantiates it from the source)
          Stale,       \* restarts from a snapshot the monitors have overtaken
          Bug          \* "none" | "dup_await" | "second_invoice" | "early_expiry" | "abandon_silent" | "err_other"
                       \* | "late_invoice" | "answer_altered" | "manual_autopay" | "stale_not_taken" | "dup_sends_request"

VARIABLES dst,       \* [p -> "none" | "await" | "invrecv" | "retry" | "ful" | "aband" | "gone"]
          exp,       \* [p -> timer ticks remaining]      (StaleExpiration::TimerTicks)
          retry,     \* [p -> needs_retry]
          flag,      \* OutboundPayments::awaiting_invoice
          dhash,     \* [p -> payment hash of InvoiceReceived / Retryable]
          ftick,     \* [p -> timer_ticks_without_htlcs]
          acall,     \* [p -> the call that was accepted]
          areason,   \* [p -> reason given when the id was abandoned with its HTLC in flight]
          evq,       \* the payer's event queue
          dgen,      \* [p -> number of accepted calls the manager knows of]  (which use of an id an event belongs to)
          shown,     \* [p -> hashes of the invoices the payer's user was shown, in order]
          msgs,      \* every onion message that left a node: [kind, c, p, h, st, n]   st: "held" | "gone" | "dropped"
          ncall, calls,   \* calls[c] = [p, off, acc]
          nhash,     \* payment hashes handed out by the payee
          hts,       \* HTLCs of the payer: [p, h, id, loc]   loc: "out" | "done"
          reqGot,    \* calls whose request was handed to the payee
          erred,     \* calls the payee's user rejected
          saved, dirty, failedSince, listedAtSave,
          closed,    \* a restart from a snapshot the monitors had overtaken closed the channel
          confirmed, \* ... and its commitment transaction has confirmed
          sentSince, \* the user handled a PaymentSent since the last snapshot
          nPay, nKeep, nTick, nRestart, nAband, nErr, nMsgRecv, nSend, nSave,
          obs, hist, quiet, nops, feat

dvars == <<dst, exp, retry, flag, dhash, ftick, acall, areason, evq, dgen, shown, msgs, ncall, calls, nhash, hts, reqGot, erred,
           saved, dirty, failedSince, listedAtSave, closed, confirmed, sentSince, nPay, nKeep, nTick, nRestart, nAband, nErr, nMsgRecv, nSend, nSave>>
mvars == <<ovars, dvars, obs, hist, quiet, nops, feat>>

P == 1..NP
A == 1000
AmtOf(o) == IF o = 1 THEN A ELSE IF o = 2 THEN A + 1 ELSE 2 * A
OkOffer(o) == o # 2
Payer == 1
Payee == 0

MCInit ==
  /\ OInit
  /\ dst = [p \in P |-> "none"] /\ exp = [p \in P |-> 0] /\ retry = [p \in P |-> FALSE] /\ flag = FALSE
  /\ dhash = [p \in P |-> 0] /\ ftick = [p \in P |-> 0] /\ acall = [p \in P |-> 0] /\ areason = [p \in P |-> "UserAbandoned"]
  /\ evq = <<>> /\ dgen = [p \in P |-> 0] /\ shown = [p \in P |-> <<>>] /\ msgs = <<>> /\ ncall = 0 /\ calls = <<>> /\ nhash = 0 /\ hts = <<>>
  /\ reqGot = {} /\ erred = {}
  /\ saved = <<>> /\ dirty = FALSE /\ failedSince = {} /\ listedAtSave = {} /\ closed = FALSE /\ confirmed = FALSE /\ sentSince = FALSE
  /\ nPay = [p \in P |-> 0] /\ nKeep = 0 /\ nTick = 0 /\ nRestart = 0 /\ nAband = 0 /\ nErr = 0 /\ nMsgRecv = 0 /\ nSend = 0 /\ nSave = 0
  /\ obs = <<[t |-> "open"]>> /\ hist = <<>> /\ quiet = FALSE /\ nops = 0 /\ feat = {}

H(ops) == hist' = hist \o ops /\ nops' = nops + 1
F(S) == feat' = feat \cup S
Idle == obs = <<>>
MaxOf(S) == CHOOSE x \in S : \A y \in S : y <= x

\* the offer named by the call whose request the invoice with hash h answers
OffOfHash(h) == calls[CHOOSE c \in DOMAIN calls : \E i \in 1..Len(msgs) : msgs[i].kind = "invoice" /\ msgs[i].h = h /\ msgs[i].c = c].off

\* ---------------------------------------------------------------- observations -> OfferFlow
MObs ==
  /\ obs # <<>>
  /\ LET o == Head(obs) IN
     CASE o.t = "open" -> OOpen({Payee, Payer}, Idem)
       [] o.t = "pay" -> OPay(o.c, Payer, o.p, "offer", o.off, AmtOf(o.off), OkOffer(o.off), Manual, o.handled, o.res)
       [] o.t = "reqdel" -> OReqDelivered(Payee, o.c)
       [] o.t = "invout" -> OInvoiceOut(Payee, o.c, o.h, AmtOf(calls[o.c].off), calls[o.c].off)
       [] o.t = "invdel" -> OInvoiceDelivered(Payer, o.c, o.h, AmtOf(calls[o.c].off), calls[o.c].off)
       [] o.t = "errdel" -> OErrDelivered(Payer, o.p)
       [] o.t = "sendinv" -> OSendInv(Payer, o.p, o.h, o.res)
       [] o.t = "abandon" -> OAbandon(Payer, o.p)
       [] o.t = "tick" -> OTick(Payer)
       [] o.t = "add" -> OAdd(Payer, 1, o.id, o.h, AmtOf(OffOfHash(o.h)))
       [] o.t = "gotadd" -> OGotAdd(Payee, o.h)
       [] o.t = "claimable" -> OClaimable(Payee, o.h, o.amt, o.off, "offer")
       [] o.t = "claimcall" -> OClaimCall(o.h)
       [] o.t = "resolve" -> OResolve(1, Payer, o.id, o.how)
       [] o.t = "evsent" -> OEvSent(Payer, o.p, o.h, TRUE)
       \* (OfferFlow leaves open whether a PaymentFailed closes an earlier use of the id or the present one; the design knows)
       [] o.t = "evfailed" -> OEvFailed(Payer, o.p, o.reason) /\ ((pay'[o.p].owed < pay[o.p].owed) <=> o.old)
       [] o.t = "evinv" -> OEvInvoiceReceived(Payer, o.p, o.h)
       [] o.t = "chaincommit" -> OChainCommit(1, o.outs)
       [] o.t = "chainhtlc" -> OChainHtlc(1, o.h, o.preimage)
       [] o.t = "save" -> OSave(Payer)
       [] o.t = "restart" -> ORestart(Payer)
       [] o.t = "recent" -> ORecentAfterRestart(Payer, o.listed)
       [] o.t = "quiet" -> OQuietOK /\ UNCHANGED ovars
  /\ obs' = Tail(obs)
  /\ LET o == Head(obs) IN
     F(IF o.t = "evfailed" /\ o.p \in Pids /\ pay[o.p].term = "failed" /\ pay[o.p].owed = 0 THEN {"failed-repeated"}
       ELSE IF o.t = "evsent" /\ o.p \in Pids /\ pay[o.p].term = "sent" THEN {"sent-repeated"}
       ELSE {})
  /\ UNCHANGED <<dvars, hist, quiet, nops>>

\* ---------------------------------------------------------------- events
EvObs(e) == CASE e.k = "sent" -> [t |-> "evsent", p |-> e.p, h |-> e.h]
              [] e.k = "failed" -> [t |-> "evfailed", p |-> e.p, reason |-> e.reason, old |-> e.g < dgen[e.p]]
              [] e.k = "invrecv" -> [t |-> "evinv", p |-> e.p, h |-> e.h]
EvsObs(es) == [i \in 1..Len(es) |-> EvObs(es[i])]
\* the user is shown the events at once (not Hold) or when it asks (MHandle); what it learns from them
Shown(sh, es) == [p \in P |-> sh[p] \o SelectSeq([i \in 1..Len(es) |-> IF es[i].k = "invrecv" /\ es[i].p = p THEN es[i].h ELSE 0], LAMBDA x : x # 0)]
FailedIn(es) == {es[i].p : i \in {j \in 1..Len(es) : es[j].k = "failed"}}
\* observations `pre`, then the new events `es` (handled at once unless Hold)
SentIn(es) == \E i \in 1..Len(es) : es[i].k = "sent"
Out(pre, es) ==
  IF Hold THEN /\ obs' = pre /\ evq' = evq \o es /\ UNCHANGED <<shown, failedSince, sentSince>>
          ELSE /\ obs' = pre \o EvsObs(es) /\ evq' = evq /\ shown' = Shown(shown, es) /\ failedSince' = failedSince \cup FailedIn(es)
               /\ sentSince' = (sentSince \/ SentIn(es))
Failed(p, r) == [k |-> "failed", p |-> p, reason |-> r, h |-> 0, g |-> dgen[p]]

\* ---------------------------------------------------------------- the network's view of the messages
Held(i) == i \in 1..Len(msgs) /\ msgs[i].st = "held"
SameFlow(i, j) == msgs[i].kind = msgs[j].kind /\ (IF msgs[i].kind = "inverr" THEN msgs[i].p = msgs[j].p ELSE msgs[i].c = msgs[j].c)
Ord(i) == Cardinality({j \in 1..(i - 1) : Held(j) /\ SameFlow(i, j)})
Taken(i, keep) == [msgs EXCEPT ![i].st = IF keep THEN "held" ELSE "gone", ![i].n = @ + 1]
DeliverOp(i, keep) == IF msgs[i].kind = "inverr"
                      THEN [op |-> "deliver", kind |-> "inverr", payer |-> Payer, id |-> msgs[i].p, n |-> Ord(i), keep |-> keep]
                      ELSE [op |-> "deliver", kind |-> msgs[i].kind, call |-> msgs[i].c, n |-> Ord(i), keep |-> keep]
NewMsg(kind, c, p, h) == [kind |-> kind, c |-> c, p |-> p, h |-> h, st |-> "held", n |-> 0]
KeepOK(keep) == keep => nKeep < MaxKeep

\* ---------------------------------------------------------------- the payer's user
MPay(p, o) ==
  /\ Idle /\ nPay[p] < MaxPay /\ o \in Offs
  /\ LET c == ncall + 1
         accepted == dst[p] \in {"none", "gone"} \/ (Bug = "dup_await" /\ dst[p] = "await")
         sends == accepted \/ Bug = "dup_sends_request"
     IN
     \* (an id that is used AGAIN after an earlier use ended names the same offer: an invoice answering a request of the earlier
     \* use is indistinguishable for the payer -- the library asks for a new payment id to retry; a call that is refused may
     \* name any offer: it must have no effect)
     /\ accepted => \A c0 \in DOMAIN calls : (calls[c0].p = p /\ calls[c0].acc) => calls[c0].off = o
     \* (canonical: offer 3 is the one refused calls name)
     /\ (o = 3) = (~accepted /\ 3 \in Offs)
     /\ ncall' = c /\ calls' = Put(calls, c, [p |-> p, off |-> o, acc |-> accepted])
     /\ nPay' = [nPay EXCEPT ![p] = @ + 1]
     /\ msgs' = IF sends THEN Append(msgs, NewMsg("invreq", c, p, 0)) ELSE msgs
     /\ IF accepted
        THEN /\ dst' = [dst EXCEPT ![p] = "await"]
             /\ exp' = [exp EXCEPT ![p] = IF Bug = "early_expiry" THEN CodeTicks - 1 ELSE CodeTicks]
             /\ retry' = [retry EXCEPT ![p] = TRUE] /\ flag' = TRUE
             /\ dhash' = [dhash EXCEPT ![p] = 0] /\ ftick' = [ftick EXCEPT ![p] = 0] /\ acall' = [acall EXCEPT ![p] = c]
             /\ dgen' = [dgen EXCEPT ![p] = @ + 1]
        ELSE UNCHANGED <<dst, exp, retry, flag, dhash, ftick, acall, dgen>>
     /\ obs' = <<[t |-> "pay", c |-> c, p |-> p, off |-> o, handled |-> evq = <<>>, res |-> IF accepted THEN "ok" ELSE "dup"]>>
     \* the network tries to hand over whatever a refused call may have sent (nothing, if the call had no effect)
     /\ H(<<[op |-> "pay", node |-> Payer, id |-> p, off |-> o]>>
          \o (IF accepted \/ Bug = "dup_sends_request" THEN <<>>
              ELSE <<[op |-> "deliver", kind |-> "invreq", call |-> c, n |-> 0, keep |-> FALSE],
                     [op |-> "deliver", kind |-> "invoice", call |-> c, n |-> 0, keep |-> FALSE]>>))
     /\ F((IF accepted THEN {} ELSE {"pay-refused"}) \cup (IF accepted /\ dst[p] = "gone" THEN {"id-reused"} ELSE {})
          \cup (IF ~accepted /\ dst[p] = "ful" THEN {"refused-fulfilled"} ELSE {})
          \cup (IF ~accepted /\ \E c0 \in DOMAIN calls : calls[c0].p = p /\ calls[c0].acc /\ calls[c0].off # o THEN {"refused-call-other-offer"} ELSE {}))
  /\ quiet' = FALSE
  /\ UNCHANGED <<areason, evq, shown, nhash, hts, reqGot, erred, saved, dirty, failedSince, listedAtSave, nKeep, nTick, nRestart, nAband, nErr, nMsgRecv, nSend, nSave, closed, confirmed, sentSince, ovars>>

\* ChannelMessageHandler::message_received: release_invoice_requests_awaiting_invoice
MMsgRecv ==
  /\ Idle /\ flag /\ nMsgRecv < MaxMsgRecv /\ \E p \in P : dst[p] = "await" /\ retry[p]
  /\ LET ps == {p \in P : dst[p] = "await" /\ retry[p]}
         sq == SelectSeq([i \in 1..NP |-> i], LAMBDA p : p \in ps)
     IN msgs' = msgs \o [i \in 1..Len(sq) |-> NewMsg("invreq", acall[sq[i]], sq[i], 0)]
  /\ retry' = [p \in P |-> IF dst[p] = "await" THEN FALSE ELSE retry[p]]
  /\ flag' = FALSE /\ nMsgRecv' = nMsgRecv + 1
  /\ obs' = <<>>
  /\ H(<<[op |-> "msgrecv", node |-> Payer]>>) /\ F({"retransmit"}) /\ quiet' = FALSE
  /\ UNCHANGED <<dst, exp, dhash, ftick, acall, areason, evq, shown, ncall, calls, nhash, hts, reqGot, erred, saved, dirty, failedSince, listedAtSave,
                 nPay, nKeep, nTick, nRestart, nAband, nErr, nSend, nSave, dgen, closed, confirmed, sentSince, ovars>>

\* abandon_payment / abandon_payment_with_reason
AbandonTo(p, r) ==      \* -> [dst, evs, reason]
  IF dst[p] \in {"await", "invrecv"}
  THEN [dst |-> "gone", evs |-> IF Bug = "abandon_silent" /\ dst[p] = "await" /\ r = "UserAbandoned" THEN <<>> ELSE <<Failed(p, r)>>]
  ELSE IF dst[p] = "retry" THEN [dst |-> "aband", evs |-> <<>>]
  ELSE [dst |-> dst[p], evs |-> <<>>]

MAbandon(p) ==
  /\ Idle /\ nAband < MaxAband /\ dst[p] \in {"await", "invrecv", "retry"}
  /\ LET r == AbandonTo(p, "UserAbandoned") IN
     /\ dst' = [dst EXCEPT ![p] = r.dst]
     /\ areason' = [areason EXCEPT ![p] = "UserAbandoned"]
     /\ Out(<<[t |-> "abandon", p |-> p]>>, r.evs)
  /\ nAband' = nAband + 1
  /\ H(<<[op |-> "abandon", node |-> Payer, id |-> p]>>) /\ quiet' = FALSE
  /\ F(IF dst[p] = "retry" THEN {"abandon-in-flight"} ELSE IF dst[p] = "invrecv" THEN {"abandon-invoice-received"} ELSE {"abandon-awaiting"})
  /\ UNCHANGED <<exp, retry, flag, dhash, ftick, acall, msgs, ncall, calls, nhash, hts, reqGot, erred, saved, dirty, listedAtSave,
                 nPay, nKeep, nTick, nRestart, nErr, nMsgRecv, nSend, nSave, dgen, closed, confirmed, ovars>>

\* remove_stale_payments
SentQueued(p) == \E i \in 1..Len(evq) : evq[i].p = p /\ evq[i].k = "sent"
HtlcLive(p) == \E x \in 1..Len(hts) : hts[x].p = p /\ hts[x].loc # "done"
MTick ==
  /\ Idle /\ nTick < MaxTick /\ \E p \in P : dst[p] \in {"await", "ful"}
  /\ LET stale(p) == dst[p] = "await" /\ exp[p] = 0
         old(p) == dst[p] = "ful" /\ ~HtlcLive(p) /\ ~SentQueued(p)
         sq == SelectSeq([i \in 1..NP |-> i], LAMBDA p : stale(p))
     IN
     /\ exp' = [p \in P |-> IF dst[p] = "await" /\ exp[p] > 0 THEN exp[p] - 1 ELSE exp[p]]
     /\ ftick' = [p \in P |-> IF old(p) THEN ftick[p] + 1 ELSE IF dst[p] = "ful" THEN 0 ELSE ftick[p]]
     /\ dst' = [p \in P |-> IF stale(p) THEN "gone" ELSE IF old(p) /\ ftick[p] + 1 > Idem THEN "gone" ELSE dst[p]]
     /\ Out(<<[t |-> "tick"]>>, [i \in 1..Len(sq) |-> Failed(sq[i], "InvoiceRequestExpired")])
     /\ F((IF \E p \in P : stale(p) THEN {"expired"} ELSE {}) \cup (IF \E p \in P : old(p) /\ ftick[p] + 1 > Idem THEN {"idempotency-over"} ELSE {}))
  /\ nTick' = nTick + 1
  /\ H(<<[op |-> "tick", node |-> Payer]>>) /\ quiet' = FALSE
  /\ UNCHANGED <<retry, flag, dhash, acall, areason, msgs, ncall, calls, nhash, hts, reqGot, erred, saved, dirty, listedAtSave,
                 nPay, nKeep, nRestart, nAband, nErr, nMsgRecv, nSend, nSave, dgen, closed, confirmed, ovars>>

MHandle ==
  /\ Hold /\ Idle /\ evq # <<>>
  /\ obs' = EvsObs(evq) /\ evq' = <<>>
  /\ shown' = Shown(shown, evq) /\ failedSince' = failedSince \cup FailedIn(evq) /\ sentSince' = (sentSince \/ SentIn(evq))
  /\ H(<<[op |-> "handle", node |-> Payer]>>) /\ quiet' = FALSE /\ F({})
  /\ UNCHANGED <<dst, exp, retry, flag, dhash, ftick, acall, areason, msgs, ncall, calls, nhash, hts, reqGot, erred, saved, dirty, listedAtSave,
                 nPay, nKeep, nTick, nRestart, nAband, nErr, nMsgRecv, nSend, nSave, dgen, closed, confirmed, ovars>>

\* ---------------------------------------------------------------- the network hands over / drops a message
\* an invoice request reaches the payee: verify_invoice_request, then an invoice with a fresh payment hash
MDeliverReq(i, keep) ==
  /\ Idle /\ Held(i) /\ msgs[i].kind = "invreq" /\ KeepOK(keep)
  /\ LET c == msgs[i].c
         good == OkOffer(calls[c].off) \/ Bug = "answer_altered"
         h == nhash + 1
     IN
     /\ reqGot' = reqGot \cup {c}
     /\ IF good
        THEN /\ nhash' = h
             /\ msgs' = Append(Taken(i, keep), NewMsg("invoice", c, msgs[i].p, h))
             /\ obs' = <<[t |-> "reqdel", c |-> c], [t |-> "invout", c |-> c, h |-> h]>>
        ELSE /\ UNCHANGED nhash /\ msgs' = Taken(i, keep)
             /\ obs' = <<[t |-> "reqdel", c |-> c]>>
     /\ F((IF msgs[i].n > 0 THEN {"request-twice"} ELSE {}) \cup (IF good THEN {} ELSE {"altered-offer-unanswered"}))
  /\ nKeep' = IF keep THEN nKeep + 1 ELSE nKeep
  /\ H(<<DeliverOp(i, keep)>>) /\ quiet' = FALSE
  /\ UNCHANGED <<dst, exp, retry, flag, dhash, ftick, acall, areason, evq, shown, ncall, calls, hts, erred, saved, dirty, failedSince, listedAtSave,
                 nPay, nTick, nRestart, nAband, nErr, nMsgRecv, nSend, nSave, dgen, closed, confirmed, sentSince, ovars>>

\* the payee's user rejects the newest request of id p it was handed: an invoice_error over the request's reply path
MInvErr(p) ==
  /\ Idle /\ nErr < MaxErr /\ \E c \in reqGot : calls[c].p = p
  /\ LET c == MaxOf({x \in reqGot : calls[x].p = p}) IN
     /\ c \notin erred
     /\ erred' = erred \cup {c}
     /\ msgs' = Append(msgs, NewMsg("inverr", c, p, 0))
  /\ nErr' = nErr + 1 /\ obs' = <<>>
  /\ H(<<[op |-> "inverr", payer |-> Payer, id |-> p]>>) /\ quiet' = FALSE /\ F({})
  /\ UNCHANGED <<dst, exp, retry, flag, dhash, ftick, acall, areason, evq, shown, ncall, calls, nhash, hts, reqGot, saved, dirty, failedSince, listedAtSave,
                 nPay, nKeep, nTick, nRestart, nAband, nMsgRecv, nSend, nSave, dgen, closed, confirmed, sentSince, ovars>>

\* handle_message(InvoiceError): the id named by the context of the reply path is abandoned
MDeliverErr(i, keep) ==
  /\ Idle /\ Held(i) /\ msgs[i].kind = "inverr" /\ KeepOK(keep)
  /\ LET p == msgs[i].p
         q == IF Bug = "err_other" /\ NP > 1 THEN (IF p = 1 THEN 2 ELSE 1) ELSE p
         r == AbandonTo(q, "InvoiceRequestRejected")
     IN
     /\ dst' = [dst EXCEPT ![q] = r.dst]
     /\ areason' = [areason EXCEPT ![q] = IF dst[q] = "retry" THEN "InvoiceRequestRejected" ELSE @]
     /\ Out(<<[t |-> "errdel", p |-> p]>>, r.evs)
     /\ F(IF dst[q] \in {"await", "invrecv"} THEN {"rejected"} ELSE IF dst[q] = "retry" THEN {"rejected-in-flight"} ELSE {"error-ignored"})
  /\ msgs' = Taken(i, keep)
  /\ nKeep' = IF keep THEN nKeep + 1 ELSE nKeep
  /\ H(<<DeliverOp(i, keep)>>) /\ quiet' = FALSE
  /\ UNCHANGED <<exp, retry, flag, dhash, ftick, acall, ncall, calls, nhash, hts, reqGot, erred, saved, dirty, listedAtSave,
                 nPay, nTick, nRestart, nAband, nErr, nMsgRecv, nSend, nSave, dgen, closed, confirmed, ovars>>

\* a new HTLC of id p for hash h leaves the payer
NextHtlcId == Len(hts)
SendHtlc(p, h) == hts' = Append(hts, [p |-> p, h |-> h, id |-> NextHtlcId, loc |-> "out"])
AddObs(p, h) == [t |-> "add", p |-> p, id |-> NextHtlcId, h |-> h]

\* handle_message(Invoice)
MDeliverInv(i, keep) ==
  /\ Idle /\ Held(i) /\ msgs[i].kind = "invoice" /\ KeepOK(keep)
  /\ LET p == msgs[i].p
         h == msgs[i].h
         c == msgs[i].c
         pre == <<[t |-> "invdel", c |-> c, h |-> h]>>
         pays == IF Manual /\ Bug # "manual_autopay" THEN FALSE
                 ELSE \/ dst[p] \in {"await", "invrecv"}
                      \/ Bug = "second_invoice" /\ dst[p] = "retry" /\ h # dhash[p]
                      \/ Bug = "late_invoice" /\ dst[p] = "gone"
     IN
     IF pays /\ closed
     THEN \* no route any more: find_initial_route fails, the id is abandoned with RouteNotFound
          /\ dst' = [dst EXCEPT ![p] = "gone"] /\ Out(pre, <<Failed(p, "RouteNotFound")>>)
          /\ F({"no-route"}) /\ UNCHANGED <<dhash, hts, dirty>>
     ELSE IF pays
     THEN /\ dst' = [dst EXCEPT ![p] = "retry"] /\ dhash' = [dhash EXCEPT ![p] = h]
          /\ SendHtlc(p, h) /\ dirty' = TRUE
          /\ Out(pre \o <<AddObs(p, h)>>, <<>>)
          /\ F({"paid"} \cup (IF msgs[i].n > 0 THEN {"invoice-twice"} ELSE {}))
     ELSE IF Manual /\ dst[p] = "await"
     THEN /\ dst' = [dst EXCEPT ![p] = "invrecv"] /\ dhash' = [dhash EXCEPT ![p] = h]
          /\ Out(pre, <<[k |-> "invrecv", p |-> p, h |-> h, reason |-> "", g |-> dgen[p]]>>)
          /\ F({"invoice-shown"}) /\ UNCHANGED <<hts, dirty>>
     ELSE /\ Out(pre, <<>>) /\ UNCHANGED <<dst, dhash, hts, dirty>>
          /\ F((IF dst[p] \in {"retry", "aband"} THEN {"invoice-while-in-flight"} ELSE IF dst[p] = "ful" THEN {"invoice-after-sent"}
                ELSE IF dst[p] = "gone" THEN {"invoice-for-gone-id"} ELSE IF dst[p] = "invrecv" THEN {"second-invoice-not-shown"} ELSE {})
               \cup (IF msgs[i].n > 0 THEN {"invoice-twice"} ELSE {}))
  /\ msgs' = Taken(i, keep)
  /\ nKeep' = IF keep THEN nKeep + 1 ELSE nKeep
  /\ H(<<DeliverOp(i, keep)>>) /\ quiet' = FALSE
  /\ UNCHANGED <<exp, retry, flag, ftick, acall, areason, ncall, calls, nhash, reqGot, erred, saved, listedAtSave,
                 nPay, nTick, nRestart, nAband, nErr, nMsgRecv, nSend, nSave, dgen, closed, confirmed, ovars>>

\* send_payment_for_bolt12_invoice with the j-th invoice the user was shown for id p
MSendInv(p, j) ==
  /\ Manual /\ Idle /\ nSend < MaxSend /\ j \in 1..Len(shown[p])
  /\ LET h == shown[p][j]
         res == IF dst[p] \in {"await", "invrecv"} THEN "ok" ELSE IF dst[p] \in {"retry", "ful", "aband"} THEN "dup" ELSE "unexpected"
         pre == <<[t |-> "sendinv", p |-> p, h |-> h, res |-> res]>>
     IN IF res = "ok" /\ closed
        THEN /\ dst' = [dst EXCEPT ![p] = "gone"]
             /\ Out(<<[t |-> "sendinv", p |-> p, h |-> h, res |-> "err"]>>, <<Failed(p, "RouteNotFound")>>)
             /\ F({"no-route"}) /\ UNCHANGED <<dhash, hts, dirty>>
        ELSE IF res = "ok"
        THEN /\ dst' = [dst EXCEPT ![p] = "retry"] /\ dhash' = [dhash EXCEPT ![p] = h]
             /\ SendHtlc(p, h) /\ dirty' = TRUE
             /\ Out(pre \o <<AddObs(p, h)>>, <<>>) /\ F({"paid-by-user"})
        ELSE /\ Out(pre, <<>>) /\ UNCHANGED <<dst, dhash, hts, dirty>> /\ F({"sendinv-" \o res})
  /\ nSend' = nSend + 1
  /\ H(<<[op |-> "sendinv", node |-> Payer, id |-> p, which |-> j - 1]>>) /\ quiet' = FALSE
  /\ UNCHANGED <<exp, retry, flag, ftick, acall, areason, msgs, ncall, calls, nhash, reqGot, erred, saved, listedAtSave,
                 nPay, nKeep, nTick, nRestart, nAband, nErr, nMsgRecv, nSave, dgen, closed, confirmed, ovars>>

\* ---------------------------------------------------------------- the HTLC: offered, shown to the payee's user, claimed / failed back
\* how the payer learns of the resolution of HTLC x: by message, or -- the channel was closed -- from the chain: the
\* commitment transaction confirms (once), then the spend of the HTLC output, with the preimage or without
Res(x, ful) ==
  IF ~closed THEN <<[t |-> "resolve", id |-> hts[x].id, how |-> IF ful THEN "ful" ELSE "fail"]>>
  ELSE (IF confirmed THEN <<>> ELSE <<[t |-> "chaincommit", outs |-> {AmtOf(calls[acall[hts[y].p]].off) \div 1000 : y \in {z \in 1..Len(hts) : hts[z].loc = "out"}}]>>)
       \o <<[t |-> "chainhtlc", h |-> hts[x].h, preimage |-> ful]>>
MResolve(x, claim) ==
  /\ Idle /\ x \in 1..Len(hts) /\ hts[x].loc = "out"
  /\ LET p == hts[x].p
         h == hts[x].h
         arrive == <<[t |-> "gotadd", h |-> h], [t |-> "claimable", h |-> h, amt |-> AmtOf(OffOfHash(h)), off |-> OffOfHash(h)]>>
     IN
     /\ hts' = [hts EXCEPT ![x].loc = "done"]
     /\ confirmed' = closed
     /\ IF claim
        THEN \* claim_htlc: the first fulfil of a payment that is not yet fulfilled queues PaymentSent
             /\ dst' = [dst EXCEPT ![p] = IF @ \in {"retry", "aband"} THEN "ful" ELSE @]
             /\ ftick' = [ftick EXCEPT ![p] = 0]
             /\ Out(arrive \o <<[t |-> "claimcall", h |-> h]>> \o Res(x, TRUE),
                    IF dst[p] \in {"retry", "aband"} THEN <<[k |-> "sent", p |-> p, h |-> h, reason |-> "", g |-> dgen[p]]>> ELSE <<>>)
             /\ F({"sent"})
        ELSE \* fail_htlc with no retry left: PaymentFailed once no part remains
             /\ dst' = [dst EXCEPT ![p] = IF @ \in {"retry", "aband"} THEN "gone" ELSE @]
             /\ UNCHANGED ftick
             /\ Out(arrive \o Res(x, FALSE),
                    IF dst[p] = "retry" THEN <<Failed(p, "RetriesExhausted")>> ELSE IF dst[p] = "aband" THEN <<Failed(p, areason[p])>> ELSE <<>>)
             /\ F({"htlc-failed"})
  /\ dirty' = TRUE
  /\ H(IF closed THEN <<[op |-> "settle", fail |-> ~claim]>>
       ELSE <<[op |-> "pump"], [op |-> IF claim THEN "claim" ELSE "failback"], [op |-> "pump"]>>) /\ quiet' = FALSE
  /\ UNCHANGED <<exp, retry, flag, dhash, acall, areason, msgs, ncall, calls, nhash, reqGot, erred, saved, listedAtSave,
                 nPay, nKeep, nTick, nRestart, nAband, nErr, nMsgRecv, nSend, nSave, dgen, closed, ovars>>

\* ---------------------------------------------------------------- manager snapshot / restart of the payer
Listed(d) == {p \in P : d[p] \notin {"none", "gone"}}
MSave ==
  /\ Idle /\ ~closed /\ nRestart < MaxRestart /\ nSave < MaxSave /\ nSave' = nSave + 1
  \* (canonical: a snapshot that would equal the last one is not taken)
  /\ IF DOMAIN saved = {} THEN TRUE ELSE (dirty \/ saved.dst # dst \/ saved.evq # evq \/ saved.exp # exp \/ saved.retry # retry)
  /\ saved' = [dst |-> dst, exp |-> exp, retry |-> retry, dhash |-> dhash, ftick |-> ftick, acall |-> acall, areason |-> areason, evq |-> evq, dgen |-> dgen, hts |-> hts]
  /\ dirty' = FALSE /\ failedSince' = {} /\ listedAtSave' = Listed(dst) /\ sentSince' = FALSE
  /\ obs' = <<[t |-> "save"]>>
  /\ H(<<[op |-> "save", node |-> Payer]>>) /\ quiet' = FALSE /\ F({})
  /\ UNCHANGED <<dst, exp, retry, flag, dhash, ftick, acall, areason, evq, shown, msgs, ncall, calls, nhash, hts, reqGot, erred,
                 nPay, nKeep, nTick, nRestart, nAband, nErr, nMsgRecv, nSend, dgen, closed, confirmed, ovars>>

\* the monitors have not moved past the snapshot; the user has not lost a PaymentFailed it handled for an id the
\* snapshot still holds (see checks/offer_common.py: ASSUMPTIONS)
MRestart ==
  /\ Idle /\ DOMAIN saved # {} /\ ~dirty /\ ~closed /\ nRestart < MaxRestart /\ failedSince \cap listedAtSave = {}
  /\ dst' = saved.dst /\ exp' = saved.exp /\ retry' = saved.retry /\ dhash' = saved.dhash /\ ftick' = saved.ftick
  /\ acall' = saved.acall /\ areason' = saved.areason /\ evq' = saved.evq /\ dgen' = saved.dgen
  \* OutboundPayments::new
  /\ flag' = \E p \in P : saved.dst[p] = "await" /\ saved.retry[p]
  /\ nRestart' = nRestart + 1
  /\ obs' = <<[t |-> "restart"], [t |-> "recent", listed |-> Listed(saved.dst)]>> \o (IF Hold THEN <<>> ELSE EvsObs(saved.evq))
  /\ H(<<[op |-> "restart", node |-> Payer, use |-> "last"], [op |-> "reconnect", a |-> Payee, b |-> Payer], [op |-> "pump"]>>) /\ quiet' = FALSE
  /\ F({"restart"} \cup (IF saved.evq # <<>> THEN {"restart-with-queued-events"} ELSE {})
       \cup (IF \E p \in P : saved.dst[p] = "await" /\ dst[p] = "invrecv" THEN {"restart-forgets-invoice"} ELSE {})
       \cup (IF \E p \in P : saved.dst[p] = "await" /\ saved.retry[p] /\ ~retry[p] THEN {"restart-retransmits"} ELSE {}))
  /\ UNCHANGED <<shown, msgs, ncall, calls, nhash, hts, reqGot, erred, saved, dirty, failedSince, listedAtSave,
                 nPay, nKeep, nTick, nAband, nErr, nMsgRecv, nSend, nSave, closed, confirmed, sentSince, ovars>>

\* ChannelManager::read with monitors that are ahead of the manager: the channel is closed; an HTLC found in the monitor is
\* taken up by the payment (insert_from_monitor_on_startup: an id the snapshot holds as AwaitingInvoice / InvoiceReceived --
\* or does not hold at all -- becomes Retryable, so that a duplicate invoice is not paid a second time).  Driven while every
\* HTLC sent since the snapshot is still unresolved and none the snapshot knows was resolved since; the user behaviours of the
\* registered C03 findings are left out (id used twice, PaymentSent handled since the snapshot).
MRestartStale ==
  /\ Stale /\ Idle /\ DOMAIN saved # {} /\ dirty /\ ~closed /\ nRestart < MaxRestart /\ failedSince \cap listedAtSave = {}
  /\ \A p \in P : dgen[p] <= 1
  /\ ~sentSince
  /\ Len(hts) > Len(saved.hts)
  /\ \A x \in 1..Len(hts) : IF x <= Len(saved.hts) THEN hts[x].loc = saved.hts[x].loc ELSE hts[x].loc = "out"
  /\ LET new == {x \in 1..Len(hts) : x > Len(saved.hts)}
         took(p) == \E x \in new : hts[x].p = p
         hOf(p) == hts[CHOOSE x \in new : hts[x].p = p].h
     IN /\ dst' = [p \in P |-> IF took(p) /\ ~(Bug = "stale_not_taken" /\ saved.dst[p] = "await") THEN "retry" ELSE saved.dst[p]]
        /\ dhash' = [p \in P |-> IF took(p) THEN hOf(p) ELSE saved.dhash[p]]
        /\ obs' = <<[t |-> "restart"], [t |-> "recent", listed |-> {p \in P : took(p) \/ saved.dst[p] \notin {"none", "gone"}}]>>
                   \o (IF Hold THEN <<>> ELSE EvsObs(saved.evq))
  /\ exp' = saved.exp /\ retry' = saved.retry /\ ftick' = saved.ftick
  /\ acall' = [p \in P |-> IF saved.acall[p] = 0 THEN acall[p] ELSE saved.acall[p]] /\ areason' = saved.areason /\ evq' = saved.evq /\ dgen' = saved.dgen
  /\ flag' = \E p \in P : saved.dst[p] = "await" /\ saved.retry[p]
  /\ closed' = TRUE /\ nRestart' = nRestart + 1
  /\ H(<<[op |-> "pump"], [op |-> "restart", node |-> Payer, use |-> "stale"], [op |-> "reconnect_all"]>>) /\ quiet' = FALSE
  /\ F({"stale-restart"} \cup (IF \E p \in P : saved.dst[p] = "await" THEN {"stale-awaiting-takes-htlc"} ELSE {})
                          \cup (IF \E p \in P : saved.dst[p] = "invrecv" THEN {"stale-invoice-received-takes-htlc"} ELSE {})
                          \cup (IF \E p \in P : saved.dst[p] = "none" THEN {"stale-unknown-id-takes-htlc"} ELSE {}))
  /\ UNCHANGED <<shown, msgs, ncall, calls, nhash, hts, reqGot, erred, saved, dirty, failedSince, listedAtSave, confirmed, sentSince,
                 nPay, nKeep, nTick, nAband, nErr, nMsgRecv, nSend, nSave, ovars>>

\* ---------------------------------------------------------------- quiescence
\* (a message the network never hands over is lost: whatever it still holds is dropped now -- when a message is
\* dropped makes no difference to the nodes)
AnyHeld == \E i \in 1..Len(msgs) : msgs[i].st = "held"
MQuiet ==
  /\ Idle /\ evq = <<>> /\ ~quiet /\ hist # <<>>
  /\ \A x \in 1..Len(hts) : hts[x].loc = "done"
  /\ msgs' = [i \in 1..Len(msgs) |-> IF msgs[i].st = "held" THEN [msgs[i] EXCEPT !.st = "dropped"] ELSE msgs[i]]
  /\ hist' = IF AnyHeld THEN Append(hist, [op |-> "drop_all"]) ELSE hist
  /\ feat' = feat \cup {"dropped-" \o msgs[i].kind : i \in {j \in 1..Len(msgs) : msgs[j].st = "held"}}
  /\ obs' = <<[t |-> "quiet"]>> /\ quiet' = TRUE
  /\ UNCHANGED <<ovars, dst, exp, retry, flag, dhash, ftick, acall, areason, evq, dgen, shown, ncall, calls, nhash, hts, reqGot, erred,
                 saved, dirty, failedSince, listedAtSave, closed, confirmed, sentSince, nPay, nKeep, nTick, nRestart, nAband, nErr, nMsgRecv, nSend, nSave, nops>>

MDone == quiet /\ Idle /\ UNCHANGED mvars

MCNext ==
  \/ MObs
  \/ \E p \in P, o \in Offs : MPay(p, o)
  \/ MMsgRecv \/ MTick \/ MHandle \/ MSave \/ MRestart \/ MRestartStale
  \/ \E p \in P : MAbandon(p) \/ MInvErr(p)
  \/ \E i \in 1..Len(msgs), keep \in BOOLEAN : MDeliverReq(i, keep) \/ MDeliverInv(i, keep) \/ MDeliverErr(i, keep)
  \/ \E p \in P, j \in 1..2 : MSendInv(p, j)
  \/ \E x \in 1..Len(hts), claim \in BOOLEAN : MResolve(x, claim)
  \/ MQuiet \/ MDone

MCSpec == MCInit /\ [][MCNext]_mvars

Bound == nops <= MaxOps
View == <<ovars, dvars, obs, quiet, nops, feat>>

\* the design keeps at most one HTLC per use of an id (redundant with OnePaymentPerId, stated on the design state)
DesignSane == \A x, y \in 1..Len(hts) : (x # y /\ hts[x].p = hts[y].p /\ hts[x].loc = "out") => hts[y].loc = "done"

EmitScripts == (quiet /\ Idle /\ nops >= MinOps) => PrintT(<<"SCRIPT", ToJson([manual |-> Manual, hold |-> Hold, ops |-> hist, feat |-> feat])>>)
=============================================================================
