------------------------------ MODULE PayRecv ------------------------------
(***************************************************************************)
(* C04 -- inbound payments are claimable only if complete and authentic;   *)
(* all-or-nothing.                                                         *)
(*                                                                         *)
(* Stated over what the receiving user and the wire can observe:           *)
(*   - create_inbound_payment(_for_hash) calls (hash, amount, minimal      *)
(*     final CLTV delta, expiry),                                          *)
(*   - what each sender put into the onion of each part (which             *)
(*     registration's secret, unmodified or not; total_msat; the amount    *)
(*     the sender intends the recipient to get; payment_metadata: the one  *)
(*     the registration returned, none, or another one; the custom TLVs    *)
(*     as a set of <<type, value>>; keysend) -- ground truth supplied by   *)
(*     the driver that built the onion,                                    *)
(*   - update_add_htlc handed to the recipient (amount, expiry and the     *)
(*     skimmed_fee_msat the previous hop reports), the inbound HTLCs it    *)
(*     reports as committed when it runs its forwarding step, which of its *)
(*     channels have ChannelConfig::accept_underpaying_htlcs set,          *)
(*   - Event::PaymentClaimable (amount_msat, counterparty_skimmed_fee_msat,*)
(*     claim_deadline, onion_fields) / PaymentClaimed, claim_funds,        *)
(*     claim_funds_with_known_custom_tlvs and fail_htlc_backwards calls    *)
(*     with the height at which they are made,                             *)
(*   - update_fulfill_htlc / update_fail_htlc the recipient emits,         *)
(*   - timer ticks, blocks (height, header time), balances at quiescence.  *)
(* The HMAC inside the payment secret is not modelled: the spec says which *)
(* class of secret may be accepted, the driver produces concrete secrets   *)
(* of each class.                                                          *)
(***************************************************************************)
EXTENDS Integers, Sequences, FiniteSets, FiniteSetsExt, TLC

VARIABLES
  reg,      \* [reg id -> [node, hash, amt, minCltv, expiry, meta]]   amt = 0: any amount, minCltv = 0: none given,
            \*   meta = 0: registered without payment_metadata, n > 0: with metadata n
  sent,     \* Seq([hash, dst, amt, oamt, sreg, total, tlvs, meta, keysend, used])  parts put on the wire by senders:
            \*   amt = what reaches the recipient, oamt = what the sender's onion says the recipient is to get,
            \*   tlvs = custom TLVs {<<type, value>>}, meta = 0: no payment_metadata, 1: the one the registration
            \*   `sreg` returned, 2: any other
  rh,       \* [<<node, chan, id>> -> [hash, amt, oamt, skim, cltv, sreg, total, tlvs, meta, keysend, hArr, st, tickAt, bad]]
            \*   skim = skimmed_fee_msat of the update_add_htlc (0: absent)
  cs,       \* [<<node, hash>> -> [set, amt, deadline, tlvs, decision, at, claimedEv]]  the set last shown as claimable
  height, now,
  ticks,    \* [node -> number of timer ticks]
  par,      \* [buf, mpp, up]   HTLC_FAIL_BACK_BUFFER, MPP_TIMEOUT_TICKS of the code under test; up = the channels
            \*   whose ChannelConfig::accept_underpaying_htlcs is set
  initBal, credited,
  offered   \* nodes that offered an HTLC themselves (not pure recipients)

rvars == <<reg, sent, rh, cs, height, now, ticks, par, initBal, credited, offered>>

Margin == 7200     \* documented slack of the invoice expiry (block header time may run two hours ahead)

Put(f, k, v) == [x \in DOMAIN f \cup {k} |-> IF x = k THEN v ELSE f[x]]
SumAmt(S) == FoldSet(LAMBDA k, acc : acc + rh[k].amt, 0, S)
SumOnion(S) == FoldSet(LAMBDA k, acc : acc + rh[k].oamt, 0, S)
SumSkim(S) == FoldSet(LAMBDA k, acc : acc + rh[k].skim, 0, S)
Evens(T) == {x \in T : x[1] % 2 = 0}          \* even type = the recipient must understand it
Common(S) == {x \in UNION {rh[k].tlvs : k \in S} : \A k \in S : x \in rh[k].tlvs}
MinCltv(S) == CHOOSE c \in {rh[k].cltv : k \in S} : \A k \in S : c <= rh[k].cltv
Resolved(S) == \A k \in S : rh[k].st \in {"ful", "fail"}

RInit ==
  /\ reg = <<>> /\ sent = <<>> /\ rh = <<>> /\ cs = <<>> /\ height = 0 /\ now = 0 /\ ticks = <<>>
  /\ par = [buf |-> 0, mpp |-> 0, up |-> {}] /\ initBal = <<>> /\ credited = <<>> /\ offered = {}

ROpen(nodes, bal, h, buf, mpp, up) ==
  /\ reg' = <<>> /\ sent' = <<>> /\ rh' = <<>> /\ cs' = <<>> /\ height' = h /\ now' = 0
  /\ ticks' = [n \in nodes |-> 0] /\ par' = [buf |-> buf, mpp |-> mpp, up |-> up]
  /\ initBal' = bal /\ credited' = [n \in nodes |-> 0] /\ offered' = {}

RReg(r, node, hash, amt, minCltv, expiry, meta) ==
  /\ reg' = Put(reg, r, [node |-> node, hash |-> hash, amt |-> amt, minCltv |-> minCltv, expiry |-> expiry, meta |-> meta])
  /\ UNCHANGED <<sent, rh, cs, height, now, ticks, par, initBal, credited, offered>>

RSent(parts) ==
  /\ sent' = sent \o parts
  /\ UNCHANGED <<reg, rh, cs, height, now, ticks, par, initBal, credited, offered>>

ROffered(node) ==
  /\ offered' = offered \cup {node}
  /\ UNCHANGED <<reg, sent, rh, cs, height, now, ticks, par, initBal, credited>>

(* ---- an update_add_htlc is handed to `node`.  It is the final hop of the oldest unmatched *)
(* part that was addressed to `node` with this hash and amount (intermediate hops and        *)
(* retransmissions change nothing).                                                          *)
RArrive(node, chan, id, hash, amt, cltv, skim) ==
  LET k == <<node, chan, id>>
      cand == {i \in 1..Len(sent) : ~sent[i].used /\ sent[i].hash = hash /\ sent[i].dst = node /\ sent[i].amt = amt}
      i == CHOOSE j \in cand : \A j2 \in cand : j <= j2
  IN IF k \in DOMAIN rh \/ cand = {} THEN UNCHANGED rvars
     ELSE /\ rh' = Put(rh, k, [hash |-> hash, amt |-> amt, oamt |-> sent[i].oamt, skim |-> skim, cltv |-> cltv,
                                sreg |-> sent[i].sreg, total |-> sent[i].total, tlvs |-> sent[i].tlvs, meta |-> sent[i].meta,
                                keysend |-> sent[i].keysend, hArr |-> height, st |-> "arrived", tickAt |-> 0, bad |-> FALSE])
          /\ sent' = [sent EXCEPT ![i].used = TRUE]
          /\ UNCHANGED <<reg, cs, height, now, ticks, par, initBal, credited, offered>>

(* An HTLC that on its own can never be part of a claimable payment: its secret was not      *)
(* issued by this node for this hash (or is corrupted), its payment_metadata is not the one   *)
(* the registration returned (the secret authenticates it), the registration has expired      *)
(* beyond the documented margin, its expiry leaves no claim window / less than the window the *)
(* registration asked for, or it brings less than the sender's onion says the recipient is to *)
(* get: without ChannelConfig::accept_underpaying_htlcs on the channel it came over that is   *)
(* never acceptable, whatever skimmed_fee_msat the previous hop reports; with it, the         *)
(* shortfall must be covered by the reported skimmed fee.  Heights only grow, so judging by   *)
(* the height of arrival is the lenient direction.                                            *)
Underpaid(chan, x) == x.amt < x.oamt /\ (chan \notin par.up \/ x.amt + x.skim < x.oamt)
IndBad(node, chan, x) ==
  LET noWindow == x.cltv - par.buf <= x.hArr IN
  IF x.keysend THEN noWindow \/ Underpaid(chan, x)
  ELSE \/ x.sreg \notin DOMAIN reg
       \/ reg[x.sreg].hash # x.hash \/ reg[x.sreg].node # node
       \/ x.meta # (IF reg[x.sreg].meta > 0 THEN 1 ELSE 0)
       \/ now > reg[x.sreg].expiry + Margin
       \/ noWindow
       \/ (reg[x.sreg].minCltv > 0 /\ x.cltv < x.hArr + reg[x.sreg].minCltv)
       \/ Underpaid(chan, x)

(* ---- the node runs its forwarding step; `committed` are the inbound HTLCs it reports as   *)
(* irrevocably committed just before: those not seen before are looked at now.               *)
RForward(node, committed) ==
  /\ rh' = [k \in DOMAIN rh |->
             IF k[1] = node /\ rh[k].st = "arrived" /\ <<k[2], k[3]>> \in committed
             THEN [rh[k] EXCEPT !.st = "processed", !.tickAt = ticks[node], !.bad = IndBad(node, k[2], rh[k])]
             ELSE rh[k]]
  /\ UNCHANGED <<reg, sent, cs, height, now, ticks, par, initBal, credited, offered>>

(* ---- Event::PaymentClaimable(hash, amount_msat, counterparty_skimmed_fee_msat,             *)
(* claim_deadline, onion_fields).                                                             *)
(* NoBogusClaimable: the event stands for a set of held HTLCs none of which is bad on its     *)
(* own, whose onion fields agree -- same secret, total_msat, payment_metadata and the same    *)
(* must-understand (even) custom TLVs with the same values; optional (odd) ones may differ -- *)
(* whose sender-intended amounts reach total_msat and the amount committed to at              *)
(* registration; the amount shown is what the HTLCs bring, the skimmed fee shown is what the  *)
(* previous hops reported; the onion fields shown contain only custom TLVs that every HTLC of *)
(* the set carries with that value, among them every even one (all of them when the set is    *)
(* all the node has looked at for this hash), and the registration's payment_metadata.  The   *)
(* advertised deadline lies in the future (what the deadline promises is stated by RFail /    *)
(* RQuietOK).                                                                                 *)
GoodSet(node, hash, S, amt, deadline, skimmed, tlvs, meta) ==
  /\ S # {}
  /\ \A k \in S : ~rh[k].bad
  /\ \A a, b \in S : /\ rh[a].sreg = rh[b].sreg /\ rh[a].total = rh[b].total /\ rh[a].keysend = rh[b].keysend
                      /\ rh[a].meta = rh[b].meta /\ Evens(rh[a].tlvs) = Evens(rh[b].tlvs)
  /\ SumAmt(S) = amt
  /\ SumSkim(S) = skimmed
  /\ \A k \in S : IF rh[k].keysend THEN Cardinality(S) = 1
                   ELSE /\ SumOnion(S) >= reg[rh[k].sreg].amt /\ SumOnion(S) >= rh[k].total
                        /\ meta = reg[rh[k].sreg].meta
  /\ tlvs \subseteq Common(S) /\ Evens(tlvs) = Evens(Common(S))
  /\ (\A k \in DOMAIN rh : (k[1] = node /\ rh[k].hash = hash /\ rh[k].st # "arrived") => k \in S) => tlvs = Common(S)
  /\ deadline > height
RClaimable(node, hash, amt, deadline, skimmed, tlvs, meta) ==
  LET key == <<node, hash>>
      \* a set that lost a part to its fail-back height may be completed by a later part and shown again
      again == IF key \in DOMAIN cs /\ cs[key].decision = "none" THEN {k \in cs[key].set : rh[k].st = "shown"} ELSE {}
      cand == {k \in DOMAIN rh : k[1] = node /\ rh[k].hash = hash /\ rh[k].st = "processed"} \cup again
      S == CHOOSE T \in SUBSET cand : again \subseteq T /\ GoodSet(node, hash, T, amt, deadline, skimmed, tlvs, meta)
  IN /\ \E T \in SUBSET cand : again \subseteq T /\ GoodSet(node, hash, T, amt, deadline, skimmed, tlvs, meta)
     /\ key \in DOMAIN cs => (Resolved(cs[key].set) \/ cs[key].decision = "none")
     /\ rh' = [k \in DOMAIN rh |-> IF k \in S THEN [rh[k] EXCEPT !.st = "shown"] ELSE rh[k]]
     /\ cs' = Put(cs, key, [set |-> S, amt |-> amt, deadline |-> deadline, tlvs |-> tlvs, decision |-> "none", at |-> -1, claimedEv |-> FALSE])
     /\ UNCHANGED <<reg, sent, height, now, ticks, par, initBal, credited, offered>>

(* ---- the user answers: claim_funds / claim_funds_with_known_custom_tlvs /                  *)
(* fail_htlc_backwards (the first answer counts).  claim_funds is documented to fail the      *)
(* payment if the onion fields shown contain a custom TLV of even type.                       *)
RDecide(node, hash, what) ==
  LET key == <<node, hash>>
      eff == IF what = "claimk" THEN "claim"
             ELSE IF what = "claim" /\ key \in DOMAIN cs /\ Evens(cs[key].tlvs) # {} THEN "fail" ELSE what
  IN
  /\ cs' = IF key \in DOMAIN cs /\ cs[key].decision = "none" /\ ~Resolved(cs[key].set)
           THEN [cs EXCEPT ![key].decision = eff, ![key].at = height] ELSE cs
  /\ UNCHANGED <<reg, sent, rh, height, now, ticks, par, initBal, credited, offered>>

(* ---- the node emits update_fulfill_htlc for an HTLC it was offered.                        *)
(* Only HTLCs of a set that was shown and that the user claimed; AllOrNothing.                *)
RFulfil(node, chan, id) ==
  LET k == <<node, chan, id>> IN
  IF k \notin DOMAIN rh THEN UNCHANGED rvars
  ELSE LET key == <<node, rh[k].hash>> IN
       /\ rh[k].st \in {"shown", "ful"}
       /\ key \in DOMAIN cs /\ k \in cs[key].set /\ cs[key].decision = "claim"
       /\ \A j \in cs[key].set : rh[j].st # "fail"
       /\ rh' = [rh EXCEPT ![k].st = "ful"]
       /\ UNCHANGED <<reg, sent, cs, height, now, ticks, par, initBal, credited, offered>>

(* ---- the node emits update_fail_htlc for an HTLC it was offered.                           *)
(* Never after it fulfilled it or a sibling of the same claimable set (AllOrNothing), never   *)
(* after the user claimed the set strictly below the advertised deadline, and on its own      *)
(* account not before the advertised deadline (ClaimWindow).                                  *)
RFail(node, chan, id) ==
  LET k == <<node, chan, id>> IN
  IF k \notin DOMAIN rh THEN UNCHANGED rvars
  ELSE LET key == <<node, rh[k].hash>> IN
       /\ rh[k].st # "ful"
       /\ (rh[k].st = "shown") =>
            /\ \A j \in cs[key].set : rh[j].st # "ful"
            /\ ~(cs[key].decision = "claim" /\ cs[key].at < cs[key].deadline)
            /\ cs[key].decision = "none" => height >= cs[key].deadline
       /\ rh' = [rh EXCEPT ![k].st = "fail"]
       /\ UNCHANGED <<reg, sent, cs, height, now, ticks, par, initBal, credited, offered>>

(* ---- Event::PaymentClaimed: for a set the user claimed, for the full amount shown.         *)
RClaimedEv(node, hash, amt) ==
  LET key == <<node, hash>> IN
  /\ key \in DOMAIN cs /\ cs[key].decision = "claim" /\ ~cs[key].claimedEv
  /\ amt = cs[key].amt
  /\ cs' = [cs EXCEPT ![key].claimedEv = TRUE]
  /\ credited' = [credited EXCEPT ![node] = @ + amt]
  /\ UNCHANGED <<reg, sent, rh, height, now, ticks, par, initBal, offered>>

RTick(node) ==
  /\ ticks' = [ticks EXCEPT ![node] = @ + 1]
  /\ UNCHANGED <<reg, sent, rh, cs, height, now, par, initBal, credited, offered>>

RBlock(h, t) ==
  /\ height' = h /\ now' = IF t > now THEN t ELSE now
  /\ UNCHANGED <<reg, sent, rh, cs, ticks, par, initBal, credited, offered>>

(* ---- quiescence: every link up and empty, every forwarding step run.                       *)
(* FailedWithoutShowing: an HTLC that is bad on its own, or still waits for missing parts      *)
(* after MPP_TIMEOUT_TICKS ticks, or has reached its own fail-back height, has been failed.    *)
(* ClaimWindow: a set claimed strictly below its deadline is fulfilled on every part and       *)
(* PaymentClaimed was generated; a set the user refused, or an unanswered part at its          *)
(* fail-back height, has been failed back.  Credit: a pure recipient's balance rose by the     *)
(* sum of its PaymentClaimed amounts, exactly.                                                 *)
HtlcOK(k) ==
  LET x == rh[k]  node == k[1] IN
  CASE x.st = "processed" -> ~(x.bad \/ ticks[node] - x.tickAt >= par.mpp \/ height >= x.cltv - par.buf)
    [] x.st = "shown" -> LET c == cs[<<node, x.hash>>] IN
                           /\ ~(c.decision = "claim" /\ c.at < c.deadline)
                           /\ c.decision # "fail"
                           /\ ~(c.decision = "none" /\ height >= x.cltv - par.buf)
    [] OTHER -> TRUE
SetOK(key) ==
  LET c == cs[key] IN
  (c.decision = "claim" /\ c.at < c.deadline) => (c.claimedEv /\ \A k \in c.set : rh[k].st = "ful")
RQuietOK(balOf, idle) ==
  /\ \A k \in DOMAIN rh : HtlcOK(k)
  /\ \A key \in DOMAIN cs : SetOK(key)
  /\ \A n \in DOMAIN initBal : (n \in idle /\ n \notin offered) => balOf[n] - initBal[n] = credited[n]

(* state invariant: a claimable set is never part fulfilled, part failed *)
AllOrNothing == \A key \in DOMAIN cs : ~(\E a, b \in cs[key].set : rh[a].st = "ful" /\ rh[b].st = "fail")
=============================================================================
