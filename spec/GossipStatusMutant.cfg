SPECIFICATION Spec
CONSTANTS
  D = 3
  E = 2
  Write = "byname"
  MaxOps = 9
  MaxReloads = 2
INVARIANT Follows
CHECK_DEADLOCK TRUE
