SPECIFICATION MCSpec
CONSTANTS
  Act1Len = 4
  Act2Len = 4
  Act3Len = 4
  HdrLen = 5
  TagLen = 2
  MinInitLen = 2
  MsgSize = 2
  Classes = {"start_batch", "commitment_signed", "ping", "channel_ready"}
  Mode = "raw2"
  RotAt = 1000
  StartN = 996
  PauseAt = 2
  MaxMsgs1 = 0
  MaxMsgs2 = 3
  MaxOps = 30
  MaxTampers = 0
  MaxBudgetOps = 0
  MaxDisc = 0
  CutReads = FALSE
  CutHandshake = FALSE
  EmitEvery = 1
CONSTRAINT Bound
VIEW View
INVARIANT ExactDelivery
INVARIANT TamperDisconnects
INVARIANT InitFirst
INVARIANT NoPanic
INVARIANT KeysMatch
INVARIANT ReaderAligned
INVARIANT TypeOK
INVARIANT EmitScripts
CHECK_DEADLOCK TRUE
