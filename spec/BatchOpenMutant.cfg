SPECIFICATION Spec
CONSTANTS
  N = 2
  CheckAll = FALSE
INVARIANT BroadcastOnlyWhenAllDurable
INVARIANT NotStuck
CHECK_DEADLOCK TRUE
