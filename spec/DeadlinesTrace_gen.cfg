\* GENERATED by checks/c08.py from the constants printed by harness/src/bin/consts.rs -- do not edit
SPECIFICATION TraceSpec
CONSTANTS
  CCB = 36
  LGP = 3
  MBC = 18
  ARD = 6
  HFB = 39
  MIND = 48
  MINF = 42
  FAR = 2016
INVARIANTS TypeOK NeverShowOrForwardTooSoon ClaimableBelowDeadline OnChainInTimeOutbound OnChainInTimeInbound WinInboundRace BoundedLoss FailBackAfterBurial
POSTCONDITION TraceAccepted
CHECK_DEADLOCK FALSE
