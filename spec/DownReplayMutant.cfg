SPECIFICATION Spec
CONSTANTS
  K = 3
  KnownFrom = "holder"
INVARIANT NoEarlyFailBack
INVARIANT NothingOrphaned
CHECK_DEADLOCK TRUE
