---------------------------- MODULE PayRecvTrace ----------------------------
(* Trace validation of real ChannelManager networks (engine `paynet`) against PayRecv.tla (C04). *)
EXTENDS PayRecv, Json, IOUtils

VARIABLE l
Rec == ndJsonDeserialize(IOEnv.TRACE)
tvars == <<rvars, l>>
R == Rec[l]
IsEvent(e) == l <= Len(Rec) /\ Rec[l].ev = e /\ l' = l + 1
Stutter == UNCHANGED rvars

TraceInit == l = 1 /\ RInit

TOpen ==
  /\ IsEvent("open")
  /\ ROpen(0..(R.nodes - 1), [n \in 0..(R.nodes - 1) |-> R.bal[n + 1].bal], R.height,
           R.consts.fail_back_buffer, R.consts.mpp_ticks, {R.underpay[i] : i \in 1..Len(R.underpay)})

TReg == IsEvent("reg") /\ RReg(R.reg, R.node, R.hash, R.amt, R.min_cltv, R.expiry, R.meta)

\* a JSON list of [type, value] pairs as the set of custom TLVs
TlvSet(q) == {<<q[i][1], q[i][2]>> : i \in 1..Len(q)}

TSend ==
  /\ IsEvent("send")
  /\ IF R.res = "ok"
     THEN RSent([i \in 1..Len(R.parts) |->
                   [hash |-> R.hash, dst |-> R.dst, amt |-> R.parts[i].amt, oamt |-> R.parts[i].oamt, sreg |-> R.sreg,
                    total |-> R.total, tlvs |-> TlvSet(R.tlvs), meta |-> R.meta, keysend |-> R.keysend, used |-> FALSE]])
     ELSE Stutter

TMsg ==
  /\ IsEvent("msg")
  /\ CASE R.kind = "update_add_htlc" -> ROffered(R.from)
       [] R.kind = "update_fulfill_htlc" -> RFulfil(R.from, R.chan, R.id)
       [] R.kind = "update_fail_htlc" -> RFail(R.from, R.chan, R.id)
       [] OTHER -> FALSE          \* an `error` message: never on an honest run

TDeliver ==
  /\ IsEvent("deliver")
  /\ IF R.kind = "update_add_htlc" THEN RArrive(R.to, R.chan, R.id, R.hash, R.amt, R.cltv, R.skim) ELSE Stutter

TForward == IsEvent("forward") /\ RForward(R.node, {<<R.committed[i][1], R.committed[i][2]>> : i \in 1..Len(R.committed)})

TEvent ==
  /\ IsEvent("event")
  /\ CASE R.kind = "PaymentClaimable" -> RClaimable(R.node, R.hash, R.amt, R.deadline, R.skimmed, TlvSet(R.tlvs), R.meta)
       [] R.kind = "PaymentClaimed" -> RClaimedEv(R.node, R.hash, R.amt)
       [] OTHER -> Stutter

TClaim == IsEvent("claim") /\ RDecide(R.node, R.hash, IF R.known THEN "claimk" ELSE "claim")
TFailback == IsEvent("failback") /\ RDecide(R.node, R.hash, "fail")
TTick == IsEvent("tick") /\ RTick(R.node)
TBlock == IsEvent("block") /\ RBlock(R.height, R.time)

TQuiet ==
  /\ IsEvent("quiet")
  /\ R.queued = 0
  /\ R.closed \/ RQuietOK([n \in DOMAIN initBal |-> R.nodes[n + 1].bal],
                          {n \in DOMAIN initBal : R.nodes[n + 1].htlcs = 0 /\ ~R.nodes[n + 1].floor})
  /\ Stutter

TOther ==
  /\ l <= Len(Rec)
  /\ Rec[l].ev \in {"recent", "save", "restart", "disconnect", "reconnect", "handled", "abandon", "broadcast", "chain", "settle_chain", "settled", "mine_skipped", "intercept"}
  /\ l' = l + 1 /\ Stutter

TraceNext == TOpen \/ TReg \/ TSend \/ TMsg \/ TDeliver \/ TForward \/ TEvent \/ TClaim \/ TFailback
             \/ TTick \/ TBlock \/ TQuiet \/ TOther

TraceSpec == TraceInit /\ [][TraceNext]_tvars

TraceAccepted ==
  LET d == TLCGet("stats").diameter IN
  IF d - 1 = Len(Rec) THEN TRUE
  ELSE /\ PrintT(<<"REJECT", d, Len(Rec)>>)
       /\ FALSE
=============================================================================
