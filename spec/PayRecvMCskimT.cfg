SPECIFICATION MCSpec
CONSTANTS
  C = 2
  MaxParts = 3
  Amts = {1, 3, 4, 5}
  Tots = {4, 5}
  Secs = {"ok"}
  Cls = {"far"}
  RegAmt = 4
  RegMin = 0
  BUF = 39
  MPPT = 1
  MaxTicks = 1
  MaxBlocks = 1
  MaxDev = 2
  MaxOps = 5
  StaleClaim = FALSE
  Flds = {"none"}
  Sks = {"no", "tlv", "s0", "s-1", "s=", "s+"}
  Ups = {TRUE, FALSE}
  RegMeta = 0
  ClaimKinds = {"claim"}
  Bug = "none"
  EmitMod = 7
CONSTRAINT Bound
VIEW View
INVARIANT AllOrNothing
INVARIANT EmitScripts
CHECK_DEADLOCK TRUE
