SPECIFICATION MCSpec
CONSTANTS
  C = 2
  MaxParts = 3
  Amts = {1, 3, 4, 5}
  Tots = {3, 4, 5}
  Secs = {"ok", "flip", "other"}
  Cls = {"far", "far2", "b0", "b1", "b2"}
  RegAmt = 4
  RegMin = 0
  BUF = 39
  MPPT = 1
  MaxTicks = 1
  MaxBlocks = 2
  MaxDev = 1
  MaxOps = 6
  StaleClaim = FALSE
CONSTRAINT Bound
VIEW View
INVARIANT AllOrNothing
INVARIANT EmitScripts
CHECK_DEADLOCK TRUE
