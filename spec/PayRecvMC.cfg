SPECIFICATION MCSpec
CONSTANTS
  C = 2
  MaxParts = 3
  Amts = {1, 3, 4, 5}
  Tots = {3, 4, 5}
  Secs = {"ok", "flip", "other"}
  Cls = {"far"}
  RegAmt = 4
  RegMin = 0
  BUF = 39
  MPPT = 1
  MaxTicks = 1
  MaxBlocks = 0
  MaxDev = 1
  MaxOps = 6
  StaleClaim = FALSE
  EmitMod = 1
CONSTRAINT Bound
VIEW View
INVARIANT AllOrNothing
INVARIANT EmitScripts
CHECK_DEADLOCK TRUE
