SPECIFICATION MCSpec
CONSTANTS
  ReqTicks = 1
  NP = 1
  Manual = FALSE
  Hold = FALSE
  Offs = {1}
  MaxPay = 2
  MaxKeep = 1
  MaxTick = 2
  MaxRestart = 1
  MaxSave = 1
  MaxAband = 1
  MaxErr = 0
  MaxMsgRecv = 0
  MaxSend = 0
  MaxOps = 7
  MinOps = 6
  CodeTicks = 1
  Idem = 1
  Stale = TRUE
  Bug = "none"
CONSTRAINT Bound
VIEW View
INVARIANT TermSane
INVARIANT OneHashPerId
INVARIANT OnePaymentPerId
INVARIANT DesignSane
INVARIANT EmitScripts
CHECK_DEADLOCK TRUE
