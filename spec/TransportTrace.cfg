SPECIFICATION TraceSpec
CONSTANTS
  Act1Len = 50
  Act2Len = 50
  Act3Len = 66
  HdrLen = 18
  TagLen = 16
  MinInitLen = 6
POSTCONDITION TraceAccepted
CHECK_DEADLOCK FALSE
