SPECIFICATION MCSpec
CONSTANTS
  C = 2
  MaxParts = 3
  Amts = {1, 2}
  Tots = {4}
  Secs = {"ok"}
  Cls = {"far"}
  RegAmt = 4
  RegMin = 0
  BUF = 39
  MPPT = 1
  MaxTicks = 1
  MaxBlocks = 1
  MaxDev = 0
  MaxOps = 5
  StaleClaim = FALSE
  Flds = {"none", "o1", "o1b", "o2", "e1", "e1b", "e2", "e1o1", "e1e2", "o1o2", "o1e2"}
  Sks = {"no"}
  Ups = {FALSE}
  RegMeta = 0
  ClaimKinds = {"claim", "claimk"}
  Bug = "none"
  EmitMod = 3
CONSTRAINT Bound
VIEW View
INVARIANT AllOrNothing
INVARIANT EmitScripts
CHECK_DEADLOCK TRUE
