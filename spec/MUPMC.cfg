SPECIFICATION MCSpec
CONSTANTS
  MaxPendings = {0, 1, 2, 3}
  MaxUpd = 6
  MaxFaults = 1
  MaxCrashes = 1
  MaxCleanups = 1
  MaxSyncs = 1
  Kinds = {"pre"}
  MaxCloses = 0
  MaxArchives = 0
  MaxDeferred = 0
  RefusedAsUpdate = FALSE
VIEW View
INVARIANT CrashRecoveredCoversReported
INVARIANT CrashRecoveredIsSomeInMemoryState
INVARIANT CrashRecoveredNotFromTheFuture
INVARIANT CleanupSafe
INVARIANT RecoveredCoversReported
INVARIANT EmitScripts
CHECK_DEADLOCK TRUE
