SPECIFICATION Spec
CONSTANTS
  UseBlocker = FALSE
  MaxCrash = 2
INVARIANT PreimageBeforeForget
INVARIANT NoLoss
INVARIANT NoTheft
CHECK_DEADLOCK TRUE
