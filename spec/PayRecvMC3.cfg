SPECIFICATION MCSpec
CONSTANTS
  C = 2
  MaxParts = 3
  Amts = {1, 3, 4}
  Tots = {4}
  Secs = {"ok"}
  Cls = {"far", "far2", "b1", "b2"}
  RegAmt = 4
  RegMin = 0
  BUF = 39
  MPPT = 1
  MaxTicks = 1
  MaxBlocks = 2
  MaxDev = 3
  MaxOps = 6
  StaleClaim = FALSE
  Flds = {"none"}
  Sks = {"no"}
  Ups = {FALSE}
  RegMeta = 0
  ClaimKinds = {"claim"}
  Bug = "none"
  EmitMod = 16
CONSTRAINT Bound
VIEW View
INVARIANT AllOrNothing
INVARIANT EmitScripts
CHECK_DEADLOCK TRUE
