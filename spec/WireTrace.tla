----------------------------- MODULE WireTrace -----------------------------
(* Trace validation for C13.  Every record of the trace is one execution of the real decoder
   (per-message codec, wire::read dispatch, or a PeerManager pair) on bytes whose *shape* is the
   abstract message `m` of Wire.tla.  The record is accepted iff what was observed conforms to
   Verdict(m): accept (+ round-trip equalities), reject, ignore, or -- for opaque bytes -- any
   total outcome.  A panic is logged as ev = "panic", for which there is no action. *)
EXTENDS Wire, TLC, Json, IOUtils

VARIABLE l

Rec == ndJsonDeserialize(IOEnv.TRACE)

ShapeOK(m) ==
  /\ m.tid \in TidClass /\ m.fixed \in FixedClass /\ m.tail \in TailClass /\ m.inner \in InnerClass
  /\ m.opaque \in BOOLEAN /\ m.tlvkind \in BOOLEAN /\ m.size \in SizeClass
  /\ \A i \in 1..Len(m.recs) : WellFormedRec(m.recs[i], m.nk)

TraceInit == l = 1

TCase ==
  /\ l <= Len(Rec)
  /\ Rec[l].ev = "case"
  /\ LET e == Rec[l] IN
       /\ ShapeOK(e.m)
       /\ Conforms(e.m, e.level, e.obs, e.exp, e.eq, e.rt, e.over, e.cexp, e.canon, e.n, e.unit, e.total)
  /\ l' = l + 1

TraceNext == TCase
TraceSpec == TraceInit /\ [][TraceNext]_l

TraceAccepted ==
  LET d == TLCGet("stats").diameter IN
  IF d - 1 = Len(Rec) THEN TRUE
  ELSE /\ PrintT(<<"REJECT", d, Len(Rec)>>)
       /\ FALSE
=============================================================================
