----------------------------- MODULE ChainView -----------------------------
(***************************************************************************)
(* C11 -- on-chain conclusions depend only on the chain, not on how it was *)
(* delivered.                                                              *)
(*                                                                         *)
(* Part 1: an abstract CHAIN HISTORY.  Block 0 is the best block of the    *)
(* starting state; blocks 1..nb form a tree (parent[b] < b).  Up to four   *)
(* relevant transactions ("roles") may be confirmed in blocks:             *)
(*     role 1      the root (funding tx, or the commitment tx that closes) *)
(*     role 2,3,4  descendants of role 1: dep[r] is the role whose output  *)
(*                 role r spends (0: an output of the starting state).     *)
(*                 The classic shape is the star dep = <<0,1,1,1>>; a      *)
(*                 DEPENDENCY CHAIN is dep = <<0,1,2,1>> (commitment ->    *)
(*                 second-stage HTLC transaction -> claim on its output,   *)
(*                 and commitment -> claim).  2 and 4 spend the same       *)
(*                 output.  Chains may be packed into one block (in        *)
(*                 topological order, as consensus demands) or spread.     *)
(* A role may sit in one block of a branch, be absent from a branch, or be *)
(* confirmed at a different place in a competing branch.  The client's     *)
(* view of the best chain moves through a sequence of targets (tips).      *)
(*                                                                         *)
(* Part 2: the NOTIFICATION CONTRACT of chain::Listen and chain::Confirm   *)
(* as an environment: for one notified object (ChainMonitor or             *)
(* ChannelManager) the guards under which each trait method may be called  *)
(* while the client moves the object from one best chain to the next.      *)
(*                                                                         *)
(* Part 3: the PROPERTY as predicates over what can be observed when an    *)
(* object is synchronised to the best chain C = Chain(target):             *)
(* Conclusions = F(C), irreversible conclusions only when buried, shallow  *)
(* reorganisations retract.  (The trace specification evaluates them on    *)
(* the conclusions logged by the real code.)                               *)
(***************************************************************************)
EXTENDS Integers, Sequences, FiniteSets, TLC

CONSTANTS ARD          \* ANTI_REORG_DELAY, taken from the code (lightning::verif::consts())

Roles == 1..4
None == -1             \* "not confirmed"

VARIABLES
  nb,          \* number of blocks above the base block 0
  parent,      \* [1..nb -> 0..nb-1]
  txin,        \* [1..nb -> SUBSET Roles]   roles confirmed in each block
  has,         \* SUBSET Roles              roles the starting state offers
  minh,        \* [Roles -> Nat]            earliest height (relative to block 0) a role is valid at
  fundingRole, \* BOOLEAN                   role 1 is the funding transaction (else a commitment tx)
  dep,         \* [Roles -> Roles \cup {0}]  the role whose output a role spends (0: none of the history)
  target       \* the tip of the client's current best chain

hvars == <<nb, parent, txin, has, minh, fundingRole, dep>>

Blocks == 0..nb

RECURSIVE Height(_), Anc(_, _), LCA(_, _)
Height(b) == IF b = 0 THEN 0 ELSE Height(parent[b]) + 1
\* a is an ancestor of, or equal to, b
Anc(a, b) == IF a = b THEN TRUE ELSE IF b = 0 \/ a > b THEN FALSE ELSE Anc(a, parent[b])
LCA(a, b) == IF a = b THEN a
             ELSE IF Height(a) > Height(b) THEN LCA(parent[a], b)
             ELSE IF Height(b) > Height(a) THEN LCA(a, parent[b])
             ELSE LCA(parent[a], parent[b])

Chain(b) == {a \in Blocks : Anc(a, b)}
RolesIn(b) == IF b = 0 THEN {} ELSE txin[b]
\* the block of Chain(tip) in which role r is confirmed
Place(r, tip) == LET S == {a \in Chain(tip) : r \in RolesIn(a)} IN
                 IF S = {} THEN None ELSE CHOOSE a \in S : TRUE
\* number of confirmations of role r on Chain(tip)
Depth(r, tip) == IF Place(r, tip) = None THEN 0 ELSE Height(tip) - Height(Place(r, tip)) + 1
Buried(r, tip) == Depth(r, tip) >= ARD

\* A well-formed history: every chain of the tree is a valid block chain for the roles.
TreeOK ==
  /\ nb \in Nat
  /\ dep \in [Roles -> 0..4] /\ \A r \in Roles : dep[r] < r           \* acyclic: a parent has a smaller number
  /\ parent \in [1..nb -> 0..nb]
  /\ \A b \in 1..nb : parent[b] < b
  /\ txin \in [1..nb -> SUBSET has]
  /\ \A b \in 1..nb :
       /\ \A r \in txin[b] :
            /\ Cardinality({a \in Chain(b) : r \in RolesIn(a)}) = 1     \* confirmed once per chain
            /\ dep[r] # 0 => Place(dep[r], b) # None                     \* a child needs its parent
            /\ Height(b) >= minh[r]                                     \* locktime
       /\ ~(Place(2, b) # None /\ Place(4, b) # None)                   \* 2 and 4 double-spend each other

\* The client's best chain moves to a descendant, to another branch that is at least as high, or
\* (walking back, as the repo's tests do with disconnect_blocks) to an ancestor.  A best chain that
\* is SHORTER than the previous one and not a prefix of it does not occur (equal work per block).
MoveOK(old, new) == new \in Blocks /\ new # old /\ (Anc(new, old) \/ Height(new) >= Height(old))

-----------------------------------------------------------------------------
(* The notification contract, for ONE notified object whose knowledge is   *)
(*   tp    the block it was last told is the best block                    *)
(*   cf    [Roles -> Blocks \cup {None}]  where it was told each role is   *)
(*         confirmed (net of un-confirmations)                             *)
(*   ifc   "none" | "listen" | "confirm"  interface used since the restart *)
(*   gv    BOOLEAN  some (re-)confirmation was given in this transition    *)
(* while the client's best chain is Chain(target).                         *)

Stale(cf) == {r \in Roles : cf[r] # None /\ ~Anc(cf[r], target)}

\* chain::Listen -- "Each block must be connected in chain order with one call"
CanConnect(tp, ifc, b) ==
  /\ ifc \in {"none", "listen"}
  /\ b \in 1..nb /\ Anc(b, target)
  /\ parent[b] = tp
ConfAfterConnect(cf, b) == [r \in Roles |-> IF r \in txin[b] THEN b ELSE cf[r]]

\* "...you must call blocks_disconnected once with information on the fork point ... You may
\*  call it multiple times as you walk the chain backwards"
CanDisconnect(tp, ifc, f) ==
  /\ ifc \in {"none", "listen"}
  /\ ~Anc(tp, target)                       \* there is something to disconnect
  /\ f # tp /\ Anc(f, tp)
  /\ Anc(LCA(tp, target), f)                \* never below the fork point
ConfAfterRewind(cf, f) == [r \in Roles |-> IF cf[r] # None /\ Height(cf[r]) > Height(f) THEN None ELSE cf[r]]

\* chain::Confirm::transactions_confirmed
\*  - only for a header of the best chain ("must not be called with a header that is no longer in
\*    the chain")
\*  - un-confirmations en bloc before any re-confirmation; a re-confirmed transaction must have been
\*    un-confirmed first
\*  - chain order: transactions of earlier blocks before those of later blocks; dependent
\*    transactions of one block in topological order, possibly in separate calls
\*  - re-delivery of what was already given is allowed (the repo's own *Duplicative* and
\*    HighlyRedundant* styles)
CanTxs(cf, ifc, b, sel) ==
  /\ ifc \in {"none", "confirm"}
  /\ b \in 1..nb /\ Anc(b, target)
  /\ sel # {} /\ sel \subseteq txin[b]
  /\ Stale(cf) = {}
  /\ \A r \in Roles : LET p == Place(r, target) IN
        (p # None /\ Height(p) < Height(b)) => cf[r] = p
  /\ \A r \in sel : (dep[r] # 0 /\ dep[r] \in txin[b]) => (dep[r] \in sel \/ cf[dep[r]] = b)
ConfAfterTxs(cf, b, sel) == [r \in Roles |-> IF r \in sel THEN b ELSE cf[r]]

\* chain::Confirm::transaction_unconfirmed, for every transaction the object reports in
\* get_relevant_txids whose block left the best chain; all of them before any (re-)confirmation.
CanUnconfirm(cf, ifc, gv) ==
  /\ ifc \in {"none", "confirm"}
  /\ ~gv
ConfAfterUnconfirm(cf) == [r \in Roles |-> IF r \in Stale(cf) THEN None ELSE cf[r]]

\* chain::Confirm::best_block_updated -- "Must be called whenever a new chain tip becomes
\* available. May be skipped for intermediary blocks."  The header is always one of the best chain.
\* On the same chain the tip only moves forward.  Announcing a block that does not extend the last
\* one announces a reorganisation (this is how eight of the repo's eleven ConnectStyles deliver
\* disconnections); it is never below the fork point, and everything the object was told above that
\* height on the old branch is thereby retracted.  A transaction confirmed in a block that left the
\* chain at or below the new height must have been un-confirmed before (the client learns about
\* those from get_relevant_txids; lightning-transaction-sync un-confirms before it updates the tip).
\* The announced tip is never below a block of this chain whose transactions were already given
\* (transactions may precede the tip update of their block, not the tip update of an earlier one).
CanBest(tp, cf, ifc, b) ==
  /\ ifc \in {"none", "confirm"}
  /\ b \in Blocks /\ Anc(b, target)
  /\ b # tp
  /\ IF Anc(tp, target) THEN Anc(tp, b) ELSE Anc(LCA(tp, target), b)
  /\ \A r \in Stale(cf) : Height(cf[r]) > Height(b)
  /\ \A r \in Roles : (cf[r] # None /\ Anc(cf[r], target)) => Height(cf[r]) <= Height(b)
ConfAfterBest(tp, cf, b) == IF Anc(tp, b) THEN cf ELSE ConfAfterRewind(cf, b)

\* Block-internal order (consensus, and "dependent transactions within the same block must be given
\* in topological order"): in a sequence of roles no transaction precedes the one it spends.
TopoSeq(s) == \A i, j \in 1..Len(s) : dep[s[j]] = s[i] => i < j

\* The object has been told everything about the best chain.
SyncedTo(tp, cf) == tp = target /\ \A r \in Roles : cf[r] = Place(r, target)

-----------------------------------------------------------------------------
(* The property, over the conclusions observable at a synchronisation      *)
(* point.  `ever` is the set of <<role, block>> that have had at least ARD *)
(* confirmations at some synchronisation point up to now: conclusions      *)
(* drawn from those are allowed to be final.                               *)

NowBuried == {<<r, Place(r, target)>> : r \in {q \in Roles : Buried(q, target)}}

\* A role that was final is no longer where it was: the reorganisation was at least ARD deep
\* for it; the property makes no promise about what follows.
Overturned(ever) == \E e \in ever : Place(e[1], target) # e[2]

\* The monitor / manager view of the best block is the tip of the best chain.
BestBlockIs(b) == b = target

\* Funding depth (ChannelDetails::confirmations) is a function of the chain.
FundingDepthIs(n, baseConf) ==
  IF fundingRole THEN n = Depth(1, target) ELSE n = baseConf + Height(target)

\* Which transaction closed the channel: the balances say "closed" exactly when the best chain
\* contains a spend of the funding output (or one was final before).
SpendRoles == IF fundingRole THEN {2, 4} ELSE {1}
ClosedOnChain(ever) == \E r \in SpendRoles : Place(r, target) # None \/ \E e \in ever : e[1] = r
ClosedViewOK(openBalance, ever) == openBalance <=> ~ClosedOnChain(ever)

\* get_relevant_txids never names a block that is not on the best chain, and places the roles
\* where the chain has them ("Will not include any transactions passed to transaction_unconfirmed").
\* rel is a sequence of <<role-or-other, height, block>>; block -1 = part of the starting state.
RelevantOK(rel) ==
  \A i \in 1..Len(rel) : LET t == rel[i][1] h == rel[i][2] b == rel[i][3] IN
     IF t \in Roles THEN b \in 1..nb /\ Place(t, target) = b /\ h = Height(b)
     ELSE b = -1 \/ (b \in Blocks /\ Anc(b, target) /\ h = Height(b))

\* ...and still names every transaction with too few confirmations to be final ("Will include any
\* transactions passed to transactions_confirmed that have insufficient confirmations").
MonRoles == IF fundingRole THEN {2, 4} ELSE Roles
RemembersOK(rel, ever) ==
  \A r \in MonRoles :
     (Place(r, target) # None /\ ~Buried(r, target) /\ <<r, Place(r, target)>> \notin ever)
       => \E i \in 1..Len(rel) : rel[i][1] = r

\* Irreversible conclusions only once the triggering transaction is buried.
\* irrev is a sequence of <<kind, x>>: <<1, t>> = Event::SpendableOutputs for an output of tx t;
\* <<2, k>> = payment k failed backwards because of an on-chain timeout; failTrig[k] is the role
\* whose burial makes that final (0 = no on-chain cause exists for k in this starting state).
WasBuried(r, ever) == \E e \in ever \cup NowBuried : e[1] = r
IrreversibleOK(irrev, failTrig, ever) ==
  \A i \in 1..Len(irrev) :
     IF irrev[i][1] = 1 THEN (irrev[i][2] \in Roles => WasBuried(irrev[i][2], ever))
     ELSE LET k == irrev[i][2] IN
          /\ k \in 1..Len(failTrig)
          /\ failTrig[k] \in Roles
          /\ WasBuried(failTrig[k], ever)
=============================================================================
