------------------------------- MODULE MUPMC -------------------------------
(* Bounded instance of MUP: every maximum_pending_updates in MaxPendings, update histories of
   MaxUpd updates (of the kinds in Kinds: pre-close updates that a closed monitor refuses,
   ChannelForceClosed, preimages) with chain-sync full writes, block connections that take the
   monitor on chain, clean-ups, deferred completion and archiving in between, every crash
   position, every subset of landed lazy removals, single failing store operations.  Prints one
   driver script per reachable quiescent state for the engine (harness/src/bin/kvstore.rs):
   MUPMC.cfg / MUPMC7.cfg (Kinds = {"pre"}, no closes: the persister alone) feed `--mode mup`,
   MUPMCcq.cfg (quick) / MUPMCc.cfg / MUPMCc7.cfg (the caller's side) feed `--mode cm`;
   MUPMCbad.cfg is the design mutant RefusedAsUpdate = TRUE, which must violate
   CrashRecoveredCoversReported.  (MComplete never reaches a NEW state -- a deferred report that is
   delivered gives the state of an immediate report --, so no printed script contains it: the check
   adds `complete` steps to scripts with a deferred report.) *)
EXTENDS MUP, Json

VARIABLES hist,   \* driver script so far
          nmut,   \* mutating store operations so far (position of injected failures)
          inCall  \* mutating store operations of the call in progress (position of a crash)
mvars == <<vars, hist, nmut, inCall>>

MCInit == DInit /\ hist = <<>> /\ nmut = 0 /\ inCall = 0

Bit(S, land) ==   \* landing subset as a bit mask over the sorted pending keys
  LET s == SetToSeq(S)
      RECURSIVE B(_)
      B(i) == IF i > Len(s) THEN 0 ELSE (IF s[i] \in land THEN 2 ^ (i - 1) ELSE 0) + B(i + 1)
  IN B(1)

HOp(o) == [op |-> o, lazy |-> FALSE, after |-> 0, land |-> 0, n |-> 0, mode |-> "", kind |-> "",
           landmon |-> FALSE]

MNew == DNew /\ hist' = Append(hist, HOp("new")) /\ inCall' = 0 /\ UNCHANGED nmut
MUpdate == \E kd \in Kinds :
  /\ DUpdate(kd) /\ ~(kd = "pre" /\ memSt # "open")
  /\ hist' = Append(hist, [HOp("upd") EXCEPT !.kind = kd]) /\ inCall' = 0 /\ UNCHANGED nmut
(* an update the closed monitor refuses *)
MUpdateRefused ==
  /\ DUpdate("pre") /\ memSt # "open"
  /\ hist' = Append(hist, [HOp("upd") EXCEPT !.kind = "pre"]) /\ inCall' = 0 /\ UNCHANGED nmut
MSync == DSync /\ hist' = Append(hist, HOp("sync")) /\ inCall' = 0 /\ UNCHANGED nmut
MChainClose == DChainClose /\ hist' = Append(hist, HOp("close")) /\ inCall' = 0 /\ UNCHANGED nmut
MArchive == DArchive /\ hist' = Append(hist, HOp("archive")) /\ inCall' = 0 /\ UNCHANGED nmut
MStep == DStep /\ nmut' = nmut + 1 /\ inCall' = inCall + 1 /\ UNCHANGED hist
MStepFail == \E a \in BOOLEAN :
  /\ DStepFail(a)
  /\ nmut' = nmut + 1 /\ inCall' = inCall + 1
  /\ hist' = Append(hist, [HOp("fault") EXCEPT !.n = nmut + 1,
                                               !.mode = IF a THEN "applied" ELSE "noeffect"])
MReturn == DReturn(FALSE) /\ UNCHANGED <<hist, nmut, inCall>>
MReturnInProgress == DReturn(TRUE) /\ hist' = Append(hist, HOp("defer")) /\ UNCHANGED <<nmut, inCall>>
MComplete == DComplete /\ hist' = Append(hist, HOp("complete")) /\ UNCHANGED <<nmut, inCall>>
MLand == DLand /\ UNCHANGED <<hist, nmut, inCall>>
MCleanup == \E lz \in BOOLEAN :
  /\ DCleanup(lz) /\ call.kind = "none"      \* scripts are sequential: see MCleanupDuringCall
  /\ hist' = Append(hist, [HOp("cleanup") EXCEPT !.lazy = lz]) /\ inCall' = 0 /\ UNCHANGED nmut
MCleanupDuringCall == \E lz \in BOOLEAN :
  /\ DCleanup(lz) /\ call.kind # "none"
  /\ hist' = Append(hist, [HOp("cleanup") EXCEPT !.lazy = lz]) /\ UNCHANGED <<nmut, inCall>>
MCStep == DCStep /\ nmut' = nmut + 1 /\ inCall' = inCall + 1 /\ UNCHANGED hist
MCStepFail == \E a \in BOOLEAN :
  /\ DCStepFail(a)
  /\ nmut' = nmut + 1 /\ inCall' = inCall + 1
  /\ hist' = Append(hist, [HOp("fault") EXCEPT !.n = nmut + 1,
                                               !.mode = IF a THEN "applied" ELSE "noeffect"])
(* after > 0: the crash interrupts the call in progress after that many store operations *)
MCrash == \E land \in SUBSET lazy, lm \in {b \in BOOLEAN : b => monLazy} :
  /\ DCrash(land, lm)
  /\ hist' = Append(hist, [HOp("crash") EXCEPT !.land = Bit(lazy, land), !.landmon = lm,
         !.after = IF call.kind # "none" \/ cplan # <<>> THEN inCall ELSE 0])
  /\ inCall' = 0 /\ UNCHANGED nmut
MDone == call.kind = "none" /\ plan = <<>> /\ cplan = <<>> /\ UNCHANGED mvars

MCNext == MNew \/ MUpdate \/ MUpdateRefused \/ MSync \/ MChainClose \/ MArchive \/ MStep \/ MStepFail
          \/ MReturn \/ MReturnInProgress \/ MComplete \/ MLand \/ MCleanup
          \/ MCleanupDuringCall \/ MCStep \/ MCStepFail \/ MCrash \/ MDone

MCSpec == MCInit /\ [][MCNext]_mvars

View == vars

Quiescent == call.kind = "none" /\ plan = <<>> /\ cplan = <<>>

EmitScripts ==
  (Quiescent /\ Len(hist) >= 3)
    => PrintT(<<"SCRIPT", ToJson([maxp |-> maxp, ops |-> hist])>>)
=============================================================================
