SPECIFICATION Spec
CONSTANTS
  HoldUntilHandled = FALSE
  MaxCrash = 2
  MaxRefuse = 2
INVARIANT NoLostSent
INVARIANT CrashSafe
CHECK_DEADLOCK TRUE
