SPECIFICATION MCSpec
CONSTANTS
  U = 2
  MaxOps = 18
  FailCs = {1}
  FailNs = {}
  PruneTs = {150}
  RgsSnaps = {}
  ResolveCs = {}
  WithReload = TRUE
CONSTRAINT Bound
VIEW View
INVARIANT OnlyAuthentic
INVARIANT NeverOlder
INVARIANT NodeCleanup
INVARIANT FailedStayOut
INVARIANT Confluence
INVARIANT CodeWithinSpec
INVARIANT EmitScripts
CHECK_DEADLOCK TRUE
