SPECIFICATION MCSpec
CONSTANTS
  ARD = 6
  MaxA = 3
  MaxB = 2
  MaxBlocks = 5
  UseRoles = {1, 2, 3}
  MinH2 = 1
  MinH3 = 3
  MinH4 = 2
  Dep3 = 2
  FundingRole = FALSE
  MaxExplored = 1
  MaxDup = 0
  MaxRestarts = 1
  Intermediate = FALSE
INVARIANT EnvConsistent
INVARIANT IdleIsSynced
INVARIANT EmitScripts
CHECK_DEADLOCK TRUE
