SPECIFICATION MCSpec
CONSTANTS
  Relax = {}
  Drop = {"Depth"}
  MaxAdds = 0
  Out2 = FALSE
  Want1 = 50
  Want2 = 0
  MaxDisc = 0
  MaxBlocks = 2
  AsyncSide = 0
  QLen = 3
VIEW View
INVARIANT TypeOK
INVARIANT CountersSane
INVARIANT ExactlyOnce
INVARIANT NonNegative
INVARIANT QuiescentIsQuiet
INVARIANT CandsSane
INVARIANT Agreement
INVARIANT ConservesAll
INVARIANT SameFunding
INVARIANT OwnContribution
INVARIANT LockedIsBuried
INVARIANT SigsAfterDurable
INVARIANT ViewsAgree
INVARIANT EmitScripts
CHECK_DEADLOCK TRUE
