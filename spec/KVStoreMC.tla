----------------------------- MODULE KVStoreMC -----------------------------
(* Bounded instance of KVStore: MaxThreads callers issue at most MaxOps operations on NKeys
   keys; every interleaving of calls, explicit linearisation points and returns with every
   result the specification allows.  Checks the sanity invariants of the specification and
   prints the call sequence of every reachable quiescent state as a (sequential) driver
   script for the real stores. *)
EXTENDS KVStore, Json

CONSTANTS Async,   \* TRUE: the asynchronous API (issue tickets; returns recorded in the script)
          NKeys, NNs, MaxOps   \* key k lives in namespace ((k-1) % NNs) + 1

VARIABLE hist
mvars == <<kvars, hist>>

NSOf == [k \in 1..NKeys |-> ((k - 1) % NNs) + 1]
NSs == {NSOf[k] : k \in 1..NKeys}

MCInit ==
  /\ nk = NKeys /\ ns = NSOf
  /\ kv = [k \in 1..NKeys |-> 0] /\ lz = [k \in 1..NKeys |-> FALSE]
  /\ pend = [t \in Threads |-> NoOp]
  /\ hist = <<>>

Tk == IF Async THEN Len(hist) + 1 ELSE 0
\* asynchronous scripts record which future completes when: k = position of its issue in hist
HistRet(t) ==
  hist' = IF Async THEN Append(hist, [op |-> "await", k |-> pend[t].tk, v |-> 0, lazy |-> FALSE]) ELSE hist

\* callers are interchangeable: thread t+1 is only used while thread t is busy
Free(t) == pend[t].op = "none" /\ \A u \in 1..(t - 1) : pend[u].op # "none"

MCallWrite == \E t \in Threads, k \in 1..NKeys :
  /\ Free(t) /\ Call(t, "write", k, Len(hist) + 1, FALSE, Tk)
  /\ hist' = Append(hist, [op |-> "write", k |-> k, v |-> Len(hist) + 1, lazy |-> FALSE])
MCallRemove == \E t \in Threads, k \in 1..NKeys, lazy \in BOOLEAN :
  /\ Free(t) /\ Call(t, "remove", k, 0, lazy, Tk)
  /\ hist' = Append(hist, [op |-> "remove", k |-> k, v |-> 0, lazy |-> lazy])
MCallRead == \E t \in Threads, k \in 1..NKeys :
  /\ Free(t) /\ Call(t, "read", k, 0, FALSE, Tk)
  /\ hist' = Append(hist, [op |-> "read", k |-> k, v |-> 0, lazy |-> FALSE])
MCallList == \E t \in Threads, n \in NSs \cup {0} :
  /\ Free(t) /\ Call(t, "list", n, 0, FALSE, Tk)
  /\ hist' = Append(hist, [op |-> "list", k |-> n, v |-> 0, lazy |-> FALSE])
MLin == \E t \in Threads : Lin(t) /\ UNCHANGED hist
MRetMut == \E t \in Threads : RetMut(t) /\ HistRet(t)
MRetRead == \E t \in Threads, r \in 0..MaxOps : RetRead(t, r) /\ HistRet(t)
MRetList == \E t \in Threads, R \in SUBSET (1..NKeys) : RetList(t, R) /\ HistRet(t)
MDone == Len(hist) = MaxOps /\ (\A t \in Threads : pend[t].op = "none") /\ UNCHANGED mvars

MCNext == MCallWrite \/ MCallRemove \/ MCallRead \/ MCallList \/ MLin \/ MRetMut \/ MRetRead
          \/ MRetList \/ MDone

MCSpec == MCInit /\ [][MCNext]_mvars

Bound == Len(hist) <= MaxOps

Quiescent == \A t \in Threads : pend[t].op = "none"

(* A single caller has exactly one possible outcome per operation: the atomic-map one.
   (Sanity of the specification: it does not allow more than the property does.) *)
SoloReadExact ==
  MaxThreads = 1 =>
    \A t \in Threads : pend[t].op = "read" => pend[t].seen = {<<pend[t].k, kv[pend[t].k]>>}

(* a pending read can always be linearised now *)
CurrentSeen ==
  \A t \in Threads : pend[t].op = "read" => <<pend[t].k, kv[pend[t].k]>> \in pend[t].seen

(* a value that was never written can never be returned *)
SeenWritten ==
  \A t \in Threads : pend[t].op = "read" => \A x \in pend[t].seen : x[2] <= Len(hist)

EmitScripts ==
  (Quiescent /\ Len(hist) = MaxOps) => PrintT(<<"SCRIPT", ToJson([async |-> Async, ops |-> hist])>>)
=============================================================================
