SPECIFICATION MCSpec
CONSTANTS
  ARD = 6
  MaxA = 3
  MaxB = 3
  MaxBlocks = 6
  UseRoles = {1, 3}
  MinH2 = 3
  MinH3 = 2
  FundingRole = FALSE
  MaxExplored = 1
  MaxDup = 1
  MaxRestarts = 1
  Intermediate = TRUE
INVARIANT EnvConsistent
INVARIANT IdleIsSynced
INVARIANT EmitScripts
CHECK_DEADLOCK TRUE
