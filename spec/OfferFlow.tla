------------------------------ MODULE OfferFlow ------------------------------
(***************************************************************************)
(* C03, part "BOLT-12 flow" -- every outbound payment reaches a truthful    *)
(* terminal outcome -- for payments started with pay_for_offer /            *)
(* create_refund_builder, whose life begins before any HTLC exists.         *)
(*                                                                         *)
(* Stated only over what the users and the wire can observe:               *)
(*   - the offers a node's user built (create_offer_builder), altered       *)
(*     copies of them and offers naming the node that it never created,     *)
(*   - each pay_for_offer / create_refund_builder call and its result,      *)
(*     request_refund_payment, send_payment_for_bolt12_invoice,             *)
(*     abandon_payment, timer_tick_occurred,                                *)
(*   - every onion message a node hands out (as its addressee reads it:     *)
(*     invoice_request / invoice / invoice_error, of which call) and every   *)
(*     onion message handed to a node -- the network decides which, when,   *)
(*     how often,                                                           *)
(*   - update_add_htlc leaving a node, update_fulfill / update_fail handed   *)
(*     to it, claim_funds calls of recipients (ground truth for "the        *)
(*     recipient released the preimage"),                                   *)
(*   - the events the users handle (InvoiceReceived, PaymentSent,           *)
(*     PaymentFailed with its reason, PaymentClaimable with its context),    *)
(*     list_recent_payments after a restart, manager snapshots / restarts,  *)
(*   - once a restart closed a channel: the commitment transaction that    *)
(*     confirmed and each spend of one of its HTLC outputs.                 *)
(* Nothing about PendingOutboundPayment, nonces, retry flags or queues       *)
(* appears here.  Each operator is a guard (what the property demands of    *)
(* this observation) plus the update of the ghost state.                    *)
(*                                                                         *)
(* Where the property is silent the specification is permissive, notably:   *)
(* whether / when an invoice request is sent again (best effort), what a    *)
(* refused or failed call sends, how long a fulfilled id stays refused      *)
(* beyond the documented idempotency window, what an invoice for an unknown *)
(* id answers, when InvoiceReceived is repeated.                            *)
(***************************************************************************)
EXTENDS Integers, Sequences, FiniteSets, TLC

CONSTANT ReqTicks   \* an invoice request is kept for at least this many FULL timer ticks: ChannelManager::
                    \* send_payment_for_bolt12_invoice documents "one full timer tick has elapsed since initially
                    \* requesting the invoice" (StaleExpiration::TimerTicks(n): "number of times remove_stale_payments is called")

VARIABLES
  pay,      \* [pid -> [node, kind, off, amt, ok, manual, gen, age, invs, called, got, gotAge, asked, hash, aband, noPay, err, term, rep, dead, sentAge, owed]]
            \*   off/amt: the offer (0: a refund) and amount of the accepted call; invs: hashes of the invoices handed to the
            \*   payer for this id; called: hashes the user asked to pay (manual handling); hash: the hash of the id's HTLCs;
            \*   got / asked: the node's present manager was handed an invoice for the id / asked to pay one (what a restart
            \*   from an older snapshot rolls back, unlike invs / called: the user keeps the invoices it was shown)
  call,     \* [c -> [pid, node, kind, off, amt, ok, res]]   every pay_for_offer / create_refund_builder call (also refused ones)
  ht,       \* [<<chan, adder, id>> -> [hash, pid, gen, st, amt]]   every HTLC offered anywhere; pid = 0: not a payer's own
  hashPid,  \* [hash -> pid]    the id under which the payer was handed an invoice with that hash
  invInfo,  \* [hash -> [amt, off, c]]   what that invoice said
  issued,   \* [hash -> [node, off, amt, c]]   invoices handed out by a payee
  reqAt,    \* set of <<node, c>>: the invoice request of call c was handed to node
  refAt,    \* set of <<node, c>>: node's user called request_refund_payment for the refund of call c
  released, \* hashes whose preimage a recipient released (claim_funds)
  fwd,      \* set of <<node, hash>>: node was offered an HTLC of that hash (it may forward it)
  snap,     \* [node -> [pid -> the id's record when the node's manager was last persisted]]
  idem      \* IDEMPOTENCY_TIMEOUT_TICKS of the code under test (from its constants)

ovars == <<pay, call, ht, hashPid, invInfo, issued, reqAt, refAt, released, fwd, snap, idem>>

Pids == DOMAIN pay
Put(f, k, v) == [x \in DOMAIN f \cup {k} |-> IF x = k THEN v ELSE f[x]]
Own(p) == {k \in DOMAIN ht : ht[k].pid = p /\ ht[k].gen = pay[p].gen}
InFlight(p) == \E k \in Own(p) : ht[k].st = "flight"
Settled(p) == \E k \in Own(p) : ht[k].st = "ful"
RECURSIVE SumAmt(_)
SumAmt(S) == IF S = {} THEN 0 ELSE LET k == CHOOSE x \in S : TRUE IN ht[k].amt + SumAmt(S \ {k})
\* what the payer has committed to the id and not got back
LiveAmt(p) == SumAmt({k \in Own(p) : ht[k].st \in {"flight", "ful"}})
\* the most a payment of `a` msat may cost: the documented default fee limit (RouteParameters::from_payment_params_and_value:
\* 1% + 50 sat)
Cap(a) == a + a \div 100 + 50000

OInit ==
  /\ pay = <<>> /\ call = <<>> /\ ht = <<>> /\ hashPid = <<>> /\ invInfo = <<>> /\ issued = <<>>
  /\ reqAt = {} /\ refAt = {} /\ released = {} /\ fwd = {} /\ snap = <<>> /\ idem = 0

OOpen(nodes, idemTicks) ==
  /\ pay' = <<>> /\ call' = <<>> /\ ht' = <<>> /\ hashPid' = <<>> /\ invInfo' = <<>> /\ issued' = <<>>
  /\ reqAt' = {} /\ refAt' = {} /\ released' = {} /\ fwd' = {}
  /\ snap' = [n \in nodes |-> <<>>] /\ idem' = idemTicks

(* ---- pay_for_offer(offer off, id pid) / create_refund_builder(amt, id pid) returned res ("ok" | "dup" | "err").    *)
(* `c` numbers the calls; ok: the offer is one its issuer created, unaltered; handled: the user had handled every     *)
(* event queued before the call.                                                                                      *)
(* DupRefused: while the id is pending in any state -- awaiting its invoice, invoice received, HTLCs in flight,       *)
(* fulfilled within the idempotency window -- the call is refused.  A refusal needs a reason: the id is known to the  *)
(* node, has not failed and was not forgotten by a restart ("it is safe to retry").                                   *)
Pending(p, node) ==
  /\ p \in Pids /\ pay[p].node = node /\ ~pay[p].dead
  /\ \/ pay[p].term = "none"
     \/ pay[p].term = "sent" /\ pay[p].sentAge < idem
OPay(c, node, pid, kind, off, amt, ok, manual, handled, res) ==
  LET rec == [node |-> node, kind |-> kind, off |-> off, amt |-> amt, ok |-> ok, manual |-> manual,
              gen |-> IF pid \in Pids THEN pay[pid].gen + 1 ELSE 1, age |-> 0,
              \* (an invoice answering an earlier request of the same id is an invoice for this id: the payer cannot tell)
              invs |-> IF pid \in Pids /\ pay[pid].node = node THEN pay[pid].invs ELSE {},
              called |-> {}, got |-> FALSE, gotAge |-> 0, asked |-> FALSE, hash |-> 0,
              aband |-> FALSE, noPay |-> FALSE, err |-> FALSE, term |-> "none", rep |-> FALSE, dead |-> FALSE, sentAge |-> 0,
              \* the id is used again before the user handled the PaymentFailed of its earlier use (or a legal repetition
              \* of it): that many PaymentFailed events may still arrive
              owed |-> IF pid \in Pids
                       THEN pay[pid].owed + (IF pay[pid].term = "none" \/ (pay[pid].term = "failed" /\ pay[pid].rep) THEN 1 ELSE 0)
                       ELSE 0]
  IN
  /\ (res = "ok" /\ pid \in Pids /\ pay[pid].node = node) => ~InFlight(pid)
  /\ (res = "ok" /\ handled) => ~Pending(pid, node)
  /\ res = "dup" => (pid \in Pids /\ pay[pid].node = node /\ ~pay[pid].dead /\ pay[pid].term # "failed")
  /\ call' = Put(call, c, [pid |-> pid, node |-> node, kind |-> kind, off |-> off, amt |-> amt, ok |-> ok, res |-> res])
  /\ pay' = IF res = "ok" THEN Put(pay, pid, rec) ELSE pay
  /\ UNCHANGED <<ht, hashPid, invInfo, issued, reqAt, refAt, released, fwd, snap, idem>>

(* ---- the payee side.  An invoice request is handed to `node`; request_refund_payment is called at `node`.          *)
OReqDelivered(node, c) ==
  /\ reqAt' = reqAt \cup {<<node, c>>}
  /\ UNCHANGED <<pay, call, ht, hashPid, invInfo, issued, refAt, released, fwd, snap, idem>>

(* InvoiceOnlyForOwnOffer: an invoice leaves a node only in answer to an invoice request it was handed, built        *)
(* against an offer the node created and nobody altered (or for a refund its user asked to be paid); the invoice      *)
(* names that offer and its amount.                                                                                   *)
OInvoiceOut(node, c, hash, amt, off) ==
  /\ c \in DOMAIN call
  /\ \/ /\ call[c].kind = "offer" /\ <<node, c>> \in reqAt /\ call[c].ok
        /\ off = call[c].off /\ amt = call[c].amt
     \/ /\ call[c].kind = "refund" /\ <<node, c>> \in refAt
        /\ off = 0 /\ amt = call[c].amt
  /\ issued' = IF hash \in DOMAIN issued THEN issued ELSE Put(issued, hash, [node |-> node, off |-> off, amt |-> amt, c |-> c])
  /\ UNCHANGED <<pay, call, ht, hashPid, invInfo, reqAt, refAt, released, fwd, snap, idem>>

ORefundReq(node, c, hash, amt, res) ==
  /\ refAt' = IF res = "ok" THEN refAt \cup {<<node, c>>} ELSE refAt
  /\ issued' = IF res = "ok" /\ hash \notin DOMAIN issued THEN Put(issued, hash, [node |-> node, off |-> 0, amt |-> amt, c |-> c]) ELSE issued
  /\ UNCHANGED <<pay, call, ht, hashPid, invInfo, reqAt, released, fwd, snap, idem>>

(* ClaimableNamesOffer: PaymentClaimable for an invoice this node issued; its context names the invoice's offer.      *)
OClaimable(node, hash, amt, off, purpose) ==
  /\ hash \in DOMAIN issued /\ issued[hash].node = node
  /\ amt >= issued[hash].amt
  /\ IF issued[hash].off = 0 THEN purpose = "refund" ELSE purpose = "offer" /\ off = issued[hash].off
  /\ UNCHANGED ovars

(* ---- an invoice is handed to `node` (the network may do so any number of times, at any time).                      *)
OInvoiceDelivered(node, c, hash, amt, off) ==
  LET p == IF c \in DOMAIN call THEN call[c].pid ELSE 0
      mine == p \in Pids /\ pay[p].node = node /\ call[c].node = node
  IN
  /\ pay' = IF mine THEN [pay EXCEPT ![p].invs = @ \cup {hash}, ![p].got = TRUE, ![p].gotAge = IF pay[p].got THEN @ ELSE pay[p].age] ELSE pay
  /\ hashPid' = IF mine /\ hash \notin DOMAIN hashPid THEN Put(hashPid, hash, p) ELSE hashPid
  /\ invInfo' = IF mine /\ hash \notin DOMAIN invInfo THEN Put(invInfo, hash, [amt |-> amt, off |-> off, c |-> c]) ELSE invInfo
  /\ UNCHANGED <<call, ht, issued, reqAt, refAt, released, fwd, snap, idem>>

(* an invoice_error whose reply path names payment `pid` is handed to `node` *)
OErrDelivered(node, pid) ==
  /\ pay' = IF pid \in Pids /\ pay[pid].node = node THEN [pay EXCEPT ![pid].err = TRUE] ELSE pay
  /\ UNCHANGED <<call, ht, hashPid, invInfo, issued, reqAt, refAt, released, fwd, snap, idem>>

(* ---- the user of a node that handles invoices itself asks to pay one it was shown (res "ok" | other).              *)
OSendInv(node, pid, hash, res) ==
  /\ pay' = IF res = "ok" /\ pid \in Pids /\ pay[pid].node = node
            THEN [pay EXCEPT ![pid].called = @ \cup {hash}, ![pid].got = TRUE, ![pid].gotAge = IF pay[pid].got THEN @ ELSE pay[pid].age,
                              ![pid].asked = TRUE] ELSE pay
  /\ UNCHANGED <<call, ht, hashPid, invInfo, issued, reqAt, refAt, released, fwd, snap, idem>>

(* Event::InvoiceReceived is truthful: such an invoice was handed to the node for that id *)
OEvInvoiceReceived(node, pid, hash) ==
  /\ pid \in Pids /\ pay[pid].node = node /\ hash \in pay[pid].invs
  /\ UNCHANGED ovars

(* ---- abandon_payment.  While the id awaits its invoice -- no invoice for it was handed to a node that pays by       *)
(* itself, the user of a node that does not has not asked to pay one -- nothing may be paid from now on (a late        *)
(* invoice pays nothing).  Once the node has the invoice, an HTLC may already sit in a channel without having left     *)
(* (holding cell): abandoning no longer prevents the payment.                                                          *)
OAbandon(node, pid) ==
  /\ pay' = IF pid \in Pids /\ pay[pid].node = node /\ pay[pid].term = "none"
            THEN [pay EXCEPT ![pid].aband = TRUE,
                             ![pid].noPay = @ \/ (Own(pid) = {} /\ IF pay[pid].manual THEN ~pay[pid].asked ELSE ~pay[pid].got)]
            ELSE pay
  /\ UNCHANGED <<call, ht, hashPid, invInfo, issued, reqAt, refAt, released, fwd, snap, idem>>

OTick(node) ==
  /\ pay' = [p \in Pids |-> IF pay[p].node = node
                            THEN [pay[p] EXCEPT !.age = @ + 1, !.sentAge = IF pay[p].term = "sent" THEN @ + 1 ELSE @]
                            ELSE pay[p]]
  /\ UNCHANGED <<call, ht, hashPid, invInfo, issued, reqAt, refAt, released, fwd, snap, idem>>

(* ---- an update_add_htlc leaves `node` (a retransmission repeats the key).                                          *)
(* OnePaymentPerId: an HTLC that is not a forward belongs to an id of this node, for which an invoice with that hash   *)
(* was handed to the node (and, if the user handles invoices, which the user asked to pay); the invoice answers the   *)
(* accepted call (a call of this id that was accepted, its offer, its amount); all HTLCs of an id carry one hash; what is committed to the id at any time  *)
(* never exceeds one payment of the invoice's amount (plus the fee limit): a second / duplicate / replayed invoice    *)
(* adds nothing.  An id that reported its outcome, was abandoned before anything left, or that a restarted node no    *)
(* longer lists gets no HTLC.                                                                                         *)
OAdd(node, chan, id, hash, amt) ==
  LET k == <<chan, node, id>>
      forward == <<node, hash>> \in fwd
      p == hashPid[hash]
  IN /\ IF k \in DOMAIN ht THEN UNCHANGED <<ht, pay>>
        ELSE IF forward
        THEN /\ ht' = Put(ht, k, [hash |-> hash, pid |-> 0, gen |-> 0, st |-> "flight", amt |-> amt])
             /\ UNCHANGED pay
        ELSE /\ hash \in DOMAIN hashPid /\ p \in Pids /\ pay[p].node = node
             /\ pay[p].term = "none" /\ ~pay[p].dead /\ ~pay[p].noPay
             /\ hash \in pay[p].invs
             /\ pay[p].manual => hash \in pay[p].called
             /\ pay[p].hash \in {0, hash}
             \* ... an ACCEPTED call: a refused call has no effect, whatever offer it named
             /\ invInfo[hash].c \in DOMAIN call /\ call[invInfo[hash].c].res = "ok"
             /\ invInfo[hash].off = pay[p].off /\ invInfo[hash].amt = pay[p].amt
             /\ LiveAmt(p) + amt <= Cap(invInfo[hash].amt)
             /\ ht' = Put(ht, k, [hash |-> hash, pid |-> p, gen |-> pay[p].gen, st |-> "flight", amt |-> amt])
             /\ pay' = [pay EXCEPT ![p].hash = hash]
     /\ UNCHANGED <<call, hashPid, invInfo, issued, reqAt, refAt, released, fwd, snap, idem>>

OGotAdd(node, hash) ==
  /\ fwd' = fwd \cup {<<node, hash>>}
  /\ UNCHANGED <<pay, call, ht, hashPid, invInfo, issued, reqAt, refAt, released, snap, idem>>

(* an update_fulfill_htlc / update_fail_htlc is handed to the node that offered the HTLC (duplicates change nothing) *)
OResolve(chan, adder, id, how) ==
  LET k == <<chan, adder, id>> IN
  /\ ht' = IF k \in DOMAIN ht /\ ht[k].st = "flight" THEN [ht EXCEPT ![k].st = how] ELSE ht
  /\ UNCHANGED <<pay, call, hashPid, invInfo, issued, reqAt, refAt, released, fwd, snap, idem>>

(* ---- after a channel was closed (a node restarted from a manager snapshot its monitors had overtaken): what the     *)
(* chain shows.  A commitment transaction of `chan` confirmed with output values `outs` (sat): an HTLC in flight on     *)
(* that channel without an output of its value can no longer be claimed; the others stay in flight until their output  *)
(* is spent -- with the preimage (the recipient's claim was settled through an on-chain HTLC output) or without         *)
(* (timeout).                                                                                                          *)
OChainCommit(chan, outs) ==
  /\ ht' = [k \in DOMAIN ht |-> IF k[1] = chan /\ ht[k].st = "flight" /\ (ht[k].amt \div 1000) \notin outs
                                 THEN [ht[k] EXCEPT !.st = "fail"] ELSE ht[k]]
  /\ UNCHANGED <<pay, call, hashPid, invInfo, issued, reqAt, refAt, released, fwd, snap, idem>>
OChainHtlc(chan, hash, preimage) ==
  /\ ht' = [k \in DOMAIN ht |-> IF k[1] = chan /\ ht[k].hash = hash /\ ht[k].st = "flight"
                                 THEN [ht[k] EXCEPT !.st = IF preimage THEN "ful" ELSE "fail"] ELSE ht[k]]
  /\ UNCHANGED <<pay, call, hashPid, invInfo, issued, reqAt, refAt, released, fwd, snap, idem>>

OClaimCall(hash) ==
  /\ released' = released \cup {hash}
  /\ UNCHANGED <<pay, call, ht, hashPid, invInfo, issued, reqAt, refAt, fwd, snap, idem>>

(* ---- Event::PaymentSent.  SentTruthful: the recipient released the preimage of the hash the id's HTLCs carried,    *)
(* the reported preimage matches.  Exactly one terminal event; a repetition only after a restart from a snapshot      *)
(* that did not know the event had been handled; never after PaymentFailed; never for a forgotten id.                 *)
OEvSent(node, pid, hash, preimageOk) ==
  /\ pid \in Pids /\ pay[pid].node = node
  /\ hash # 0 /\ hash = pay[pid].hash
  /\ hash \in released /\ preimageOk
  /\ ~pay[pid].dead
  /\ pay[pid].term = "none" \/ (pay[pid].term = "sent" /\ pay[pid].rep)
  /\ pay' = [pay EXCEPT ![pid].term = "sent", ![pid].rep = FALSE, ![pid].sentAge = IF pay[pid].term = "none" THEN 0 ELSE @]
  /\ UNCHANGED <<call, ht, hashPid, invInfo, issued, reqAt, refAt, released, fwd, snap, idem>>

(* ---- Event::PaymentFailed.  FailedTruthful: no HTLC of the id is in flight and none was settled.  The reason is    *)
(* truthful too: InvoiceRequestExpired only for an id that never got an invoice nor sent an HTLC, and never earlier   *)
(* than documented (more than ReqTicks timer ticks after the request, no invoice within that time); UserAbandoned only after abandon_payment;       *)
(* InvoiceRequestRejected only after an invoice_error for THIS id was handed to the node.                             *)
OEvFailed(node, pid, reason) ==
  /\ pid \in Pids /\ pay[pid].node = node
  /\ \/ /\ pay[pid].owed > 0
        /\ pay' = [pay EXCEPT ![pid].owed = @ - 1]
     \/ /\ ~Settled(pid) /\ ~InFlight(pid)
        /\ pay[pid].term = "none" \/ (pay[pid].term = "failed" /\ pay[pid].rep)
        \* (the user may handle the event late: an invoice that came after the time was up changes nothing)
        /\ reason = "InvoiceRequestExpired" => (pay[pid].kind = "offer" /\ Own(pid) = {} /\ pay[pid].age > ReqTicks
                                              /\ (~pay[pid].got \/ pay[pid].gotAge > ReqTicks))
        /\ reason = "UserAbandoned" => pay[pid].aband
        /\ reason = "InvoiceRequestRejected" => pay[pid].err
        /\ pay' = [pay EXCEPT ![pid].term = "failed", ![pid].rep = FALSE]
  /\ UNCHANGED <<call, ht, hashPid, invInfo, issued, reqAt, refAt, released, fwd, snap, idem>>

(* ---- the node's manager is persisted / the node restarts from that snapshot.                                        *)
OSave(node) ==
  /\ snap' = [snap EXCEPT ![node] = [p \in {q \in Pids : pay[q].node = node} |->
                                      \* while a repetition is pending the restored manager does not know the event was handled
                                      [pay[p] EXCEPT !.term = IF pay[p].rep THEN "none" ELSE @]]]
  /\ UNCHANGED <<pay, call, ht, hashPid, invInfo, issued, reqAt, refAt, released, fwd, idem>>

(* The restored manager knows what the snapshot knew.  For the use of an id the snapshot holds too, the outcome the    *)
(* user has seen stands (a repetition is allowed if the snapshot did not know it was handled); the counters and what   *)
(* the manager was told since (invoices, abandon, errors) are those of the snapshot.  If the id was used again since   *)
(* the snapshot, that later use is forgotten and the earlier one is back.                                              *)
MaxI(a, b) == IF a > b THEN a ELSE b
ORestart(node) ==
  /\ pay' = [p \in Pids |->
       IF pay[p].node = node /\ p \in DOMAIN snap[node]
       THEN LET s == snap[node][p] IN
            IF s.gen = pay[p].gen
            THEN [pay[p] EXCEPT !.rep = (pay[p].term # "none" /\ s.term = "none"),
                                !.age = s.age, !.got = s.got, !.gotAge = s.gotAge, !.asked = s.asked,
                                !.aband = s.aband, !.noPay = s.noPay, !.err = s.err,
                                !.sentAge = IF s.term = "sent" THEN s.sentAge ELSE 0,
                                !.owed = MaxI(@, s.owed)]
            ELSE [s EXCEPT !.invs = pay[p].invs, !.rep = FALSE]
       ELSE IF pay[p].node = node THEN [pay[p] EXCEPT !.rep = (pay[p].term # "none")]
       ELSE pay[p]]
  /\ UNCHANGED <<call, ht, hashPid, invInfo, issued, reqAt, refAt, released, fwd, snap, idem>>

(* ---- list_recent_payments right after a restart.  ForgottenIsDead: an id that is no longer listed has no HTLC in    *)
(* flight and (guards of OAdd / OEvSent / Pending) never completes and may be used again; a listed id stays pending.   *)
ORecentAfterRestart(node, listed) ==
  /\ \A p \in Pids : (pay[p].node = node /\ p \notin listed) => ~InFlight(p)
  /\ pay' = [p \in Pids |-> IF pay[p].node = node /\ p \notin listed /\ pay[p].term # "sent"
                            THEN [pay[p] EXCEPT !.dead = TRUE] ELSE pay[p]]
  /\ UNCHANGED <<call, ht, hashPid, invInfo, issued, reqAt, refAt, released, fwd, snap, idem>>

(* ---- quiescence: every link is up and empty, nothing is held back by the network, every event has been handled.     *)
(* "Once no HTLC of an outbound payment remains pending the sender reports a terminal event":                          *)
(*   an id with a settled HTLC has reported PaymentSent; an id whose HTLCs all failed has reported PaymentFailed;       *)
(*   an id that never sent an HTLC has reported PaymentFailed if it was abandoned, or its request was rejected, or      *)
(*   an invoice for it was handed over (to a node that pays by itself) or was asked to be paid (by the user), or        *)
(*   if it has been waiting for its invoice for more than ReqTicks timer ticks.                                         *)
(* An id that is still waiting within its time, or whose invoice the user was shown but did not ask to pay, is open.   *)
TerminalOK(p) ==
  (~InFlight(p) /\ ~pay[p].dead) =>
     IF Settled(p) THEN pay[p].term = "sent"
     ELSE IF Own(p) # {} THEN pay[p].term = "failed"
     ELSE (\/ pay[p].aband \/ pay[p].err
           \/ ~pay[p].manual /\ pay[p].got
           \/ pay[p].manual /\ pay[p].asked
           \/ pay[p].kind = "offer" /\ ~pay[p].got /\ pay[p].age > ReqTicks)
          => pay[p].term = "failed"
OQuietOK == \A p \in Pids : TerminalOK(p)

(* state invariants (model and traces) *)
TermSane == \A p \in Pids : pay[p].term \in {"none", "sent", "failed"}
\* all HTLCs ever offered for one use of an id carry one payment hash
OneHashPerId == \A p \in Pids : \A k1, k2 \in Own(p) : ht[k1].hash = ht[k2].hash
\* what is committed to an id never exceeds one payment
OnePaymentPerId == \A p \in Pids : Own(p) # {} => LiveAmt(p) <= Cap(pay[p].amt)
=============================================================================
