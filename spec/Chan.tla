-------------------------------- MODULE Chan --------------------------------
(***************************************************************************)
(* The BOLT-2 commitment protocol and the BOLT-3 commitment contents as an *)
(* independent observer sees them -- the common core of C01 (conservation, *)
(* agreement, balances), C05 (revocation discipline) and C09 (nothing is    *)
(* revealed before its monitor update is durable).                         *)
(*                                                                         *)
(* An *endpoint* e = <<c, s>> is side s \in {1,2} of channel c.  Every      *)
(* operator below reads and writes only endpoint-local state, driven by the *)
(* endpoint's own history of sent and received messages: that is all an     *)
(* honest implementation may base a commitment on.                          *)
(*                                                                         *)
(* Each update (add, removal, fee) proposed by P to Q passes five stages    *)
(*   proposer P: 0 sent, 1 P signed it, 2 Q revoked, 3 Q signed it, 4 P revoked *)
(*   receiver Q: 0 rcvd, 1 got sig, 2 Q revoked, 3 Q signed it, 4 P revoked *)
(* and is part of Q's commitment from (proposer) stage 0 / (receiver)       *)
(* stage 0 on, and of P's commitment from stage 2 on.                       *)
(***************************************************************************)
EXTENDS Integers, Sequences, FiniteSets, FiniteSetsExt, TLC

\* Guards are grouped by the property they state, so that a rejected implementation trace can be
\* attributed: re-validating with one group relaxed tells which property's guard failed.
CONSTANT Relax      \* subset of {"C01", "C05", "C09", "C10", "C12"}; {} in every registered check
G1(p) == ("C01" \in Relax) \/ p      \* commitment contents, agreement, conservation, limits
G5(p) == ("C05" \in Relax) \/ p      \* revocation discipline, commitment numbering
G2(p) == ("C02" \in Relax) \/ p      \* forwarding: terms, claim-if-known, fail-only-when-dead, no loss
G9(p) == ("C09" \in Relax) \/ p      \* monitor-update ordering and release conditions
G10(p) == ("C10" \in Relax) \/ p     \* restart: stale managers close, others resume
G12(p) == ("C12" \in Relax) \/ p     \* serialization round trips
G14(p) == ("C14" \in Relax) \/ p     \* attribution data end to end (the onion engine's property, observed on real networks)

VARIABLES
  par,    \* [chan -> parameters]  value_sat, funder (1|2), type, dust[1..2], feerate0
  cnt,    \* [endpoint -> [sentCS, recvCS, sentRAA, recvRAA]]
  hs,     \* [endpoint -> set of HTLC records]
  fees,   \* [endpoint -> Seq([rate, st])]   fee updates in flight (all proposed by the funder)
  feeBase,\* [endpoint -> feerate both sides have irrevocably committed to]
  base,   \* [endpoint -> own balance in msat counting only irrevocably settled HTLCs]
  link,   \* [endpoint -> "up" | "down" | "sync"]   sync: reconnected, peer's reestablish not yet seen
  redo,   \* [endpoint -> [cs, raa: BOOLEAN, upd: set of update keys to retransmit]]
  lastCS, \* [endpoint -> content of the last commitment this endpoint signed for its peer]
  order,  \* [endpoint -> "cs" | "raa" | "none"]  which of its last CS / RAA was sent later
  pts,    \* [endpoint -> Seq(point id)]  per-commitment points announced by this endpoint's RAAs
  mon,    \* [endpoint -> [last, infl, cp, holder, pre]]  monitor-update pipeline (C09)
  ownExp  \* [endpoint -> [num -> content]]  what each accepted holder commitment must contain

cvars == <<par, cnt, hs, fees, feeBase, base, link, redo, lastCS, order, pts, mon, ownExp>>

Other(s) == 3 - s
Peer(e) == <<e[1], Other(e[2])>>

Sum(S) == FoldSet(LAMBDA h, acc : acc + h.amt, 0, S)
SatSub(a, b) == IF a >= b THEN a - b ELSE 0

\* ------------------------------------------------------------ BOLT-3 contents
BaseWeight(t) == IF t = "anchors" THEN 1124 ELSE 724
HtlcTxFee(t, rate, offered) ==
  IF t = "static" THEN (rate * (IF offered THEN 663 ELSE 703)) \div 1000 ELSE 0
AnchorsSat(t) == IF t = "anchors" THEN 660 ELSE 0

\* Which HTLCs does endpoint e consider part of commitment `own` (TRUE: its own commitment,
\* as it must be when the peer signs it; FALSE: the peer's commitment, which e signs)?
AddApplied(h, own) ==
  IF own THEN (h.dir = "in" \/ h.add >= 2) ELSE (h.dir = "out" \/ h.add >= 2)
RemApplied(h, own) ==
  /\ h.rem >= 0
  /\ IF own THEN (IF h.dir = "out" THEN TRUE ELSE h.rem >= 2)
            ELSE (IF h.dir = "in" THEN TRUE ELSE h.rem >= 2)

Live(e, own) == {h \in hs[e] : AddApplied(h, own) /\ ~RemApplied(h, own)}

\* e's balance (msat) in that commitment
BalSelf(e, own) ==
  base[e]
  - Sum({h \in hs[e] : h.dir = "out" /\ AddApplied(h, own) /\ ~(RemApplied(h, own) /\ h.res = "fail")})
  + Sum({h \in hs[e] : h.dir = "in" /\ RemApplied(h, own) /\ h.res = "fulfill"})

\* the fee rate of that commitment: the funder's proposals apply to the other side's commitment
\* at once and to the funder's own from stage 2 on
FeeOf(e, own) ==
  LET c == e[1]
      iAmFunder == par[c].funder = e[2]
      funderCommit == (own = iAmFunder)      \* is this the funder's commitment?
      ok(k) == IF funderCommit THEN fees[e][k].st >= 2 ELSE TRUE
      idx == {k \in 1..Len(fees[e]) : ok(k)}
  IN IF idx = {} THEN feeBase[e] ELSE fees[e][Max(idx)].rate

Commit(e, own) ==
  LET c == e[1]  p == par[c]
      owner == IF own THEN e[2] ELSE Other(e[2])
      rate == FeeOf(e, own)
      live == Live(e, own)
      offeredByOwner(h) == (own /\ h.dir = "out") \/ (~own /\ h.dir = "in")
      isDust(h) == (h.amt \div 1000) < p.dust[owner] + HtlcTxFee(p.type, rate, offeredByOwner(h))
      nd == {h \in live : ~isDust(h)}
      fee == (rate * (BaseWeight(p.type) + 172 * Cardinality(nd))) \div 1000
      selfMsat == BalSelf(e, own)
      peerMsat == p.value * 1000 - selfMsat - Sum(live)
      ownerMsat == IF own THEN selfMsat ELSE peerMsat
      otherMsat == IF own THEN peerMsat ELSE selfMsat
      ownerFunds == p.funder = owner
      oA == IF ownerFunds THEN SatSub(ownerMsat, AnchorsSat(p.type) * 1000) ELSE ownerMsat
      tA == IF ownerFunds THEN otherMsat ELSE SatSub(otherMsat, AnchorsSat(p.type) * 1000)
      oS == IF ownerFunds THEN SatSub(oA \div 1000, fee) ELSE oA \div 1000
      tS == IF ownerFunds THEN tA \div 1000 ELSE SatSub(tA \div 1000, fee)
      trim(x) == IF x >= p.dust[owner] THEN x ELSE 0
  IN [num |-> IF own THEN cnt[e].recvCS + 1 ELSE cnt[e].sentCS + 1,
      feerate |-> rate,
      to_b |-> trim(oS), to_c |-> trim(tS),
      nondust |-> {[hash |-> h.hash, amt |-> h.amt, offered |-> offeredByOwner(h)] : h \in nd},
      dust |-> {[hash |-> h.hash, amt |-> h.amt, offered |-> offeredByOwner(h)] : h \in live \ nd},
      negative |-> selfMsat < 0 \/ peerMsat < 0]

\* Conservation (C01): what a commitment pays out plus what it burns equals the channel value.
Conserves(e, own) ==
  LET c == Commit(e, own)  p == par[e[1]]
      out == c.to_b + c.to_c + FoldSet(LAMBDA h, a : a + (h.amt \div 1000), 0, c.nondust)
  IN ~c.negative /\ out <= p.value

\* ------------------------------------------------------------ stage bumps
Bump(S, fromP, fromR) ==
  \* proposer-side stage fromP -> fromP+1 on own proposals, receiver-side fromR -> fromR+1 on the peer's
  {[h EXCEPT !.add = IF (h.dir = "out" /\ @ = fromP) \/ (h.dir = "in" /\ @ = fromR) THEN @ + 1 ELSE @,
             !.rem = IF (h.dir = "in" /\ @ = fromP) \/ (h.dir = "out" /\ @ = fromR) THEN @ + 1 ELSE @] : h \in S}

BumpFees(e, fromP, fromR) ==
  LET mine == par[e[1]].funder = e[2]
      from == IF mine THEN fromP ELSE fromR
  IN [k \in 1..Len(fees[e]) |-> IF fees[e][k].st = from THEN [fees[e][k] EXCEPT !.st = @ + 1] ELSE fees[e][k]]

\* drop what became irrevocable on both sides (stage 4) and fold it into the bases
Settle(e, S, F) ==
  LET done == {h \in S : h.rem = 4}
      nb == base[e]
            - Sum({h \in done : h.dir = "out" /\ h.res = "fulfill"})
            + Sum({h \in done : h.dir = "in" /\ h.res = "fulfill"})
      doneF == {k \in 1..Len(F) : F[k].st = 4}
      nf == IF doneF = {} THEN feeBase[e] ELSE F[Max(doneF)].rate
      keepF == SelectSeq(F, LAMBDA f : f.st < 4)
  IN /\ hs' = [hs EXCEPT ![e] = S \ done]
     /\ base' = [base EXCEPT ![e] = nb]
     /\ fees' = [fees EXCEPT ![e] = keepF]
     /\ feeBase' = [feeBase EXCEPT ![e] = nf]

Up(e) == link[e] = "up"
Unch(vs) == UNCHANGED vs

\* ------------------------------------------------------------ update messages
Has(e, d, id) == \E h \in hs[e] : h.dir = d /\ h.id = id
Get(e, d, id) == CHOOSE h \in hs[e] : h.dir = d /\ h.id = id

NextId(e, d) == IF {h.id : h \in {x \in hs[e] : x.dir = d}} = {} THEN -1
                ELSE Max({h.id : h \in {x \in hs[e] : x.dir = d}})

\* e puts update_add_htlc(id) on the wire.  A retransmission after reconnect repeats a signed,
\* not yet revoked add unchanged.
SendAdd(e, id, amt, hash) ==
  /\ Up(e)
  /\ IF Has(e, "out", id)
     THEN /\ <<"add", id>> \in redo[e].upd
          /\ Get(e, "out", id).amt = amt /\ Get(e, "out", id).hash = hash
          /\ redo' = [redo EXCEPT ![e].upd = @ \ {<<"add", id>>}]
          /\ Unch(<<hs>>)
     ELSE /\ redo[e].upd = {}
          /\ hs' = [hs EXCEPT ![e] = @ \cup {[dir |-> "out", id |-> id, amt |-> amt, hash |-> hash,
                                                add |-> 0, rem |-> -1, res |-> "none"]}]
          /\ Unch(<<redo>>)
  /\ Unch(<<par, cnt, fees, feeBase, base, link, lastCS, order, pts, mon, ownExp>>)

RecvAdd(e, id, amt, hash) ==
  /\ Up(e)
  /\ ~Has(e, "in", id)
  /\ hs' = [hs EXCEPT ![e] = @ \cup {[dir |-> "in", id |-> id, amt |-> amt, hash |-> hash,
                                        add |-> 0, rem |-> -1, res |-> "none"]}]
  /\ Unch(<<par, cnt, fees, feeBase, base, link, redo, lastCS, order, pts, mon, ownExp>>)

\* e removes an inbound HTLC (fulfil / fail): only once the add is irrevocable on both sides
SendRemove(e, id, res) ==
  /\ Up(e)
  /\ Has(e, "in", id)
  /\ LET h == Get(e, "in", id) IN
     IF h.rem >= 0
     THEN /\ <<"rem", id>> \in redo[e].upd /\ h.res = res
          /\ redo' = [redo EXCEPT ![e].upd = @ \ {<<"rem", id>>}]
          /\ Unch(<<hs>>)
     ELSE /\ redo[e].upd = {}
          /\ h.add = 4
          /\ hs' = [hs EXCEPT ![e] = (@ \ {h}) \cup {[h EXCEPT !.rem = 0, !.res = res]}]
          /\ Unch(<<redo>>)
  /\ Unch(<<par, cnt, fees, feeBase, base, link, lastCS, order, pts, mon, ownExp>>)

RecvRemove(e, id, res) ==
  /\ Up(e)
  /\ Has(e, "out", id)
  /\ LET h == Get(e, "out", id) IN
     /\ h.rem = -1 /\ h.add = 4
     /\ hs' = [hs EXCEPT ![e] = (@ \ {h}) \cup {[h EXCEPT !.rem = 0, !.res = res]}]
  /\ Unch(<<par, cnt, fees, feeBase, base, link, redo, lastCS, order, pts, mon, ownExp>>)

SendFee(e, rate) ==
  /\ Up(e)
  /\ par[e[1]].funder = e[2]
  /\ IF <<"fee", rate>> \in redo[e].upd
     THEN /\ redo' = [redo EXCEPT ![e].upd = @ \ {<<"fee", rate>>}] /\ Unch(<<fees>>)
     ELSE /\ redo[e].upd = {}
          /\ fees' = [fees EXCEPT ![e] = Append(@, [rate |-> rate, st |-> 0])] /\ Unch(<<redo>>)
  /\ Unch(<<par, cnt, hs, feeBase, base, link, lastCS, order, pts, mon, ownExp>>)

RecvFee(e, rate) ==
  /\ Up(e)
  /\ par[e[1]].funder = Other(e[2])
  /\ fees' = [fees EXCEPT ![e] = Append(@, [rate |-> rate, st |-> 0])]
  /\ Unch(<<par, cnt, hs, feeBase, base, link, redo, lastCS, order, pts, mon, ownExp>>)

\* ------------------------------------------------------------ commitment_signed / revoke_and_ack
HasNews(e) == (\E h \in hs[e] : (h.dir = "out" /\ h.add = 0) \/ (h.dir = "in" /\ h.rem = 0)
                                  \/ (h.dir = "in" /\ h.add = 2) \/ (h.dir = "out" /\ h.rem = 2))
              \/ (\E k \in 1..Len(fees[e]) : fees[e][k].st = (IF par[e[1]].funder = e[2] THEN 0 ELSE 2))

\* e signs its peer's next commitment.  `c` is the content the implementation signed.
\* C05: never while an earlier commitment of the peer is still unrevoked.
SendCS(e, c) ==
  /\ Up(e)
  /\ IF redo[e].cs
     THEN \* retransmission of the lost commitment_signed: identical content, no state change
          /\ redo[e].upd = {}
          /\ G5(~redo[e].raa \/ order[e] = "raa")  \* a lost RAA that was sent earlier goes first
          /\ G1(c = lastCS[e])
          /\ redo' = [redo EXCEPT ![e].cs = FALSE]
          /\ Unch(<<cnt, hs, fees, feeBase, base, lastCS, order>>)
     ELSE /\ G5(cnt[e].sentCS = cnt[e].recvRAA)
          \* a revoke_and_ack lost in a disconnection is retransmitted before anything new is signed:
          \* the new signature would cover updates the peer does not know to be acknowledged
          \* (TLC finds the disagreement if this guard is dropped: spec/mutants/ChanNoRaaFirst)
          /\ G1(~redo[e].raa)
          /\ G1(HasNews(e))
          /\ G1(c = Commit(e, FALSE))
          /\ G5(c.num = cnt[e].sentCS + 1)
          /\ G1(Conserves(e, FALSE))
          /\ lastCS' = [lastCS EXCEPT ![e] = c]
          /\ order' = [order EXCEPT ![e] = "cs"]
          /\ cnt' = [cnt EXCEPT ![e].sentCS = @ + 1]
          /\ hs' = [hs EXCEPT ![e] = Bump(@, 0, 2)]
          /\ fees' = [fees EXCEPT ![e] = BumpFees(e, 0, 2)]
          /\ Unch(<<feeBase, base, redo>>)
  /\ Unch(<<par, link, pts, mon, ownExp>>)

\* e receives a signature for its own next commitment and -- in an honest run -- accepts it.
\* The content e's implementation accepted is observed through its monitor update (HolderCommit).
RecvCS(e) ==
  /\ Up(e)
  /\ G5(cnt[e].recvCS = cnt[e].sentRAA)      \* the peer may not sign while one is unrevoked
  /\ G1(Conserves(e, TRUE))
  /\ cnt' = [cnt EXCEPT ![e].recvCS = @ + 1]
  /\ hs' = [hs EXCEPT ![e] = Bump(@, 2, 0)]
  /\ fees' = [fees EXCEPT ![e] = BumpFees(e, 2, 0)]
  /\ ownExp' = [ownExp EXCEPT ![e] = [n \in DOMAIN @ \cup {cnt[e].recvCS + 1} |->
                                        IF n = cnt[e].recvCS + 1 THEN Commit(e, TRUE) ELSE @[n]]]
  /\ Unch(<<par, feeBase, base, link, redo, lastCS, order, pts, mon>>)

\* the content of the holder commitment e is about to accept (evaluated before RecvCS)
ExpectedOwn(e) == Commit(e, TRUE)

\* e revokes its previous commitment.  C05: only when it holds a newer, fully signed one.
SendRAA(e, secretPt, nextPt) ==
  /\ Up(e)
  /\ IF redo[e].raa /\ (~redo[e].cs \/ order[e] = "cs")
     THEN /\ redo' = [redo EXCEPT ![e].raa = FALSE]
          /\ Unch(<<cnt, hs, fees, feeBase, base, order, pts, ownExp>>)
     ELSE /\ ~redo[e].raa
          \* a commitment_signed lost in a disconnection is retransmitted before a *new* revocation:
          \* it was built without the acknowledgement the revocation conveys (found by TLC)
          /\ G1(~redo[e].cs)
          /\ G5(cnt[e].recvCS = cnt[e].sentRAA + 1)
          \* the revealed secret belongs to the point announced two revocations earlier
          /\ G5(Len(pts[e]) >= 2 => secretPt = pts[e][Len(pts[e]) - 1])
          /\ pts' = [pts EXCEPT ![e] = Append(@, nextPt)]
          /\ cnt' = [cnt EXCEPT ![e].sentRAA = @ + 1]
          /\ order' = [order EXCEPT ![e] = "raa"]
          /\ Settle(e, Bump(hs[e], 3, 1), BumpFees(e, 3, 1))
          /\ Unch(<<redo>>)
  /\ Unch(<<par, link, lastCS, mon, ownExp>>)

RecvRAA(e) ==
  /\ Up(e)
  /\ G5(cnt[e].sentCS = cnt[e].recvRAA + 1)
  /\ cnt' = [cnt EXCEPT ![e].recvRAA = @ + 1]
  /\ Settle(e, Bump(hs[e], 1, 3), BumpFees(e, 1, 3))
  /\ Unch(<<par, link, redo, lastCS, order, pts, mon, ownExp>>)

\* ------------------------------------------------------------ disconnect / reestablish
\* Both sides forget every update that was not yet covered by a signature.
Forgotten(S) ==
  LET dropAdd == {h \in S : h.add = 0}
      undoRem == {h \in S : h.rem = 0}
  IN (S \ (dropAdd \cup undoRem)) \cup {[h EXCEPT !.rem = -1, !.res = "none"] : h \in undoRem \ dropAdd}

\* the connection of the endpoints in E goes down (E = both ends of a channel, or one crashed end)
Disconnect(E) ==
  /\ \A e \in E : link[e] # "down"
  /\ link' = [e \in DOMAIN link |-> IF e \in E THEN "down" ELSE link[e]]
  /\ hs' = [e \in DOMAIN hs |-> IF e \in E THEN Forgotten(hs[e]) ELSE hs[e]]
  /\ fees' = [e \in DOMAIN fees |-> IF e \in E THEN SelectSeq(fees[e], LAMBDA f : f.st > 0) ELSE fees[e]]
  /\ redo' = [e \in DOMAIN redo |-> IF e \in E THEN [cs |-> FALSE, raa |-> FALSE, upd |-> {}] ELSE redo[e]]
  /\ Unch(<<par, cnt, feeBase, base, lastCS, order, pts, mon, ownExp>>)

Reconnect(E) ==
  /\ \A e \in E : link[e] = "down"
  /\ link' = [e \in DOMAIN link |-> IF e \in E THEN "sync" ELSE link[e]]
  /\ Unch(<<par, cnt, hs, fees, feeBase, base, redo, lastCS, order, pts, mon, ownExp>>)

\* ------------------------------------------------------------ restart from persisted state (C10)
\* what a ChannelManager snapshot remembers of the endpoints in E
Snapshot(E) == [cnt |-> [e \in E |-> cnt[e]], hs |-> [e \in E |-> hs[e]], fees |-> [e \in E |-> fees[e]],
                feeBase |-> [e \in E |-> feeBase[e]], base |-> [e \in E |-> base[e]],
                lastCS |-> [e \in E |-> lastCS[e]], order |-> [e \in E |-> order[e]],
                pts |-> [e \in E |-> pts[e]], mon |-> [e \in E |-> mon[e]], ownExp |-> [e \in E |-> ownExp[e]],
                link |-> [e \in E |-> link[e]]]

\* The node owning endpoints E stops and comes back from snapshot S of its manager and, per
\* channel, a monitor that has applied updates up to M[e].  P are its peers' endpoints.  A manager
\* that is older than its monitor must not resume the channel: it is closed from the monitor.
Stale(S, M, e) == S.mon[e].last < M[e]
Restart(E, P, S, M) ==
  /\ link' = [e \in DOMAIN link |->
       IF e \in E THEN (IF S.link[e] = "closed" \/ link[e] = "closed" \/ Stale(S, M, e) THEN "closed" ELSE "down")
       ELSE IF e \in P /\ link[e] # "closed" THEN "down" ELSE link[e]]
  /\ cnt' = [e \in DOMAIN cnt |-> IF e \in E THEN S.cnt[e] ELSE cnt[e]]
  \* (a stale endpoint is closed from its monitor: what is still pending there is what the monitor holds -- the
  \*  state reached before the crash if that monitor is current, else possibly also what the snapshot remembers)
  /\ hs' = [e \in DOMAIN hs |-> IF e \in E THEN (IF Stale(S, M, e)
                                                 THEN (IF M[e] >= mon[e].last THEN Forgotten(hs[e])
                                                       ELSE Forgotten(S.hs[e]) \cup
                                                            {h \in Forgotten(hs[e]) : \A g \in Forgotten(S.hs[e]) : ~(g.dir = h.dir /\ g.id = h.id)})
                                                 ELSE Forgotten(S.hs[e]))
                                 ELSE IF e \in P THEN Forgotten(hs[e]) ELSE hs[e]]
  /\ fees' = [e \in DOMAIN fees |-> IF e \in E THEN SelectSeq(S.fees[e], LAMBDA f : f.st > 0)
                                     ELSE IF e \in P THEN SelectSeq(fees[e], LAMBDA f : f.st > 0) ELSE fees[e]]
  /\ feeBase' = [e \in DOMAIN feeBase |-> IF e \in E THEN S.feeBase[e] ELSE feeBase[e]]
  /\ base' = [e \in DOMAIN base |-> IF e \in E THEN S.base[e] ELSE base[e]]
  /\ lastCS' = [e \in DOMAIN lastCS |-> IF e \in E THEN S.lastCS[e] ELSE lastCS[e]]
  /\ order' = [e \in DOMAIN order |-> IF e \in E THEN S.order[e] ELSE order[e]]
  /\ pts' = [e \in DOMAIN pts |-> IF e \in E THEN S.pts[e] ELSE pts[e]]
  /\ ownExp' = [e \in DOMAIN ownExp |-> IF e \in E THEN S.ownExp[e] ELSE ownExp[e]]
  /\ redo' = [e \in DOMAIN redo |-> IF e \in E \cup P THEN [cs |-> FALSE, raa |-> FALSE, upd |-> {}] ELSE redo[e]]
  \* the monitor is what was durable; updates the manager still holds in flight are replayed
  /\ mon' = [e \in DOMAIN mon |-> IF e \in E THEN [S.mon[e] EXCEPT !.last = IF M[e] < @ THEN M[e] ELSE @, !.infl = {}]
                                   ELSE mon[e]]
  /\ Unch(<<par>>)

\* e announces where it stands
SendReestablish(e, nextLocal, nextRemote) ==
  /\ link[e] \in {"sync", "up"}
  /\ G5(nextLocal = cnt[e].recvCS + 1)
  /\ G5(nextRemote = cnt[e].recvRAA)
  /\ Unch(cvars)

\* e learns where its peer stands and owes it the retransmissions BOLT-2 prescribes
RecvReestablish(e, nextLocal, nextRemote) ==
  /\ link[e] = "sync"
  /\ G5(nextLocal \in {cnt[e].sentCS, cnt[e].sentCS + 1})
  /\ G5(nextRemote \in {cnt[e].sentRAA, cnt[e].sentRAA - 1})
  /\ LET lostCS == nextLocal = cnt[e].sentCS /\ cnt[e].sentCS > cnt[e].recvRAA
         lostRAA == nextRemote = cnt[e].sentRAA - 1
         funder == par[e[1]].funder = e[2]
         upd == IF lostCS
                THEN {<<"add", h.id>> : h \in {x \in hs[e] : x.dir = "out" /\ x.add = 1}}
                     \cup {<<"rem", h.id>> : h \in {x \in hs[e] : x.dir = "in" /\ x.rem = 1}}
                     \cup (IF funder THEN {<<"fee", fees[e][k].rate>> : k \in {j \in 1..Len(fees[e]) : fees[e][j].st = 1}} ELSE {})
                ELSE {}
     IN redo' = [redo EXCEPT ![e] = [cs |-> lostCS, raa |-> lostRAA, upd |-> upd]]
  /\ link' = [link EXCEPT ![e] = "up"]
  /\ Unch(<<par, cnt, hs, fees, feeBase, base, lastCS, order, pts, mon, ownExp>>)

\* ------------------------------------------------------------ monitor-update pipeline (C09)
\* A ChannelMonitorUpdate with id uid is handed to chain::Watch / Persist.
Persist(e, uid, inprogress, cpNums, holderNums, preHashes) ==
  /\ G9(uid = mon[e].last + 1)                              \* strictly increasing, gap-free
  /\ mon' = [mon EXCEPT ![e] =
       [last |-> uid,
        infl |-> IF inprogress THEN @.infl \cup {uid} ELSE @.infl,
        cp |-> [n \in DOMAIN @.cp \cup cpNums |-> IF n \in cpNums THEN uid ELSE @.cp[n]],
        holder |-> [n \in DOMAIN @.holder \cup holderNums |-> IF n \in holderNums THEN uid ELSE @.holder[n]],
        pre |-> [h \in DOMAIN @.pre \cup preHashes |-> IF h \in DOMAIN @.pre THEN @.pre[h] ELSE uid]]]
  /\ Unch(<<par, cnt, hs, fees, feeBase, base, link, redo, lastCS, order, pts, ownExp>>)

\* (the completion of a full re-persist that carried no update -- a chain-sync write -- names an id that
\* is not in flight as an *update*: it changes nothing here)
Complete(e, uid) ==
  /\ mon' = [mon EXCEPT ![e].infl = @ \ {uid}]
  /\ Unch(<<par, cnt, hs, fees, feeBase, base, link, redo, lastCS, order, pts, ownExp>>)

\* (written -- after a restart: landed or replayed -- and not in flight)
Durable(e, uid) == uid <= mon[e].last /\ \A u \in mon[e].infl : u > uid

\* release conditions for messages that reveal state (evaluated when the message leaves the node)
MayReleaseCS(e, num) == G9(num \in DOMAIN mon[e].cp /\ Durable(e, mon[e].cp[num]))
MayReleaseRAA(e) == G9(LET n == cnt[e].recvCS IN n \in DOMAIN mon[e].holder /\ Durable(e, mon[e].holder[n]))
MayReleaseFulfil(e, hash) == G9(hash \in DOMAIN mon[e].pre /\ Durable(e, mon[e].pre[hash]))

\* ------------------------------------------------------------ invariants over every state
TypeOK == \A e \in DOMAIN hs : \A h \in hs[e] : h.add \in 0..4 /\ h.rem \in -1..4
\* C05: at most one commitment of either side is unrevoked beside the latest
CountersSane == \A e \in DOMAIN cnt :
   /\ cnt[e].sentCS - cnt[e].recvRAA \in {0, 1}
   /\ cnt[e].recvCS - cnt[e].sentRAA \in {0, 1}
\* C01: each HTLC id appears once per endpoint and direction
ExactlyOnce == \A e \in DOMAIN hs : \A h1, h2 \in hs[e] : (h1.dir = h2.dir /\ h1.id = h2.id) => h1 = h2
NonNegative == \A e \in DOMAIN base : base[e] >= 0
=============================================================================
