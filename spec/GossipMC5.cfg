SPECIFICATION MCSpec
CONSTANTS
  U = 5
  MaxOps = 6
  FailCs = {}
  FailNs = {1}
  PruneTs = {0, 150, 350}
  RgsSnaps = {}
  ResolveCs = {}
  WithReload = TRUE
CONSTRAINT Bound
VIEW View
INVARIANT OnlyAuthentic
INVARIANT NeverOlder
INVARIANT NodeCleanup
INVARIANT FailedStayOut
INVARIANT Confluence
INVARIANT CodeWithinSpec
INVARIANT EmitScripts
CHECK_DEADLOCK TRUE
