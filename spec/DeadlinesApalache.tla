-------------------------- MODULE DeadlinesApalache --------------------------
(* C08, unbounded heights: the two races of Deadlines.tla as integer-only transition systems whose
   initial states are ALL heights / expiries that the accept rules let through (no window, no H0),
   with an inductive invariant for each.  Apalache discharges, per timeline,
     (1) Init => IndInv      (2) IndInv /\ Next => IndInv'      (3) IndInv => Safe
   with the constants instantiated from the code.  Linear integer arithmetic only.

   Timeline "D": B forwarded an HTLC (expiry ed) for an incoming one (expiry eu); the downstream
   peer never resolves it off chain (silent / claims on chain in the last possible block).
   Timeline "U": B knows the preimage of an incoming HTLC (expiry eu), the payer never answers. *)
EXTENDS Integers

CONSTANTS
  \* @type: Int;
  CCB,
  \* @type: Int;
  LGP,
  \* @type: Int;
  MBC,
  \* @type: Int;
  ARD,
  \* @type: Int;
  HFB,
  \* @type: Int;
  MIND

VARIABLES
  \* @type: Str;
  tl,     \* which timeline: "D" | "U"
  \* @type: Int;
  h,      \* best block height
  \* @type: Int;
  eu,
  \* @type: Int;
  ed,
  \* @type: Str;
  ph,     \* D: "pending" | "bcast" | "conf" | "gone" | "claimed" | "failed" | "fulfilled" | "failedUnburied"
          \* U: "open" | "bcast" | "conf" | "won" | "lost"
  \* @type: Int;
  b,      \* height at which B's commitment transaction reached the broadcaster
  \* @type: Int;
  c,      \* height at which it confirmed
  \* @type: Int;
  t,      \* D: height at which B's HTLC-timeout confirmed
  \* @type: Int;
  f       \* D: height of the upstream resolution; U: height at which B's HTLC-success confirmed

\* ---- rules transcribed from the code (same as the Code* operators of DeadlinesMC.tla)
CodeFwdAcceptCore(hh, Eu, Ed) == ~(Eu < Ed + MIND) /\ ~(Ed <= (hh + 1) + LGP)
CodeClaimDeadline(E) == E - HFB
CodeGoOnChainOut(hh, E) == E + LGP <= hh
CodeGoOnChainIn(hh, E) == E <= hh + CCB
CodeBuried(hh, hc) == hh >= hc + ARD - 1
CodeFailBackClosed(hh, Eu) == ~(Eu > hh + LGP)

\* ------------------------------------------------------------------ timeline D
InitD ==
  /\ tl = "D" /\ ph = "pending"
  /\ h \in Int /\ eu \in Int /\ ed \in Int
  /\ CodeFwdAcceptCore(h, eu, ed)          \* B forwarded it at height h
  /\ b = 0 /\ c = 0 /\ t = 0 /\ f = 0

\* B's reactions (immediate when a block is connected)
DUrgent ==
  \/ ph = "pending" /\ CodeGoOnChainOut(h, ed)
  \/ ph = "gone" /\ CodeBuried(h, t)
  \/ ph = "claimed"
  \/ ph \in {"bcast", "conf", "gone"} /\ CodeFailBackClosed(h, eu)

DGoOnChain == ph = "pending" /\ CodeGoOnChainOut(h, ed) /\ ph' = "bcast" /\ b' = h /\ UNCHANGED <<tl, h, eu, ed, c, t, f>>
DFailBuried == ph = "gone" /\ CodeBuried(h, t) /\ ph' = "failed" /\ f' = h /\ UNCHANGED <<tl, h, eu, ed, b, c, t>>
DFulfil == ph = "claimed" /\ ph' = "fulfilled" /\ f' = h /\ UNCHANGED <<tl, h, eu, ed, b, c, t>>
\* "fail back HTLCs on backwards channels if they expire within LGP blocks and the channel is closed"
DFailClosed == /\ ph \in {"bcast", "conf"} \/ (ph = "gone" /\ ~CodeBuried(h, t))
               /\ CodeFailBackClosed(h, eu)
               /\ ph' = "failedUnburied" /\ f' = h /\ UNCHANGED <<tl, h, eu, ed, b, c, t>>

\* the next block: an honest transaction is mined at most MBC blocks after it became minable; the
\* peer may sweep the HTLC with the preimage in any block before B's timeout confirms
DBlock ==
  /\ ~DUrgent /\ ph \in {"pending", "bcast", "conf", "gone"}
  /\ h' = h + 1
  /\ \/ ph = "pending" /\ UNCHANGED <<ph, b, c, t>>
     \/ ph = "bcast" /\ h + 1 < b + MBC /\ UNCHANGED <<ph, b, c, t>>
     \/ ph = "bcast" /\ ph' = "conf" /\ c' = h + 1 /\ UNCHANGED <<b, t>>
     \/ ph = "conf" /\ h + 1 < c + MBC /\ UNCHANGED <<ph, b, c, t>>
     \/ ph = "conf" /\ ph' = "gone" /\ t' = h + 1 /\ UNCHANGED <<b, c>>
     \/ ph = "conf" /\ ph' = "claimed" /\ UNCHANGED <<b, c, t>>
     \/ ph = "gone" /\ UNCHANGED <<ph, b, c, t>>
  /\ UNCHANGED <<tl, eu, ed, f>>

NextD == tl = "D" /\ (DGoOnChain \/ DFailBuried \/ DFulfil \/ DFailClosed \/ DBlock)

IndInvD ==
  /\ tl = "D" /\ eu >= ed + MIND
  /\ ph \in {"pending", "bcast", "conf", "gone", "claimed", "failed", "fulfilled"}
  /\ ph = "pending" => h <= ed + LGP
  /\ ph = "bcast" => (b <= ed + LGP /\ b <= h /\ h < b + MBC)
  /\ ph = "conf" => (c <= ed + LGP + MBC /\ c <= h /\ h < c + MBC)
  /\ ph = "gone" => (t <= ed + LGP + 2 * MBC /\ t <= h /\ h <= t + ARD - 1)
  /\ ph = "claimed" => h <= ed + LGP + 2 * MBC
  /\ ph = "failed" => (f <= ed + LGP + 2 * MBC + ARD - 1 /\ f >= t + ARD - 1)
  /\ ph = "fulfilled" => f <= ed + LGP + 2 * MBC

\* BoundedLoss / FailBackAfterBurial of Deadlines.tla on this timeline
SafeD ==
  /\ ph # "failedUnburied"
  /\ ph \in {"pending", "bcast", "conf", "gone", "claimed"} => h + LGP < eu
  /\ ph \in {"failed", "fulfilled"} => f + LGP < eu
  /\ ph = "failed" => f >= t + ARD - 1

\* ------------------------------------------------------------------ timeline U
\* B learnt the preimage strictly below the advertised claim deadline (final recipient: claim_funds
\* at h < eu - HFB) or from the downstream peer before its own on-chain point for the upstream HTLC
InitU ==
  /\ tl = "U" /\ ph = "open"
  /\ h \in Int /\ eu \in Int /\ ed = 0
  /\ h < CodeClaimDeadline(eu) \/ ~CodeGoOnChainIn(h, eu)
  /\ b = 0 /\ c = 0 /\ t = 0 /\ f = 0

UUrgent == ph = "open" /\ CodeGoOnChainIn(h, eu)
UGoOnChain == ph = "open" /\ CodeGoOnChainIn(h, eu) /\ ph' = "bcast" /\ b' = h /\ UNCHANGED <<tl, h, eu, ed, c, t, f>>
UBlock ==
  /\ ~UUrgent /\ ph \in {"open", "bcast", "conf"}
  /\ h' = h + 1
  /\ \/ ph = "open" /\ UNCHANGED <<ph, b, c, f>>
     \/ ph = "bcast" /\ h + 1 < b + MBC /\ UNCHANGED <<ph, b, c, f>>
     \/ ph = "bcast" /\ ph' = "conf" /\ c' = h + 1 /\ UNCHANGED <<b, f>>
     \/ ph = "conf" /\ h + 1 < c + MBC /\ ~(h + 1 > eu) /\ UNCHANGED <<ph, b, c, f>>
     \/ ph = "conf" /\ ph' = "won" /\ f' = h + 1 /\ UNCHANGED <<b, c>>
     \* the payer's timeout (nLockTime eu) can be mined in any block above eu, and wins ties
     \/ ph = "conf" /\ h + 1 > eu /\ ph' = "lost" /\ UNCHANGED <<b, c, f>>
  /\ UNCHANGED <<tl, eu, ed, t>>

NextU == tl = "U" /\ (UGoOnChain \/ UBlock)

IndInvU ==
  /\ tl = "U" /\ ph \in {"open", "bcast", "conf", "won"}
  /\ ph = "open" => h + CCB <= eu
  /\ ph = "bcast" => (b + CCB <= eu /\ b <= h /\ h < b + MBC)
  /\ ph = "conf" => (c + CCB <= eu + MBC /\ c <= h /\ h < c + MBC)
  /\ ph = "won" => f <= eu

\* WinInboundRace / OnChainInTimeInbound of Deadlines.tla on this timeline
SafeU == ph # "lost" /\ (ph = "open" => h + CCB <= eu) /\ (ph = "won" => f <= eu)

\* ------------------------------------------------------------------ entry points
Init == InitD \/ InitU
Next == NextD \/ NextU
IndInv == IndInvD \/ IndInvU
Safe == (tl = "D" => SafeD) /\ (tl = "U" => SafeU)
\* non-vacuity: these two are expected to be VIOLATED in one step from IndInit (the transitions into the
\* terminal phases are enabled from states satisfying the inductive invariant)
NotFailed == ph # "failed"
NotWon == ph # "won"
\* any state satisfying the inductive invariant (unbounded integers)
IndInit ==
  /\ tl \in {"D", "U"} /\ h \in Int /\ eu \in Int /\ ed \in Int
  /\ ph \in {"pending", "bcast", "conf", "gone", "claimed", "failed", "fulfilled", "failedUnburied", "open", "won", "lost"}
  /\ b \in Int /\ c \in Int /\ t \in Int /\ f \in Int
  /\ IndInv
=============================================================================
