SPECIFICATION MCSpec
CONSTANTS
  ReqTicks = 1
  NP = 1
  Manual = FALSE
  Hold = FALSE
  Offs = {1, 3}
  MaxPay = 2
  MaxKeep = 0
  MaxTick = 0
  MaxRestart = 0
  MaxSave = 0
  MaxAband = 0
  MaxErr = 0
  MaxMsgRecv = 0
  MaxSend = 0
  MaxOps = 6
  MinOps = 9
  CodeTicks = 1
  Idem = 1
  Stale = FALSE
  Bug = "dup_sends_request"
CONSTRAINT Bound
VIEW View
INVARIANT TermSane
INVARIANT OneHashPerId
INVARIANT OnePaymentPerId
CHECK_DEADLOCK TRUE
