SPECIFICATION TraceSpec
CONSTANT Relax = {}
INVARIANT TypeOK
INVARIANT JusticeCovers
INVARIANT JusticeCadence
INVARIANT CheaterKeepsNothing
INVARIANT NoEntitledOutputIdle
INVARIANT RebroadcastCovers
INVARIANT BalancesAddUp
INVARIANT Drained
POSTCONDITION TraceAccepted
CHECK_DEADLOCK FALSE
