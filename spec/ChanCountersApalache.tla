------------------------ MODULE ChanCountersApalache ------------------------
(* C05 (with the parts of C09 and C10 it rests on), unbounded number of updates.

   One commitment chain of a channel: the signer S signs the holder H's commitments, H revokes them.
   (The other direction is the same model with the roles swapped.)  Counters are those of Chan.tla at the
   granularity of the code: H advances its commitment number when it accepts a commitment_signed and
   generates the revoke_and_ack at the same moment; the message is *held* until the monitor update that
   recorded the new holder commitment is durable (C09).  S's update for a commitment it signs must be
   durable before the commitment_signed leaves.  Either node may save its ChannelManager at any time, crash
   at any time and come back from the manager it saved last and from a monitor holding every durable
   update; a manager that is older than its monitor closes the channel from the monitor (C10).
   Connections drop at any time; on reconnection channel_reestablish makes each side retransmit what the
   peer has not seen.

   Update ids.  H's monitor gets exactly one update per accepted commitment, S's one per signed
   commitment and one per received revocation, strictly alternating: so H's latest update id is rCS,
   S's is sCS + rRAA and the update of S's n-th signature has id 2n - 1.

   Apalache discharges, for unbounded counters (linear integer arithmetic only),
     (1) Init => IndInv      (2) IndInv /\ Next => IndInv'      (3) IndInv => Safe
   and refutes the step obligation for three planted defects (mutants below): the revocation released
   before the holder-commitment update is durable, a stale manager resumed, a second signature while one
   is unrevoked. *)
EXTENDS Integers

CONSTANT
  \* @type: Str;
  Mutant      \* "none" | "raa_before_durable" | "stale_resumed" | "sign_twice"

VARIABLES
  \* @type: Int;
  sCS,        \* S: commitments of H signed
  \* @type: Int;
  rRAA,       \* S: revocations received
  \* @type: Int;
  sDur,       \* S: every monitor update with id <= sDur is durable
  \* @type: Bool;
  sOpen,
  \* @type: Int;
  sSnapCS,    \* S: the ChannelManager it saved last
  \* @type: Int;
  sSnapRAA,
  \* @type: Int;
  rCS,        \* H: commitments accepted ( = revocations generated = id of its latest monitor update)
  \* @type: Int;
  hDur,       \* H: durable prefix of its monitor updates ( = commitment number the durable monitor holds)
  \* @type: Bool;
  hOpen,
  \* @type: Int;
  hSnapCS,    \* H: the ChannelManager it saved last
  \* @type: Int;
  everRAA,    \* ghost: number of revocations H has ever put on the wire (commitments 0..everRAA-1 are revoked)
  \* @type: Bool;
  conn,
  \* @type: Str;
  csOut,      \* S -> H: "none" | "held" (waits for S's update) | "flight"
  \* @type: Str;
  raaOut      \* H -> S: "none" | "held" (waits for H's update) | "flight"

vars == <<sCS, rRAA, sDur, sOpen, sSnapCS, sSnapRAA, rCS, hDur, hOpen, hSnapCS, everRAA, conn, csOut, raaOut>>

Max2(a, b) == IF a >= b THEN a ELSE b

Init ==
  /\ sCS = 0 /\ rRAA = 0 /\ sDur = 0 /\ sOpen = TRUE /\ sSnapCS = 0 /\ sSnapRAA = 0
  /\ rCS = 0 /\ hDur = 0 /\ hOpen = TRUE /\ hSnapCS = 0 /\ everRAA = 0
  /\ conn = TRUE /\ csOut = "none" /\ raaOut = "none"

\* ---- S signs H's next commitment (send_commitment_no_state_update): never while one is unrevoked
SignCS ==
  /\ sOpen /\ conn /\ csOut = "none"
  /\ (Mutant = "sign_twice" \/ sCS = rRAA)
  /\ sCS' = sCS + 1 /\ csOut' = "held"
  /\ UNCHANGED <<rRAA, sDur, sOpen, sSnapCS, sSnapRAA, rCS, hDur, hOpen, hSnapCS, everRAA, conn, raaOut>>

\* the update of that signature is durable: the message leaves (C09)
ReleaseCS ==
  /\ sOpen /\ conn /\ csOut = "held" /\ sDur >= 2 * sCS - 1
  /\ csOut' = "flight"
  /\ UNCHANGED <<sCS, rRAA, sDur, sOpen, sSnapCS, sSnapRAA, rCS, hDur, hOpen, hSnapCS, everRAA, conn, raaOut>>

\* H accepts it: new holder commitment, revocation of the previous one generated and held
DeliverCS ==
  /\ hOpen /\ conn /\ csOut = "flight" /\ raaOut = "none"
  /\ rCS' = rCS + 1 /\ csOut' = "none" /\ raaOut' = "held"
  /\ UNCHANGED <<sCS, rRAA, sDur, sOpen, sSnapCS, sSnapRAA, hDur, hOpen, hSnapCS, everRAA, conn>>

\* the holder-commitment update is durable: the revocation leaves (C05: only when a newer, fully signed
\* commitment is safely stored; C09)
ReleaseRAA ==
  /\ hOpen /\ conn /\ raaOut = "held"
  /\ (Mutant = "raa_before_durable" \/ hDur >= rCS)
  /\ raaOut' = "flight" /\ everRAA' = Max2(everRAA, rCS)
  /\ UNCHANGED <<sCS, rRAA, sDur, sOpen, sSnapCS, sSnapRAA, rCS, hDur, hOpen, hSnapCS, conn, csOut>>

DeliverRAA ==
  /\ sOpen /\ conn /\ raaOut = "flight"
  /\ rRAA' = rRAA + 1 /\ raaOut' = "none"
  /\ UNCHANGED <<sCS, sDur, sOpen, sSnapCS, sSnapRAA, rCS, hDur, hOpen, hSnapCS, everRAA, conn, csOut>>

\* ---- persistence
CompleteS == /\ sDur < sCS + rRAA /\ sDur' = sDur + 1
             /\ UNCHANGED <<sCS, rRAA, sOpen, sSnapCS, sSnapRAA, rCS, hDur, hOpen, hSnapCS, everRAA, conn, csOut, raaOut>>
CompleteH == /\ hDur < rCS /\ hDur' = hDur + 1
             /\ UNCHANGED <<sCS, rRAA, sDur, sOpen, sSnapCS, sSnapRAA, rCS, hOpen, hSnapCS, everRAA, conn, csOut, raaOut>>
SaveS == /\ sOpen /\ sSnapCS' = sCS /\ sSnapRAA' = rRAA
         /\ UNCHANGED <<sCS, rRAA, sDur, sOpen, rCS, hDur, hOpen, hSnapCS, everRAA, conn, csOut, raaOut>>
SaveH == /\ hOpen /\ hSnapCS' = rCS
         /\ UNCHANGED <<sCS, rRAA, sDur, sOpen, sSnapCS, sSnapRAA, rCS, hDur, hOpen, everRAA, conn, csOut, raaOut>>

\* ---- the connection
Disconnect ==
  /\ conn /\ conn' = FALSE /\ csOut' = "none" /\ raaOut' = "none"
  /\ UNCHANGED <<sCS, rRAA, sDur, sOpen, sSnapCS, sSnapRAA, rCS, hDur, hOpen, hSnapCS, everRAA>>

\* channel_reestablish both ways: H says next_local = rCS + 1, S says next_remote = rRAA
Reconnect ==
  /\ ~conn /\ sOpen /\ hOpen /\ conn' = TRUE
  /\ csOut' = IF sCS = rCS + 1 THEN "held" ELSE "none"
  /\ raaOut' = IF rRAA = rCS - 1 THEN "held" ELSE "none"
  /\ UNCHANGED <<sCS, rRAA, sDur, sOpen, sSnapCS, sSnapRAA, rCS, hDur, hOpen, hSnapCS, everRAA>>

\* ---- crash and restart from the last saved manager and the durable monitor; in-flight updates the
\* manager knows are replayed, a manager older than its monitor closes the channel (C10)
CrashS ==
  /\ sOpen /\ conn' = FALSE /\ csOut' = "none" /\ raaOut' = "none"
  /\ IF sSnapCS + sSnapRAA < sDur
     THEN sOpen' = FALSE /\ UNCHANGED <<sCS, rRAA, sDur>>
     ELSE sOpen' = TRUE /\ sCS' = sSnapCS /\ rRAA' = sSnapRAA /\ sDur' = sSnapCS + sSnapRAA
  /\ UNCHANGED <<sSnapCS, sSnapRAA, rCS, hDur, hOpen, hSnapCS, everRAA>>

CrashH ==
  /\ hOpen /\ conn' = FALSE /\ csOut' = "none" /\ raaOut' = "none"
  /\ IF hSnapCS < hDur /\ Mutant # "stale_resumed"
     THEN hOpen' = FALSE /\ UNCHANGED <<rCS, hDur>>
     ELSE hOpen' = TRUE /\ rCS' = hSnapCS /\ hDur' = hSnapCS
  /\ UNCHANGED <<sCS, rRAA, sDur, sOpen, sSnapCS, sSnapRAA, hSnapCS, everRAA>>

Next == SignCS \/ ReleaseCS \/ DeliverCS \/ ReleaseRAA \/ DeliverRAA \/ CompleteS \/ CompleteH \/ SaveS \/ SaveH
        \/ Disconnect \/ Reconnect \/ CrashS \/ CrashH

\* ------------------------------------------------------------------ the property
Safe ==
  \* never revoked early: every revocation on the wire is covered by a durably stored newer commitment
  /\ everRAA <= hDur
  \* revoked state never used: the commitment H would broadcast -- its live one while the channel is open,
  \* the durable monitor's once it is closed -- has not been revoked, whatever crashes happened
  /\ everRAA <= rCS
  \* at most one commitment of H is unrevoked beside the latest one
  /\ sCS - rRAA \in {0, 1}
  \* both sides agree on the numbering: nothing arrives that the receiver does not expect (no protocol error)
  /\ csOut = "flight" => rCS = sCS - 1
  /\ raaOut = "flight" => (rRAA = rCS - 1 /\ sCS = rCS)

IndInv ==
  /\ csOut \in {"none", "held", "flight"} /\ raaOut \in {"none", "held", "flight"}
  /\ 0 <= rRAA /\ rRAA <= rCS /\ rCS <= sCS /\ sCS <= rRAA + 1
  /\ 0 <= sDur /\ sDur <= sCS + rRAA
  /\ 0 <= hDur /\ hDur <= rCS
  /\ 0 <= sSnapRAA /\ sSnapRAA <= sSnapCS /\ sSnapCS <= sSnapRAA + 1
  /\ sSnapCS <= sCS /\ sSnapRAA <= rRAA
  /\ 0 <= hSnapCS /\ hSnapCS <= rCS
  /\ 0 <= everRAA /\ rRAA <= everRAA /\ everRAA <= hDur
  \* what H accepted had left S durably
  /\ rCS >= 1 => 2 * rCS - 1 <= sDur
  /\ csOut # "none" => (conn /\ sOpen /\ sCS = rCS + 1)
  /\ csOut = "flight" => sDur >= 2 * sCS - 1
  /\ raaOut # "none" => (conn /\ hOpen /\ rRAA = rCS - 1)
  /\ raaOut = "flight" => everRAA >= rCS

\* any state satisfying the inductive invariant (unbounded integers)
IndInit ==
  /\ sCS \in Int /\ rRAA \in Int /\ sDur \in Int /\ sOpen \in BOOLEAN /\ sSnapCS \in Int /\ sSnapRAA \in Int
  /\ rCS \in Int /\ hDur \in Int /\ hOpen \in BOOLEAN /\ hSnapCS \in Int /\ everRAA \in Int
  /\ conn \in BOOLEAN /\ csOut \in {"none", "held", "flight"} /\ raaOut \in {"none", "held", "flight"}
  /\ IndInv

\* non-vacuity: expected to be VIOLATED in one step from IndInit
NoRevocationReleased == ~(raaOut = "flight")
NoStaleClose == hOpen
=============================================================================
