SPECIFICATION TraceSpec
INVARIANT RecoveredCoversReported
INVARIANT RecoveredIsSomeInMemoryState
INVARIANT CleanupSafe
POSTCONDITION TraceAccepted
CHECK_DEADLOCK FALSE
