SPECIFICATION TraceSpec
CONSTANT ARD = 6
INVARIANT HistoryWellFormed
INVARIANT BestBlockIsChainTip
INVARIANT FundingDepthIsChainFunction
INVARIANT ChannelGivenUpIffChainSaysSo
INVARIANT ClosedIffSpendOnChain
INVARIANT RelevantTxidsOnBestChain
INVARIANT UnburiedStillWatched
INVARIANT IrreversibleOnlyWhenBuried
INVARIANT BalancesDeliveryIndependent
INVARIANT RelevantTxidsDeliveryIndependent
INVARIANT PendingClaimsDeliveryIndependent
INVARIANT ChannelsDeliveryIndependent
INVARIANT EventsDeliveryIndependent
INVARIANT MessagesDeliveryIndependent
INVARIANT ShallowReorgRetracts
INVARIANT KnownPreimageHtlcIsClaimed
POSTCONDITION TraceAccepted
CHECK_DEADLOCK FALSE
