----------------------------- MODULE EventHold -----------------------------
(***************************************************************************)
(* C10 / C03 -- a claimed outbound payment is reported to the user          *)
(* (PaymentSent) whatever the crash point, even when the user's event        *)
(* handler answers ReplayEvent for a while.                                  *)
(*                                                                         *)
(* Design model of the payer A for one outbound HTLC on its channel with B, *)
(* at the granularity of A's durable state:                                 *)
(*   - B's update_fulfill_htlc makes A learn the preimage and QUEUE the      *)
(*     PaymentSent event;                                                    *)
(*   - B's commitment_signed records the claim in A's ChannelMonitor         *)
(*     (counterparty_fulfilled_htlcs);                                       *)
(*   - B's revoke_and_ack produces the monitor update that makes the monitor *)
(*     FORGET the HTLC; it is an event completion action: it is released     *)
(*     only once the user has HANDLED PaymentSent (HoldUntilHandled), not     *)
(*     when the event is merely queued;                                      *)
(*   - the ChannelManager (with its event queue and blocked updates) is      *)
(*     written at arbitrary moments; A may crash at any point and restarts    *)
(*     from the last written manager and the durable monitor: a claim the     *)
(*     monitor still knows and the manager does not is replayed as a new      *)
(*     PaymentSent event.                                                    *)
(*                                                                         *)
(* HoldUntilHandled = FALSE is the mutant that releases the forgetting       *)
(* update as soon as the event is queued: TLC finds the lost PaymentSent.    *)
(***************************************************************************)
EXTENDS Naturals, TLC

CONSTANTS HoldUntilHandled, MaxCrash, MaxRefuse

VARIABLES
  wire,      \* what B has sent and A has processed: "none" | "fulfil" | "cs" | "raa"
  queued,    \* PaymentSent sits in A's volatile event queue
  handled,   \* the user has handled PaymentSent at least once (ghost: the goal)
  mgrKnowsDone, \* volatile manager: payment marked fulfilled
  monClaim,  \* durable monitor: "none" | "claimed" (holds HTLC + claim) | "forgotten"
  forget,    \* the forgetting update: "none" | "blocked" | "inflight"
  snap,      \* last written manager: [queued, done, forget]
  crashes, refusals

vars == <<wire, queued, handled, mgrKnowsDone, monClaim, forget, snap, crashes, refusals>>

Init ==
  /\ wire = "none" /\ queued = FALSE /\ handled = FALSE /\ mgrKnowsDone = FALSE
  /\ monClaim = "none" /\ forget = "none"
  /\ snap = [queued |-> FALSE, done |-> FALSE, forget |-> "none"]
  /\ crashes = 0 /\ refusals = 0

RecvFulfil ==
  /\ wire = "none"
  /\ wire' = "fulfil" /\ queued' = TRUE /\ mgrKnowsDone' = TRUE
  /\ UNCHANGED <<handled, monClaim, forget, snap, crashes, refusals>>

\* B's commitment_signed: the holder-commitment update records the claim (written synchronously here)
RecvCS ==
  /\ wire = "fulfil"
  /\ wire' = "cs" /\ monClaim' = "claimed"
  /\ UNCHANGED <<queued, handled, mgrKnowsDone, forget, snap, crashes, refusals>>

\* B's revoke_and_ack: the update that forgets the HTLC is generated; held behind the event
RecvRAA ==
  /\ wire = "cs"
  /\ wire' = "raa"
  /\ forget' = IF HoldUntilHandled /\ queued THEN "blocked" ELSE "inflight"
  /\ UNCHANGED <<queued, handled, mgrKnowsDone, monClaim, snap, crashes, refusals>>

\* the user's handler takes the event ...
Handle ==
  /\ queued
  /\ queued' = FALSE /\ handled' = TRUE
  /\ forget' = IF forget = "blocked" THEN "inflight" ELSE forget
  /\ UNCHANGED <<wire, mgrKnowsDone, monClaim, snap, crashes, refusals>>
\* ... or answers ReplayEvent: nothing changes, the event stays queued
Refuse ==
  /\ queued /\ refusals < MaxRefuse
  /\ refusals' = refusals + 1
  /\ UNCHANGED <<wire, queued, handled, mgrKnowsDone, monClaim, forget, snap, crashes>>

ForgetLands ==
  /\ forget = "inflight"
  /\ forget' = "none" /\ monClaim' = "forgotten"
  /\ UNCHANGED <<wire, queued, handled, mgrKnowsDone, snap, crashes, refusals>>

PersistManager ==
  /\ snap' = [queued |-> queued, done |-> mgrKnowsDone, forget |-> forget]
  /\ UNCHANGED <<wire, queued, handled, mgrKnowsDone, monClaim, forget, crashes, refusals>>

\* A dies.  Restart: the manager's queue and blocked updates come back as written; a claim the
\* monitor knows and the manager does not is replayed as a fresh PaymentSent.  What B sent after
\* the written manager's state is retransmitted by B (wire is rolled back accordingly).
Crash ==
  /\ crashes < MaxCrash
  /\ crashes' = crashes + 1
  /\ LET replay == monClaim = "claimed" /\ ~snap.done IN
     /\ queued' = (snap.queued \/ replay)
     /\ mgrKnowsDone' = (snap.done \/ replay)
  /\ forget' = IF snap.forget = "inflight" /\ monClaim = "forgotten" THEN "none" ELSE snap.forget
  /\ wire' = IF monClaim = "forgotten" THEN "raa"
             ELSE IF snap.forget # "none" THEN "raa"
             ELSE IF monClaim = "claimed" THEN "cs"
             ELSE IF snap.done THEN "fulfil" ELSE "none"
  /\ UNCHANGED <<handled, monClaim, snap, refusals>>

Done == handled /\ forget = "none" /\ wire = "raa" /\ UNCHANGED vars

Next == RecvFulfil \/ RecvCS \/ RecvRAA \/ Handle \/ Refuse \/ ForgetLands \/ PersistManager \/ Crash \/ Done

Spec == Init /\ [][Next]_vars /\ WF_vars(Next)

-----------------------------------------------------------------------------
\* Once B has been paid (its fulfil was processed at least once: the monitor records it, or the event
\* exists), the user has handled PaymentSent or it can still be delivered after any crash:
\* it is in the written manager's queue, or the monitor still knows the claim, or B will retransmit
\* the fulfil because A's durable state does not cover it yet.
Recoverable == snap.queued \/ (monClaim = "claimed" /\ ~snap.done) \/ (monClaim = "none" /\ ~snap.done)
NoLostSent == (monClaim # "none" \/ queued) => (handled \/ queued \/ Recoverable)
\* the strong form: at every moment a crash would still lead to PaymentSent
CrashSafe == (monClaim = "forgotten") => (handled \/ snap.queued)
=============================================================================
