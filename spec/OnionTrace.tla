----------------------------- MODULE OnionTrace -----------------------------
(* Trace validation for C14: every recorded execution of the real onion code
   (engine harness/src/bin/onion.rs) must be a behaviour of Onion.  A trace file
   holds many runs; each starts with a `reset` record. *)
EXTENDS Onion, Json, IOUtils

VARIABLE l

Rec == ndJsonDeserialize(IOEnv.TRACE)

tvars == <<ovars, l>>

TraceInit == l = 1 /\ Init

IsEvent(e) == l <= Len(Rec) /\ Rec[l].ev = e /\ l' = l + 1

TReset ==
  /\ IsEvent("reset")
  /\ route' = <<>> /\ phase' = "idle" /\ pos' = 0 /\ tainted' = FALSE
  /\ fail' = NoFail /\ wrapped' = 0 /\ holds' = <<>>

\* the engine could not turn the script's size classes into concrete values: nothing ran
TSkip == IsEvent("skip") /\ phase = "idle" /\ UNCHANGED ovars

TBuild == IsEvent("build") /\ Build(Rec[l].hops, Rec[l].ok, Rec[l].pkt_len)
TCorrupt == IsEvent("corrupt") /\ Corrupt(Rec[l].before, Rec[l].field)
TPeel == IsEvent("peel") /\ Peel(Rec[l].hop, Rec[l])
\* `head` = the first min(dlen, HeadLen) bytes of the failure data the hop put into its message
TFail == IsEvent("fail") /\ FailAt(Rec[l].hop, Rec[l].code, Rec[l].hold, Rec[l].dlen, Rec[l].head)
TWrap == IsEvent("wrap") /\ WrapBack(Rec[l].hop, Rec[l].hold)
TAttr == IsEvent("attr") /\ Attribute(Rec[l])
TFulfill == IsEvent("fulfill") /\ FulfillAt(Rec[l].hop, Rec[l].hold)
TFWrap == IsEvent("fwrap") /\ FulfillWrap(Rec[l].hop, Rec[l].hold)
TFAttr == IsEvent("fattr") /\ FulfillAttribute(Rec[l].hold_times)
\* there is deliberately no action for a `panic` record

TraceNext == TReset \/ TSkip \/ TBuild \/ TCorrupt \/ TPeel \/ TFail \/ TWrap \/ TAttr
             \/ TFulfill \/ TFWrap \/ TFAttr

TraceSpec == TraceInit /\ [][TraceNext]_tvars

TraceAccepted ==
  LET d == TLCGet("stats").diameter IN
  IF d - 1 = Len(Rec) THEN TRUE
  ELSE /\ PrintT(<<"REJECT", d, Len(Rec)>>)
       /\ FALSE
=============================================================================
