SPECIFICATION MCSpec
CONSTANTS
  MaxListeners = 3
  NB = 4
  MaxOps = 2
  EmitEvery = 1
  LieMode = FALSE
  SyncListeners = 3
CONSTRAINT Bound
VIEW View
INVARIANT TipAgreement
INVARIANT ListenerOnTree
INVARIANT EmitScripts
CHECK_DEADLOCK TRUE
