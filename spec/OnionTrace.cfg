SPECIFICATION TraceSpec
CONSTANT MaxAttrHops = 20
INVARIANT TypeOK
POSTCONDITION TraceAccepted
CHECK_DEADLOCK FALSE
