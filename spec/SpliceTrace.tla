----------------------------- MODULE SpliceTrace -----------------------------
(* Trace validation of real ChannelManager pairs / lines (engine `splicenet`) against Splice.tla:
   every wire message sent or received (stfu, splice_*, tx_*, commitment_signed batches, ...), every
   monitor update handed to Persist and its completion, every block handed to a node, every event,
   broadcast and list_channels projection is one record; TLC recomputes from each endpoint's own
   history what may be sent when and what every signed / accepted commitment of every funding scope
   must contain. *)
EXTENDS Splice, Json, IOUtils

VARIABLES l, nodeOf,  \* position in the trace;  [chan -> <<node of side 1, node of side 2>>]
          saved,      \* [<<node, k>> -> Snapshot]  abstract state at each ChannelManager snapshot
          pw          \* payments: what was asked for while quiescent, what went out, what the users did

Rec == ndJsonDeserialize(IOEnv.TRACE)
tvars == <<svars, l, nodeOf, saved, pw>>
R == Rec[l]
IsEvent(e) == l <= Len(Rec) /\ Rec[l].ev = e /\ l' = l + 1
Aux == <<nodeOf, saved, pw>>
Stutter == UNCHANGED <<svars, Aux>>
Closed(e) == link[e] = "closed"
EPsOf(n) == {e \in DOMAIN link : nodeOf[e[1]][e[2]] = n}
Side(c, n) == IF nodeOf[c][1] = n THEN 1 ELSE 2
EP(c, n) == <<c, Side(c, n)>>
ToSet(s) == {s[k] : k \in 1..Len(s)}
Known(c) == c \in DOMAIN nodeOf

Content(c) == [num |-> c.num, feerate |-> c.feerate, to_b |-> c.to_b, to_c |-> c.to_c,
               nondust |-> {[hash |-> h.hash, amt |-> h.amt, offered |-> h.offered] : h \in ToSet(c.nondust)},
               dust |-> {[hash |-> h.hash, amt |-> h.amt, offered |-> h.offered] : h \in ToSet(c.dust)},
               dust_known |-> c.dust_known]
NoDup(c) == Cardinality(ToSet(c.nondust)) = Len(c.nondust) /\ Cardinality(ToSet(c.dust)) = Len(c.dust)

NoPw == [held |-> {}, adds |-> {}, userFailed |-> {}, userClaimed |-> {}, sentEv |-> {}, failEv |-> {}, oks |-> {}, nodes |-> 0, restarted |-> {}]
TraceInit ==
  /\ l = 1 /\ nodeOf = <<>> /\ saved = <<>> /\ pw = NoPw
  /\ par = <<>> /\ fund = <<>> /\ cnt = <<>> /\ hs = <<>> /\ base = <<>> /\ link = <<>> /\ redo = <<>>
  /\ lastCS = <<>> /\ order = <<>> /\ pts = <<>> /\ mon = <<>> /\ ownExp = <<>> /\ qs = <<>> /\ neg = <<>>
  /\ cands = <<>> /\ lk = <<>> /\ cv = <<>> /\ txc = <<>>

TOpen ==
  /\ IsEvent("open")
  /\ LET cs == R.chans
         C == {cs[k].chan : k \in 1..Len(cs)}
         ch(c) == CHOOSE k \in 1..Len(cs) : cs[k].chan = c
         E == C \X {1, 2}
         nd(e) == IF e[2] = 1 THEN cs[ch(e[1])].a ELSE cs[ch(e[1])].b
         init == [cnt |-> [e \in E |-> [sentCS |-> 0, recvCS |-> 0, sentRAA |-> 0, recvRAA |-> 0]],
                  hs |-> [e \in E |-> {}],
                  base |-> [e \in E |-> IF e[2] = 1 THEN cs[ch(e[1])].bal_a_msat ELSE cs[ch(e[1])].bal_b_msat],
                  fund |-> [e \in E |-> [tx |-> cs[ch(e[1])].ftx, vout |-> cs[ch(e[1])].fvout, value |-> cs[ch(e[1])].value_sat]],
                  lastCS |-> [e \in E |-> <<>>], order |-> [e \in E |-> "none"], pts |-> [e \in E |-> <<>>],
                  mon |-> [e \in E |-> [last |-> IF e[2] = 1 THEN cs[ch(e[1])].mon_id_a ELSE cs[ch(e[1])].mon_id_b,
                                          infl |-> {}, cp |-> <<>>, holder |-> <<>>, pre |-> <<>>, reneg |-> <<>>]],
                  ownExp |-> [e \in E |-> <<>>], link |-> [e \in E |-> "up"], neg |-> [e \in E |-> NoNeg],
                  cands |-> [e \in E |-> {}], lk |-> [e \in E |-> [sent |-> 0, rcvd |-> 0]]]
     IN /\ nodeOf' = [c \in C |-> <<cs[ch(c)].a, cs[ch(c)].b>>]
        /\ par' = [c \in C |-> [funder |-> IF cs[ch(c)].funder = cs[ch(c)].a THEN 1 ELSE 2, type |-> cs[ch(c)].type,
                                 dust |-> <<cs[ch(c)].dust_a_sat, cs[ch(c)].dust_b_sat>>, feerate |-> cs[ch(c)].feerate,
                                 depth |-> cs[ch(c)].depth]]
        /\ cnt' = init.cnt /\ hs' = init.hs /\ base' = init.base /\ fund' = init.fund /\ lastCS' = init.lastCS
        /\ order' = init.order /\ pts' = init.pts /\ mon' = init.mon /\ ownExp' = init.ownExp /\ link' = init.link
        /\ neg' = init.neg /\ cands' = init.cands /\ lk' = init.lk
        /\ redo' = [e \in E |-> [cs |-> FALSE, raa |-> FALSE, upd |-> {}]]
        /\ qs' = [e \in E |-> NoQ]
        /\ cv' = [e \in E |-> [h |-> R.heights[nd(e) + 1], conf |-> <<>>]]
        /\ txc' = <<>>
        \* the ChannelManager each node wrote right after opening
        /\ saved' = [k \in {<<n, 0>> : n \in 0..(R.nodes - 1)} |->
                       LET En == {e \in E : nd(e) = k[1]} IN
                       [cnt |-> [e \in En |-> init.cnt[e]], hs |-> [e \in En |-> init.hs[e]], base |-> [e \in En |-> init.base[e]],
                        fund |-> [e \in En |-> init.fund[e]], lastCS |-> [e \in En |-> init.lastCS[e]], order |-> [e \in En |-> init.order[e]],
                        pts |-> [e \in En |-> init.pts[e]], mon |-> [e \in En |-> init.mon[e]], ownExp |-> [e \in En |-> init.ownExp[e]],
                        link |-> [e \in En |-> init.link[e]], neg |-> [e \in En |-> init.neg[e]], cands |-> [e \in En |-> init.cands[e]],
                        lk |-> [e \in En |-> init.lk[e]]]]
        /\ pw' = [NoPw EXCEPT !.nodes = R.nodes]

Ignored == {"channel_ready", "announcement_signatures", "channel_update", "warning", "disconnect_peer"}

\* a commitment_signed batch as [scope tx -> content]
BatchMap(b) == [t \in {b[k].ftx : k \in 1..Len(b)} |-> Content(b[CHOOSE k \in 1..Len(b) : b[k].ftx = t].c)]
\* the first commitment_signed of a funding transaction under negotiation
IsInitCS(e, b) == Len(b) = 1 /\ neg[e].st = "sign" /\ b[1].ftx # 0 /\ b[1].ftx \notin ScopeTxs(e)
InRec == [serial |-> R.serial, parity |-> R.parity, ptx |-> R.ptx, vout |-> R.vout, value |-> R.value, shared |-> R.shared, by |-> "-"]
OutRec == [serial |-> R.serial, parity |-> R.parity, sats |-> R.sats, funding |-> R.funding, by |-> "-"]
SerRec == [serial |-> R.serial]

\* ---- a message leaves node R.from
TMsg ==
  /\ IsEvent("msg")
  /\ UNCHANGED <<nodeOf, saved>>
  /\ pw' = IF R.kind = "update_add_htlc" THEN [pw EXCEPT !.adds = @ \cup {<<R.from, R.hash>>}] ELSE pw
  /\ LET k == R.kind  e == EP(R.chan, R.from) IN
     IF R.chan = 0 \/ ~Known(R.chan) THEN UNCHANGED svars ELSE
     IF Closed(e) THEN G10(k \in Ignored \cup {"error", "channel_reestablish"}) /\ UNCHANGED svars ELSE
     CASE k = "update_add_htlc" -> SendAdd(e, R.id, R.amt, R.hash)
       [] k = "update_fulfill_htlc" -> SendRemove(e, R.id, "fulfill") /\ MayReleaseFulfil(e, R.hash)
       [] k \in {"update_fail_htlc", "update_fail_malformed_htlc"} -> SendRemove(e, R.id, "fail")
       [] k = "commitment_signed" ->
            IF IsInitCS(e, R.batch) THEN SendInitCS(e, R.batch[1].ftx)
            ELSE /\ G1(\A j \in 1..Len(R.batch) : R.batch[j].known /\ NoDup(R.batch[j].c) /\ R.batch[j].nsigs = Len(R.batch[j].c.nondust))
                 /\ G1(Cardinality({R.batch[j].ftx : j \in 1..Len(R.batch)}) = Len(R.batch))
                 /\ SendCS(e, BatchMap(R.batch))
                 /\ MayReleaseCS(e, R.batch[1].c.num)
       [] k = "revoke_and_ack" -> SendRAA(e, R.secret_point, R.next_point) /\ MayReleaseRAA(e)
       [] k = "channel_reestablish" -> SendReestablish(e, R.next_local, R.next_remote, R.nf_tx, R.cfl_tx)
       [] k = "stfu" -> SendStfu(e, R.initiator)
       [] k \in {"splice_init", "tx_init_rbf"} -> SendSpliceInit(e, R.contrib, R.feerate, R.locktime, k = "tx_init_rbf")
       [] k \in {"splice_ack", "tx_ack_rbf"} -> SendSpliceAck(e, R.contrib)
       [] k = "tx_add_input" -> SendTx(e, "add_input", InRec)
       [] k = "tx_add_output" -> SendTx(e, "add_output", OutRec)
       [] k = "tx_remove_input" -> SendTx(e, "remove_input", SerRec)
       [] k = "tx_remove_output" -> SendTx(e, "remove_output", SerRec)
       [] k = "tx_complete" -> SendTx(e, "complete", SerRec)
       [] k = "tx_signatures" -> SendTxSigs(e, R.tx)
       [] k = "tx_abort" -> SendTxAbort(e)
       [] k = "splice_locked" -> SendSpliceLocked(e, R.tx)
       [] k \in Ignored -> UNCHANGED svars
       [] OTHER -> G1(FALSE) /\ UNCHANGED svars   \* error: never on an honest run

\* ---- a message is handed to node R.to
TDeliver ==
  /\ IsEvent("deliver")
  /\ UNCHANGED Aux
  /\ LET k == R.kind  e == EP(R.chan, R.to) IN
     IF R.chan = 0 \/ ~Known(R.chan) \/ Closed(e) THEN UNCHANGED svars ELSE
     IF k = "error" THEN
          /\ link' = [link EXCEPT ![e] = "closed"]
          /\ Unch(<<par, fund, cnt, hs, base, redo, lastCS, order, pts, mon, ownExp, qs, neg, cands, lk, cv, txc>>) ELSE
     CASE k = "update_add_htlc" -> RecvAdd(e, R.id, R.amt, R.hash)
       [] k = "update_fulfill_htlc" -> RecvRemove(e, R.id, "fulfill")
       [] k \in {"update_fail_htlc", "update_fail_malformed_htlc"} -> RecvRemove(e, R.id, "fail")
       [] k = "commitment_signed" -> IF IsInitCS(e, R.batch) THEN RecvInitCS(e, R.batch[1].ftx)
                                     ELSE IF StaleNeg(e) /\ Len(R.batch) = 1 /\ R.batch[1].ftx \notin ScopeTxs(e) \cup {0} THEN DropStale(e)
                                     ELSE RecvCS(e)
       [] k = "revoke_and_ack" -> RecvRAA(e)
       [] k = "channel_reestablish" -> RecvReestablish(e, R.next_local, R.next_remote, R.nf_tx, R.nf_cs, R.cfl_tx)
       [] k = "stfu" -> RecvStfu(e, R.initiator)
       [] k \in {"splice_init", "tx_init_rbf"} -> RecvSpliceInit(e, R.contrib, R.feerate, R.locktime)
       [] k \in {"splice_ack", "tx_ack_rbf"} -> IF StaleNeg(e) THEN DropStale(e) ELSE RecvSpliceAck(e, R.contrib)
       [] k = "tx_add_input" -> IF StaleNeg(e) THEN DropStale(e) ELSE RecvTx(e, "add_input", InRec)
       [] k = "tx_add_output" -> IF StaleNeg(e) THEN DropStale(e) ELSE RecvTx(e, "add_output", OutRec)
       [] k = "tx_remove_input" -> IF StaleNeg(e) THEN DropStale(e) ELSE RecvTx(e, "remove_input", SerRec)
       [] k = "tx_remove_output" -> IF StaleNeg(e) THEN DropStale(e) ELSE RecvTx(e, "remove_output", SerRec)
       [] k = "tx_complete" -> IF StaleNeg(e) THEN DropStale(e) ELSE RecvTx(e, "complete", SerRec)
       [] k = "tx_signatures" -> IF StaleNeg(e) THEN DropStale(e) ELSE RecvTxSigs(e, R.tx)
       [] k = "tx_abort" -> RecvTxAbort(e)
       [] k = "splice_locked" -> RecvSpliceLocked(e, R.tx)
       [] k \in Ignored -> UNCHANGED svars
       [] OTHER -> G1(FALSE) /\ UNCHANGED svars

\* ---- a ChannelMonitorUpdate (or a full re-persist) reaches Persist
StepsOf(kind) == {k \in 1..Len(R.steps) : R.steps[k].k = kind}
TPersist ==
  /\ IsEvent("persist")
  /\ UNCHANGED Aux
  /\ IF ~R.has_update \/ ~Known(R.chan) \/ R.kind = "load" THEN UNCHANGED svars
     ELSE IF Closed(EP(R.chan, R.node)) THEN UNCHANGED svars
     ELSE LET e == EP(R.chan, R.node)
              cpN == {R.steps[k].cs[1].c.num : k \in StepsOf("counterparty_commitment")}
              hoN == {R.steps[k].cs[1].c.num : k \in StepsOf("holder_commitment")}
              pre == {R.steps[k].hash : k \in StepsOf("payment_preimage")}
              rnT == {R.steps[k].ftx : k \in StepsOf("renegotiated_funding")}
              lkT == {R.steps[k].ftx : k \in StepsOf("renegotiated_funding_locked")}
          IN /\ IF lkT # {} /\ ~Up(e) /\ (CHOOSE t \in lkT : TRUE) # fund[e].tx
                THEN PersistLockOffline(e, R.uid, R.status = "inprogress", CHOOSE t \in lkT : TRUE)
                ELSE Persist(e, R.uid, R.status = "inprogress", cpN, hoN, pre, rnT)
             \* every holder commitment the node accepted -- one per funding scope -- is one its peer built
             \* (same transaction id) and the one its own history prescribes for that scope
             /\ \A k \in StepsOf("holder_commitment") :
                   /\ G1({R.steps[k].cs[j].ftx : j \in 1..Len(R.steps[k].cs)} = ScopeTxs(e))
                   /\ \A j \in 1..Len(R.steps[k].cs) :
                        LET x == R.steps[k].cs[j]  key == <<x.c.num, x.ftx>> IN
                        /\ G1(NoDup(x.c))
                        /\ G5(key \in DOMAIN ownExp[e])
                        /\ key \in DOMAIN ownExp[e] => G1(SameContent(Content(x.c), ownExp[e][key]))
             \* (which scopes a counterparty commitment covers is judged when its commitment_signed leaves: the
             \* update is written before the messages of the same call -- tx_signatures first -- are put on the wire)
             \* the new funding scope is recorded with the peer's current commitment re-based on it
             /\ \A k \in StepsOf("renegotiated_funding") : RenegContentOK(e, R.steps[k].ftx, Content(R.steps[k].cp))
             \* (written before the splice_locked of the same call is put on the wire)
             /\ \A k \in StepsOf("renegotiated_funding_locked") :
                   G1(R.steps[k].ftx = fund[e].tx \/ (IsCand(e, R.steps[k].ftx) /\ lk[e].rcvd = R.steps[k].ftx))
             /\ \A k \in StepsOf("commitment_secret") : G5(R.steps[k].idx = cnt[e].recvRAA - 1)
             /\ \A k \in StepsOf("force_closed") : G1(FALSE)      \* never on honest traffic

TComplete == /\ IsEvent("complete") /\ UNCHANGED Aux
             /\ IF ~Known(R.chan) \/ Closed(EP(R.chan, R.node)) THEN UNCHANGED svars ELSE Complete(EP(R.chan, R.node), R.id)

\* ---- the user asks to pay
TSend ==
  /\ IsEvent("send") /\ UNCHANGED <<svars, nodeOf, saved>>
  /\ pw' = IF R.result = "ok"
            THEN [pw EXCEPT !.oks = @ \cup {<<R.node, R.hash>>},
                            !.held = IF Known(R.chan) /\ qs[EP(R.chan, R.node)].sent THEN @ \cup {<<R.node, R.hash>>} ELSE @]
            ELSE pw
TClaim == /\ IsEvent("claim") /\ UNCHANGED <<svars, nodeOf, saved>> /\ pw' = [pw EXCEPT !.userClaimed = @ \cup {R.hash}]
TFail == /\ IsEvent("fail") /\ UNCHANGED <<svars, nodeOf, saved>> /\ pw' = [pw EXCEPT !.userFailed = @ \cup {R.hash}]

ChanBetween(a, b) == CHOOSE c \in DOMAIN nodeOf : {nodeOf[c][1], nodeOf[c][2]} = {a, b}
Both(a, b) == {<<ChanBetween(a, b), 1>>, <<ChanBetween(a, b), 2>>}
TDisconnect == /\ IsEvent("disconnect") /\ UNCHANGED Aux /\ Disconnect({e \in Both(R.a, R.b) : ~Closed(e)})
TReconnect == /\ IsEvent("reconnect") /\ UNCHANGED Aux /\ Reconnect({e \in Both(R.a, R.b) : ~Closed(e)})

\* ---- ChannelManager snapshots and restarts
TMgrSnap ==
  /\ IsEvent("mgr_snap")
  /\ saved' = [k \in DOMAIN saved \cup {<<R.node, R.k>>} |-> IF k = <<R.node, R.k>> THEN Snapshot(EPsOf(R.node)) ELSE saved[k]]
  /\ UNCHANGED <<svars, nodeOf, pw>>
MonIds == [e \in EPsOf(R.node) |->
             LET ks == {k \in 1..Len(R.mons) : R.mons[k].chan = e[1]} IN
             IF ks = {} THEN 0 ELSE R.mons[CHOOSE k \in ks : TRUE].id]
PeersOf(n) == {Peer(e) : e \in EPsOf(n)}
TCrash ==
  /\ IsEvent("crash") /\ UNCHANGED <<nodeOf, saved>>
  /\ pw' = [pw EXCEPT !.restarted = @ \cup {R.node}]
  /\ Restart(EPsOf(R.node), PeersOf(R.node), saved[<<R.node, R.mgr>>], MonIds)
  \* restarting from the latest manager and monitors never closes a channel
  /\ G10(\A e \in EPsOf(R.node) : link[e] # "closed" => link'[e] # "closed")

\* ---- the chain
TBlock ==
  /\ IsEvent("block") /\ UNCHANGED Aux
  /\ LET E == EPsOf(R.node)  T == ToSet(R.txs) IN
     cv' = [e \in DOMAIN cv |-> IF e \in E
              THEN [h |-> R.h, conf |-> [t \in DOMAIN cv[e].conf \cup T |-> IF t \in DOMAIN cv[e].conf THEN cv[e].conf[t] ELSE R.h]]
              ELSE cv[e]]
  /\ Unch(<<par, fund, cnt, hs, base, link, redo, lastCS, order, pts, mon, ownExp, qs, neg, cands, lk, txc>>)

\* ---- transactions seen in events and broadcasts
TxContent == [ins |-> {<<R.ins[k].tx, R.ins[k].vout>> : k \in 1..Len(R.ins)},
              outs |-> R.outs,
              fvout |-> LET F == {k \in 1..Len(R.outs) : R.outs[k].funding} IN IF F = {} THEN 0 ELSE (CHOOSE k \in F : TRUE) - 1,
              fvalue |-> LET F == {k \in 1..Len(R.outs) : R.outs[k].funding} IN IF F = {} THEN 0 ELSE R.outs[CHOOSE k \in F : TRUE].v]
Learn == txc' = [t \in DOMAIN txc \cup {R.tx} |-> IF t = R.tx THEN TxContent ELSE txc[t]]
OneFunding == Cardinality({k \in 1..Len(R.outs) : R.outs[k].funding}) = 1

TBroadcast ==
  /\ IsEvent("broadcast") /\ UNCHANGED Aux
  /\ Learn
  /\ Unch(<<par, fund, cnt, hs, base, link, redo, lastCS, order, pts, mon, ownExp, qs, neg, cands, lk, cv>>)
  /\ (R.type = "InteractiveFunding" /\ Known(R.chan)) =>
        LET e == EP(R.chan, R.node) IN
        \* only a fully negotiated candidate is broadcast; it spends the funding output in force and
        \* creates the new one with exactly the negotiated value
        \/ R.tx = fund[e].tx
        \/ /\ G1(MayPublish(e, R.tx) /\ OneFunding)
           /\ G1(<<fund[e].tx, fund[e].vout>> \in TxContent.ins)
           /\ G1(\A k \in cands[e] : k.tx = R.tx => k.value = TxContent.fvalue)
           /\ G1((~IsCand(e, R.tx)) => TxContent.fvalue = NewValue(e))
  \* a commitment transaction is never broadcast on an honest run
  /\ G1(R.type \notin {"UnilateralClose", "CommitmentTransaction", "Commitment"})

CloseOK == FALSE
TEvent ==
  /\ IsEvent("event") /\ UNCHANGED <<nodeOf, saved>>
  /\ pw' = IF R.kind = "PaymentSent" THEN [pw EXCEPT !.sentEv = @ \cup {<<R.node, R.hash>>}]
            ELSE IF R.kind = "PaymentFailed" THEN [pw EXCEPT !.failEv = @ \cup {<<R.node, R.hash>>}]
            \* (the recipient's node refuses an HTLC by itself, e.g. too close to its expiry: as good as the user failing it)
            ELSE IF R.kind = "HTLCHandlingFailed" /\ R.type = "Receive" THEN [pw EXCEPT !.userFailed = @ \cup {R.hash}]
            ELSE pw
  /\ R.kind = "PaymentSent" => G1(R.preimage_ok /\ R.hash \in pw.userClaimed)
  \* between two nodes a payment only fails if its recipient failed it: an HTLC held back during
  \* quiescence / splicing is not lost
  \* (... or the sender itself refused it in the end -- it never went on the wire --, e.g. because it no longer fits
  \* next to the other payments that had been held: the user is told, nothing is lost)
  /\ (R.kind = "PaymentFailed" /\ pw.nodes = 2) =>
        G1(R.hash \in pw.userFailed \/ <<R.node, R.hash>> \notin pw.oks \/ <<R.node, R.hash>> \notin pw.adds)
  /\ IF R.kind = "FundingTransactionReadyForSigning" /\ Known(R.chan)
     THEN LET e == EP(R.chan, R.node) IN
          /\ Learn
          /\ G1(neg[e].st = "sign" /\ neg[e].tx \in {0, R.tx})
          /\ G1(OneFunding /\ TxMatchesC(e, TxContent))
          /\ neg' = [neg EXCEPT ![e].tx = R.tx]
          /\ Unch(<<par, fund, cnt, hs, base, link, redo, lastCS, order, pts, mon, ownExp, qs, cands, lk, cv>>)
     ELSE /\ UNCHANGED svars
          /\ (R.kind = "ChannelClosed" /\ Known(R.chan)) => G1(Closed(EP(R.chan, R.node)))
          /\ (R.kind = "SpliceNegotiated" /\ Known(R.chan)) => G1(MayPublish(EP(R.chan, R.node), R.tx))
          /\ (R.kind = "ChannelReady" /\ Known(R.chan)) => G1(fund[EP(R.chan, R.node)].tx = R.tx /\ fund[EP(R.chan, R.node)].vout = R.vout)

\* ---- list_channels after every step: the channel's funding outpoint and value are the ones in force
TProj ==
  /\ IsEvent("proj") /\ UNCHANGED <<svars, Aux>>
  /\ (Known(R.chan) /\ ~Closed(EP(R.chan, R.node))) =>
        LET e == EP(R.chan, R.node) IN
        /\ G1(R.ftx = fund[e].tx /\ R.fvout = fund[e].vout /\ R.value = fund[e].value)
        /\ G1(R.splice_cands >= Cardinality(cands[e]))
        \* at the end of a wound-down run nothing is pending, nothing is being negotiated, the channel is usable
        /\ R.final => /\ G1(hs[e] = {} /\ R.n_in + R.n_out = 0)
                      /\ G10(neg[e].st = "none")
                      /\ G1(R.usable /\ R.ready)
  \* an honest run never loses its channel
  /\ TRUE

\* ---- end of a wound-down run, per node
TFin ==
  /\ IsEvent("fin") /\ Stutter
  /\ \A e \in EPsOf(R.node) :
        /\ G1(~Closed(e))
        \* both sides are on the same funding transaction, with the same candidates (none half-signed) ...
        /\ G10(fund[e] = fund[Peer(e)] /\ {k.tx : k \in cands[e]} = {k.tx : k \in cands[Peer(e)]})
        \* ... and their irrevocable balances add up to its value: each side's own contribution went to itself
        /\ G1(base[e] + base[Peer(e)] = fund[e].value * 1000)
  \* what a user asked to send while the channel was quiescent went out afterwards
  /\ G1(\A p \in pw.held : p[1] = R.node => (p \in pw.adds \/ p \in pw.failEv))
  \* every payment of this node reached its end: claimed ones were reported sent
  /\ R.node \notin pw.restarted =>
        G1(\A p \in pw.oks : (p[1] = R.node /\ p[2] \in pw.userClaimed) => p \in pw.sentEv)
  \* ... and every payment the node accepted and put on the wire came to an end the user was told about
  /\ (R.node \notin pw.restarted /\ pw.nodes = 2) =>
        G1(\A p \in pw.oks : (p[1] = R.node /\ p \in pw.adds) => (p \in pw.sentEv \/ p \in pw.failEv))

TOther ==
  /\ l <= Len(Rec) /\ Rec[l].ev \in {"forward", "tick", "persist_mode", "restarted", "hold_sign", "signed", "splice", "cancel", "quiesce", "mined", "msg_other", "sign_error"}
  /\ l' = l + 1 /\ Stutter

TraceNext == TOpen \/ TMsg \/ TDeliver \/ TPersist \/ TComplete \/ TSend \/ TClaim \/ TFail \/ TDisconnect \/ TReconnect
             \/ TMgrSnap \/ TCrash \/ TBlock \/ TBroadcast \/ TEvent \/ TProj \/ TFin \/ TOther

TraceSpec == TraceInit /\ [][TraceNext]_tvars

TraceAccepted ==
  LET d == TLCGet("stats").diameter IN
  IF d - 1 = Len(Rec) THEN TRUE
  ELSE /\ PrintT(<<"REJECT", d, Len(Rec)>>)
       /\ FALSE
=============================================================================
