SPECIFICATION Spec
CONSTANTS
  UseBlocker = TRUE
  MaxCrash = 2
INVARIANT PreimageBeforeForget
INVARIANT NoLoss
INVARIANT NoTheft
CHECK_DEADLOCK TRUE
