SPECIFICATION MCSpec
CONSTANTS
  MaxPendings = {0, 1, 2, 3}
  MaxUpd = 6
  MaxFaults = 1
  MaxCrashes = 1
  MaxCleanups = 1
  MaxSyncs = 1
  Kinds = {"pre", "fc", "pp"}
  MaxCloses = 1
  MaxArchives = 1
  MaxDeferred = 1
  RefusedAsUpdate = FALSE
VIEW View
INVARIANT CrashRecoveredCoversReported
INVARIANT CrashRecoveredIsSomeInMemoryState
INVARIANT CrashRecoveredNotFromTheFuture
INVARIANT CleanupSafe
INVARIANT RecoveredCoversReported
INVARIANT EmitScripts
CHECK_DEADLOCK TRUE
