-------------------------- MODULE ChainViewTrace --------------------------
(***************************************************************************)
(* Trace validation for C11.  A trace file holds many runs of the engine   *)
(* `chainsync`; every run starts with a `reset` record carrying the chain  *)
(* history, then the notifications actually made to the ChainMonitor       *)
(* ("mon") and the ChannelManager ("mgr"), and a `sync` record with the    *)
(* conclusions of both at every synchronisation point.                     *)
(*                                                                         *)
(*  - every notification must be permitted by the Listen / Confirm         *)
(*    contracts (guards of ChainView) -- otherwise the run is rejected     *)
(*    (an illegal script, i.e. a tool error, not a verdict about the code) *)
(*  - at every sync the logged conclusions are judged (verdict v, checked  *)
(*    by the invariants below): F(chain) for what the specification can    *)
(*    compute; equality with the plain whole-block delivery of the same    *)
(*    history (run kind "canon", the first run of each history) and with   *)
(*    the plain delivery of the same chain from the starting state (run    *)
(*    kind "direct") for the rest.                                         *)
(***************************************************************************)
EXTENDS ChainView, Json, IOUtils

VARIABLES
  l,                  \* next record
  tp, cf, ifc, gv,    \* per notified object: [{"mon","mgr"} -> ...]  (see ChainView)
  phase,              \* "dead" | "idle" | "moving"
  kind, histId, failTrig, baseConf, inputs, minDepth, tlOuts, tlHeight,
  readyAt,            \* blocks in which the funding had >= minDepth confirmations at a sync point
  commitSeen,         \* the channel had to be given up at a sync point: a commitment transaction was on the
                      \* best chain, or the funding had left the block in which it was deep enough to be used
  reloaded,           \* a restart happened in this run
  ever,               \* <<role, block>> that have been buried >= ARD at a sync point of this run
  over,               \* a role that was final has been reorganised away (beyond the property)
  v                   \* verdict of the last sync record

tvars == <<hvars, target, l, tp, cf, ifc, gv, phase, kind, histId, failTrig, baseConf, inputs, minDepth, tlOuts, tlHeight, readyAt, commitSeen, reloaded,
           ever, over, v>>

Rec == ndJsonDeserialize(IOEnv.TRACE)

\* The canonical run (plain whole-block delivery, kind "canon") of every history and the plain
\* delivery of every chain from the starting state (kind "direct") are part of the same file; their
\* sync records are looked up here (computed once).
SyncLines(k) == {i \in 1..Len(Rec) : Rec[i].ev = "sync" /\ Rec[i].kind = k}
CanonMap == LET L == SyncLines("canon") IN
  [p \in {<<Rec[i].hist, Rec[i].idx>> : i \in L} |-> CHOOSE i \in L : <<Rec[i].hist, Rec[i].idx>> = p]
DirectMap == LET L == SyncLines("direct") IN
  [p \in {Rec[i].key : i \in L} |-> CHOOSE i \in L : Rec[i].key = p]
Objs == {"mon", "mgr"}
NoConf == [r \in Roles |-> None]
\* the recorded finding "pending claims lost on rewind" is waived (KNOWN_FINDINGS): a schedule other than
\* the canonical one may then lack claims that the canonical delivery still has
WaiveLostClaims == "C11_WAIVE" \in DOMAIN IOEnv /\ IOEnv.C11_WAIVE = "1"

AllGood == [hist |-> TRUE, best |-> TRUE, funding |-> TRUE, listed |-> TRUE, closed |-> TRUE, relevant |-> TRUE,
            remembers |-> TRUE, irrev |-> TRUE, aBal |-> TRUE, aRel |-> TRUE, aClaims |-> TRUE,
            aChans |-> TRUE, aEvents |-> TRUE, aMsgs |-> TRUE, retract |-> TRUE]

TraceInit ==
  /\ l = 1
  /\ nb = 0 /\ parent = <<>> /\ txin = <<>> /\ has = {} /\ minh = [r \in Roles |-> 0]
  /\ fundingRole = FALSE /\ target = 0
  /\ tp = [o \in Objs |-> 0] /\ cf = [o \in Objs |-> NoConf]
  /\ ifc = [o \in Objs |-> "none"] /\ gv = [o \in Objs |-> FALSE]
  /\ phase = "dead" /\ kind = "" /\ histId = 0 /\ failTrig = <<>> /\ baseConf = 0 /\ inputs = <<>>
  /\ minDepth = 0 /\ tlOuts = {} /\ tlHeight = 0 /\ readyAt = {} /\ commitSeen = FALSE
  /\ reloaded = FALSE /\ ever = {} /\ over = FALSE
  /\ v = AllGood

IsEvent(e) == l <= Len(Rec) /\ Rec[l].ev = e /\ l' = l + 1

ToSet(s) == {s[i] : i \in 1..Len(s)}

TReset ==
  /\ IsEvent("reset")
  /\ LET r == Rec[l] n == Len(r.parent) IN
     /\ nb' = n
     /\ parent' = [b \in 1..n |-> r.parent[b]]
     /\ txin' = [b \in 1..n |-> ToSet(r.txs[b])]
     /\ has' = Roles
     /\ minh' = [q \in Roles |-> r.minh[q]]
     /\ fundingRole' = r.funding_role
     /\ kind' = r.kind /\ histId' = r.hist
     /\ failTrig' = r.failtrig /\ baseConf' = r.base_conf /\ inputs' = r.inputs /\ minDepth' = r.min_depth
     /\ tlOuts' = ToSet(r.tl_outs) /\ tlHeight' = r.tl_height
     /\ v' = AllGood
  /\ target' = 0
  /\ tp' = [o \in Objs |-> 0] /\ cf' = [o \in Objs |-> NoConf]
  /\ ifc' = [o \in Objs |-> "none"] /\ gv' = [o \in Objs |-> FALSE]
  /\ phase' = "idle" /\ reloaded' = FALSE /\ ever' = {} /\ over' = FALSE
  /\ readyAt' = {} /\ commitSeen' = FALSE

Same == UNCHANGED <<hvars, kind, histId, failTrig, baseConf, inputs, minDepth, tlOuts, tlHeight, readyAt, commitSeen, ever, over>>

TReload ==
  /\ IsEvent("reload") /\ phase = "idle"
  /\ ifc' = [o \in Objs |-> "none"] /\ reloaded' = TRUE
  /\ Same /\ UNCHANGED <<target, tp, cf, gv, phase, v>>

TBegin ==
  /\ IsEvent("begin") /\ phase = "idle"
  /\ MoveOK(target, Rec[l].target)
  /\ target' = Rec[l].target /\ phase' = "moving"
  /\ gv' = [o \in Objs |-> FALSE]
  /\ Same /\ UNCHANGED <<tp, cf, ifc, reloaded, v>>

Upd(f, o, x) == [f EXCEPT ![o] = x]

TConn ==
  /\ IsEvent("conn") /\ phase = "moving"
  /\ LET o == Rec[l].who b == Rec[l].b IN
     /\ CanConnect(tp[o], ifc[o], b)
     /\ tp' = Upd(tp, o, b) /\ cf' = Upd(cf, o, ConfAfterConnect(cf[o], b)) /\ ifc' = Upd(ifc, o, "listen")
  /\ Same /\ UNCHANGED <<target, gv, phase, reloaded, v>>

TDisc ==
  /\ IsEvent("disc") /\ phase = "moving"
  /\ LET o == Rec[l].who f == Rec[l].to IN
     /\ f \in Blocks
     /\ CanDisconnect(tp[o], ifc[o], f)
     /\ tp' = Upd(tp, o, f) /\ cf' = Upd(cf, o, ConfAfterRewind(cf[o], f)) /\ ifc' = Upd(ifc, o, "listen")
  /\ Same /\ UNCHANGED <<target, gv, phase, reloaded, v>>

TTxs ==
  /\ IsEvent("txs") /\ phase = "moving"
  /\ LET o == Rec[l].who b == Rec[l].b sel == ToSet(Rec[l].sel) IN
     /\ CanTxs(cf[o], ifc[o], b, sel)
     /\ cf' = Upd(cf, o, ConfAfterTxs(cf[o], b, sel)) /\ ifc' = Upd(ifc, o, "confirm") /\ gv' = Upd(gv, o, TRUE)
  /\ Same /\ UNCHANGED <<target, tp, phase, reloaded, v>>

TBest ==
  /\ IsEvent("best") /\ phase = "moving"
  /\ LET o == Rec[l].who b == Rec[l].b IN
     /\ CanBest(tp[o], cf[o], ifc[o], b)
     /\ tp' = Upd(tp, o, b) /\ cf' = Upd(cf, o, ConfAfterBest(tp[o], cf[o], b)) /\ ifc' = Upd(ifc, o, "confirm")
  /\ Same /\ UNCHANGED <<target, gv, phase, reloaded, v>>

TUnconf ==
  /\ IsEvent("unconf") /\ phase = "moving"
  /\ LET o == Rec[l].who IN
     /\ CanUnconfirm(cf[o], ifc[o], gv[o])
     /\ cf' = Upd(cf, o, ConfAfterUnconfirm(cf[o])) /\ ifc' = Upd(ifc, o, "confirm")
  /\ Same /\ UNCHANGED <<target, tp, gv, phase, reloaded, v>>

\* diagnostics: what the node emitted and when (judged at the sync record)
TNote ==
  /\ (IsEvent("drain") \/ IsEvent("event") \/ IsEvent("message"))
  /\ Same /\ UNCHANGED <<target, tp, cf, ifc, gv, phase, reloaded, v>>

\* ---- judging a synchronisation point
ConfirmedTx(t) == (t \in Roles /\ Place(t, target) # None) \/ (t = 5 /\ ~fundingRole)
SpentInChain(op) == \E r \in Roles : Place(r, target) # None /\ \E i \in 1..Len(inputs[r]) : inputs[r][i] = op
\* Claims are compared by WHAT is being claimed (how claims are aggregated into transactions and at
\* which fee may differ): the outpoints, of all pending claim transactions, that can still be spent
\* on the best chain.  A time-locked claim (HTLC timeout) counts only from the height at which it can be
\* broadcast: below it, a claim made while the chain was higher may or may not still be pending.
LiveOf(s) == {op \in UNION {ToSet(s[i]) : i \in 1..Len(s)} :
                 /\ ConfirmedTx(op[1]) /\ ~SpentInChain(op)
                 /\ op \in tlOuts => Height(target) >= tlHeight}
Pairs(rel) == {<<rel[i][1], rel[i][2]>> : i \in 1..Len(rel)}

\* a role that was final is still where it was but with fewer confirmations than ARD now
Shallower == \E e \in ever : Place(e[1], target) = e[2] /\ ~Buried(e[1], target)

TSync ==
  /\ IsEvent("sync") /\ phase = "moving"
  /\ \A o \in Objs : SyncedTo(tp[o], cf[o])
  /\ Rec[l].tip = target
  /\ LET r == Rec[l] f == Rec[l].f
         ov == over \/ Overturned(ever)
         i == r.idx
         hasCanon == <<histId, i>> \in DOMAIN CanonMap
         c == IF kind = "sched" /\ hasCanon THEN Rec[CanonMap[<<histId, i>>]] ELSE r
         cmp == kind = "sched" /\ ~ov
         strictClaims == LiveOf(r.R.claims) = LiveOf(c.R.claims)
         waivedClaims == LiveOf(r.R.claims) \subseteq LiveOf(c.R.claims)
         hasDirect == r.key \in DOMAIN DirectMap /\ kind # "direct" /\ ~ov /\ ~Shallower /\ ~reloaded
         d == IF hasDirect THEN Rec[DirectMap[r.key]] ELSE r
         dClaims == LiveOf(d.R.claims)
     IN
     /\ over' = ov
     /\ ever' = ever \cup NowBuried
     /\ readyAt' = readyAt \cup (IF fundingRole /\ Depth(1, target) >= minDepth THEN {Place(1, target)} ELSE {})
     /\ commitSeen' = (commitSeen \/ (\E q \in SpendRoles : Place(q, target) # None)
                                   \/ (fundingRole /\ \E b \in readyAt : Place(1, target) # b))
     /\ (cmp /\ WaiveLostClaims /\ ~strictClaims /\ waivedClaims) => PrintT(<<"WAIVED", r.run, i>>)
     /\ v' = [hist |-> (kind = "sched" => hasCanon),
              best |-> (BestBlockIs(f.mbest) /\ BestBlockIs(f.gbest)),
              funding |-> (ov \/ f.conf < 0 \/ FundingDepthIs(f.conf, baseConf)),
              \* the manager gives a channel up exactly when a commitment transaction confirmed, or its
              \* funding left the block in which it had reached the depth the channel was used at
              listed |-> (ov \/ ~fundingRole \/
                           ((f.conf >= 0) <=> ~(commitSeen \/ (\E q \in SpendRoles : Place(q, target) # None)
                                                \/ \E b \in readyAt : Place(1, target) # b))),
              closed |-> (ov \/ ClosedViewOK(f.open_bal, ever)),
              relevant |-> (ov \/ (RelevantOK(f.mrel) /\ RelevantOK(f.grel))),
              remembers |-> (ov \/ RemembersOK(f.mrel, ever)),
              irrev |-> (ov \/ IrreversibleOK(f.irrev, failTrig, ever)),
              aBal |-> (cmp => r.R.bal = c.R.bal),
              aRel |-> (cmp => (r.R.mrel = c.R.mrel /\ r.R.grel = c.R.grel)),
              aClaims |-> (cmp => IF WaiveLostClaims THEN waivedClaims ELSE strictClaims),
              aChans |-> (cmp => r.R.chans = c.R.chans),
              aEvents |-> (cmp => r.S.evs = c.S.evs),
              aMsgs |-> (cmp => r.S.msgs = c.S.msgs),
              retract |-> (hasDirect =>
                             /\ r.R.bal = d.R.bal
                             /\ Pairs(f.mrel) = Pairs(d.f.mrel)
                             \* everything a fresh delivery of this chain claims is (again) being claimed; a
                             \* claim made while the chain was higher may legitimately still be pending
                             /\ ((WaiveLostClaims /\ kind = "sched") \/ dClaims \subseteq LiveOf(r.R.claims))
                             /\ (r.R.chans # <<>> => (r.R.chans = d.R.chans /\ Pairs(f.grel) = Pairs(d.f.grel))))]
  /\ phase' = "idle"
  /\ UNCHANGED <<hvars, target, tp, cf, ifc, gv, kind, histId, failTrig, baseConf, inputs, minDepth, tlOuts, tlHeight, reloaded>>

TraceNext == TReset \/ TReload \/ TBegin \/ TConn \/ TDisc \/ TTxs \/ TBest \/ TUnconf \/ TNote \/ TSync

TraceSpec == TraceInit /\ [][TraceNext]_tvars

TraceAccepted ==
  LET d == TLCGet("stats").diameter IN
  IF d - 1 = Len(Rec) THEN TRUE
  ELSE /\ PrintT(<<"REJECT", d, Len(Rec)>>)
       /\ FALSE

\* ---- the invariants (one per clause, so that a violation names it)
HistoryWellFormed == v.hist /\ (phase = "dead" \/ TreeOK)
BestBlockIsChainTip == v.best
FundingDepthIsChainFunction == v.funding
ChannelGivenUpIffChainSaysSo == v.listed
ClosedIffSpendOnChain == v.closed
RelevantTxidsOnBestChain == v.relevant
UnburiedStillWatched == v.remembers
IrreversibleOnlyWhenBuried == v.irrev
BalancesDeliveryIndependent == v.aBal
RelevantTxidsDeliveryIndependent == v.aRel
PendingClaimsDeliveryIndependent == v.aClaims
ChannelsDeliveryIndependent == v.aChans
EventsDeliveryIndependent == v.aEvents
MessagesDeliveryIndependent == v.aMsgs
ShallowReorgRetracts == v.retract
=============================================================================
