-------------------------- MODULE ChainViewTrace --------------------------
(***************************************************************************)
(* Trace validation for C11.  A trace file holds many runs of the engine   *)
(* `chainsync`; every run starts with a `reset` record carrying the chain  *)
(* history, then the notifications actually made to the ChainMonitor       *)
(* ("mon") and the ChannelManager ("mgr"), and a `sync` record with the    *)
(* conclusions of both at every synchronisation point.                     *)
(*                                                                         *)
(*  - every notification must be permitted by the Listen / Confirm         *)
(*    contracts (guards of ChainView) -- otherwise the run is rejected     *)
(*    (an illegal script, i.e. a tool error, not a verdict about the code) *)
(*  - at every sync the logged conclusions are judged (verdict v, checked  *)
(*    by the invariants below): F(chain) for what the specification can    *)
(*    compute; equality with the plain whole-block delivery of the same    *)
(*    history (run kind "canon", the first run of each history) and with   *)
(*    the plain delivery of the same chain from the starting state (run    *)
(*    kind "direct") for the rest.                                         *)
(*  - the relevant transactions may depend on each other (dep: commitment  *)
(*    <- second-stage HTLC transaction <- claim on it), packed into one    *)
(*    block or spread; the conclusions about every member of such a chain  *)
(*    (still watched while unburied, balances, claims, events) are judged  *)
(*    like those about any other role: a delivery in which an in-block     *)
(*    descendant was overlooked differs from F(chain) and from the others. *)
(***************************************************************************)
EXTENDS ChainView, Json, IOUtils

VARIABLES
  l,                  \* next record
  tp, cf, ifc, gv,    \* per notified object: [{"mon","mgr"} -> ...]  (see ChainView)
  phase,              \* "dead" | "idle" | "moving"
  kind, histId, failTrig, baseConf, inputs, minDepth, tlOuts, tlHeight,
  in1Out,             \* {} or {outpoint of the inbound HTLC whose preimage the node (comes to) know(s)}
  holderStruct,       \* role 1 is the node's own commitment transaction
  pre,                \* the node knows that preimage
  lateConf,           \* confirmations of role 1 when the preimage was learned during the run (-1: not so)
  claimH, rewound,    \* best height at that moment; the monitor was later rewound below it
  lateFinal,          \* role 1 had been final (>= ARD confirmations at a sync point) when the preimage was learned
  aheadH, rewoundE,   \* the monitor's tip was at this height (> the block's) when it was told that role 1 is
                      \* confirmed (tip announced first / late confirmation); it was later rewound below it
  quiet,              \* the monitor's last notification was a best_block_updated that announced a
                      \* reorganisation: no block processing has run since (see LiveOf)
  lastH1, lowered,    \* height at which the monitor was last told role 1 is confirmed; it was re-confirmed
                      \* LOWER through transactions_confirmed after transaction_unconfirmed
  readyAt,            \* blocks in which the funding had >= minDepth confirmations at a sync point
  commitSeen,         \* the channel had to be given up at a sync point: a commitment transaction was on the
                      \* best chain, or the funding had left the block in which it was deep enough to be used
  reloaded,           \* a restart happened in this run
  ever,               \* <<role, block>> that have been buried >= ARD at a sync point of this run
  over,               \* a role that was final has been reorganised away (beyond the property)
  v                   \* verdict of the last sync record

tvars == <<hvars, target, l, tp, cf, ifc, gv, phase, kind, histId, failTrig, baseConf, inputs, minDepth, tlOuts, tlHeight, in1Out, holderStruct, pre, lateConf, claimH, rewound, lateFinal, aheadH, rewoundE, quiet, lastH1, lowered, readyAt, commitSeen, reloaded,
           ever, over, v>>

Rec == ndJsonDeserialize(IOEnv.TRACE)

\* The canonical run (plain whole-block delivery, kind "canon") of every history and the plain
\* delivery of every chain from the starting state (kind "direct") are part of the same file; their
\* sync records are looked up here (computed once).
SyncLines(k) == {i \in 1..Len(Rec) : Rec[i].ev = "sync" /\ Rec[i].kind = k}
CanonMap == LET L == SyncLines("canon") IN
  [p \in {<<Rec[i].hist, Rec[i].idx>> : i \in L} |-> CHOOSE i \in L : <<Rec[i].hist, Rec[i].idx>> = p]
DirectMap == LET L == SyncLines("direct") IN
  [p \in {Rec[i].key : i \in L} |-> CHOOSE i \in L : Rec[i].key = p]
Objs == {"mon", "mgr"}
NoConf == [r \in Roles |-> None]
\* Recorded findings (KNOWN_FINDINGS.jsonl) about pending claims that get lost; each is waived only for
\* the outpoints and histories of its own class, so that any other lost claim is still a violation:
\*  A  the commitment was re-confirmed LOWER through transaction_unconfirmed + transactions_confirmed
\*     and a later best_block_updated rewound below the original height: claims on its outputs
\*  B  the claim on the funding output (own commitment broadcast after the manager gave the channel up
\*     because its funding was reorganised out)
\*  C  preimage learned while the node's OWN commitment was already confirmed: the HTLC claim is
\*     registered at the then best height and dropped by a later rewind of the tip
\*  D  preimage learned after the counterparty commitment had >= ARD confirmations: same
\*  E  the node's OWN commitment was broadcast (HTLC timed out) while the tip was already announced and
\*     its confirmation in an earlier block was given afterwards: the claims on its outputs stay
\*     registered at the broadcast height and are dropped by a later rewind below it
Waive(k) == k \in DOMAIN IOEnv /\ IOEnv[k] = "1"
WaiveA == Waive("C11_WAIVE_A")
WaiveB == Waive("C11_WAIVE_B")
WaiveC == Waive("C11_WAIVE_C")
WaiveD == Waive("C11_WAIVE_D")
WaiveE == Waive("C11_WAIVE_E")

AllGood == [hist |-> TRUE, best |-> TRUE, funding |-> TRUE, listed |-> TRUE, closed |-> TRUE, relevant |-> TRUE,
            remembers |-> TRUE, irrev |-> TRUE, aBal |-> TRUE, aRel |-> TRUE, aClaims |-> TRUE,
            aChans |-> TRUE, aEvents |-> TRUE, aMsgs |-> TRUE, retract |-> TRUE, claimsIn |-> TRUE]

TraceInit ==
  /\ l = 1
  /\ nb = 0 /\ parent = <<>> /\ txin = <<>> /\ has = {} /\ minh = [r \in Roles |-> 0]
  /\ fundingRole = FALSE /\ dep = [q \in Roles |-> 0] /\ target = 0
  /\ tp = [o \in Objs |-> 0] /\ cf = [o \in Objs |-> NoConf]
  /\ ifc = [o \in Objs |-> "none"] /\ gv = [o \in Objs |-> FALSE]
  /\ phase = "dead" /\ kind = "" /\ histId = 0 /\ failTrig = <<>> /\ baseConf = 0 /\ inputs = <<>>
  /\ minDepth = 0 /\ tlOuts = {} /\ tlHeight = 0 /\ readyAt = {} /\ commitSeen = FALSE
  /\ in1Out = {} /\ holderStruct = FALSE /\ pre = FALSE /\ lateConf = -1 /\ claimH = -1 /\ rewound = FALSE /\ lateFinal = FALSE /\ aheadH = -1 /\ rewoundE = FALSE /\ quiet = FALSE /\ lastH1 = -1 /\ lowered = FALSE
  /\ reloaded = FALSE /\ ever = {} /\ over = FALSE
  /\ v = AllGood

IsEvent(e) == l <= Len(Rec) /\ Rec[l].ev = e /\ l' = l + 1

ToSet(s) == {s[i] : i \in 1..Len(s)}

TReset ==
  /\ IsEvent("reset")
  /\ LET r == Rec[l] n == Len(r.parent) IN
     /\ nb' = n
     /\ parent' = [b \in 1..n |-> r.parent[b]]
     /\ txin' = [b \in 1..n |-> ToSet(r.txs[b])]
     /\ has' = Roles
     /\ minh' = [q \in Roles |-> r.minh[q]]
     /\ fundingRole' = r.funding_role
     /\ dep' = [q \in Roles |-> r.dep[q]]
     \* the transactions of a block are in an order a block can have: none precedes the one it spends
     /\ \A b \in 1..n : \A i, j \in 1..Len(r.txs[b]) : r.dep[r.txs[b][j]] = r.txs[b][i] => i < j
     /\ kind' = r.kind /\ histId' = r.hist
     /\ failTrig' = r.failtrig /\ baseConf' = r.base_conf /\ inputs' = r.inputs /\ minDepth' = r.min_depth
     /\ tlOuts' = ToSet(r.tl_outs) /\ tlHeight' = r.tl_height
     /\ in1Out' = ToSet(r.in1_out) /\ holderStruct' = r.holder /\ pre' = (r.in1_out # <<>> /\ ~r.late)
     /\ v' = AllGood
  /\ target' = 0
  /\ tp' = [o \in Objs |-> 0] /\ cf' = [o \in Objs |-> NoConf]
  /\ ifc' = [o \in Objs |-> "none"] /\ gv' = [o \in Objs |-> FALSE]
  /\ phase' = "idle" /\ reloaded' = FALSE /\ ever' = {} /\ over' = FALSE
  /\ readyAt' = {} /\ commitSeen' = FALSE /\ lateConf' = -1 /\ claimH' = -1 /\ rewound' = FALSE /\ lateFinal' = FALSE /\ aheadH' = -1 /\ rewoundE' = FALSE /\ quiet' = FALSE /\ lastH1' = -1 /\ lowered' = FALSE

Same == UNCHANGED <<hvars, kind, histId, failTrig, baseConf, inputs, minDepth, tlOuts, tlHeight, in1Out, holderStruct, readyAt, commitSeen, ever, over>>

Same2 == UNCHANGED <<pre, lateConf, claimH, rewound, lateFinal, aheadH, rewoundE, quiet, lastH1, lowered>>
\* the monitor is rewound to height h
Rewinds(o, h) == /\ rewound' = (rewound \/ (o = "mon" /\ claimH >= 0 /\ h < claimH))
                 /\ rewoundE' = (rewoundE \/ (o = "mon" /\ aheadH >= 0 /\ h < aheadH))

TReload ==
  /\ IsEvent("reload") /\ phase = "idle"
  /\ ifc' = [o \in Objs |-> "none"] /\ reloaded' = TRUE
  /\ Same /\ Same2 /\ UNCHANGED <<target, tp, cf, gv, phase, v>>

TBegin ==
  /\ IsEvent("begin") /\ phase = "idle"
  /\ MoveOK(target, Rec[l].target)
  /\ target' = Rec[l].target /\ phase' = "moving"
  /\ gv' = [o \in Objs |-> FALSE]
  /\ Same /\ Same2 /\ UNCHANGED <<tp, cf, ifc, reloaded, v>>

Upd(f, o, x) == [f EXCEPT ![o] = x]

TConn ==
  /\ IsEvent("conn") /\ phase = "moving"
  /\ LET o == Rec[l].who b == Rec[l].b IN
     /\ CanConnect(tp[o], ifc[o], b)
     /\ tp' = Upd(tp, o, b) /\ cf' = Upd(cf, o, ConfAfterConnect(cf[o], b)) /\ ifc' = Upd(ifc, o, "listen")
     /\ lastH1' = IF o = "mon" /\ 1 \in txin[b] THEN Height(b) ELSE lastH1
     /\ quiet' = (quiet /\ o # "mon")
  /\ Same /\ UNCHANGED <<pre, lateConf, claimH, rewound, lateFinal, aheadH, rewoundE, lowered, target, gv, phase, reloaded, v>>

TDisc ==
  /\ IsEvent("disc") /\ phase = "moving"
  /\ LET o == Rec[l].who f == Rec[l].to IN
     /\ f \in Blocks
     /\ CanDisconnect(tp[o], ifc[o], f)
     /\ tp' = Upd(tp, o, f) /\ cf' = Upd(cf, o, ConfAfterRewind(cf[o], f)) /\ ifc' = Upd(ifc, o, "listen")
     /\ Rewinds(o, Height(f))
  /\ Same /\ UNCHANGED <<pre, lateConf, claimH, lateFinal, aheadH, quiet, lastH1, lowered, target, gv, phase, reloaded, v>>

TTxs ==
  /\ IsEvent("txs") /\ phase = "moving"
  /\ LET o == Rec[l].who b == Rec[l].b sel == ToSet(Rec[l].sel) IN
     /\ CanTxs(cf[o], ifc[o], b, sel)
     /\ TopoSeq(Rec[l].sel)      \* "dependent transactions within the same block must be given in topological order"
     /\ cf' = Upd(cf, o, ConfAfterTxs(cf[o], b, sel)) /\ ifc' = Upd(ifc, o, "confirm") /\ gv' = Upd(gv, o, TRUE)
     /\ lastH1' = IF o = "mon" /\ 1 \in sel THEN Height(b) ELSE lastH1
     /\ lowered' = (lowered \/ (o = "mon" /\ 1 \in sel /\ lastH1 > Height(b)))
     /\ aheadH' = IF o = "mon" /\ 1 \in sel /\ Height(tp[o]) > Height(b) /\ Height(tp[o]) > aheadH THEN Height(tp[o]) ELSE aheadH
     /\ quiet' = (quiet /\ o # "mon")
  /\ Same /\ UNCHANGED <<pre, lateConf, claimH, rewound, lateFinal, rewoundE, target, tp, phase, reloaded, v>>

TBest ==
  /\ IsEvent("best") /\ phase = "moving"
  /\ LET o == Rec[l].who b == Rec[l].b IN
     /\ CanBest(tp[o], cf[o], ifc[o], b)
     /\ tp' = Upd(tp, o, b) /\ cf' = Upd(cf, o, ConfAfterBest(tp[o], cf[o], b)) /\ ifc' = Upd(ifc, o, "confirm")
     /\ IF Anc(tp[o], b) THEN UNCHANGED <<rewound, rewoundE>> ELSE Rewinds(o, Height(b))
     /\ quiet' = IF o = "mon" THEN ~Anc(tp[o], b) ELSE quiet
  /\ Same /\ UNCHANGED <<pre, lateConf, claimH, lateFinal, aheadH, lastH1, lowered, target, gv, phase, reloaded, v>>

TUnconf ==
  /\ IsEvent("unconf") /\ phase = "moving"
  /\ LET o == Rec[l].who IN
     /\ CanUnconfirm(cf[o], ifc[o], gv[o])
     /\ cf' = Upd(cf, o, ConfAfterUnconfirm(cf[o])) /\ ifc' = Upd(ifc, o, "confirm")
     \* un-confirming a transaction of height h takes the object back to height h - 1
     /\ LET hs == {Height(cf[o][q]) - 1 : q \in Stale(cf[o])} IN
        IF hs = {} THEN UNCHANGED <<rewound, rewoundE>>
        ELSE Rewinds(o, CHOOSE x \in hs : \A y \in hs : x <= y)
  /\ Same /\ UNCHANGED <<pre, lateConf, claimH, lateFinal, aheadH, quiet, lastH1, lowered, target, tp, gv, phase, reloaded, v>>

\* the user claims the inbound payment: the node learns the preimage (at a synchronisation point)
TClaim ==
  /\ IsEvent("claim") /\ phase = "idle" /\ in1Out # {} /\ ~pre
  /\ pre' = TRUE /\ lateConf' = Depth(1, target) /\ claimH' = Height(target)
  /\ lateFinal' = (Place(1, target) # None /\ <<1, Place(1, target)>> \in ever \cup NowBuried)
  /\ Same /\ UNCHANGED <<rewound, aheadH, rewoundE, quiet, lastH1, lowered, target, tp, cf, ifc, gv, phase, reloaded, v>>

\* diagnostics: what the node emitted and when (judged at the sync record)
TNote ==
  /\ (IsEvent("drain") \/ IsEvent("event") \/ IsEvent("message"))
  /\ Same /\ Same2 /\ UNCHANGED <<target, tp, cf, ifc, gv, phase, reloaded, v>>

\* ---- judging a synchronisation point
ConfirmedTx(t) == (t \in Roles /\ Place(t, target) # None) \/ (t = 5 /\ ~fundingRole)
SpentInChain(op) == \E r \in Roles : Place(r, target) # None /\ \E i \in 1..Len(inputs[r]) : inputs[r][i] = op
\* Claims are compared by WHAT is being claimed (how claims are aggregated into transactions and at
\* which fee may differ): the outpoints, of all pending claim transactions, that can still be spent
\* on the best chain.  A time-locked claim (HTLC timeout) counts only from the height at which it can be
\* broadcast: below it, a claim made while the chain was higher may or may not still be pending.  Nor
\* does it count right after a best_block_updated that announced a reorganisation: ChannelMonitor
\* does no block processing in that call, time-locked packages put back by the reorganisation are
\* looked at again with the next block (one block of latency, not a lost claim).
LiveOf(s) == {op \in UNION {ToSet(s[i]) : i \in 1..Len(s)} :
                 /\ ConfirmedTx(op[1]) /\ ~SpentInChain(op)
                 /\ op \in tlOuts => (Height(target) >= tlHeight /\ ~quiet)}
AllClaimed(s) == UNION {ToSet(s[i]) : i \in 1..Len(s)}
FundingIdx == IF fundingRole THEN 1 ELSE 5
ClassesOf(op) ==
  (IF WaiveB /\ op = <<FundingIdx, 0>> THEN {"B"} ELSE {})
  \cup (IF WaiveA /\ lowered /\ op[1] = 1 THEN {"A"} ELSE {})
  \* (whether the monitor was rewound below the height of the late claim is deliberately not part of
  \*  C and D: the canonical delivery and the schedule compared with it may differ in exactly that)
  \cup (IF WaiveC /\ op \in in1Out /\ holderStruct /\ lateConf >= 2 THEN {"C"} ELSE {})
  \cup (IF WaiveD /\ op \in in1Out /\ ~holderStruct /\ lateFinal THEN {"D"} ELSE {})
  \cup (IF WaiveE /\ holderStruct /\ rewoundE /\ op[1] = 1 THEN {"E"} ELSE {})
Waived(op) == ClassesOf(op) # {}
Pairs(rel) == {<<rel[i][1], rel[i][2]>> : i \in 1..Len(rel)}

\* a role that was final is still where it was but with fewer confirmations than ARD now
Shallower == \E e \in ever : Place(e[1], target) = e[2] /\ ~Buried(e[1], target)

TSync ==
  /\ IsEvent("sync") /\ phase = "moving"
  /\ \A o \in Objs : SyncedTo(tp[o], cf[o])
  /\ Rec[l].tip = target
  /\ LET r == Rec[l] f == Rec[l].f
         ov == over \/ Overturned(ever)
         i == r.idx
         hasCanon == <<histId, i>> \in DOMAIN CanonMap
         c == IF kind = "sched" /\ hasCanon THEN Rec[CanonMap[<<histId, i>>]] ELSE r
         cmp == kind = "sched" /\ ~ov
         rl == LiveOf(r.R.claims)
         cl == LiveOf(c.R.claims)
         diffClaims == (rl \ cl) \cup (cl \ rl)
         hasDirect == r.key \in DOMAIN DirectMap /\ kind # "direct" /\ ~ov /\ ~Shallower /\ ~reloaded /\ claimH < 0
         d == IF hasDirect THEN Rec[DirectMap[r.key]] ELSE r
         dClaims == LiveOf(d.R.claims)
     IN
     /\ over' = ov
     /\ ever' = ever \cup NowBuried
     /\ readyAt' = readyAt \cup (IF fundingRole /\ Depth(1, target) >= minDepth THEN {Place(1, target)} ELSE {})
     /\ commitSeen' = (commitSeen \/ (\E q \in SpendRoles : Place(q, target) # None)
                                   \/ (fundingRole /\ \E b \in readyAt : Place(1, target) # b))
     /\ LET lostIn == IF pre /\ ~ov /\ Place(1, target) # None
                       THEN {op \in in1Out : ~SpentInChain(op) /\ op \notin AllClaimed(r.R.claims)} ELSE {}
            \* the balance of a revoked output exists only while the claim on it is pending: it is lost with the
            \* claim (class A: claims on the outputs of the re-confirmed commitment)
            wb == WaiveA /\ lowered /\ ((cmp /\ r.R.balc # c.R.balc) \/ (hasDirect /\ r.R.balc # d.R.balc))
            w == {op \in (IF cmp THEN diffClaims ELSE {}) \cup (IF hasDirect THEN dClaims \ rl ELSE {}) \cup lostIn : Waived(op)}
        IN  (w # {} \/ wb) => PrintT(<<"WAIVED", r.run, i, UNION {ClassesOf(op) : op \in w} \cup (IF wb THEN {"A"} ELSE {})>>)
     /\ v' = [hist |-> (kind = "sched" => hasCanon),
              best |-> (BestBlockIs(f.mbest) /\ BestBlockIs(f.gbest)),
              funding |-> (ov \/ f.conf < 0 \/ FundingDepthIs(f.conf, baseConf)),
              \* the manager gives a channel up exactly when a commitment transaction confirmed, or its
              \* funding left the block in which it had reached the depth the channel was used at
              listed |-> (ov \/ ~fundingRole \/
                           ((f.conf >= 0) <=> ~(commitSeen \/ (\E q \in SpendRoles : Place(q, target) # None)
                                                \/ \E b \in readyAt : Place(1, target) # b))),
              closed |-> (ov \/ ClosedViewOK(f.open_bal, ever)),
              relevant |-> (ov \/ (RelevantOK(f.mrel) /\ RelevantOK(f.grel))),
              remembers |-> (ov \/ RemembersOK(f.mrel, ever)),
              irrev |-> (ov \/ IrreversibleOK(f.irrev, failTrig, ever)),
              aBal |-> (cmp => (r.R.bal = c.R.bal /\ (r.R.balc = c.R.balc \/ (WaiveA /\ lowered)))),
              aRel |-> (cmp => (r.R.mrel = c.R.mrel /\ r.R.grel = c.R.grel)),
              aClaims |-> (cmp => \A op \in diffClaims : Waived(op)),
              aChans |-> (cmp => r.R.chans = c.R.chans),
              aEvents |-> (cmp => r.S.evs = c.S.evs),
              aMsgs |-> (cmp => r.S.msgs = c.S.msgs),
              retract |-> (hasDirect =>
                             /\ r.R.bal = d.R.bal /\ (r.R.balc = d.R.balc \/ (WaiveA /\ lowered))
                             /\ Pairs(f.mrel) = Pairs(d.f.mrel)
                             \* everything a fresh delivery of this chain claims is (again) being claimed; a
                             \* claim made while the chain was higher may legitimately still be pending
                             /\ \A op \in dClaims \ rl : Waived(op)
                             /\ (r.R.chans # <<>> => (r.R.chans = d.R.chans /\ Pairs(f.grel) = Pairs(d.f.grel)))),
              \* an inbound HTLC whose preimage the node knows, in a confirmed commitment, not yet spent on
              \* the best chain, is being claimed
              claimsIn |-> (ov \/ ~pre \/ Place(1, target) = None
                            \/ \A op \in in1Out : SpentInChain(op) \/ op \in AllClaimed(r.R.claims) \/ Waived(op))]
  /\ phase' = "idle"
  /\ UNCHANGED <<hvars, target, tp, cf, ifc, gv, kind, histId, failTrig, baseConf, inputs, minDepth, tlOuts, tlHeight, in1Out, holderStruct, pre, lateConf, claimH, rewound, lateFinal, aheadH, rewoundE, quiet, lastH1, lowered, reloaded>>

TraceNext == TReset \/ TReload \/ TClaim \/ TBegin \/ TConn \/ TDisc \/ TTxs \/ TBest \/ TUnconf \/ TNote \/ TSync

TraceSpec == TraceInit /\ [][TraceNext]_tvars

TraceAccepted ==
  LET d == TLCGet("stats").diameter IN
  IF d - 1 = Len(Rec) THEN TRUE
  ELSE /\ PrintT(<<"REJECT", d, Len(Rec)>>)
       /\ FALSE

\* ---- the invariants (one per clause, so that a violation names it)
HistoryWellFormed == v.hist /\ (phase = "dead" \/ TreeOK)
BestBlockIsChainTip == v.best
FundingDepthIsChainFunction == v.funding
ChannelGivenUpIffChainSaysSo == v.listed
ClosedIffSpendOnChain == v.closed
RelevantTxidsOnBestChain == v.relevant
UnburiedStillWatched == v.remembers
IrreversibleOnlyWhenBuried == v.irrev
BalancesDeliveryIndependent == v.aBal
RelevantTxidsDeliveryIndependent == v.aRel
PendingClaimsDeliveryIndependent == v.aClaims
ChannelsDeliveryIndependent == v.aChans
EventsDeliveryIndependent == v.aEvents
MessagesDeliveryIndependent == v.aMsgs
ShallowReorgRetracts == v.retract
KnownPreimageHtlcIsClaimed == v.claimsIn
=============================================================================
