SPECIFICATION MCSpec
CONSTANTS
  ARD = 6
  MaxA = 3
  MaxB = 2
  MaxBlocks = 5
  UseRoles = {1, 4}
  MinH2 = 3
  MinH3 = 2
  MinH4 = 0
  Dep3 = 1
  FundingRole = FALSE
  MaxExplored = 1
  MaxDup = 1
  MaxRestarts = 1
  Intermediate = FALSE
INVARIANT EnvConsistent
INVARIANT IdleIsSynced
INVARIANT EmitScripts
CHECK_DEADLOCK TRUE
