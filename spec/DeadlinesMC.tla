----------------------------- MODULE DeadlinesMC -----------------------------
(* Design model of C08: node B acts by the rules TRANSCRIBED FROM THE CODE (the Code* operators,
   each with its source location), the environment is adversarial within the library's stated
   bounds: blocks one at a time, a broadcast transaction confirms at most MBC blocks after it
   became minable (its parent confirmed), the downstream peer C answers off chain at any height,
   goes silent (after the commitment dance: "silent"; right after B's update_add_htlc +
   commitment_signed, so that the HTLC exists only in the commitment B signed for C: "early"; holding
   a dust HTLC: "dust"), or takes the HTLC on chain in any block up to the last one; the upstream
   peer A answers at once or never (and then times the HTLC out on chain as soon as it can).
   Beyond the stated bounds: with `starve` the miner confirms B's commitment transaction of the
   downstream channel late or never (peers that never claim), and B's last resort -- the early
   upstream fail-back at eu - LGP, CodeFailBackClosed -- has to keep the upstream channel alive.
   B is restarted once (MRestart, at every height between the on-chain resolution of the downstream
   HTLC and its burial; around the broadcast / the early fail-back when starved): what it fails back
   at startup is CodeReadBuried.
   Other per-block work of the same channel coincides with a deadline block (variables coK .. coFast): on the block of a
   deadline, the one before or the one after, the channel concerned (or a second channel with the same
   peer) has another duty of its own -- a splice reaches its depth (splice_locked), a fresh channel
   reaches its depth (channel_ready), the announcement depth is reached -- and the code's per-block
   routine leaves through another of its exits (CodeBlockExits).  The deadline's action is due all
   the same.

   The constants come from the code at every run: a changed buffer is re-model-checked and a race
   that is now lost shows up as a violated invariant of Deadlines.tla. *)
EXTENDS Deadlines, Json

CONSTANTS
  H0,          \* height at which the HTLC is offered to B
  OffFinal,    \* role final: set of eu - H0
  OffFwdA,     \* role fwd: set of ed - H0 around the accept-to-forward boundary
  OffFwdB,     \* role fwd: set of ed - H0 for the dead-peer timelines (C, an LDK node, accepts those)
  Deltas,      \* cltv_expiry_delta values configured at B
  Slack1,      \* eu - ed - d + 1  (TLC cfg files cannot hold negative numbers)
  FarProbe,    \* set of eu - H0 - FAR probed around the far-far-away limit
  ProbeDeltas, \* further cltv_expiry_delta values configured at B (below the minimum: documented to be
               \* floored; well above it), for the acceptance probes only
  ProbeOffD,   \* acceptance probes: set of ed - H0 (comfortable: C accepts those)
  OffSoon,     \* set of ed - H0 from "expires with this block" to just above the grace period, probed
               \* with an incoming expiry that is far enough away
  BigHops,     \* eu - ed - Max(d, MIND) of those probes
  CoKindsUsed  \* the kinds of other per-block work laid next to the deadlines (a subset of CoKinds)

ASSUME ProbeDeltas \cap Deltas = {}

VARIABLES
  starve,  \* the miner starves B's commitment transaction of the downstream channel beyond MBC blocks
           \* (outside the library's stated bounds: the only thing left to save is the upstream channel)
  rsH,     \* height at which B was restarted (-1: never)
  coK,     \* other per-block work: "none" or its kind (CoKinds)
  coH,     \* ... the block on which it is due (-1: none)
  coS,     \* ... the channel concerned: "dn" (B-C) | "up" (A-B) | "-"
  coN,     \* ... the deadline it was laid next to (name) and
  coO,     \* ... its offset from that deadline's block (-1, 0, 1)
  coFast   \* with such work under way the miner is either quick (every transaction in the first possible
           \* block) or slow (in the last allowed one)
covars == <<coK, coH, coS, coN, coO, coFast>>
mcvars == <<vars, starve, rsH, covars>>

\* ------------------------------------------------------------ rules transcribed from the code
\* (hh = best block height known to the node)
\* onion_payment.rs create_recv_pending_htlc_info: `cltv_expiry <= current_height + HTLC_FAIL_BACK_BUFFER + 1` => fail
CodeFinalAccept(hh, E) == ~(E <= hh + HFB + 1)
\* channelmanager.rs can_forward_htlc_should_intercept: cur_height = best + 1;
\* channel.rs internal_htlc_satisfies_config + onion_payment.rs check_incoming_htlc_cltv
CodeFwdAccept(hh, Eu, Ed, dd) ==
  /\ ~(Eu < Ed + dd)                 \* IncorrectCLTVExpiry (channel config)
  /\ ~(Eu < Ed + MIND)               \* IncorrectCLTVExpiry (MIN_CLTV_EXPIRY_DELTA)
  /\ ~(Eu <= (hh + 1) + HFB)         \* CLTVExpiryTooSoon
  /\ ~(Eu > (hh + 1) + FAR)          \* CLTVExpiryTooFar
  /\ ~(Ed <= (hh + 1) + LGP)         \* OutgoingCLTVTooSoon
\* channelmanager.rs: claim_deadline = min cltv_expiry - HTLC_FAIL_BACK_BUFFER
CodeClaimDeadline(E) == E - HFB
\* channelmanager.rs MppPart::check_onchain_timeout: height >= cltv_expiry - HTLC_FAIL_BACK_BUFFER
CodeAutoFail(hh, E) == hh >= E - HFB
\* channelmonitor.rs should_broadcast_holder_commitment_txn
CodeGoOnChainOut(hh, E) == E + LGP <= hh
CodeGoOnChainIn(hh, E) == E <= hh + CCB
\* channelmonitor.rs OnchainEventEntry::confirmation_threshold / has_reached_confirmation_threshold
CodeBuried(hh, hc) == hh >= hc + ARD - 1
\* channel.rs do_best_block_updated: an HTLC still in the holding cell with `cltv_expiry <= height +
\* LATENCY_GRACE_PERIOD_BLOCKS` is failed back instead of being forwarded later
CodeHoldingCellTimeout(hh, Ed) == Ed <= hh + LGP
\* channelmonitor.rs block_confirmed, "Fail back HTLCs on backwards channels if they expire within
\* LATENCY_GRACE_PERIOD_BLOCKS blocks and the channel is closed"
CodeFailBackClosed(hh, Eu) == ~(Eu > hh + LGP)
\* channelmonitor.rs get_onchain_failed_outbound_htlcs (what ChannelManager::read fails back at startup):
\* the funding spend has `event.height + ANTI_REORG_DELAY - 1 <= best_height`; an HTLC that has an output in
\* the confirmed commitment must also be in htlcs_resolved_on_chain (its timeout reached the threshold)
CodeReadBuried(hh, hc) == hc + ARD - 1 <= hh

\* ------------------------------------------------------------ other per-block work of the channel
\* channel.rs FundedChannel::do_best_block_updated (called for every channel on every block, by
\* ChannelManager::best_block_updated and ::block_connected through do_chain_event) first takes the timed-out
\* HTLCs out of the holding cell and then leaves through one of three Ok exits: "ready" (`return Ok((Some(
\* FundingConfirmedMessage::Establishment(channel_ready)), timed_out_htlcs, announcement_sigs))`: the funding
\* reached its depth), "splice" (`return Ok((Some(FundingConfirmedMessage::Splice(..)), timed_out_htlcs,
\* announcement_sigs))`: a splice reached its depth) and "plain" (`Ok((None, timed_out_htlcs,
\* announcement_sigs))`, with announcement_signatures when the announcement depth is reached).  Every exit
\* hands the timed-out HTLCs to do_chain_event, which fails them back.  FundedChannel::transactions_confirmed
\* (depth 1: channel_ready / splice_locked come from there) carries no timed-out HTLCs and is followed or
\* preceded by best_block_updated for the same block.
CodeBlockExits == {"ready", "splice", "plain"}
CodeExitCarriesTimedOut(exit) == exit \in CodeBlockExits
\* spec mutant (substituted for CodeExitCarriesTimedOut by the check's second TLC run, which must report
\* NeverShowOrForwardTooSoon -- the forgotten HTLC goes out when the peer answers -- or BoundedLoss): the
\* splice exit hands over an empty list
MutExitSpliceDrops(exit) == exit \in CodeBlockExits \ {"splice"}
\* the kinds of work: <<what, minimum depth, which confirmation of its transaction is the block coH>>
CoKinds == {"splice6", "splice1", "spliceann", "open6", "open1", "openann"}
\* the exit the per-block routine takes on block n for the channel concerned
CodeExitOn(n) == IF coH # n THEN "plain" ELSE IF coK = "splice6" THEN "splice" ELSE IF coK = "open6" THEN "ready" ELSE "plain"

FirstAt(P(_), D) == P(D) /\ ~P(D - 1)
\* the deadlines of the scenario that fall on block D (as far as the state shows them): <<name, channel>>
DeadlinesOn(D) ==
  {x \in {<<"cell", "dn">>, <<"autofail", "up">>, <<"godn", "dn">>, <<"goup", "up">>, <<"failclosed", "up">>, <<"failburied", "up">>} :
    CASE x[1] = "cell" -> dnMode = "cell" /\ dn = "cell" /\ FirstAt(LAMBDA t : CodeHoldingCellTimeout(t, ed), D)
      [] x[1] = "autofail" -> role = "final" /\ dl > 0 /\ FirstAt(LAMBDA t : CodeAutoFail(t, eu), D)
      [] x[1] = "godn" -> role = "fwd" /\ dn = "pending" /\ (cD = "open" \/ cDb = D) /\ FirstAt(LAMBDA t : CodeGoOnChainOut(t, ed), D)
      [] x[1] = "goup" -> up = "fulfilled" /\ upMode = "silent" /\ (cU = "open" \/ cUb = D) /\ FirstAt(LAMBDA t : CodeGoOnChainIn(t, eu), D)
      [] x[1] = "failclosed" -> role = "fwd" /\ upMode = "honest" /\ ~pre /\ cD # "open" /\ dn \in {"pending", "gone"}
                                /\ (up = "held" \/ upH = D) /\ FirstAt(LAMBDA t : CodeFailBackClosed(t, eu), D)
      [] x[1] = "failburied" -> role = "fwd" /\ ~pre /\ dn = "gone" /\ (up = "held" \/ upH = D) /\ FirstAt(LAMBDA t : CodeBuried(t, dnH), D)}
\* scenarios that get such work (all holding-cell and final-hop ones; of the others one delta and no slack)
CoWindow == role = "final" \/ dnMode = "cell" \/ (d = MIND /\ eu - ed = d)
\* laid on block n: next to a deadline (one block before, on it, one block after)
\* the block in which the transaction of that work (splice / funding) is mined
CoConfirmedIn(k, n) == IF k \in {"splice6", "spliceann", "open6", "openann"} THEN n - 5 ELSE n
\* Not laid (a finding of its own, DESIGN.md 11.5 / the C08 entry): a splice transaction that is still
\* unconfirmed when B goes on chain for that very channel.  B's monitor broadcasts the commitment transaction
\* that spends the funding output locked so far; if the miner takes the (earlier broadcast) splice transaction
\* instead, that commitment transaction is void, B broadcasts the one of the new funding only when it sees the
\* splice confirmed, and the race CLTV_CLAIM_BUFFER = 2 * MBC was sized for is run with fewer blocks: with both
\* confirmation delays at MBC it is lost (replay: mutants/C08/finding-unconfirmed-splice-at-go-on-chain.script.ndjson).
CoConflicts(k, dname, D, n) == dname \in {"godn", "goup"} /\ k \in {"splice6", "splice1", "spliceann"} /\ CoConfirmedIn(k, n) > D
CoStep(n) ==
  \/ UNCHANGED covars
  \/ /\ coK = "none" /\ CoWindow
     \* (quick or slow miner: only where transactions of B are still to be confirmed)
     /\ \E o \in {-1, 0, 1} : \E x \in DeadlinesOn(n - o) : \E k \in CoKinds \cap CoKindsUsed,
                f \in (IF x[1] \in {"godn", "goup"} THEN BOOLEAN ELSE {TRUE}) :
          /\ ~CoConflicts(k, x[1], n - o, n)
          /\ coK' = k /\ coH' = n /\ coS' = x[2] /\ coN' = x[1] /\ coO' = o /\ coFast' = f

\* ------------------------------------------------------------ scenarios
Scenario(r, um, dm) ==
  \/ r = "final" /\ dm = "offchain"
  \/ r = "fwd" /\ um = "honest"
  \/ r = "fwd" /\ um = "silent" /\ dm = "offchain"

Init ==
  /\ h = H0
  /\ role \in {"final", "fwd"} /\ upMode \in {"honest", "silent"}
  /\ dnMode \in {"offchain", "silent", "early", "dust", "onchain", "cell"}
  /\ Scenario(role, upMode, dnMode)
  /\ d \in Deltas \cup ProbeDeltas /\ (role = "final" => d = MIND)
  \* the other configured deltas: acceptance probes only (decided at once, C answers at once)
  /\ d \in ProbeDeltas => (role = "fwd" /\ upMode = "honest" /\ dnMode = "offchain")
  /\ starve \in BOOLEAN /\ rsH = -1
  /\ coK = "none" /\ coH = -1 /\ coS = "-" /\ coN = "-" /\ coO = 0 /\ coFast = FALSE
  /\ starve => (role = "fwd" /\ upMode = "honest" /\ dnMode \in {"silent", "early", "dust"} /\ d \in Deltas)
  /\ eu = 0 /\ ed = 0 /\ dl = 0 /\ up = "none" /\ upH = -1 /\ pre = FALSE /\ preLate = FALSE
  /\ dn = "none" /\ dnH = -1 /\ xH = -1 /\ cD = "open" /\ cDb = -1 /\ cDc = -1 /\ toB = -1
  /\ cU = "open" /\ cUb = -1 /\ cUc = -1 /\ suB = -1 /\ suC = -1 /\ lost = FALSE /\ viol = ""

\* C is an LDK node too: it holds the HTLC only if it accepts it as a final recipient; a C that
\* never answers B's update_add_htlc ("early") needs no such thing
CHolds == CodeFinalAccept(H0, ed)

A_MOffer ==
  \/ role = "final" /\ \E o \in OffFinal : Offer(h + o, 0)
  \/ role = "fwd" /\ d \in Deltas /\ \E od \in OffFwdA \cup OffFwdB, s \in Slack1 :
        /\ (dnMode \in {"silent", "dust", "onchain"} \/ upMode = "silent" \/ starve) => od \in OffFwdB
        /\ Offer(h + od + d + s - 1, h + od)
  \/ role = "fwd" /\ dnMode = "offchain" /\ upMode = "honest" /\ d = MIND
        /\ \E f \in FarProbe : Offer(h + FAR + f, h + FAR + f - d)
  \* acceptance probes: the sender builds the onion itself and leaves B a hop delta (eu - ed) around
  \* the delta B is configured with and around the hard minimum, whatever B advertises
  \* (for the deltas of the window Deltas these are the offers of the first disjunct)
  \/ role = "fwd" /\ dnMode = "offchain" /\ upMode = "honest" /\ d \in ProbeDeltas
        /\ \E od \in ProbeOffD, hop \in {d - 1, d, d + 1, MIND - 1, MIND, MIND + 1} : Offer(h + od + hop, h + od)
  \* ... and an outgoing expiry at / around the grace period while the incoming one is far away (a
  \* payment that was stuck upstream, a sender using a tiny final CLTV)
  \/ role = "fwd" /\ dnMode = "offchain" /\ upMode = "honest"
        /\ \E od \in OffSoon, b \in BigHops : Offer(h + od + Max(d, MIND) + b, h + od)

A_MShow == role = "final" /\ up = "offered" /\ CodeFinalAccept(h, eu) /\ Show(CodeClaimDeadline(eu))
A_MRefuseFinal == role = "final" /\ up = "offered" /\ ~CodeFinalAccept(h, eu) /\ FailUp
A_MForward == role = "fwd" /\ up = "offered" /\ dn = "none" /\ dnMode # "cell" /\ CodeFwdAccept(h, eu, ed, d) /\ Forward(ed)
A_MRefuseForward == role = "fwd" /\ up = "offered" /\ dn = "none" /\ ~CodeFwdAccept(h, eu, ed, d) /\ FailUp
\* the downstream peer owes B a revoke_and_ack: the accepted forward waits in the holding cell, is
\* failed back when it gets too close to its expiry, and goes out when the peer finally answers
A_MQueue == dnMode = "cell" /\ CodeFwdAccept(h, eu, ed, d) /\ Queue
EnCellTimeout == up = "offered" /\ dn = "cell" /\ CodeHoldingCellTimeout(h, ed) /\ CodeExitCarriesTimedOut(CodeExitOn(h))
A_MCellTimeout == EnCellTimeout /\ FailUp

\* ---- what B does by itself when a block is connected / a message arrives (all immediate)
EnAutoFail == role = "final" /\ up = "held" /\ ~pre /\ CodeAutoFail(h, eu)
EnFulfilUp == up = "held" /\ pre /\ cU = "open"
EnGoDn == dn = "pending" /\ cD = "open" /\ CodeGoOnChainOut(h, ed)
EnGoUp == pre /\ up = "fulfilled" /\ ~Settled /\ cU = "open" /\ CodeGoOnChainIn(h, eu)
EnFailBuried == role = "fwd" /\ up = "held" /\ ~pre /\ dn = "gone" /\ CodeBuried(h, dnH)
EnFailDn == role = "fwd" /\ up = "held" /\ dn = "failed"
EnFailClosed == role = "fwd" /\ up = "held" /\ ~pre /\ cD # "open" /\ dn \in {"pending", "gone"}
                /\ CodeFailBackClosed(h, eu)
\* no HTLC-timeout transaction for an HTLC that has no output in B's commitment transaction (never entered
\* it: "early"; below the dust limit: "dust")
NoOutput == dnMode \in {"early", "dust"}
EnFailRead == /\ rsH = h /\ role = "fwd" /\ up = "held" /\ ~pre /\ dn = "gone" /\ cD = "conf"
              /\ CodeReadBuried(h, cDc) /\ (NoOutput \/ CodeBuried(h, dnH))
Urgent == (up = "offered" /\ dn # "cell") \/ EnCellTimeout \/ EnAutoFail \/ EnFulfilUp \/ EnGoDn \/ EnGoUp \/ EnFailBuried \/ EnFailDn \/ EnFailClosed \/ EnFailRead

A_MAutoFail == EnAutoFail /\ FailUp
A_MFulfilUp == EnFulfilUp /\ FulfilUp
A_MGoOnChainDn == EnGoDn /\ GoOnChainDn(~NoOutput)
A_MGoOnChainUp == EnGoUp /\ GoOnChainUp(TRUE)
A_MFailUpBuried == EnFailBuried /\ FailUp
A_MFailUpDn == EnFailDn /\ FailUp
A_MFailUpClosed == EnFailClosed /\ ~EnFailBuried /\ FailUp
\* what the restarted node fails back at startup (ChannelManager::read)
A_MFailUpRead == EnFailRead /\ FailUp

\* ---- the user, the peers, the chain (only between B's reactions)
\* claim_funds works as long as the payment has not been failed back
A_MClaim == ~Urgent /\ role = "final" /\ up = "held" /\ ~pre /\ Claim(TRUE)
A_MClaimLate == ~Urgent /\ role = "final" /\ up = "failed" /\ dl > 0 /\ ~pre /\ xH = -1 /\ h <= dl + 1 /\ Claim(FALSE)

A_MCellRelease == ~Urgent /\ dn = "cell" /\ Forward(ed)
A_MCellReleaseLate == ~Urgent /\ dnMode = "cell" /\ up = "failed" /\ dn = "cell" /\ xH = -1 /\ h <= ed /\ Probe

LastMoment == h = H0 \/ h >= ed + LGP - 2
CHoldsNow == CodeFinalAccept(h, ed)
A_MDnFulfilCell == ~Urgent /\ dnMode = "cell" /\ CHoldsNow /\ DnFulfil
A_MDnFailCell == ~Urgent /\ dnMode = "cell" /\ ~CHoldsNow /\ DnFail
A_MDnFulfil == ~Urgent /\ dnMode = "offchain" /\ CHolds /\ (upMode = "honest" \/ LastMoment) /\ DnFulfil
A_MDnFail == ~Urgent /\ dnMode = "offchain" /\ (CHolds \/ h = H0) /\ upMode = "honest" /\ DnFail
\* an honest C that does not hold the HTLC fails it at once
\* far-far-away probes and probes with another configured delta: only the acceptance matters
Remote == ed - H0 > 4 * MIND \/ d \in ProbeDeltas
CMustAnswer == dnMode = "offchain" /\ dn = "pending" /\ (~CHolds \/ Remote) /\ h = H0

\* B is stopped and restarted (once) while the downstream HTLC's fate is on chain but not yet buried, or
\* while its starved commitment transaction is still unconfirmed
MRestart ==
  /\ ~Urgent /\ rsH = -1 /\ role = "fwd" /\ upMode = "honest" /\ up = "held" /\ ~pre
  /\ dnMode \in {"silent", "early", "dust"}
  \* (in the starved case: right after the broadcast, and in the last blocks before the early fail-back)
  /\ (cD = "conf" /\ dn = "gone") \/ (starve /\ cD = "bcast" /\ (h <= cDb + 1 \/ h + LGP + 2 >= eu))
  /\ rsH' = h /\ UNCHANGED <<starve, covars>>
  /\ Restart

Finished == /\ up \in {"fulfilled", "failed"} /\ (Settled \/ lost \/ suC = -2) /\ dn # "pending"
            \* a few more blocks after a holding-cell timeout, for the peer's late answer
            /\ ~(dnMode = "cell" /\ up = "failed" /\ dn = "cell" /\ xH = -1 /\ h <= ed)
            \* one more block after an automatic fail-back, for a claim attempt past the deadline
            /\ ~(role = "final" /\ up = "failed" /\ dl > 0 /\ xH = -1 /\ h <= dl)

A_MNewBlock ==
  /\ ~Urgent /\ ~CMustAnswer /\ ~Finished /\ up # "none"
  /\ ~(dnMode = "cell" /\ dn = "pending")            \* after the release C answers at once
  /\ ~(dnMode = "cell" /\ up = "failed" /\ h >= ed)
  /\ \E cf0 \in SUBSET {"commitD", "timeoutD", "claimD", "commitU", "successU", "timeoutU"} :
       LET n == h + 1
           cf == cf0 \cup (IF "commitD" \in cf0 /\ NoOutput THEN {"noHtlcD"} ELSE {})
           rT2 == Max(toB, cDc)
           rT5 == Max(suB, cUc)
       IN
       \* what can be mined
       /\ "commitD" \in cf => cD = "bcast"
       \* a starved commitment transaction confirms late (when its burial no longer beats the early
       \* fail-back at eu - LGP) or never
       /\ ("commitD" \in cf /\ starve) => n + ARD > eu - LGP
       /\ "timeoutD" \in cf => (toB >= 0 /\ cD = "conf" /\ dn = "pending" /\ n > ed)
       /\ "claimD" \in cf => (dnMode = "onchain" /\ cD = "conf" /\ dn = "pending")
       /\ ~("timeoutD" \in cf /\ "claimD" \in cf)
       /\ "commitU" \in cf => cU = "bcast"
       /\ "successU" \in cf => (suB >= 0 /\ cU = "conf" /\ suC = -1)
       /\ "timeoutU" \in cf => (upMode = "silent" /\ cU = "conf" /\ suC = -1 /\ n > eu)
       /\ ~("successU" \in cf /\ "timeoutU" \in cf)
       \* what must be mined by now: an honest transaction waits at most MBC blocks
       /\ (cD = "bcast" /\ n >= cDb + MBC /\ ~starve) => "commitD" \in cf
       /\ (toB >= 0 /\ cD = "conf" /\ dn = "pending" /\ n >= rT2 + MBC) => ("timeoutD" \in cf \/ "claimD" \in cf)
       /\ (cU = "bcast" /\ n >= cUb + MBC) => "commitU" \in cf
       /\ (suB >= 0 /\ cU = "conf" /\ suC = -1 /\ n >= rT5 + MBC) => ("successU" \in cf \/ "timeoutU" \in cf)
       \* with other work under way: a quick miner (whatever can be mined is) or a slow one (only what must be)
       /\ (coK # "none" /\ coFast) =>
            (/\ ((cD = "bcast" /\ ~starve) => "commitD" \in cf)
             /\ ((toB >= 0 /\ cD = "conf" /\ dn = "pending" /\ n > ed) => ("timeoutD" \in cf \/ "claimD" \in cf))
             /\ (cU = "bcast" => "commitU" \in cf)
             /\ ((suB >= 0 /\ cU = "conf" /\ suC = -1) => ("successU" \in cf \/ "timeoutU" \in cf)))
       /\ (coK # "none" /\ ~coFast) =>
            (/\ (("commitD" \in cf /\ ~starve) => n >= cDb + MBC)
             /\ (("timeoutD" \in cf \/ "claimD" \in cf) => n >= rT2 + MBC)
             /\ ("commitU" \in cf => n >= cUb + MBC)
             /\ (("successU" \in cf \/ "timeoutU" \in cf) => n >= rT5 + MBC))
       /\ Block(cf)

\* the actions of Next: the steps above leave the scenario parameters of this module alone
K == UNCHANGED <<starve, rsH, covars>>
MOffer == A_MOffer /\ K
MShow == A_MShow /\ K
MRefuseFinal == A_MRefuseFinal /\ K
MForward == A_MForward /\ K
MRefuseForward == A_MRefuseForward /\ K
MAutoFail == A_MAutoFail /\ K
MFulfilUp == A_MFulfilUp /\ K
MGoOnChainDn == A_MGoOnChainDn /\ K
MGoOnChainUp == A_MGoOnChainUp /\ K
MFailUpBuried == A_MFailUpBuried /\ K
MFailUpDn == A_MFailUpDn /\ K
MFailUpClosed == A_MFailUpClosed /\ K
MFailUpRead == A_MFailUpRead /\ K
MQueue == A_MQueue /\ K
MCellTimeout == A_MCellTimeout /\ K
MCellRelease == A_MCellRelease /\ K
MCellReleaseLate == A_MCellReleaseLate /\ K
MDnFulfilCell == A_MDnFulfilCell /\ K
MDnFailCell == A_MDnFailCell /\ K
MClaim == A_MClaim /\ K
MClaimLate == A_MClaimLate /\ K
MDnFulfil == A_MDnFulfil /\ K
MDnFail == A_MDnFail /\ K
MNewBlock == A_MNewBlock /\ UNCHANGED <<starve, rsH>> /\ CoStep(h + 1)

NextB ==
  \/ MOffer \/ MShow \/ MRefuseFinal \/ MForward \/ MRefuseForward
  \/ MAutoFail \/ MFulfilUp \/ MGoOnChainDn \/ MGoOnChainUp \/ MFailUpBuried \/ MFailUpDn \/ MFailUpClosed
  \/ MFailUpRead
  \/ MQueue \/ MCellTimeout \/ MCellRelease \/ MCellReleaseLate \/ MDnFulfilCell \/ MDnFailCell
  \/ MClaim \/ MClaimLate \/ MDnFulfil \/ MDnFail \/ MNewBlock

Next == MRestart \/ NextB

Spec == Init /\ [][Next]_mcvars

Horizon == up = "none" \/ h <= eu + LGP + 2

\* ------------------------------------------------------------ boundary cases for the real nodes
\* one driver script per finished scenario (the check replays them on real ChannelManagers)
EmitScripts ==
  (Finished \/ (up # "none" /\ h = eu + LGP + 2)) =>
    PrintT(<<"SCRIPT", ToJson([role |-> role, up |-> upMode, dn |-> dnMode, offu |-> eu - H0, offd |-> ed - H0,
                               d |-> d, dl |-> dl, x |-> xH, dnres |-> dn, upres |-> up,
                               c1d |-> cDc - cDb, c2d |-> dnH - Max(toB, cDc), cdconf |-> cDc,
                               c1u |-> cUc - cUb, c2u |-> suC - Max(suB, cUc), cuconf |-> cUc,
                               starve |-> starve, rsh |-> rsH, cdb |-> cDb, dnh |-> dnH, uph |-> upH,
                               cok |-> coK, coh |-> IF coK = "none" THEN 0 ELSE coH - H0, cos |-> coS, con |-> coN,
                               coo |-> coO, cofast |-> coFast])>>)
=============================================================================
