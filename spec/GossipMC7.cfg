SPECIFICATION MCSpec
CONSTANTS
  U = 7
  MaxOps = 24
  FailCs = {}
  FailNs = {}
  PruneTs = {250}
  RgsSnaps = {1, 2}
  WithReload = FALSE
CONSTRAINT Bound
VIEW View
INVARIANT OnlyAuthentic
INVARIANT NeverOlder
INVARIANT NodeCleanup
INVARIANT Confluence
INVARIANT CodeWithinSpec
INVARIANT EmitScripts
CHECK_DEADLOCK TRUE
