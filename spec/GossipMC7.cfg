SPECIFICATION MCSpec
CONSTANTS
  U = 7
  MaxOps = 6
  FailCs = {}
  FailNs = {}
  PruneTs = {275}
  RgsSnaps = {1, 2}
  ResolveCs = {}
  WithReload = FALSE
CONSTRAINT Bound
VIEW View
INVARIANT OnlyAuthentic
INVARIANT NeverOlder
INVARIANT NodeCleanup
INVARIANT FailedStayOut
INVARIANT Confluence
INVARIANT CodeWithinSpec
INVARIANT EmitScripts
CHECK_DEADLOCK TRUE
