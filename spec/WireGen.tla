------------------------------ MODULE WireGen ------------------------------
(* Bounded instance of the message grammar of Wire.tla.  TLC enumerates every abstract message
   with a TLV stream of at most MaxRecs records over the abstract types of a kind with
   nk <= MaxNK known TLVs (every order relation: ascending / duplicate / out-of-order arises from
   the choice of types), at most one header/length/value defect per stream, every tail class,
   every fixed-part class and every message-type class; it checks that the code-shaped scanner
   and the BOLT-1 rule list agree (Agree), that accepted streams are prefix closed (PrefixClosed),
   and prints each message with its verdict as a case for the Rust engine (Emit). *)
EXTENDS Wire, TLC, Json

CONSTANTS MaxNK, MaxRecs

VARIABLES tlvkind, nk, tid, fixed, inner, recs, tail, dirty
vars == <<tlvkind, nk, tid, fixed, inner, recs, tail, dirty>>

Msg == [opaque |-> FALSE, tlvkind |-> tlvkind, nk |-> nk, tid |-> tid, fixed |-> fixed, inner |-> inner,
        recs |-> recs, tail |-> tail]

Init ==
  /\ recs = <<>> /\ dirty = FALSE
  /\ \/ /\ tlvkind = TRUE /\ nk \in 0..MaxNK /\ tid = "known" /\ fixed \in FixedClass /\ tail = "none" /\ inner = "none"
     \/ /\ tlvkind = FALSE /\ nk = 0 /\ tid = "known" /\ inner = "none"
        /\ \/ fixed \in FixedClass /\ tail = "none"
           \/ fixed = "complete" /\ tail \in {"excess", "garbage"}
     \/ /\ tlvkind \in BOOLEAN /\ nk = 0 /\ tid \in TidClass \ {"known"} /\ fixed = "complete" /\ tail = "none" /\ inner = "none"
     \* inner declared lengths (the engine derives the element boundaries from its own builders)
     \/ /\ tlvkind \in BOOLEAN /\ nk = 0 /\ tid = "known" /\ fixed = "complete" /\ tail = "none"
        /\ inner \in InnerClass \ {"none"}

Open == tlvkind /\ tid = "known" /\ fixed = "complete" /\ inner = "none" /\ tail = "none" /\ Len(recs) < MaxRecs

Add(r) == /\ recs' = Append(recs, r)
          /\ UNCHANGED <<tlvkind, nk, tid, fixed, inner, tail>>

AddKnown ==
  /\ Open /\ \E i \in 1..nk : Add([t |-> KnownT(i), enc |-> "min", fit |-> "exact", val |-> "ok"])
  /\ UNCHANGED dirty
AddUnknownOdd ==
  /\ Open /\ \E j \in 0..nk : Add([t |-> UnkOddT(j), enc |-> "min", fit |-> "exact", val |-> "ok"])
  /\ UNCHANGED dirty
AddUnknownEven ==
  /\ Open /\ \E j \in 0..nk : Add([t |-> UnkEvenT(j), enc |-> "min", fit |-> "exact", val |-> "ok"])
  /\ UNCHANGED dirty
AddNonMinimal ==
  /\ Open /\ ~dirty
  /\ \E t \in Types(nk), e \in {"nonmin_type", "nonmin_len"} :
        Add([t |-> t, enc |-> e, fit |-> "exact", val |-> "ok"])
  /\ dirty' = TRUE
AddOverrun ==
  /\ Open /\ ~dirty
  /\ \E t \in Types(nk) : Add([t |-> t, enc |-> "min", fit |-> "overrun", val |-> "ok"])
  /\ dirty' = TRUE
AddBadValue ==
  /\ Open /\ ~dirty
  /\ \E i \in 1..nk : Add([t |-> KnownT(i), enc |-> "min", fit |-> "exact", val |-> "bad"])
  /\ dirty' = TRUE
CutTail ==
  /\ tlvkind /\ tid = "known" /\ fixed = "complete" /\ inner = "none" /\ tail = "none" /\ ~dirty
  /\ tail' \in {"partial_type", "type_only", "partial_len"}
  /\ UNCHANGED <<tlvkind, nk, tid, fixed, inner, recs, dirty>>

Next == AddKnown \/ AddUnknownOdd \/ AddUnknownEven \/ AddNonMinimal \/ AddOverrun \/ AddBadValue \/ CutTail
Spec == Init /\ [][Next]_vars

TypeOK == /\ \A i \in 1..Len(recs) : WellFormedRec(recs[i], nk)
          /\ tid \in TidClass /\ fixed \in FixedClass /\ tail \in TailClass /\ inner \in InnerClass

Agree == Verdict(Msg) = RuleVerdict(Msg)

Prefix(k) == [Msg EXCEPT !.recs = SubSeq(recs, 1, k), !.tail = "none"]
PrefixClosed ==
  (tlvkind /\ tid = "known" /\ fixed = "complete" /\ inner = "none") =>
     /\ (Verdict(Msg) = "accept" => \A k \in 0..Len(recs) : Verdict(Prefix(k)) = "accept")
     \* an accepted stream decodes to the presence subset it carries; each known TLV at most once
     /\ (Verdict(Msg) = "accept" =>
            Cardinality(Present(recs)) = Cardinality({k \in 1..Len(recs) : IsKnown(recs[k].t)}))
     \* one bad record anywhere condemns the whole message (no partial result)
     /\ (\E k \in 0..Len(recs) : Verdict(Prefix(k)) = "reject") => Verdict(Msg) = "reject"

Emit == PrintT(<<"CASE", ToJson([m |-> Msg, v |-> Verdict(Msg), why |-> Why(Msg)])>>)
=============================================================================
