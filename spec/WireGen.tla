------------------------------ MODULE WireGen ------------------------------
(* Bounded instance of the message grammar of Wire.tla.  TLC enumerates every abstract message
   with a TLV stream of at most MaxRecs records over the abstract types of a kind with
   nk <= MaxNK known TLVs (every order relation: ascending / duplicate / out-of-order arises from
   the choice of types), at most one header/length/value defect per stream, every tail class,
   every fixed-part class and every message-type class, and every size class (relative to the
   codec-internal boundaries 64 / 253 / 4096 / 65535) of a variable-length field of a clean
   message, of an unknown odd TLV value and of the payload of an unknown message type; it checks that the code-shaped scanner
   and the BOLT-1 rule list agree (Agree), that accepted streams are prefix closed (PrefixClosed),
   and prints each message with its verdict as a case for the Rust engine (Emit). *)
EXTENDS Wire, TLC, Json

CONSTANTS MaxNK, MaxRecs

VARIABLES tlvkind, nk, tid, fixed, inner, recs, tail, size, dirty
vars == <<tlvkind, nk, tid, fixed, inner, recs, tail, size, dirty>>

Msg == [opaque |-> FALSE, tlvkind |-> tlvkind, nk |-> nk, tid |-> tid, fixed |-> fixed, inner |-> inner,
        recs |-> recs, tail |-> tail, size |-> size]

CleanRec(t) == [t |-> t, enc |-> "min", fit |-> "exact", val |-> "ok"]
RECURSIVE AllKnown(_)
AllKnown(n) == IF n = 0 THEN <<>> ELSE Append(AllKnown(n - 1), CleanRec(KnownT(n)))
Sizes(at) == {s \in SizeClass : s.at = at /\ CanFit(s)}

InitShape ==
  /\ recs = <<>> /\ size = NoSize
  /\ \/ /\ tlvkind = TRUE /\ nk \in 0..MaxNK /\ tid = "known" /\ fixed \in FixedClass /\ tail = "none" /\ inner = "none"
     \/ /\ tlvkind = FALSE /\ nk = 0 /\ tid = "known" /\ inner = "none"
        /\ \/ fixed \in FixedClass /\ tail = "none"
           \/ fixed = "complete" /\ tail \in {"excess", "garbage"}
     \/ /\ tlvkind \in BOOLEAN /\ nk = 0 /\ tid \in TidClass \ {"known"} /\ fixed = "complete" /\ tail = "none" /\ inner = "none"
     \* inner declared lengths (the engine derives the element boundaries from its own builders)
     \/ /\ tlvkind \in BOOLEAN /\ nk = 0 /\ tid = "known" /\ fixed = "complete" /\ tail = "none"
        /\ inner \in InnerClass \ {"none"}

(* Size classes: one variable-length field of an otherwise clean, complete message (all known TLVs
   present) / the value of an unknown odd TLV after them / the payload of an unknown message type. *)
InitSized ==
  /\ fixed = "complete" /\ tail = "none" /\ inner = "none"
  /\ \/ /\ tid = "known" /\ size \in Sizes("field")
        /\ \/ tlvkind = TRUE /\ nk \in 0..MaxNK
           \/ tlvkind = FALSE /\ nk = 0
        /\ recs = AllKnown(nk)
     \/ /\ tid = "known" /\ size \in Sizes("odd_tlv")
        /\ tlvkind = TRUE /\ nk \in 0..MaxNK
        /\ recs = Append(AllKnown(nk), CleanRec(UnkOddT(nk)))
     \/ /\ tid \in TidClass \ {"known"} /\ size \in Sizes("field")
        /\ tlvkind = FALSE /\ nk = 0 /\ recs = <<>>

Init == dirty = FALSE /\ (InitShape \/ InitSized)

Open == /\ tlvkind /\ tid = "known" /\ fixed = "complete" /\ inner = "none" /\ tail = "none"
        /\ size = NoSize /\ Len(recs) < MaxRecs

Add(r) == /\ recs' = Append(recs, r)
          /\ UNCHANGED <<tlvkind, nk, tid, fixed, inner, tail, size>>

AddKnown ==
  /\ Open /\ \E i \in 1..nk : Add([t |-> KnownT(i), enc |-> "min", fit |-> "exact", val |-> "ok"])
  /\ UNCHANGED dirty
AddUnknownOdd ==
  /\ Open /\ \E j \in 0..nk : Add([t |-> UnkOddT(j), enc |-> "min", fit |-> "exact", val |-> "ok"])
  /\ UNCHANGED dirty
AddUnknownEven ==
  /\ Open /\ \E j \in 0..nk : Add([t |-> UnkEvenT(j), enc |-> "min", fit |-> "exact", val |-> "ok"])
  /\ UNCHANGED dirty
AddNonMinimal ==
  /\ Open /\ ~dirty
  /\ \E t \in Types(nk), e \in {"nonmin_type", "nonmin_len"} :
        Add([t |-> t, enc |-> e, fit |-> "exact", val |-> "ok"])
  /\ dirty' = TRUE
AddOverrun ==
  /\ Open /\ ~dirty
  /\ \E t \in Types(nk) : Add([t |-> t, enc |-> "min", fit |-> "overrun", val |-> "ok"])
  /\ dirty' = TRUE
AddBadValue ==
  /\ Open /\ ~dirty
  /\ \E i \in 1..nk : Add([t |-> KnownT(i), enc |-> "min", fit |-> "exact", val |-> "bad"])
  /\ dirty' = TRUE
CutTail ==
  /\ tlvkind /\ tid = "known" /\ fixed = "complete" /\ inner = "none" /\ tail = "none" /\ ~dirty
  /\ size = NoSize
  /\ tail' \in {"partial_type", "type_only", "partial_len"}
  /\ UNCHANGED <<tlvkind, nk, tid, fixed, inner, recs, size, dirty>>

Next == AddKnown \/ AddUnknownOdd \/ AddUnknownEven \/ AddNonMinimal \/ AddOverrun \/ AddBadValue \/ CutTail
Spec == Init /\ [][Next]_vars

TypeOK == /\ \A i \in 1..Len(recs) : WellFormedRec(recs[i], nk)
          /\ tid \in TidClass /\ fixed \in FixedClass /\ tail \in TailClass /\ inner \in InnerClass
          /\ size \in SizeClass

(* The length of a field never decides acceptance: every sized message that can exist has the verdict
   of its shape (a known clean message is accepted, an unknown type is judged by parity), and no
   class of the 65535 boundary fits into a message. *)
SizeNeutral ==
  size # NoSize =>
     /\ Verdict(Msg) = Verdict([Msg EXCEPT !.size = NoSize])
     /\ (tid = "known" => Verdict(Msg) = "accept")
     /\ size.bnd # 65535

Agree == Verdict(Msg) = RuleVerdict(Msg)

Prefix(k) == [Msg EXCEPT !.recs = SubSeq(recs, 1, k), !.tail = "none"]
PrefixClosed ==
  (tlvkind /\ tid = "known" /\ fixed = "complete" /\ inner = "none") =>
     /\ (Verdict(Msg) = "accept" => \A k \in 0..Len(recs) : Verdict(Prefix(k)) = "accept")
     \* an accepted stream decodes to the presence subset it carries; each known TLV at most once
     /\ (Verdict(Msg) = "accept" =>
            Cardinality(Present(recs)) = Cardinality({k \in 1..Len(recs) : IsKnown(recs[k].t)}))
     \* one bad record anywhere condemns the whole message (no partial result)
     /\ (\E k \in 0..Len(recs) : Verdict(Prefix(k)) = "reject") => Verdict(Msg) = "reject"

Emit == PrintT(<<"CASE", ToJson([m |-> Msg, v |-> Verdict(Msg), why |-> Why(Msg)])>>)
=============================================================================
