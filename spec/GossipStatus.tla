---------------------------- MODULE GossipStatus ----------------------------
(***************************************************************************)
(* C12 -- "writing a ChannelManager and reading it back yields an object     *)
(* that reacts to all subsequent inputs like the original", for a piece of   *)
(* state that is deliberately persisted only in part: what the node last     *)
(* TOLD THE NETWORK about a channel (enabled / disabled).                    *)
(*                                                                         *)
(* Design model at the granularity of ChannelManager::timer_tick_occurred /  *)
(* ChannelUpdateStatus: Enabled, DisabledStaged(n), EnabledStaged(n),        *)
(* Disabled.  A channel that stops being live (peer away) is announced as    *)
(* disabled only after D further ticks, one that is live again is announced  *)
(* as enabled after E ticks; the staged counters are volatile, the write     *)
(* keeps only the announced bit (Enabled, DisabledStaged -> enabled;         *)
(* Disabled, EnabledStaged -> disabled).  The node may be written and        *)
(* re-read at any point (its peers are then disconnected).                   *)
(*                                                                         *)
(* What an observer can hold the node to, with or without reloads: once the  *)
(* channel has been not live for D+1 consecutive ticks (counted from the     *)
(* last change of liveness or reload) the network has been told "disabled",  *)
(* once it has been live for E+1 ticks the network has been told "enabled".  *)
(* Write = "byname" is the planted defect (arms merged by their names:       *)
(* EnabledStaged written as enabled, DisabledStaged as disabled).            *)
(* Every terminal behaviour is printed as a script for the engine channet.   *)
(***************************************************************************)
EXTENDS Naturals, Sequences, TLC, Json

CONSTANTS D, E, Write, MaxOps, MaxReloads

VARIABLES st,      \* "E" | "DS" | "ES" | "D"
          n,       \* staged counter
          ann,     \* what the network was last told: TRUE = enabled
          live,    \* peer connected and channel re-established
          streak,  \* consecutive ticks with this liveness since the last change of liveness / reload
          reloads, hist

vars == <<st, n, ann, live, streak, reloads, hist>>

Init == st = "E" /\ n = 0 /\ ann = TRUE /\ live = TRUE /\ streak = 0 /\ reloads = 0 /\ hist = <<>>

More == Len(hist) < MaxOps
Disconnect == /\ More /\ live /\ live' = FALSE /\ streak' = 0 /\ hist' = Append(hist, "disconnect")
              /\ UNCHANGED <<st, n, ann, reloads>>
Reconnect ==  /\ More /\ ~live /\ live' = TRUE /\ streak' = 0 /\ hist' = Append(hist, "reconnect")
              /\ UNCHANGED <<st, n, ann, reloads>>

\* timer_tick_occurred
Tick ==
  /\ More /\ streak' = streak + 1 /\ hist' = Append(hist, "tick")
  /\ UNCHANGED <<live, reloads>>
  /\ CASE st = "E" /\ ~live -> st' = "DS" /\ n' = 0 /\ UNCHANGED ann
       [] st = "D" /\ live -> st' = "ES" /\ n' = 0 /\ UNCHANGED ann
       [] st = "DS" /\ live -> st' = "E" /\ UNCHANGED <<n, ann>>
       [] st = "ES" /\ ~live -> st' = "D" /\ UNCHANGED <<n, ann>>
       [] st = "DS" /\ ~live -> IF n + 1 >= D THEN st' = "D" /\ ann' = FALSE /\ UNCHANGED n
                                ELSE n' = n + 1 /\ UNCHANGED <<st, ann>>
       [] st = "ES" /\ live -> IF n + 1 >= E THEN st' = "E" /\ ann' = TRUE /\ UNCHANGED n
                               ELSE n' = n + 1 /\ UNCHANGED <<st, ann>>
       [] OTHER -> UNCHANGED <<st, n, ann>>

\* the manager is written and read back; every peer is disconnected afterwards
Written == IF Write = "announced" THEN (IF st \in {"E", "DS"} THEN "E" ELSE "D")
           ELSE (IF st \in {"E", "ES"} THEN "E" ELSE "D")
Reload == /\ More /\ reloads < MaxReloads /\ reloads' = reloads + 1
          /\ st' = Written /\ n' = 0 /\ live' = FALSE /\ streak' = 0
          /\ hist' = Append(hist, "reload") /\ UNCHANGED ann

Done == Len(hist) = MaxOps /\ UNCHANGED vars
Next == Disconnect \/ Reconnect \/ Tick \/ Reload \/ Done
Spec == Init /\ [][Next]_vars

-----------------------------------------------------------------------------
\* C12 (and the documented meaning of the announced bit): the announcement follows the liveness
Follows == /\ (~live /\ streak >= D + 1) => ~ann
           /\ (live /\ streak >= E + 1) => ann
\* the persisted bit is the announced one: the node's belief never contradicts what it told the network
BeliefIsAnnounced == (st \in {"E", "DS"}) = ann
View == <<st, n, ann, live, streak, reloads, Len(hist)>>
EmitScripts == (Len(hist) = MaxOps /\ reloads >= 1) => PrintT(<<"SCRIPT", ToJson([steps |-> hist])>>)
=============================================================================
