SPECIFICATION TraceSpec
POSTCONDITION TraceAccepted
CHECK_DEADLOCK FALSE
