SPECIFICATION Spec
CONSTANTS
  K = 3
  KnownFrom = "both"
INVARIANT NoEarlyFailBack
INVARIANT NothingOrphaned
INVARIANT EmitScripts
CHECK_DEADLOCK TRUE
