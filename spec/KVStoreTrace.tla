---------------------------- MODULE KVStoreTrace ----------------------------
(* Trace validation for C19 (a): every recorded execution of the real
   FilesystemStore / FilesystemStoreV2 (sequential scripts and multi-threaded
   drivers; events ordered by a global atomic sequence taken at call and at
   return) must be a behaviour of KVStore, i.e. TLC must find linearisation
   points that explain every read and list result.  One file holds many runs;
   each starts with a `reset` record carrying the key layout. *)
EXTENDS KVStore, Json, IOUtils

VARIABLE l

Rec == ndJsonDeserialize(IOEnv.TRACE)

tvars == <<kvars, l>>

ToSet(s) == {s[i] : i \in DOMAIN s}

TraceInit ==
  /\ l = 1
  /\ nk = 0 /\ ns = <<>> /\ kv = <<>> /\ lz = <<>>
  /\ pend = [t \in Threads |-> NoOp]

IsEvent(e) == l <= Len(Rec) /\ Rec[l].ev = e /\ l' = l + 1

TReset ==
  /\ IsEvent("reset")
  /\ LET r == Rec[l] IN
     /\ nk' = r.nk
     /\ ns' = [k \in 1..r.nk |-> r.ns[k]]
     /\ kv' = [k \in 1..r.nk |-> 0]
     /\ lz' = [k \in 1..r.nk |-> FALSE]
     /\ pend' = [t \in Threads |-> NoOp]

TCall == IsEvent("call") /\ LET r == Rec[l] IN Call(r.t, r.op, r.k, r.v, r.lazy, r.tk)

TRet ==
  /\ IsEvent("ret")
  /\ LET r == Rec[l] IN
     /\ r.t \in Threads /\ pend[r.t].op = r.op
     /\ CASE r.op \in {"write", "remove"} -> r.res = 0 /\ RetMut(r.t)
          [] r.op = "read" -> RetRead(r.t, r.res)
          [] r.op = "list" -> IF r.res = 0 THEN RetList(r.t, ToSet(r.keys)) ELSE RetListErr(r.t)
          [] OTHER -> FALSE

TraceNext == TReset \/ TCall \/ TRet

TraceSpec == TraceInit /\ [][TraceNext]_tvars

TraceAccepted ==
  LET d == TLCGet("stats").diameter IN
  IF d - 1 = Len(Rec) THEN TRUE
  ELSE /\ PrintT(<<"REJECT", d, Len(Rec)>>)
       /\ FALSE
=============================================================================
