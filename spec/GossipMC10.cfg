SPECIFICATION MCSpec
CONSTANTS
  U = 10
  MaxOps = 7
  FailCs = {}
  FailNs = {2}
  PruneTs = {150}
  RgsSnaps = {}
  ResolveCs = {1, 2}
  WithReload = FALSE
CONSTRAINT Bound
VIEW View
INVARIANT OnlyAuthentic
INVARIANT NeverOlder
INVARIANT NodeCleanup
INVARIANT FailedStayOut
INVARIANT Confluence
INVARIANT CodeWithinSpec
INVARIANT EmitScripts
CHECK_DEADLOCK TRUE
