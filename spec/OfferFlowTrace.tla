--------------------------- MODULE OfferFlowTrace ---------------------------
(* Trace validation of real nodes driven through the BOLT-12 payment flow (engine `offernet`) against      *)
(* OfferFlow.tla (C03, part "bolt12-flow").  One action per recorded event; `open` separates the runs.   *)
EXTENDS OfferFlow, Json, IOUtils

VARIABLE l
Rec == ndJsonDeserialize(IOEnv.TRACE)
tvars == <<ovars, l>>
R == Rec[l]
IsEvent(e) == l <= Len(Rec) /\ Rec[l].ev = e /\ l' = l + 1
Stutter == UNCHANGED ovars

TraceInit == l = 1 /\ OInit

TOpen == IsEvent("open") /\ OOpen(0..(R.nodes - 1), R.idem_ticks)

TPay == IsEvent("pay") /\ OPay(R.call, R.node, R.pid, R.kind, R.off, R.amt, R.okoffer, R.manual, R.handled, R.res)

TRefundReq == IsEvent("refund_req") /\ ORefundReq(R.node, R.call, R.hash, R.amt, R.res)

\* an onion message leaves a node (as the node it is addressed to reads it)
TOm ==
  /\ IsEvent("om")
  /\ IF R.kind = "invoice" THEN OInvoiceOut(R.origin, R.call, R.hash, R.amt, R.off) ELSE Stutter

\* an onion message is handed to a node
TDeliver ==
  /\ IsEvent("deliver")
  /\ CASE R.kind = "invreq" /\ R.final -> OReqDelivered(R.to, R.call)
       [] R.kind = "invoice" /\ R.final -> OInvoiceDelivered(R.to, R.call, R.hash, R.amt, R.off)
       [] R.kind = "inverr" /\ R.final -> OErrDelivered(R.to, R.pid)
       [] OTHER -> Stutter

THtlc ==
  /\ IsEvent("htlc")
  /\ IF R.kind = "update_add_htlc" THEN OAdd(R.from, R.chan, R.id, R.hash, R.amt) ELSE Stutter

THDeliver ==
  /\ IsEvent("hdeliver")
  /\ CASE R.kind = "update_add_htlc" -> OGotAdd(R.to, R.hash)
       [] R.kind = "update_fulfill_htlc" -> OResolve(R.chan, R.to, R.id, "ful")
       [] R.kind = "update_fail_htlc" -> OResolve(R.chan, R.to, R.id, "fail")
       [] OTHER -> Stutter

TClaim == IsEvent("claim") /\ OClaimCall(R.hash)

TEvent ==
  /\ IsEvent("event")
  /\ CASE R.kind = "PaymentSent" -> OEvSent(R.node, R.pid, R.hash, R.preimage_ok)
       [] R.kind = "PaymentFailed" -> OEvFailed(R.node, R.pid, R.reason)
       [] R.kind = "InvoiceReceived" -> OEvInvoiceReceived(R.node, R.pid, R.hash)
       [] R.kind = "PaymentClaimable" -> OClaimable(R.node, R.hash, R.amt, R.off, R.purpose)
       [] OTHER -> Stutter

TSendInv == IsEvent("sendinv") /\ OSendInv(R.node, R.pid, R.hash, R.res)
TAbandon == IsEvent("abandon") /\ OAbandon(R.node, R.pid)
TTick == IsEvent("tick") /\ OTick(R.node)
\* what the miner's blocks show of a closed channel
SeqSet(sq) == {sq[i] : i \in 1..Len(sq)}
TChain ==
  /\ IsEvent("chain")
  /\ IF R.what = "commitment" THEN OChainCommit(R.chan, SeqSet(R.outs)) ELSE OChainHtlc(R.chan, R.hash, R.preimage)

TSave == IsEvent("save") /\ OSave(R.node)
TRestart == IsEvent("restart") /\ ORestart(R.node)
TRecent ==
  /\ IsEvent("recent")
  /\ IF R.after_restart THEN ORecentAfterRestart(R.node, {R.list[k].pid : k \in 1..Len(R.list)}) ELSE Stutter

\* quiescence: the harness holds no onion message, no HTLC message is queued, no channel carries an HTLC; if a channel
\* was closed: the chain has settled (every broadcast transaction mined as soon as it could confirm, every timelock expired)
TQuiet ==
  /\ IsEvent("quiet")
  /\ R.om_queued = 0 /\ R.htlc_queued = 0
  /\ \A k \in 1..Len(R.nodes) : R.nodes[k].htlcs = 0
  /\ (~R.closed \/ R.settled) => OQuietOK
  /\ Stutter

TOther ==
  /\ l <= Len(Rec)
  /\ Rec[l].ev \in {"offer", "drop", "msgrecv", "inverr", "failback", "disconnect", "reconnect", "hold", "handled",
                  "broadcast", "block", "settle_chain", "settled", "mine_skipped"}
  /\ l' = l + 1 /\ Stutter

TraceNext == TOpen \/ TChain \/ TPay \/ TRefundReq \/ TOm \/ TDeliver \/ THtlc \/ THDeliver \/ TClaim \/ TEvent \/ TSendInv \/ TAbandon
             \/ TTick \/ TSave \/ TRestart \/ TRecent \/ TQuiet \/ TOther

TraceSpec == TraceInit /\ [][TraceNext]_tvars

TraceAccepted ==
  LET d == TLCGet("stats").diameter IN
  IF d - 1 = Len(Rec) THEN TRUE
  ELSE /\ PrintT(<<"REJECT", d, Len(Rec)>>)
       /\ FALSE
=============================================================================
