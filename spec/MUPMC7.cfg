SPECIFICATION MCSpec
CONSTANTS
  MaxPendings = {0, 1, 2, 3}
  MaxUpd = 7
  MaxFaults = 1
  MaxCrashes = 2
  MaxCleanups = 1
  MaxSyncs = 1
VIEW View
INVARIANT CrashRecoveredCoversReported
INVARIANT CrashRecoveredIsSomeInMemoryState
INVARIANT CrashRecoveredNotFromTheFuture
INVARIANT CleanupSafe
INVARIANT RecoveredCoversReported
INVARIANT EmitScripts
CHECK_DEADLOCK TRUE
