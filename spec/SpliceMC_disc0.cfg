SPECIFICATION MCSpec
CONSTANTS
  Relax = {}
  Drop = {}
  MaxAdds = 0
  Out2 = FALSE
  Want1 = 0
  Want2 = 50
  MaxDisc = 1
  MaxBlocks = 2
  AsyncSide = 2
  QLen = 3
VIEW View
INVARIANT TypeOK
INVARIANT CountersSane
INVARIANT ExactlyOnce
INVARIANT NonNegative
INVARIANT QuiescentIsQuiet
INVARIANT CandsSane
INVARIANT Agreement
INVARIANT ConservesAll
INVARIANT SameFunding
INVARIANT OwnContribution
INVARIANT LockedIsBuried
INVARIANT SigsAfterDurable
INVARIANT ViewsAgree
INVARIANT EmitScripts
CHECK_DEADLOCK TRUE
