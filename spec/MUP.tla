-------------------------------- MODULE MUP --------------------------------
(***************************************************************************)
(* C19 (b), design model: MonitorUpdatingPersister (lightning/src/util/     *)
(* persist.rs) at the granularity of its store operations, driven by its    *)
(* caller as ChainMonitor (lightning/src/chain/chainmonitor.rs) implements  *)
(* it, over any store that is an atomic map (MUPAbstract).  Every store     *)
(* operation is one step; a crash can happen between any two of them;       *)
(* accepted lazy removals land independently or never; single store         *)
(* operations fail (with or without having taken effect).  The steps        *)
(* conjoin the abstract actions, so every behaviour of this model is a      *)
(* behaviour of MUPAbstract.                                                *)
(*                                                                         *)
(* The persister:                                                           *)
(*   persist_new_channel         write(monitor)                             *)
(*   update_persisted_channel(Some(update))                                 *)
(*                               maxp # 0 /\ id % maxp # 0:                 *)
(*                                   write(update file id)                  *)
(*                               otherwise:                                 *)
(*                                   write(monitor) ; if that succeeded     *)
(*                                   lazily remove the update keys          *)
(*                                   max(0, id - maxp) .. id                *)
(*   update_persisted_channel(None)  write(monitor)                         *)
(*   a failing write => UnrecoverableError: the node stops (only a crash /  *)
(*   restart follows); a failing clean-up removal is logged and ignored     *)
(*   read_channel_monitor_with_updates: read monitor m, list the update     *)
(*   keys, sort, apply those with key > m.id in order; applying update c to *)
(*   a monitor at id i works iff c = i + 1 (update_monitor panics else) and *)
(*   the monitor does not REFUSE it (then recovery returns an error)        *)
(*   cleanup_stale_updates(lazy): read monitor m, list update keys, remove  *)
(*   (lazily or not) every key <= m.id; aborts on the first failing removal *)
(*   -- it may run while updates are being persisted.                       *)
(*   archive_persisted_channel: read the monitor with its updates, write it *)
(*   under the archive namespace, lazily remove the monitor key.            *)
(*                                                                         *)
(* The caller (ChainMonitor):                                               *)
(*   watch_channel            persist_new_channel                           *)
(*   update_channel(u)        applies u to the in-memory monitor FIRST.     *)
(*                            The monitor takes u's id and steps in every   *)
(*                            case but REFUSES (Err) a pre-close update --  *)
(*                            new commitment, revocation secret -- once it  *)
(*                            is closed (funding spend seen / its own       *)
(*                            commitment broadcast / ChannelForceClosed).   *)
(*                            accepted: update_persisted_channel(Some(u))   *)
(*                            refused:  update_persisted_channel(None)      *)
(*                            -- a refused update must never become an     *)
(*                            update file: recovery would replay it on a    *)
(*                            closed monitor and fail.                      *)
(*   block connection         update_persisted_channel(None) (always when   *)
(*                            the monitor has claims pending, i.e. as soon  *)
(*                            as it went on chain; else every few blocks)   *)
(*   a persister returning InProgress completes later                       *)
(*   (channel_monitor_updated): the report is deferred                      *)
(*   archive_fully_resolved_channel_monitors: archive_persisted_channel of  *)
(*   a closed monitor, which is then forgotten                              *)
(* Update kinds: "pre" (pre-close: refused by a closed monitor), "fc"       *)
(* (ChannelForceClosed from the ChannelManager: always accepted, closes the *)
(* monitor off chain, ends the pre-close updates), "pp" (payment preimage / *)
(* ReleasePaymentComplete: always accepted).  Monitor states: "open",       *)
(* "chain" (closed by what it saw on chain while the ChannelManager still   *)
(* talks to the peer -- this is when updates get refused), "off".           *)
(***************************************************************************)
EXTENDS MUPAbstract

CONSTANTS MaxPendings,   \* the values of maximum_pending_updates explored
          MaxUpd,        \* update ids 1..MaxUpd
          MaxFaults, MaxCrashes, MaxCleanups, MaxSyncs,
          Kinds,         \* the update kinds explored, a subset of {"pre", "fc", "pp"}
          MaxCloses,     \* block connections that take the in-memory monitor on chain
          MaxArchives,
          MaxDeferred,   \* reports outstanding at once (InProgress ... channel_monitor_updated)
          RefusedAsUpdate \* FALSE: ChainMonitor's rule.  TRUE: the design mutant "a refused
                          \* update is handed to the persister like an accepted one"

VARIABLES
  maxp,     \* maximum_pending_updates of this node (fixed at start, kept over restarts)
  memId,    \* latest update id of the in-memory monitor, -1 = no channel (yet / any more)
  memSt,    \* "open" / "chain" / "off": does the in-memory monitor still accept pre-close updates
  ukind,    \* kind of the updates 1..memId of the current history
  stSt,     \* memSt of the monitor snapshot that is stored under the monitor key
  call,     \* the Persist call in progress
  plan,     \* its remaining store operations
  cplan,    \* remaining removals of a cleanup_stale_updates in progress
  halted,   \* a write failed: UnrecoverableError was returned
  deferred, \* ids whose persistence was returned InProgress and is not yet reported complete
  cnt       \* [faults, crashes, cleanups, syncs, closes, archives] used so far

dvars == <<maxp, memId, memSt, ukind, stSt, call, plan, cplan, halted, deferred, cnt>>
vars == <<avars, dvars>>

NoCall == [kind |-> "none", id |-> 0, failed |-> FALSE]

SetToSeq(S) ==
  LET RECURSIVE F(_)
      F(T) == IF T = {} THEN <<>> ELSE <<Min(T)>> \o F(T \ {Min(T)})
  IN F(S)

Op(o, k, lz, st) == [op |-> o, k |-> k, lazy |-> lz, st |-> st]

(* what the recovery code computes from a monitor at id m in state st and update files u: *)
(* -1 = update_monitor panics (gap / wrong id), -2 = update_monitor refuses (recovery Err) *)
RECURSIVE Roll(_, _, _, _)
Roll(cur, st, ks, u) ==
  IF ks = {} THEN cur
  ELSE LET k == Min(ks) IN
       IF u[k] # cur + 1 THEN -1
       ELSE IF u[k] \notin DOMAIN ukind THEN -1
       ELSE IF ukind[u[k]] = "pre" /\ st # "open" THEN -2
       ELSE Roll(cur + 1, IF ukind[u[k]] = "fc" THEN "off" ELSE st, ks \ {k}, u)

(* the state of the recovered monitor (only meaningful when Roll succeeds) *)
RollSt(m, st, u) ==
  IF \E k \in DOMAIN u : k > m /\ u[k] \in DOMAIN ukind /\ ukind[u[k]] = "fc" THEN "off" ELSE st

RecoverRes(m, st, u) ==
  IF m = -1 THEN [kind |-> "none", rid |-> -1, eq |-> FALSE, rf |-> FALSE]
  ELSE LET r == Roll(m, st, {k \in DOMAIN u : k > m}, u) IN
       IF r = -1 THEN [kind |-> "panic", rid |-> -1, eq |-> FALSE, rf |-> FALSE]
       ELSE IF r = -2 THEN [kind |-> "err", rid |-> -1, eq |-> FALSE, rf |-> FALSE]
       ELSE [kind |-> "ok", rid |-> r, eq |-> TRUE, rf |-> FALSE]

DInit ==
  /\ AInit
  /\ maxp \in MaxPendings
  /\ memId = -1 /\ memSt = "open" /\ ukind = <<>> /\ stSt = "open"
  /\ call = NoCall /\ plan = <<>> /\ cplan = <<>> /\ halted = FALSE /\ deferred = {}
  /\ cnt = [faults |-> 0, crashes |-> 0, cleanups |-> 0, syncs |-> 0, closes |-> 0, archives |-> 0]

Idle == call.kind = "none" /\ ~halted

-----------------------------------------------------------------------------
(* watch_channel *)
DNew ==
  /\ Idle /\ memId = -1 /\ mon = -1 /\ cnt.archives = 0
  /\ memId' = 0
  /\ call' = [kind |-> "new", id |-> 0, failed |-> FALSE]
  /\ plan' = <<Op("wmon", 0, FALSE, memSt)>>
  /\ UNCHANGED <<avars, maxp, memSt, ukind, stSt, cplan, halted, deferred, cnt>>

FullPlan(id, st) ==
  <<Op("wmon", id, FALSE, st)>>
  \o [i \in 1..(id - (IF id > maxp THEN id - maxp ELSE 0) + 1) |->
        Op("rm", (IF id > maxp THEN id - maxp ELSE 0) + i - 1, TRUE, st)]

(* update_channel: the in-memory monitor is updated first, then the persister is called *)
DUpdate(kd) ==
  /\ Idle /\ memId >= 0 /\ memId < MaxUpd
  /\ kd \in Kinds
  /\ kd \in {"pre", "fc"} => memSt # "off"     \* the ChannelManager has given the channel up
  /\ LET id == memId + 1
         refused == kd = "pre" /\ memSt # "open"
         st == IF kd = "fc" THEN "off" ELSE memSt IN
     /\ memId' = id
     /\ memSt' = st
     /\ ukind' = [i \in 1..id |-> IF i = id THEN kd ELSE ukind[i]]
     /\ IF refused /\ ~RefusedAsUpdate
        THEN /\ call' = [kind |-> "full", id |-> id, failed |-> FALSE]
             /\ plan' = <<Op("wmon", id, FALSE, st)>>
        ELSE /\ call' = [kind |-> "upd", id |-> id, failed |-> FALSE]
             /\ plan' = IF maxp # 0 /\ id % maxp # 0
                        THEN <<Op("wupd", id, FALSE, st)>>
                        ELSE FullPlan(id, st)
  /\ UNCHANGED <<avars, maxp, stSt, cplan, halted, deferred, cnt>>

(* a block connection: update_persisted_channel(None) *)
DSync ==
  /\ Idle /\ memId >= 0 /\ cnt.syncs < MaxSyncs
  /\ call' = [kind |-> "full", id |-> memId, failed |-> FALSE]
  /\ plan' = <<Op("wmon", memId, FALSE, memSt)>>
  /\ cnt' = [cnt EXCEPT !.syncs = @ + 1]
  /\ UNCHANGED <<avars, maxp, memId, memSt, ukind, stSt, cplan, halted, deferred>>

(* a block connection in which the monitor goes on chain (an HTLC timed out: it broadcasts its *)
(* commitment; or it sees the funding output spent); it has claims pending from now on, so    *)
(* the block connection persists the full monitor                                             *)
DChainClose ==
  /\ Idle /\ memId >= 0 /\ memSt = "open" /\ cnt.closes < MaxCloses
  /\ memSt' = "chain"
  /\ call' = [kind |-> "full", id |-> memId, failed |-> FALSE]
  /\ plan' = <<Op("wmon", memId, FALSE, "chain")>>
  /\ cnt' = [cnt EXCEPT !.closes = @ + 1]
  /\ UNCHANGED <<avars, maxp, memId, ukind, stSt, cplan, halted, deferred>>

(* archive_fully_resolved_channel_monitors -> archive_persisted_channel; it reads the monitor *)
(* back first and does nothing when that fails                                                *)
DArchive ==
  /\ Idle /\ memId >= 0 /\ memSt # "open" /\ cnt.archives < MaxArchives /\ cplan = <<>>
  /\ AArchive
  /\ call' = [kind |-> "archive", id |-> memId, failed |-> FALSE]
  /\ plan' = IF RecoverRes(mon, stSt, Without(upds, lazy)).kind = "ok"
             THEN <<Op("woth", 0, FALSE, memSt), Op("rmmon", 0, TRUE, memSt)>>
             ELSE <<>>
  /\ memId' = -1 /\ deferred' = {}     \* the ChainMonitor forgets the monitor
  /\ cnt' = [cnt EXCEPT !.archives = @ + 1]
  /\ UNCHANGED <<maxp, memSt, ukind, stSt, cplan, halted>>

(* the store operation o, taking effect or not *)
Do(o, applied) ==
  /\ CASE o.op = "wmon" -> AWriteMon(o.k, applied)
       [] o.op = "wupd" -> AWriteUpd(o.k, o.k, applied)
       [] o.op = "rm" -> ARemoveUpd(o.k, o.lazy, applied)
       [] o.op = "rmmon" -> ARemoveMon(o.lazy, applied)
       [] o.op = "woth" -> AOther
  /\ stSt' = IF o.op = "wmon" /\ applied THEN o.st ELSE stSt

DStep ==
  /\ plan # <<>>
  /\ Do(Head(plan), TRUE)
  /\ plan' = Tail(plan)
  /\ UNCHANGED <<maxp, memId, memSt, ukind, call, cplan, halted, deferred, cnt>>

DStepFail(applied) ==
  /\ plan # <<>> /\ cnt.faults < MaxFaults
  /\ Do(Head(plan), applied)
  /\ cnt' = [cnt EXCEPT !.faults = @ + 1]
  /\ IF Head(plan).op \in {"rm", "rmmon"}
     THEN plan' = Tail(plan) /\ UNCHANGED call           \* logged and ignored
     ELSE IF call.kind = "archive"
     THEN plan' = <<>> /\ UNCHANGED call                 \* archive gives up silently
     ELSE plan' = <<>> /\ call' = [call EXCEPT !.failed = TRUE]
  /\ UNCHANGED <<maxp, memId, memSt, ukind, cplan, halted, deferred>>

(* the call returns: Completed is a report; the caller's view of a persister that returned *)
(* InProgress is that the report comes later (DComplete)                                    *)
DReturn(defer) ==
  /\ call.kind # "none" /\ plan = <<>>
  /\ defer => ~call.failed /\ call.kind \in {"new", "upd"} /\ Cardinality(deferred) < MaxDeferred
  /\ IF call.failed THEN halted' = TRUE /\ UNCHANGED <<avars, deferred>>
     ELSE /\ UNCHANGED halted
          /\ IF call.kind \notin {"new", "upd", "full"} THEN UNCHANGED <<avars, deferred>>
             ELSE IF defer THEN deferred' = deferred \cup {call.id} /\ UNCHANGED avars
             ELSE AReport(call.id) /\ UNCHANGED deferred
  /\ call' = NoCall
  /\ UNCHANGED <<maxp, memId, memSt, ukind, stSt, plan, cplan, cnt>>

(* channel_monitor_updated *)
DComplete ==
  \E id \in deferred :
    /\ AReport(id)
    /\ deferred' = deferred \ {id}
    /\ UNCHANGED <<maxp, memId, memSt, ukind, stSt, call, plan, cplan, halted, cnt>>

DLand == \E k \in lazy : ALand(k) /\ UNCHANGED dvars

(* cleanup_stale_updates: lazily removed keys may or may not be listed any more *)
DCleanup(lz) ==
  /\ cplan = <<>> /\ mon # -1 /\ cnt.cleanups < MaxCleanups /\ call.kind # "archive"
  /\ \E X \in SUBSET lazy :
       cplan' = [i \in 1..Cardinality({k \in (DOMAIN upds \ lazy) \cup X : k <= mon}) |->
                   Op("rm", SetToSeq({k \in (DOMAIN upds \ lazy) \cup X : k <= mon})[i], lz, "open")]
  /\ cnt' = [cnt EXCEPT !.cleanups = @ + 1]
  /\ UNCHANGED <<avars, maxp, memId, memSt, ukind, stSt, call, plan, halted, deferred>>

DCStep ==
  /\ cplan # <<>>
  /\ Do(Head(cplan), TRUE)
  /\ cplan' = Tail(cplan)
  /\ UNCHANGED <<maxp, memId, memSt, ukind, call, plan, halted, deferred, cnt>>

DCStepFail(applied) ==
  /\ cplan # <<>> /\ cnt.faults < MaxFaults
  /\ Do(Head(cplan), applied)
  /\ cplan' = <<>>                                     \* `?` : clean-up gives up
  /\ cnt' = [cnt EXCEPT !.faults = @ + 1]
  /\ UNCHANGED <<maxp, memId, memSt, ukind, call, plan, halted, deferred>>

(* Crash between any two store operations, any subset of the accepted lazy  *)
(* removals landed; the restarted node recovers and carries on from there.  *)
DCrash(land, landmon) ==
  /\ cnt.crashes < MaxCrashes
  /\ ACrash(land, landmon)
  /\ LET m == IF landmon THEN -1 ELSE mon
         u == Without(upds, land)
         r == RecoverRes(m, stSt, u) IN
     /\ memId' = r.rid
     /\ memSt' = IF r.kind = "ok" THEN RollSt(m, stSt, u) ELSE "open"
     /\ ukind' = [i \in 1..(IF r.rid > 0 THEN r.rid ELSE 0) |-> ukind[i]]
     /\ halted' = (r.kind # "ok")       \* nothing to carry on with
  /\ call' = NoCall /\ plan' = <<>> /\ cplan' = <<>> /\ deferred' = {}
  /\ cnt' = [cnt EXCEPT !.crashes = @ + 1]
  /\ UNCHANGED <<maxp, stSt>>

-----------------------------------------------------------------------------
(* The property on the design: at EVERY state, for EVERY subset of landed   *)
(* lazy removals, the recovery outcome satisfies what MUPAbstract demands   *)
(* of an observed recovery.                                                 *)
CrashOutcomes ==
  {RecoverRes(IF lm THEN -1 ELSE mon, stSt, Without(upds, land)) :
     land \in SUBSET lazy, lm \in {b \in BOOLEAN : b => monLazy}}

CrashRecoveredCoversReported == \A r \in CrashOutcomes : Covers(r)
CrashRecoveredIsSomeInMemoryState == \A r \in CrashOutcomes : r.kind = "ok" => r.eq
(* the recovered monitor is never ahead of what was ever in memory *)
CrashRecoveredNotFromTheFuture == \A r \in CrashOutcomes : r.kind = "ok" => r.rid <= MaxUpd
=============================================================================
