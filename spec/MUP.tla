-------------------------------- MODULE MUP --------------------------------
(***************************************************************************)
(* C19 (b), design model: MonitorUpdatingPersister (lightning/src/util/     *)
(* persist.rs) at the granularity of its store operations, over any store   *)
(* that is an atomic map (MUPAbstract).  Every store operation is one step; *)
(* a crash can happen between any two of them; accepted lazy removals land  *)
(* independently or never; single store operations fail (with or without    *)
(* having taken effect).  The steps conjoin the abstract actions, so every  *)
(* behaviour of this model is a behaviour of MUPAbstract.                   *)
(*                                                                         *)
(*   persist_new_channel         write(monitor)                             *)
(*   update_persisted_channel    maxp # 0 /\ id % maxp # 0:                 *)
(*                                   write(update file id)                  *)
(*                               otherwise:                                 *)
(*                                   write(monitor) ; if that succeeded     *)
(*                                   lazily remove the update keys          *)
(*                                   max(0, id - maxp) .. id                *)
(*   (chain sync, update = None)  write(monitor)                            *)
(*   a failing write => UnrecoverableError: the node stops (only a crash /  *)
(*   restart follows); a failing clean-up removal is logged and ignored     *)
(*   read_channel_monitor_with_updates: read monitor m, list the update     *)
(*   keys, sort, apply those with key > m.id in order; applying update c to *)
(*   a monitor at id i works iff c = i + 1 (update_monitor panics else)     *)
(*   cleanup_stale_updates(lazy): read monitor m, list update keys, remove  *)
(*   (lazily or not) every key <= m.id; aborts on the first failing removal *)
(*   -- it may run while updates are being persisted.                       *)
(***************************************************************************)
EXTENDS MUPAbstract

CONSTANTS MaxPendings,   \* the values of maximum_pending_updates explored
          MaxUpd,        \* update ids 1..MaxUpd
          MaxFaults, MaxCrashes, MaxCleanups, MaxSyncs

VARIABLES
  maxp,     \* maximum_pending_updates of this node (fixed at start, kept over restarts)
  memId,    \* latest update id of the in-memory monitor, -1 = no channel yet
  call,     \* the Persist call in progress
  plan,     \* its remaining store operations
  cplan,    \* remaining removals of a cleanup_stale_updates in progress
  halted,   \* a write failed: UnrecoverableError was returned
  cnt       \* [faults, crashes, cleanups, syncs] used so far

dvars == <<maxp, memId, call, plan, cplan, halted, cnt>>
vars == <<avars, dvars>>

NoCall == [kind |-> "none", id |-> 0, failed |-> FALSE]

SetToSeq(S) ==
  LET RECURSIVE F(_)
      F(T) == IF T = {} THEN <<>> ELSE <<Min(T)>> \o F(T \ {Min(T)})
  IN F(S)

(* what the recovery code computes from a monitor at id m and update files u *)
RECURSIVE Roll(_, _, _)
Roll(cur, ks, u) ==
  IF ks = {} THEN cur
  ELSE LET k == Min(ks) IN
       IF u[k] = cur + 1 THEN Roll(cur + 1, ks \ {k}, u) ELSE -1

RecoverRes(m, u) ==
  IF m = -1 THEN [kind |-> "none", rid |-> -1, eq |-> FALSE, rf |-> FALSE]
  ELSE LET r == Roll(m, {k \in DOMAIN u : k > m}, u) IN
       IF r = -1 THEN [kind |-> "panic", rid |-> -1, eq |-> FALSE, rf |-> FALSE]
       ELSE [kind |-> "ok", rid |-> r, eq |-> TRUE, rf |-> FALSE]

DInit ==
  /\ AInit
  /\ maxp \in MaxPendings
  /\ memId = -1 /\ call = NoCall /\ plan = <<>> /\ cplan = <<>> /\ halted = FALSE
  /\ cnt = [faults |-> 0, crashes |-> 0, cleanups |-> 0, syncs |-> 0]

Idle == call.kind = "none" /\ ~halted

-----------------------------------------------------------------------------
DNew ==
  /\ Idle /\ memId = -1 /\ mon = -1
  /\ memId' = 0
  /\ call' = [kind |-> "new", id |-> 0, failed |-> FALSE]
  /\ plan' = <<[op |-> "wmon", k |-> 0, lazy |-> FALSE]>>
  /\ UNCHANGED <<avars, maxp, cplan, halted, cnt>>

FullPlan(id) ==
  <<[op |-> "wmon", k |-> id, lazy |-> FALSE]>>
  \o [i \in 1..(id - (IF id > maxp THEN id - maxp ELSE 0) + 1) |->
        [op |-> "rm", k |-> (IF id > maxp THEN id - maxp ELSE 0) + i - 1, lazy |-> TRUE]]

DUpdate ==
  /\ Idle /\ memId >= 0 /\ memId < MaxUpd
  /\ LET id == memId + 1 IN
     /\ memId' = id
     /\ call' = [kind |-> "upd", id |-> id, failed |-> FALSE]
     /\ plan' = IF maxp # 0 /\ id % maxp # 0
                THEN <<[op |-> "wupd", k |-> id, lazy |-> FALSE]>>
                ELSE FullPlan(id)
  /\ UNCHANGED <<avars, maxp, cplan, halted, cnt>>

DSync ==
  /\ Idle /\ memId >= 0 /\ cnt.syncs < MaxSyncs
  /\ call' = [kind |-> "full", id |-> memId, failed |-> FALSE]
  /\ plan' = <<[op |-> "wmon", k |-> memId, lazy |-> FALSE]>>
  /\ cnt' = [cnt EXCEPT !.syncs = @ + 1]
  /\ UNCHANGED <<avars, maxp, memId, cplan, halted>>

(* the store operation o, taking effect or not *)
Do(o, applied) ==
  CASE o.op = "wmon" -> AWriteMon(o.k, applied)
    [] o.op = "wupd" -> AWriteUpd(o.k, o.k, applied)
    [] o.op = "rm" -> ARemoveUpd(o.k, o.lazy, applied)

DStep ==
  /\ plan # <<>>
  /\ Do(Head(plan), TRUE)
  /\ plan' = Tail(plan)
  /\ UNCHANGED <<maxp, memId, call, cplan, halted, cnt>>

DStepFail(applied) ==
  /\ plan # <<>> /\ cnt.faults < MaxFaults
  /\ Do(Head(plan), applied)
  /\ cnt' = [cnt EXCEPT !.faults = @ + 1]
  /\ IF Head(plan).op = "rm"
     THEN plan' = Tail(plan) /\ UNCHANGED call           \* logged and ignored
     ELSE plan' = <<>> /\ call' = [call EXCEPT !.failed = TRUE]
  /\ UNCHANGED <<maxp, memId, cplan, halted>>

DReturn ==
  /\ call.kind # "none" /\ plan = <<>>
  /\ IF call.failed THEN halted' = TRUE /\ UNCHANGED avars
     ELSE /\ UNCHANGED halted
          /\ IF call.kind \in {"new", "upd"} THEN AReport(call.id) ELSE UNCHANGED avars
  /\ call' = NoCall
  /\ UNCHANGED <<maxp, memId, plan, cplan, cnt>>

DLand == \E k \in lazy : ALand(k) /\ UNCHANGED dvars

(* cleanup_stale_updates: lazily removed keys may or may not be listed any more *)
DCleanup(lz) ==
  /\ cplan = <<>> /\ mon # -1 /\ cnt.cleanups < MaxCleanups
  /\ \E X \in SUBSET lazy :
       cplan' = [i \in 1..Cardinality({k \in (DOMAIN upds \ lazy) \cup X : k <= mon}) |->
                   [op |-> "rm", lazy |-> lz,
                    k |-> SetToSeq({k \in (DOMAIN upds \ lazy) \cup X : k <= mon})[i]]]
  /\ cnt' = [cnt EXCEPT !.cleanups = @ + 1]
  /\ UNCHANGED <<avars, maxp, memId, call, plan, halted>>

DCStep ==
  /\ cplan # <<>>
  /\ Do(Head(cplan), TRUE)
  /\ cplan' = Tail(cplan)
  /\ UNCHANGED <<maxp, memId, call, plan, halted, cnt>>

DCStepFail(applied) ==
  /\ cplan # <<>> /\ cnt.faults < MaxFaults
  /\ Do(Head(cplan), applied)
  /\ cplan' = <<>>                                     \* `?` : clean-up gives up
  /\ cnt' = [cnt EXCEPT !.faults = @ + 1]
  /\ UNCHANGED <<maxp, memId, call, plan, halted>>

(* Crash between any two store operations, any subset of the accepted lazy  *)
(* removals landed; the restarted node recovers and carries on from there.  *)
DCrash(land) ==
  /\ cnt.crashes < MaxCrashes
  /\ ACrash(land)
  /\ LET r == RecoverRes(mon, Without(upds, land)) IN
     /\ memId' = r.rid
     /\ halted' = (r.kind # "ok")       \* nothing to carry on with
  /\ call' = NoCall /\ plan' = <<>> /\ cplan' = <<>>
  /\ cnt' = [cnt EXCEPT !.crashes = @ + 1]
  /\ UNCHANGED maxp

-----------------------------------------------------------------------------
(* The property on the design: at EVERY state, for EVERY subset of landed   *)
(* lazy removals, the recovery outcome satisfies what MUPAbstract demands   *)
(* of an observed recovery.                                                 *)
CrashOutcomes == {RecoverRes(mon, Without(upds, land)) : land \in SUBSET lazy}

CrashRecoveredCoversReported == \A r \in CrashOutcomes : Covers(r)
CrashRecoveredIsSomeInMemoryState == \A r \in CrashOutcomes : r.kind = "ok" => r.eq
(* the recovered monitor is never ahead of what was ever in memory *)
CrashRecoveredNotFromTheFuture == \A r \in CrashOutcomes : r.kind = "ok" => r.rid <= MaxUpd
=============================================================================
