SPECIFICATION MCSpec
CONSTANTS
  U = 9
  MaxOps = 6
  FailCs = {1}
  FailNs = {2}
  PruneTs = {150}
  RgsSnaps = {}
  ResolveCs = {}
  WithReload = TRUE
CONSTRAINT Bound
VIEW View
INVARIANT OnlyAuthentic
INVARIANT NeverOlder
INVARIANT NodeCleanup
INVARIANT FailedStayOut
INVARIANT Confluence
INVARIANT CodeWithinSpec
INVARIANT EmitScripts
CHECK_DEADLOCK TRUE
