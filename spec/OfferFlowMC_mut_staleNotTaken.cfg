SPECIFICATION MCSpec
CONSTANTS
  ReqTicks = 1
  NP = 1
  Manual = FALSE
  Hold = FALSE
  Offs = {1}
  MaxPay = 1
  MaxKeep = 1
  MaxTick = 0
  MaxRestart = 1
  MaxSave = 1
  MaxAband = 0
  MaxErr = 0
  MaxMsgRecv = 0
  MaxSend = 0
  MaxOps = 7
  MinOps = 6
  CodeTicks = 1
  Idem = 1
  Stale = TRUE
  Bug = "stale_not_taken"
CONSTRAINT Bound
VIEW View
INVARIANT TermSane
INVARIANT OneHashPerId
INVARIANT OnePaymentPerId
CHECK_DEADLOCK TRUE
