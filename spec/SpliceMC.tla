------------------------------ MODULE SpliceMC ------------------------------
(* Bounded design model of quiescence + splicing between the two endpoints of one channel, joined by
   two FIFO links: who asks for a splice while which update is in flight, both at once (tie-break, the
   loser contributes as acceptor), stfu / splice_init / splice_ack, the turn-taking construction of the
   funding transaction, the signing steps (commitment_signed for the new scope, the monitor update that
   records it -- written synchronously or completing later --, tx_signatures in the prescribed order),
   blocks reaching the two nodes at different times, splice_locked, a disconnection at any point with the
   channel_reestablish retransmissions (next_funding / my_current_funding_locked) or the tx_abort that
   follows when the peer has forgotten the negotiation.  Every action conjoins the corresponding
   action(s) of Splice.tla (refinement by construction; an unmet guard there shows as a deadlock or a
   missing behaviour), the invariants state agreement end to end.  Prints user-level driver scripts. *)
EXTENDS Splice, Json, SequencesExt

CONSTANTS MaxAdds,     \* payments per direction
          Out2,         \* side 2 asks for a splice-out of Want2 instead of a splice-in
          Want1, Want2, \* contribution side 1 / side 2 asks to splice (sat, 0: that side asks for no splice)
          MaxDisc,     \* disconnections
          MaxBlocks,   \* blocks mined
          AsyncSide,   \* side whose monitor writes complete later (0: none)
          QLen

VARIABLES q,       \* [<<from side, to side>> -> Seq(message)]
          want,    \* [endpoint -> contribution the user asked for and the node has not used yet (0: none)]
          todo,    \* [endpoint -> Seq(items it still has to add to the transaction under construction)]
          held,    \* [endpoint -> number of payments the user asked for while the node could not send updates]
          nAdd, nDisc, nNeg, ser, chain, agree, uidc, hist

mvars == <<svars, q, want, todo, held, nAdd, nDisc, nNeg, ser, chain, agree, uidc, hist>>

WantOf(e) == IF e[2] = 1 THEN Want1 ELSE IF Out2 THEN 0 - Want2 ELSE Want2
E1 == <<1, 1>>
E2 == <<1, 2>>
EPs == {E1, E2}
Q(e) == <<e[2], Other(e[2])>>
QIn(e) == <<Other(e[2]), e[2]>>
Value == 1000
Amt == 100000          \* msat
NeedDepth == 2
CurT == 10 + nNeg      \* id of the transaction of the current / latest negotiation

Init0 ==
  /\ par = [c \in {1} |-> [funder |-> 1, type |-> "static", dust |-> <<1, 1>>, feerate |-> 0, depth |-> NeedDepth]]
  /\ fund = [e \in EPs |-> [tx |-> 1, vout |-> 0, value |-> Value]]
  /\ cnt = [e \in EPs |-> [sentCS |-> 0, recvCS |-> 0, sentRAA |-> 0, recvRAA |-> 0]]
  /\ hs = [e \in EPs |-> {}]
  /\ base = [e \in EPs |-> Value * 500]
  /\ link = [e \in EPs |-> "up"]
  /\ redo = [e \in EPs |-> [cs |-> FALSE, raa |-> FALSE, upd |-> {}]]
  /\ lastCS = [e \in EPs |-> <<>>]
  /\ order = [e \in EPs |-> "none"]
  /\ pts = [e \in EPs |-> <<>>]
  /\ mon = [e \in EPs |-> [last |-> 0, infl |-> {}, cp |-> <<>>, holder |-> <<>>, pre |-> <<>>, reneg |-> <<>>]]
  /\ ownExp = [e \in EPs |-> <<>>]
  /\ qs = [e \in EPs |-> NoQ]
  /\ neg = [e \in EPs |-> NoNeg]
  /\ cands = [e \in EPs |-> {}]
  /\ lk = [e \in EPs |-> [sent |-> 0, rcvd |-> 0]]
  /\ cv = [e \in EPs |-> [h |-> 0, conf |-> <<>>]]
  /\ txc = <<>>
  /\ q = [d \in {<<1, 2>>, <<2, 1>>} |-> <<>>]
  /\ want = [e \in EPs |-> 0] /\ todo = [e \in EPs |-> <<>>] /\ held = [e \in EPs |-> 0]
  /\ nAdd = [e \in EPs |-> 0] /\ nDisc = 0 /\ nNeg = 0 /\ ser = EPs /\ chain = <<>> /\ agree = TRUE
  /\ uidc = [e \in EPs |-> 0] /\ hist = <<>>

PushRaw(e, m) == Len(q[Q(e)]) < QLen /\ q' = [q EXCEPT ![Q(e)] = Append(@, m)]
Push(e, m) == e \in ser /\ PushRaw(e, m)      \* (after a reconnection channel_reestablish goes first)
H(op) == hist' = Append(hist, op)
NoH == UNCHANGED hist
Keep(vs) == UNCHANGED vs
N(e) == e[2] - 1

\* ---- payments
DoAdd(e) ==
  /\ SendAdd(e, nAdd[e], Amt, 10 * e[2] + nAdd[e])
  /\ Push(e, [k |-> "add", id |-> nAdd[e], amt |-> Amt, hash |-> 10 * e[2] + nAdd[e]])
  /\ nAdd' = [nAdd EXCEPT ![e] = @ + 1]
\* the user asks to pay: it goes out at once, or is held while the node may not propose updates
MPay(e) ==
  /\ nAdd[e] + held[e] < MaxAdds /\ link[e] = "up" /\ redo[e].upd = {} /\ ~redo[e].cs
  /\ IF MayUpdate(e)
     THEN DoAdd(e) /\ Keep(<<held>>)
     ELSE held' = [held EXCEPT ![e] = @ + 1] /\ Keep(<<svars, q, nAdd>>)
  /\ H([op |-> "send", from |-> N(e), to |-> N(Peer(e)), amt |-> 5000000])
  /\ Keep(<<want, todo, nDisc, nNeg, ser, chain, agree, uidc>>)
\* what was held goes out once updates are allowed again
MFlush(e) ==
  /\ held[e] > 0 /\ link[e] = "up" /\ MayUpdate(e) /\ redo[e].upd = {} /\ ~redo[e].cs
  /\ DoAdd(e)
  /\ held' = [held EXCEPT ![e] = @ - 1]
  /\ NoH /\ Keep(<<want, todo, nDisc, nNeg, ser, chain, agree, uidc>>)
MClaim(e) == \E h \in hs[e] :
  /\ h.dir = "in" /\ h.rem = -1 /\ h.add = 4 /\ redo[e].upd = {} /\ ~redo[e].cs /\ MayUpdate(e)
  /\ SendRemove(e, h.id, "fulfill")
  /\ Push(e, [k |-> "rem", id |-> h.id, res |-> "fulfill"])
  /\ H([op |-> "claim", pay |-> IF h.hash < 20 THEN 0 ELSE 1, hash |-> h.hash])
  /\ Keep(<<want, todo, held, nAdd, nDisc, nNeg, ser, chain, agree, uidc>>)
MResend(e) == \E u \in redo[e].upd :
  /\ SignFirst(e)
  /\ CASE u[1] = "add" -> LET h == Get(e, "out", u[2]) IN
                            SendAdd(e, h.id, h.amt, h.hash) /\ Push(e, [k |-> "add", id |-> h.id, amt |-> h.amt, hash |-> h.hash])
       [] u[1] = "rem" -> LET h == Get(e, "in", u[2]) IN
                            SendRemove(e, h.id, h.res) /\ Push(e, [k |-> "rem", id |-> h.id, res |-> h.res])
  /\ NoH /\ Keep(<<want, todo, held, nAdd, nDisc, nNeg, ser, chain, agree, uidc>>)

\* the batch e signs right now: one content per pending funding scope
BatchNow(e) == [t \in ScopeTxs(e) |-> [CommitS(e, FALSE, ScopeOf(e, t), cnt[e].sentCS + 1) EXCEPT !.negative = FALSE] @@ [dust_known |-> TRUE]]
MSendCS(e) ==
  /\ SignFirst(e)
  /\ LET B == IF redo[e].cs THEN [t \in ScopeTxs(e) |-> lastCS[e][t]] ELSE BatchNow(e) IN
       SendCS(e, B) /\ Push(e, [k |-> "cs", b |-> B])
  /\ NoH /\ Keep(<<want, todo, held, nAdd, nDisc, nNeg, ser, chain, agree, uidc>>)
MSendRAA(e) ==
  /\ SendRAA(e, 0, 0)
  /\ Push(e, [k |-> "raa"])
  /\ NoH /\ Keep(<<want, todo, held, nAdd, nDisc, nNeg, ser, chain, agree, uidc>>)

\* ---- the user asks for a splice; the node proposes quiescence when it may
MWant(e) ==
  /\ WantOf(e) # 0 /\ want[e] = 0 /\ nNeg = 0 /\ neg[e].st = "none" /\ cands[e] = {} /\ link[e] = "up"
  /\ ~\E k \in 1..Len(hist) : hist[k].op = "splice" /\ hist[k].node = N(e)
  /\ want' = [want EXCEPT ![e] = WantOf(e)]
  /\ H([op |-> "splice", node |-> N(e), peer |-> N(Peer(e)), kind |-> IF WantOf(e) > 0 THEN "in" ELSE "out",
        amt |-> IF WantOf(e) > 0 THEN 40000 ELSE 25000, feerate |-> 253])
  /\ Keep(<<svars, q, todo, held, nAdd, nDisc, nNeg, ser, chain, agree, uidc>>)
MStfu(e) ==
  /\ ((want[e] # 0 /\ cands[e] = {}) \/ qs[e].rcvd) /\ ~qs[e].sent
  /\ SendStfu(e, ~qs[e].rcvd)
  /\ Push(e, [k |-> "stfu", init |-> ~qs[e].rcvd])
  /\ NoH /\ Keep(<<want, todo, held, nAdd, nDisc, nNeg, ser, chain, agree, uidc>>)

\* what a party adds to the transaction: the initiator the shared input and the new funding output,
\* each contributor one wallet input (splice-in, with change) or one output (splice-out); fee 5 each
InItem(s, by) == [k |-> "add_input", serial |-> s, parity |-> IF by = "I" THEN 0 ELSE 1, ptx |-> 100 + s, vout |-> 0, value |-> 100, shared |-> FALSE, by |-> "-"]
SharedItem(e, s) == [k |-> "add_input", serial |-> s, parity |-> 0, ptx |-> fund[e].tx, vout |-> fund[e].vout, value |-> 0, shared |-> TRUE, by |-> "-"]
OutItem(s, by, v, f) == [k |-> "add_output", serial |-> s, parity |-> IF by = "I" THEN 0 ELSE 1, sats |-> v, funding |-> f, by |-> "-"]
Own(c, by, s0) == IF c > 0 THEN <<InItem(s0, by), OutItem(s0 + 2, by, 100 - c - 5, FALSE)>>
                  ELSE IF c < 0 THEN <<OutItem(s0, by, 0 - c - 5, FALSE)>> ELSE <<>>
MSpliceInit(e) ==
  /\ want[e] # 0 /\ Quiescent(e) /\ Initiator(e) /\ neg[e].st = "none"
  /\ SendSpliceInit(e, want[e], 253, 0, FALSE)
  /\ Push(e, [k |-> "splice_init", c |-> want[e]])
  /\ want' = [want EXCEPT ![e] = 0]
  /\ nNeg' = nNeg + 1
  /\ NoH /\ Keep(<<todo, held, nAdd, nDisc, ser, chain, agree, uidc>>)
\* the acceptor answers; a splice it had asked for itself rides along as its contribution
MSpliceAck(e) ==
  /\ neg[e].st = "acking"
  /\ SendSpliceAck(e, want[e])
  /\ Push(e, [k |-> "splice_ack", c |-> want[e]])
  /\ todo' = [todo EXCEPT ![e] = Own(want[e], "A", 21)]
  /\ want' = [want EXCEPT ![e] = 0]
  /\ NoH /\ Keep(<<held, nAdd, nDisc, nNeg, ser, chain, agree, uidc>>)
\* one step of the construction: the next item, or tx_complete
MTx(e) ==
  /\ neg[e].st = "build" /\ neg[e].turn = "me"
  /\ IF todo[e] # <<>>
     THEN LET it == Head(todo[e]) IN
          /\ SendTx(e, it.k, it)
          /\ Push(e, [k |-> "tx", it |-> it])
          /\ todo' = [todo EXCEPT ![e] = Tail(@)]
     ELSE /\ SendTx(e, "complete", [serial |-> 0])
          /\ Push(e, [k |-> "tx", it |-> [k |-> "complete", serial |-> 0]])
          /\ Keep(<<todo>>)
  /\ NoH /\ Keep(<<want, held, nAdd, nDisc, nNeg, ser, chain, agree, uidc>>)

\* the constructed transaction becomes known (FundingTransactionReadyForSigning / the node's own view)
TxOf(e) == [ins |-> {<<x.ptx, x.vout>> : x \in neg[e].ins},
            outs |-> LET sq == SetToSeq(neg[e].outs) IN [k \in 1..Len(sq) |-> [v |-> sq[k].sats, funding |-> sq[k].funding]],
            fvout |-> 0, fvalue |-> NewValue(e)]
MLearn(e) ==
  /\ neg[e].st = "sign" /\ CurT \notin DOMAIN txc
  /\ txc' = [t \in DOMAIN txc \cup {CurT} |-> IF t = CurT THEN TxOf(e) ELSE txc[t]]
  /\ NoH /\ Keep(<<par, fund, cnt, hs, base, link, redo, lastCS, order, pts, mon, ownExp, qs, neg, cands, lk, cv>>)
  /\ Keep(<<q, want, todo, held, nAdd, nDisc, nNeg, ser, chain, agree, uidc>>)
MInitCS(e) ==
  /\ neg[e].st = "sign" /\ (~neg[e].sentCS \/ neg[e].redoCS) /\ CurT \in DOMAIN txc
  /\ SendInitCS(e, CurT)
  /\ Push(e, [k |-> "initcs", t |-> CurT,
              c |-> [CommitS(e, FALSE, [NegScope(e) EXCEPT !.tx = CurT], cnt[e].sentCS) EXCEPT !.negative = FALSE]])
  /\ NoH /\ Keep(<<want, todo, held, nAdd, nDisc, nNeg, ser, chain, agree, uidc>>)
\* the monitor update that records the new scope (after the peer's signature for it was accepted)
Written(e) == neg[e].tx \in DOMAIN mon[e].reneg
MPersistReneg(e) ==
  /\ neg[e].st = "sign" /\ neg[e].rcvdCS /\ ~Written(e)
  /\ Persist(e, uidc[e] + 1, AsyncSide = e[2], {}, {}, {}, {neg[e].tx})
  /\ RenegContentOK(e, neg[e].tx, [CommitS(e, FALSE, NegScope(e), cnt[e].sentCS) EXCEPT !.negative = FALSE] @@ [dust_known |-> TRUE])
  /\ uidc' = [uidc EXCEPT ![e] = @ + 1]
  /\ NoH /\ Keep(<<q, want, todo, held, nAdd, nDisc, nNeg, ser, chain, agree>>)
MComplete(e) == \E u \in mon[e].infl :
  /\ Complete(e, u)
  /\ H([op |-> "complete", node |-> N(e), which |-> "all"])
  /\ Keep(<<q, want, todo, held, nAdd, nDisc, nNeg, ser, chain, agree, uidc>>)
MTxSigs(e) ==
  /\ \/ (neg[e].st = "sign" /\ neg[e].sentCS /\ neg[e].rcvdCS /\ (~neg[e].sentSigs \/ neg[e].redoSigs) /\ Written(e))
     \/ (neg[e].st = "none" /\ neg[e].redoSigs)
  /\ SendTxSigs(e, neg[e].tx)
  /\ Push(e, [k |-> "sigs", t |-> neg[e].tx])
  /\ NoH /\ Keep(<<want, todo, held, nAdd, nDisc, nNeg, ser, chain, agree, uidc>>)
MAbort(e) ==
  /\ neg[e].abortOK
  /\ SendTxAbort(e)
  /\ Push(e, [k |-> "abort"])
  /\ NoH /\ Keep(<<want, todo, held, nAdd, nDisc, nNeg, ser, chain, agree, uidc>>)

\* ---- the chain: a block (with the candidate, once it is fully signed somewhere) is mined, then
\* reaches each node separately
Unconf == {k.tx : k \in UNION {cands[e] : e \in EPs}} \ UNION {chain[i] : i \in 1..Len(chain)}
MMine ==
  /\ Len(chain) < MaxBlocks /\ \E e \in EPs : cands[e] # {}
  /\ chain' = Append(chain, Unconf)
  /\ H([op |-> "mine", n |-> 1, nodes |-> <<>>])
  /\ Keep(<<svars, q, want, todo, held, nAdd, nDisc, nNeg, ser, agree, uidc>>)
MSync(e) ==
  /\ cv[e].h < Len(chain)
  /\ Block(e, cv[e].h + 1, chain[cv[e].h + 1])
  /\ H([op |-> "sync", node |-> N(e), k |-> 1])
  /\ Keep(<<q, want, todo, held, nAdd, nDisc, nNeg, ser, chain, agree, uidc>>)
MLocked(e) == \E k \in cands[e] :
  /\ lk[e].sent # k.tx /\ ("Depth" \in Drop \/ Depth(e, k.tx) >= NeedDepth) /\ ~Quiescent(e)
  /\ SendSpliceLocked(e, k.tx)
  /\ Push(e, [k |-> "locked", t |-> k.tx])
  /\ NoH /\ Keep(<<want, todo, held, nAdd, nDisc, nNeg, ser, chain, agree, uidc>>)

\* ---- delivery of the head of the inbound link
MDeliver(e) ==
  /\ q[QIn(e)] # <<>>
  /\ LET m == Head(q[QIn(e)]) IN
     /\ CASE m.k = "add" -> RecvAdd(e, m.id, m.amt, m.hash) /\ UNCHANGED agree
          [] m.k = "rem" -> RecvRemove(e, m.id, m.res) /\ UNCHANGED agree
          [] m.k = "cs" -> /\ RecvCS(e)
                           \* the signer's view of every scope equals the receiver's own
                           \* (a scope the receiver has locked in or dropped since may still be covered)
                           /\ agree' = (agree /\ ScopeTxs(e) \subseteq DOMAIN m.b
                                        /\ \A t \in DOMAIN m.b \cap ScopeTxs(e) :
                                             SameContent(m.b[t], CommitS(e, TRUE, ScopeOf(e, t), cnt[e].recvCS + 1)))
          [] m.k = "raa" -> RecvRAA(e) /\ UNCHANGED agree
          [] m.k = "reest" -> RecvReestablish(e, m.nl, m.nr, m.nf, m.nfcs, m.cfl) /\ UNCHANGED agree
          [] m.k = "stfu" -> RecvStfu(e, m.init) /\ UNCHANGED agree
          [] m.k = "splice_init" -> RecvSpliceInit(e, m.c, 253, 0) /\ UNCHANGED agree
          [] m.k = "splice_ack" -> RecvSpliceAck(e, m.c) /\ UNCHANGED agree
          [] m.k = "tx" -> (IF StaleNeg(e) THEN DropStale(e) ELSE RecvTx(e, m.it.k, m.it)) /\ UNCHANGED agree
          [] m.k = "initcs" -> IF StaleNeg(e) THEN DropStale(e) /\ UNCHANGED agree
                               ELSE /\ RecvInitCS(e, m.t)
                                    /\ agree' = (agree /\ SameContent(m.c @@ [dust_known |-> TRUE],
                                                   CommitS(e, TRUE, [NegScope(e) EXCEPT !.tx = m.t], cnt[e].recvCS)))
          [] m.k = "sigs" -> (IF StaleNeg(e) THEN DropStale(e) ELSE RecvTxSigs(e, m.t)) /\ UNCHANGED agree
          [] m.k = "abort" -> RecvTxAbort(e) /\ UNCHANGED agree
          [] m.k = "locked" -> RecvSpliceLocked(e, m.t) /\ UNCHANGED agree
     /\ q' = [q EXCEPT ![QIn(e)] = Tail(@)]
     /\ todo' = IF m.k = "splice_ack"
                THEN [todo EXCEPT ![e] = <<SharedItem(e, 2)>> \o Own(neg[e].cI, "I", 4) \o <<OutItem(10, "I", fund[e].value + neg[e].cI + m.c, TRUE)>>]
                ELSE IF m.k = "abort" THEN [todo EXCEPT ![e] = <<>>] ELSE todo
  /\ H([op |-> "deliver", from |-> N(Peer(e)), to |-> N(e), k |-> 1])
  /\ Keep(<<want, held, nAdd, nDisc, nNeg, ser, chain, uidc>>)

Nf(e) == IF neg[e].st = "sign" /\ ~neg[e].rcvdSigs THEN CurT ELSE 0
Cfl(e) == IF lk[e].sent # 0 THEN lk[e].sent ELSE fund[e].tx
MDisconnect ==
  /\ nDisc < MaxDisc /\ \A e \in EPs : link[e] = "up"
  /\ Disconnect(EPs)
  /\ q' = [d \in DOMAIN q |-> <<>>]
  /\ todo' = [e \in EPs |-> <<>>]
  /\ nDisc' = nDisc + 1
  /\ H([op |-> "disconnect", a |-> 0, b |-> 1])
  /\ Keep(<<want, held, nAdd, nNeg, ser, chain, agree, uidc>>)
MReconnect ==
  /\ \A e \in EPs : link[e] = "down"
  /\ Reconnect(EPs)
  /\ H([op |-> "reconnect", a |-> 0, b |-> 1])
  /\ ser' = {}
  /\ Keep(<<q, want, todo, held, nAdd, nDisc, nNeg, chain, agree, uidc>>)
MReest(e) ==
  /\ link[e] \in {"sync", "up"} /\ e \notin ser
  /\ SendReestablish(e, cnt[e].recvCS + 1, cnt[e].recvRAA, Nf(e), Cfl(e))
  /\ PushRaw(e, [k |-> "reest", nl |-> cnt[e].recvCS + 1, nr |-> cnt[e].recvRAA, nf |-> Nf(e),
              nfcs |-> (Nf(e) # 0 /\ ~neg[e].rcvdCS), cfl |-> Cfl(e)])
  /\ ser' = ser \cup {e}
  /\ NoH /\ Keep(<<want, todo, held, nAdd, nDisc, nNeg, chain, agree, uidc>>)

Empty == \A d \in DOMAIN q : q[d] = <<>>
MDone == Empty /\ UNCHANGED mvars

MCNext == \/ \E e \in EPs : MPay(e) \/ MFlush(e) \/ MClaim(e) \/ MResend(e) \/ MSendCS(e) \/ MSendRAA(e)
                              \/ MWant(e) \/ MStfu(e) \/ MSpliceInit(e) \/ MSpliceAck(e) \/ MTx(e) \/ MLearn(e) \/ MInitCS(e)
                              \/ MPersistReneg(e) \/ MComplete(e) \/ MTxSigs(e) \/ MAbort(e) \/ MSync(e) \/ MLocked(e)
                              \/ MDeliver(e) \/ MReest(e)
          \/ MMine \/ MDisconnect \/ MReconnect \/ MDone

MCSpec == Init0 /\ [][MCNext]_mvars
View == <<svars, q, want, todo, held, nAdd, nDisc, nNeg, ser, chain, agree, uidc>>

\* ---- properties
Agreement == agree
ConservesAll == \A e \in EPs : \A sc \in Scopes(e) : ConservesS(e, TRUE, sc) /\ ConservesS(e, FALSE, sc)
Quiet == Empty /\ (\A e \in EPs : hs[e] = {} /\ link[e] = "up" /\ ~redo[e].cs /\ ~redo[e].raa /\ neg[e].st = "none"
                                    /\ ~neg[e].redoSigs /\ ~neg[e].abortOK /\ want[e] = 0 /\ held[e] = 0 /\ ~qs[e].sent /\ ~qs[e].rcvd)
\* nothing half-done is left behind: both sides on the same funding, same candidates, balances add up
SameFunding == Quiet => /\ fund[E1] = fund[E2]
                        /\ {k.tx : k \in cands[E1]} = {k.tx : k \in cands[E2]}
                        /\ base[E1] + base[E2] = fund[E1].value * 1000
\* each side's contribution went to that side only
OwnContribution == Quiet => \A e \in EPs : \A k \in cands[e] : \E k2 \in cands[Peer(e)] : k2.tx = k.tx /\ k.value = k2.value
                                                                   /\ k.dself + k2.dself = k.value - fund[e].value
\* splice_locked names a transaction buried deep enough on the sender's chain
LockedIsBuried == \A e \in EPs : lk[e].sent # 0 => Depth(e, lk[e].sent) >= NeedDepth
\* tx_signatures never leave before the update recording the new scope is durable
SigsAfterDurable == \A e \in EPs : (neg[e].st = "sign" /\ neg[e].sentSigs) =>
                       (neg[e].tx \in DOMAIN mon[e].reneg /\ Durable(e, mon[e].reneg[neg[e].tx]))
ViewsAgree == (Empty /\ \A e \in EPs : link[e] = "up" /\ redo[e].upd = {} /\ ~redo[e].cs /\ ~redo[e].raa /\ neg[e].st = "none")
              => \A e \in EPs : ScopeTxs(e) = ScopeTxs(Peer(e)) =>
                    \A t \in ScopeTxs(e) :
                       LET a == CommitS(e, TRUE, ScopeOf(e, t), 0)  b == CommitS(Peer(e), FALSE, ScopeOf(Peer(e), t), 0) IN
                       a.nondust = b.nondust /\ a.to_b = b.to_b /\ a.to_c = b.to_c

Spliced == \E e \in EPs : fund[e].tx # 1
EmitScripts == (Quiet /\ Len(hist) > 8 /\ (Spliced \/ nDisc > 0)) => PrintT(<<"SCRIPT", ToJson([ops |-> hist])>>)
=============================================================================
