SPECIFICATION MCSpec
CONSTANTS
  Relax = {}
  Mode = "revoked"
  MaxBlocks = 2
  Layouts = {"plain"}
  MaxUnwind = 1
  Features = {}
  Defect = "no_reissue"
  MaxReload = 0
CONSTRAINT Bounded
VIEW View
INVARIANT TypeOK
INVARIANT JusticeCovers
INVARIANT JusticeCadence
INVARIANT CheaterKeepsNothing
INVARIANT NoEntitledOutputIdle
INVARIANT BalancesAddUp
INVARIANT Drained
INVARIANT EmitScripts
CHECK_DEADLOCK TRUE
