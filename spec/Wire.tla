-------------------------------- MODULE Wire --------------------------------
(* C13 -- the grammar of a Lightning peer message (BOLT-1) and the verdict a decoder must give.

   The model is about the *shape* of a message, not its field values:

     message  =  type id  .  fixed part  .  [ TLV stream ]  .  tail
     TLV stream = sequence of records; record = BigSize type . BigSize length . value

   An abstract message is a record
     [ opaque  : BOOLEAN,   \* TRUE: arbitrary bytes, nothing is known about the shape
       tlvkind : BOOLEAN,   \* the message kind ends in a TLV stream (decode_tlv_stream!)
       nk      : Nat,       \* number of TLV types the kind knows (all optional)
       tid     : TidClass,  \* class of the 2-byte message type
       fixed   : {"complete","truncated","badvalue"},
       inner   : InnerClass,\* a length-prefixed region inside the fixed part vs what it contains
       recs    : Seq(TlvRec),
       tail    : {"none","partial_type","type_only","partial_len","excess","garbage"},
       size    : SizeClass ]\* size class of one variable-length field (see below)
   tail: what follows the last complete record -- nothing, a started record cut inside its type,
   after its type or inside its length, retained excess data (gossip), or arbitrary bytes.

   Abstract TLV type numbers.  A kind with nk known TLV types K_1 < ... < K_nk divides the type
   line into   gap_0 | K_1 | gap_1 | ... | K_nk | gap_nk .   "slot" 2i-1 is K_i, slot 2j is gap_j.
   Every gap offers one unknown even and one unknown odd number (even < odd).  The abstract type
   is the integer  3*slot + sub  with sub = 0 (known), 1 (unknown even), 2 (unknown odd), so the
   integer order is the order of the concrete type numbers the engine substitutes.

   Verdict(m) is what BOLT-1 (as implemented by wire::read, FixedLengthReader, BigSize and
   _decode_tlv_stream_range!) requires; only the coarse class is part of the property:
     "accept"  the message decodes (to the value the present known records denote),
     "reject"  an error -- never a partially filled message,
     "ignore"  unknown odd message type: not an error, not interpreted,
     "any"     no claim beyond totality (no panic, no over-read, re-encoding is stable).       *)
EXTENDS Integers, Sequences, FiniteSets

TidClass  == {"known", "unknown_even", "unknown_odd", "custom_even", "custom_odd"}
FixedClass == {"complete", "truncated", "badvalue"}
TailClass == {"none", "partial_type", "type_only", "partial_len", "excess", "garbage"}
(* Inner declared lengths (node_announcement addrlen, prevtx_len, witness lengths, encoded_short_ids,
   u16-prefixed data / padding / script / onion blobs).  The declared length is compared with the
   self-delimiting elements the region contains:
     "none"         not manipulated,
     "boundary"     the region ends exactly on an element boundary (canonical),
     "retained"     the region is longer than the elements this version parses and the rest is data
                    the format retains verbatim (unknown address descriptor) (canonical),
     "overrun"      an element starts inside the region and ends beyond it, or the region extends
                    beyond the message,
     "mismatch"     a region that must be filled exactly (prevtx, witness, 8-byte id list) is not,
     "short_opaque" an opaque region declared shorter: the following fields shift (no claim). *)
InnerClass == {"none", "boundary", "retained", "overrun", "mismatch", "short_opaque"}
(* Size class of ONE variable-length field of the message (a length-prefixed or rest-of-message byte
   string, a counted list, the value of a TLV record, the payload of an unknown message type).
   The number of elements n the field holds is placed relative to every internal boundary a codec
   has: 64 (io_extras::copy / read_to_end work in 64-byte chunks: retained excess data, skipped
   TLV values), 253 (BigSize / CollectionLength change width at 0xfd), 4096 (chunked read of the
   onion-message packet), 65535 (u16 length prefixes and the message itself end there; no class of
   it fits into a message -- CanFit -- so it is represented by "max": the largest n with which the
   message still is a message).
     at  : "field"   a field of the kind (fixed part or value of a known TLV) resp. the payload of
                     a message of an unknown type,
           "odd_tlv" the value of an unknown odd TLV record after the known ones,
     pos : where n lies: 0, 1, b-1, b, b+1, 2b-1, 2b, 2b+1, "rand" (any), "max".
   A size class never changes the verdict of a message that fits: the property quantifies over every
   message the library can construct, boundary-length vectors included. *)
Boundaries == {64, 253, 4096, 65535}
MaxMsg     == 65535                                   \* BOLT-8: type id + payload
BndPos     == {"bm1", "b", "bp1", "2bm1", "2b", "2bp1"}
NoSize     == [at |-> "none", bnd |-> 0, pos |-> "none"]
SizeClass  == {NoSize}
              \cup [at : {"field", "odd_tlv"}, bnd : {0}, pos : {"zero", "one", "rand", "max"}]
              \cup [at : {"field", "odd_tlv"}, bnd : Boundaries, pos : BndPos]
Determinate(s) == s.pos \notin {"none", "rand", "max"}
SizeN(s) == CASE s.pos = "zero" -> 0
              [] s.pos = "one"  -> 1
              [] s.pos = "bm1"  -> s.bnd - 1
              [] s.pos = "b"    -> s.bnd
              [] s.pos = "bp1"  -> s.bnd + 1
              [] s.pos = "2bm1" -> 2 * s.bnd - 1
              [] s.pos = "2b"   -> 2 * s.bnd
              [] s.pos = "2bp1" -> 2 * s.bnd + 1
(* necessary for the field to fit into a message at all: 2-byte type id + n one-byte elements *)
CanFit(s) == Determinate(s) => SizeN(s) + 2 <= MaxMsg
(* What the execution must show for a size class: n elements of (at least) `unit` bytes each in a
   message of `total` bytes (type id included); "max": one more element does not fit (2 bytes of
   slack for a length prefix that widens). *)
SizeOK(s, n, unit, total) ==
  s.pos # "none" =>
     /\ n >= 0 /\ unit >= 1 /\ total <= MaxMsg /\ n * unit + 2 <= total
     /\ (Determinate(s) => n = SizeN(s))
     /\ (s.pos = "max" => total + unit + 2 > MaxMsg)

EncClass  == {"min", "nonmin_type", "nonmin_len"}     \* BigSize encodings of the record header
FitClass  == {"exact", "overrun"}                     \* declared length vs bytes that remain
ValClass  == {"ok", "bad"}                            \* value of a known type in / out of range

Slot(t) == t \div 3
Sub(t)  == t % 3
IsKnown(t)   == Sub(t) = 0 /\ Slot(t) % 2 = 1
IsUnkEven(t) == Sub(t) = 1 /\ Slot(t) % 2 = 0
IsUnkOdd(t)  == Sub(t) = 2 /\ Slot(t) % 2 = 0
KnownIdx(t)  == (Slot(t) + 1) \div 2                  \* i for K_i

KnownT(i)    == 3 * (2 * i - 1)
UnkEvenT(j)  == 3 * (2 * j) + 1
UnkOddT(j)   == 3 * (2 * j) + 2
Types(nk)    == {KnownT(i) : i \in 1..nk} \cup {UnkEvenT(j) : j \in 0..nk} \cup {UnkOddT(j) : j \in 0..nk}

TlvRec(nk) == [t : Types(nk), enc : EncClass, fit : FitClass, val : ValClass]

WellFormedRec(r, nk) ==
  /\ r.t \in Types(nk)
  /\ r.enc \in EncClass /\ r.fit \in FitClass /\ r.val \in ValClass
  /\ (r.val = "bad" => IsKnown(r.t))        \* only known types have a value range

----------------------------------------------------------------------------
(* The stream scanner, shaped like _decode_tlv_stream_range!: read the type (BigSize must be
   minimal), require strictly increasing types, read the length (minimal), confine the value to
   the declared length (FixedLengthReader), decode a known value completely, skip an unknown odd
   record, fail on an unknown even one.  Result: <<class, reason>>. *)
RECURSIVE Scan(_, _, _)
Scan(recs, i, last) ==
  IF i > Len(recs) THEN <<"accept", "clean">>
  ELSE LET r == recs[i] IN
    IF r.enc = "nonmin_type" THEN <<"reject", "nonminimal">>
    ELSE IF last >= 0 /\ r.t = last THEN <<"reject", "duplicate">>
    ELSE IF last >= 0 /\ r.t < last THEN <<"reject", "out_of_order">>
    ELSE IF r.enc = "nonmin_len" THEN <<"reject", "nonminimal">>
    ELSE IF IsUnkEven(r.t) THEN <<"reject", "unknown_even">>
    ELSE IF r.fit = "overrun" THEN <<"reject", "overrun">>
    ELSE IF IsKnown(r.t) /\ r.val = "bad" THEN <<"reject", "bad_value">>
    ELSE Scan(recs, i + 1, r.t)

HasSkippedOdd(recs) == \E i \in 1..Len(recs) : IsUnkOdd(recs[i].t)

Judge(m) ==
  IF m.opaque THEN <<"any", "opaque">>
  ELSE IF ~CanFit(m.size) THEN <<"any", "oversize">>              \* not a message
  ELSE IF m.tid \in {"unknown_odd", "custom_odd"} THEN <<"ignore", "unknown_odd_type">>
  ELSE IF m.tid \in {"unknown_even", "custom_even"} THEN <<"reject", "unknown_even_type">>
  ELSE IF m.fixed = "truncated" THEN <<"reject", "short_fixed">>
  ELSE IF m.fixed = "badvalue" THEN <<"reject", "bad_fixed_value">>
  ELSE IF m.inner = "overrun" THEN <<"reject", "inner_overrun">>
  ELSE IF m.inner = "mismatch" THEN <<"reject", "inner_mismatch">>
  ELSE IF m.inner = "short_opaque" THEN <<"any", "inner_shift">>
  ELSE IF ~m.tlvkind THEN
         \* no TLV stream: bytes after the fixed part are either retained (gossip excess data) or
         \* of no concern to the property
         IF m.tail \in {"none", "excess"} THEN <<"accept", IF m.tail = "excess" THEN "excess" ELSE "clean">>
         ELSE <<"any", "trailing">>
  ELSE LET s == Scan(m.recs, 1, -1) IN
         IF s[1] = "reject" THEN s
         ELSE IF m.tail = "none" THEN
                <<"accept", IF HasSkippedOdd(m.recs) THEN "skipped_odd"
                            ELSE IF Len(m.recs) > 0 THEN "present" ELSE "clean">>
         ELSE IF m.tail = "garbage" THEN <<"any", "trailing">>   \* may or may not parse as records
         ELSE <<"reject", "short_record">>      \* a started record that does not complete

Verdict(m) == Judge(m)[1]
Why(m)     == Judge(m)[2]

----------------------------------------------------------------------------
(* The same verdict stated as the list of BOLT-1 rules (declarative).  WireGen checks that the
   scanner and the rule list agree on every enumerated stream. *)
StreamClean(recs) ==
  \A i \in 1..Len(recs) :
     /\ (i > 1 => recs[i].t > recs[i - 1].t)          \* strictly ascending: no duplicate, no disorder
     /\ ~IsUnkEven(recs[i].t)                         \* "it's OK to be odd"
     /\ recs[i].enc = "min"                           \* minimal BigSize for type and length
     /\ recs[i].fit = "exact"                         \* value lies within the message
     /\ recs[i].val = "ok"

RuleVerdict(m) ==
  IF m.opaque THEN "any"
  ELSE IF ~CanFit(m.size) THEN "any"
  ELSE IF m.tid \in {"unknown_odd", "custom_odd"} THEN "ignore"
  ELSE IF m.tid # "known" THEN "reject"
  ELSE IF m.fixed # "complete" THEN "reject"
  ELSE IF m.inner \in {"overrun", "mismatch"} THEN "reject"     \* never read past a declared length
  ELSE IF m.inner = "short_opaque" THEN "any"
  ELSE IF m.tlvkind THEN (IF ~StreamClean(m.recs) THEN "reject"
                          ELSE IF m.tail = "none" THEN "accept"
                          ELSE IF m.tail = "garbage" THEN "any" ELSE "reject")
  ELSE IF m.tail \in {"none", "excess"} THEN "accept" ELSE "any"

(* The set of known TLVs an accepted stream carries = the presence subset of the decoded value. *)
Present(recs) == {KnownIdx(recs[i].t) : i \in {k \in 1..Len(recs) : IsKnown(recs[k].t)}}

(* What an execution may show for a verdict.  obs: "accept" (decoded), "reject" (error),
   "unknown" (wire::read surfaced Unknown(type), which the peer handler turns into ignore/error by
   parity), "ignore"/"reject" at the peer level (connection kept / dropped).
   exp: the engine could construct the value the shape denotes; eq: decoded = that value;
   rt: decode(encode(decoded)) = decoded;  canon: encode(decoded) = the input bytes, required when the
   shape says the input is canonical and (cexp) the unmanipulated encoding re-encodes to itself;
   n, unit, total: the measured length of the sized field (SizeOK). *)
Canonical(m) == m.inner \in {"boundary", "retained"}
Conforms(m, level, obs, exp, eq, rt, over, cexp, canon, n, unit, total) ==
  /\ ~over
  /\ SizeOK(m.size, n, unit, total)
  /\ LET v == Verdict(m) IN
     CASE v = "accept" -> obs = "accept" /\ (exp => eq) /\ rt /\ ((Canonical(m) /\ cexp) => canon)
       [] v = "reject" -> \/ obs = "reject"
                          \/ (level = "wire" /\ m.tid \in {"unknown_even", "custom_even"} /\ obs = "unknown")
       [] v = "ignore" -> \/ (level = "wire" /\ obs = "unknown")
                          \/ (level = "peer" /\ obs = "ignore")
       [] v = "any"    -> obs \in {"accept", "reject", "unknown"} /\ (obs = "accept" => rt)
=============================================================================
