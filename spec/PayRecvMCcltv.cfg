SPECIFICATION MCSpec
CONSTANTS
  C = 2
  MaxParts = 2
  Amts = {1, 3, 4}
  Tots = {4}
  Secs = {"ok"}
  Cls = {"far", "far2", "b0", "b1", "b2", "m-1", "m0"}
  RegAmt = 4
  RegMin = 50
  BUF = 39
  MPPT = 1
  MaxTicks = 1
  MaxBlocks = 2
  MaxDev = 2
  MaxOps = 5
  StaleClaim = FALSE
  Flds = {"none"}
  Sks = {"no"}
  Ups = {FALSE}
  RegMeta = 0
  ClaimKinds = {"claim"}
  Bug = "none"
  EmitMod = 1
CONSTRAINT Bound
VIEW View
INVARIANT AllOrNothing
INVARIANT EmitScripts
CHECK_DEADLOCK TRUE
