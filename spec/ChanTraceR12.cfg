SPECIFICATION TraceSpec
CONSTANT Relax = {"C12"}
INVARIANT TypeOK
INVARIANT CountersSane
INVARIANT ExactlyOnce
INVARIANT NonNegative
POSTCONDITION TraceAccepted
CHECK_DEADLOCK FALSE
