---------------------------- MODULE TransportMC ----------------------------
(* Bounded instance of Transport: up to MaxMsgs messages per direction, every cut of the byte
   streams into reads, partial socket accepts at frame boundaries +-1, one flipped byte at any
   in-flight position, a disconnect, a raw peer (a message of any class of Classes before / after
   Init -- the TransportMCfirst*.cfg instances enumerate every wire message type as the first
   message --, garbage instead of act one); prints one driver script per reachable drained state.  Lengths are abstract: each byte
   of the model stands for one class of real bytes (see `grid` in harness/src/bin/transport.rs),
   so script positions are (unit index, offset in unit) and the engine maps them to real offsets. *)
EXTENDS Transport, Json

CONSTANTS MaxMsgs1, MaxMsgs2,   \* messages per direction
          MaxOps,       \* bound on the number of driver operations
          MaxTampers, MaxBudgetOps, MaxDisc,
          EmitEvery,    \* print the script of every n-th idle state
          CutReads,     \* FALSE: a read takes everything in flight
          CutHandshake  \* FALSE: reads take everything in flight until the reader's handshake is done

MaxMsgs == <<MaxMsgs1, MaxMsgs2>>
VARIABLES hist, done, ntamp, nbud
mvars == <<cvars, hist, done, ntamp, nbud>>

\* (unit index, offset) of stream position P in a frame sequence; units: acts 1, messages 2
RECURSIVE PosFrom(_, _, _, _, _)
PosFrom(fs, k, start, u, P) ==
  IF k > Len(fs) THEN [u |-> u, o |-> 0]
  ELSE LET fr == fs[k]
           two == fr.kind \in MsgKinds IN
       IF P >= start + fr.len /\ ~(P = start + fr.len /\ k = Len(fs))
       THEN PosFrom(fs, k + 1, start + fr.len, u + (IF two THEN 2 ELSE 1), P)
       ELSE IF ~two THEN [u |-> u, o |-> P - start]
       ELSE IF P < start + HdrLen THEN [u |-> u, o |-> P - start]
       ELSE [u |-> u + 1, o |-> P - start - HdrLen]
Pos(fs, P) == PosFrom(fs, 1, 0, 0, P)

\* the frames stream s will consist of as far as the driver can foresee them
Foreseen(s) == sframes[s] \o [k \in 1..Len(appq[s]) |-> MsgFrame("msg", appq[s][k], MsgSize, 0, 0)]
Total(fs) == SumLen(fs, Len(fs))
\* offset inside its unit of stream position P
UnitOff(fs, P) == Pos(fs, P).o
NearBoundary(fs, P) ==
  \/ UnitOff(fs, P) \in {0, 1}
  \/ UnitOff(fs, P + 1) = 0

MCInit ==
  /\ Init
  /\ hist = <<>> /\ done = FALSE /\ ntamp = 0 /\ nbud = 0

Log(op) == hist' = Append(hist, op)
Same == UNCHANGED <<done, ntamp, nbud>>

MStep == CStep /\ UNCHANGED <<hist, done, ntamp, nbud>>
MQueue == \E d \in 1..2 :
  /\ ~done /\ CQueue(d) /\ Len(SelectSeq(hist, LAMBDA h : h.op = "queue" /\ h.d = d)) < MaxMsgs[d]
  /\ Log([op |-> "queue", d |-> d, kind |-> "custom"]) /\ Same
MProcessEvents == \E s \in 1..2 :
  /\ ~done /\ CProcessEvents(s)
  /\ Log([op |-> "pe", s |-> s]) /\ Same
MSocketAccepts == \E s \in 1..2 :
  /\ ~done /\ nbud < MaxBudgetOps /\ PM(s)
  /\ \/ \E k \in {-1, 0} : CSocketAccepts(s, k) /\ Log([op |-> "budget", s |-> s, k |-> k])
     \/ \E k \in 1..(Total(Foreseen(s)) - slen[s]) :
          /\ NearBoundary(Foreseen(s), slen[s] + k)
          /\ CSocketAccepts(s, k)
          /\ LET p == Pos(Foreseen(s), slen[s] + k) IN Log([op |-> "budget", s |-> s, u |-> p.u, o |-> p.o])
  /\ nbud' = nbud + 1 /\ UNCHANGED <<done, ntamp>>
MReadEvent == \E s \in 1..2 :
  /\ ~done /\ PM(s)
  /\ \E k \in 1..(slen[Other(s)] - given[Other(s)]) :
       /\ (CutReads /\ (CutHandshake \/ rstep[s] = "done")) \/ k = slen[Other(s)] - given[Other(s)]
       /\ CReadEvent(s, k)
       /\ LET p == Pos(sframes[Other(s)], given[Other(s)] + k) IN
          Log([op |-> "read", d |-> Other(s), u |-> p.u, o |-> p.o])
  /\ Same
MTamper == \E d \in 1..2 :
  /\ ~done /\ ntamp < MaxTampers
  /\ \E p \in given[d]..(slen[d] - 1) :
       /\ CTamper(d, p)
       /\ LET q == Pos(sframes[d], p) IN Log([op |-> "tamper", d |-> d, kind |-> "flip", u |-> q.u, b |-> q.o])
  /\ ntamp' = ntamp + 1 /\ UNCHANGED <<done, nbud>>
MDisconnect == \E s \in 1..2 :
  /\ ~done /\ Len(SelectSeq(hist, LAMBDA h : h.op = "disc")) < MaxDisc
  /\ CDisconnect(s) /\ Log([op |-> "disc", s |-> s]) /\ Same
MRawSend ==
  /\ ~done
  /\ \/ CRawStart /\ Log([op |-> "pe", s |-> 1])
     \/ CRawGarbage /\ Log([op |-> "raw_garbage", n |-> 50])
     \/ CRawInit /\ Log([op |-> "raw_init"])
     \/ \E c \in Classes :
        /\ CRawMsg(c) /\ Len(SelectSeq(hist, LAMBDA h : h.op = "queue" /\ h.d = RawSide)) < MaxMsgs[RawSide]
        /\ Log([op |-> "queue", d |-> RawSide, kind |-> c])
  /\ Same
MRawRead ==
  /\ ~done /\ CRawRead /\ Log([op |-> "read", d |-> Other(RawSide), k |-> -1]) /\ Same
MQuiesce ==
  /\ ~done /\ hist # <<>> /\ CQuiesce
  /\ Log([op |-> "drain"]) /\ done' = TRUE /\ UNCHANGED <<ntamp, nbud>>
MDone == done /\ UNCHANGED mvars

MCNext == MStep \/ MQueue \/ MProcessEvents \/ MSocketAccepts \/ MReadEvent \/ MTamper \/ MDisconnect
          \/ MRawSend \/ MRawRead \/ MQuiesce \/ MDone

MCSpec == MCInit /\ [][MCNext]_mvars

Bound == Len(hist) <= MaxOps
View == <<cvars, done, ntamp, nbud>>

\* Behaviour generation: the driver script leading to every (n-th) reachable idle state, completed
\* by the harness' drain operation
Thin == (given[1] + 3 * given[2] + 7 * slen[1] + 11 * slen[2] + 13 * Len(hist) + 17 * nextid) % EmitEvery = 0
EmitScripts ==
  (Idle /\ hist # <<>> /\ (done \/ Thin \/ hist[Len(hist)].op = "raw_garbage"))
    => PrintT(<<"SCRIPT", ToJson([mode |-> Mode,
                                   ops |-> IF done THEN hist ELSE Append(hist, [op |-> "drain"])])>>)
=============================================================================
