---------------------------- MODULE TransportTrace ----------------------------
(* Trace validation for C15: every recorded execution of two real PeerManagers (or a
   PeerManager and a raw BOLT-8 peer) joined by the harness socket pair must keep the
   clauses of TransportAbstract.  A trace file holds many runs (one connection each),
   each starting with a `reset` record. *)
EXTENDS TransportAbstract, Json, IOUtils

VARIABLE l

Rec == ndJsonDeserialize(IOEnv.TRACE)

tvars == <<avars, l>>

TraceInit ==
  /\ l = 1
  /\ mode = "off"
  /\ up = [s \in 1..2 |-> FALSE]
  /\ slen = [s \in 1..2 |-> 0] /\ hw = [s \in 1..2 |-> 0] /\ given = [s \in 1..2 |-> 0]
  /\ extra = [s \in 1..2 |-> 0]
  /\ queued = [s \in 1..2 |-> <<>>] /\ qend = [s \in 1..2 |-> 0]
  /\ tamp = [s \in 1..2 |-> -1] /\ tub = [s \in 1..2 |-> -1]
  /\ mustdrop = [s \in 1..2 |-> FALSE] /\ initrx = [s \in 1..2 |-> FALSE]
  /\ initend = [s \in 1..2 |-> -1] /\ fends = [s \in 1..2 |-> <<>>]
  /\ reading = 0 /\ dirty = FALSE /\ viol = ""

IsEvent(e) == l <= Len(Rec) /\ Rec[l].ev = e /\ l' = l + 1

\* (kept for readability of the actions below; a step that would break a clause is never taken)
Live == viol = ""

TReset == IsEvent("reset") /\ Live /\ Reset(Rec[l].mode)
TActOne == IsEvent("act_one") /\ Live /\ ActOne(Rec[l].len)
TSendData == IsEvent("send_data") /\ Live /\ SendData(Rec[l].s, Rec[l].off, Rec[l].acc)
TQueue == IsEvent("queue") /\ Live /\ Queue(Rec[l].d, Rec[l].id, Rec[l].size)
TRawSend == IsEvent("raw_send") /\ Live /\ RawSend(Rec[l].s, Rec[l].kind, Rec[l].id, Rec[l].size, Rec[l].len)
TTamper == IsEvent("tamper") /\ Live /\ Tamper(Rec[l].d, Rec[l].off, Rec[l].kind, Rec[l].n)
TReadBegin == IsEvent("read_begin") /\ Live /\ ReadBegin(Rec[l].s, Rec[l].len)
TReadEnd == IsEvent("read_end") /\ Live /\ ReadEnd(Rec[l].s, Rec[l].ok)
TDelivered == IsEvent("delivered") /\ Live /\ Delivered(Rec[l].s, Rec[l].id, Rec[l].size, Rec[l].ok)
TCallback == IsEvent("callback") /\ Live /\ HandlerCall(Rec[l].s)
TPeerConnected == IsEvent("peer_connected") /\ Live /\ PeerConnected(Rec[l].s)
TPeerDisconnected == IsEvent("peer_disconnected") /\ Live /\ PeerDisconnected(Rec[l].s)
TDisconnectSocket == IsEvent("disconnect_socket") /\ Live /\ Dropped(Rec[l].s)
TConnectErr == IsEvent("connect_err") /\ Live /\ Dropped(Rec[l].s)
TWsa == IsEvent("wsa") /\ Live /\ IF Rec[l].ok THEN UNCHANGED avars ELSE Dropped(Rec[l].s)
TSocketDisconnected == IsEvent("socket_disconnected") /\ Live /\ SocketDisconnected(Rec[l].s)
TQuiesce == IsEvent("quiesce") /\ Live /\ Quiesce(Rec[l].complete)
TPanic == IsEvent("panic") /\ Live /\ Panic
\* driver operations are logged for replay/diagnostics only
TOp == IsEvent("op") /\ Live /\ UNCHANGED avars

\* A step that breaks a clause of the property is not taken: the clause is printed and the trace is
\* rejected at that record (so that TLC does not have to print a behaviour of 10^5 states).
Report == viol' = "" \/ (PrintT(<<"CLAUSE", viol', l>>) /\ FALSE)

TraceStep == TReset \/ TActOne \/ TSendData \/ TQueue \/ TRawSend \/ TTamper \/ TReadBegin
             \/ TReadEnd \/ TDelivered \/ TCallback \/ TPeerConnected \/ TPeerDisconnected \/ TDisconnectSocket
             \/ TConnectErr \/ TWsa \/ TSocketDisconnected \/ TQuiesce \/ TPanic \/ TOp

TraceNext == TraceStep /\ Report

TraceSpec == TraceInit /\ [][TraceNext]_tvars

TraceAccepted ==
  LET d == TLCGet("stats").diameter IN
  IF d - 1 = Len(Rec) THEN TRUE
  ELSE /\ PrintT(<<"REJECT", d, Len(Rec)>>)
       /\ FALSE
=============================================================================
