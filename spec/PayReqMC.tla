------------------------------ MODULE PayReqMC ------------------------------
(* Bounded instance of PayReq.
   Part (i): all derivation chains offer/refund -> [altered copy] -> invoice request -> invoice
   with at most MaxObjs objects, MaxRoots offers/refunds and MaxAlters alterations, built by two
   parties; at every build state every verification call (each party, each API, each known
   nonce) is taken and VerifySound is checked.  Every maximal build state is printed as a driver
   script for the Rust engine.
   Part (ii): all builder field-presence subsets of BOLT-11 invoices and BOLT-12 offers /
   refunds, printed as CASE directives; the mutation classes and every combination of parse
   observations the table allows are stepped through.
   Part (iii): boundary values of every numeric builder input (all combinations), printed as CASE
   directives with the numbers; whether the builder must accept / must refuse them is judged on
   the real answer by the trace spec. *)
EXTENDS PayReq, Json

CONSTANTS MaxObjs, MaxRoots, MaxAlters

VARIABLE hist
mvars == <<pvars, hist>>

Op(op, n, mode, src, cls) == [op |-> op, n |-> n, mode |-> mode, src |-> src, cls |-> cls]

Roots == {i \in Ids : objs[i].src = 0}
Alters == {i \in Ids : objs[i].by = 0}
Building == last.op = "none" /\ tc.fmt = "none"
Room == Len(objs) < MaxObjs

MCInit == Init /\ hist = <<>>

-----------------------------------------------------------------------------
(* part (i) *)
MCreateOffer == \E n \in Nodes, m \in KeyModes :
  /\ Building /\ Room /\ Cardinality(Roots) < MaxRoots
  /\ (Roots = {} => n = 1)                       \* symmetry: the first root is built by node 1
  /\ CreateOffer(n, m) /\ hist' = Append(hist, Op("offer", n, m, 0, "none"))
MCreateRefund == \E n \in Nodes, m \in KeyModes :
  /\ Building /\ Room /\ Cardinality(Roots) < MaxRoots
  /\ (Roots = {} => n = 1)
  /\ CreateRefund(n, m) /\ hist' = Append(hist, Op("refund", n, m, 0, "none"))
MAlter == \E s \in Ids, c \in AlterClasses :
  /\ Building /\ Room /\ Cardinality(Alters) < MaxAlters
  /\ ~\E j \in Ids : objs[j].by = 0 /\ objs[j].src = s      \* one altered copy per original
  /\ Alter(s, c) /\ hist' = Append(hist, Op("alter", 0, "none", s, c))
MRequest == \E n \in Nodes, s \in Ids :
  /\ Building /\ Room
  /\ ~\E j \in Ids : objs[j].kind = "invreq" /\ objs[j].src = s /\ objs[j].by = n
  /\ RequestInvoice(n, s) /\ hist' = Append(hist, Op("request", n, "none", s, "none"))
MRespond == \E n \in Nodes, r \in Ids, a \in {"none"} \cup AlterClasses :
  /\ Building /\ Room
  /\ ~\E j \in Ids : objs[j].kind = "invoice" /\ objs[j].src = r
  /\ RespondInvoice(n, r, a) /\ hist' = Append(hist, Op("respond", n, "none", r, a))
MRespondRefund == \E n \in Nodes, s \in Ids :
  /\ Building /\ Room
  /\ ~\E j \in Ids : objs[j].kind = "invoice" /\ objs[j].src = s
  /\ RespondToRefund(n, s) /\ hist' = Append(hist, Op("respond_refund", n, "none", s, "none"))

\* nonces a verifier may try: none (0) or the nonce of any path-mode offer
Nonces == {0} \cup {i \in Ids : objs[i].kind = "offer" /\ objs[i].src = 0 /\ objs[i].mode = "path"}

VReq(n, r, via, nz) ==
  /\ Building /\ IsKind(r, "invreq")
  /\ (via = "metadata") = (nz = 0)
  /\ VerifyInvReq(n, r, via, nz, AcceptsInvReq(n, r, via, nz)) /\ UNCHANGED hist
VInv(n, i) ==
  /\ Building /\ IsKind(i, "invoice")
  /\ VerifyInvoice(n, i, AcceptsInvoice(n, i)) /\ UNCHANGED hist

\* split by answer and reason so that -coverage shows that every kind of answer occurs
MVerifyReqAccept == \E n \in Nodes, r \in Ids, via \in {"metadata", "recipient"}, nz \in Nonces :
  VReq(n, r, via, nz) /\ AcceptsInvReq(n, r, via, nz)
MVerifyReqRefuseAltered == \E n \in Nodes, r \in Ids, via \in {"metadata", "recipient"}, nz \in Nonces :
  VReq(n, r, via, nz) /\ ~AcceptsInvReq(n, r, via, nz)
    /\ objs[r].otamp /\ objs[objs[r].root].by = n
MVerifyReqRefuseOther == \E n \in Nodes, r \in Ids, via \in {"metadata", "recipient"}, nz \in Nonces :
  VReq(n, r, via, nz) /\ ~AcceptsInvReq(n, r, via, nz)
    /\ ~(objs[r].otamp /\ objs[objs[r].root].by = n)
MVerifyInvAccept == \E n \in Nodes, i \in Ids : VInv(n, i) /\ AcceptsInvoice(n, i)
MVerifyInvRefuseAltered == \E n \in Nodes, i \in Ids :
  VInv(n, i) /\ ~AcceptsInvoice(n, i) /\ objs[i].ptamp /\ objs[PayerRoot(i)].by = n
MVerifyInvRefuseOther == \E n \in Nodes, i \in Ids :
  VInv(n, i) /\ ~AcceptsInvoice(n, i) /\ ~(objs[i].ptamp /\ objs[PayerRoot(i)].by = n)
MVerifyReturn == VerifyReturn /\ UNCHANGED hist

CanBuild ==
  /\ Room
  /\ \/ Cardinality(Roots) < MaxRoots
     \/ \E n \in Nodes, s \in Ids : IsKind(s, "offer")
          /\ ~\E j \in Ids : objs[j].kind = "invreq" /\ objs[j].src = s /\ objs[j].by = n
     \/ \E n \in Nodes, r \in Ids, a \in {"none"} \cup AlterClasses : CanRespond(n, r, a)
          /\ ~\E j \in Ids : objs[j].kind = "invoice" /\ objs[j].src = r
     \/ \E s \in Ids : IsKind(s, "refund") /\ ~\E j \in Ids : objs[j].kind = "invoice" /\ objs[j].src = s
     \/ /\ Cardinality(Alters) < MaxAlters
        /\ \E s \in Ids, c \in AlterClasses : CanAlter(s, c)
             /\ ~\E j \in Ids : objs[j].by = 0 /\ objs[j].src = s

\* a script is worth running if something in it can be verified
HasVerifiable == \E i \in Ids : objs[i].kind \in {"invreq", "invoice"}

EmitScripts ==
  (Building /\ Len(objs) > 0 /\ ~CanBuild /\ HasVerifiable)
    => PrintT(<<"SCRIPT", ToJson([ops |-> hist])>>)

-----------------------------------------------------------------------------
(* part (ii): presence subsets and verdict table *)
B11Pres == [amt : {"none", "zero", "small", "big", "max"}, desc : {"direct", "empty", "hash"},
            expiry : {"none", "some"}, fb : 0..2, routes : 0..2, payee : {"recovered", "explicit"},
            meta : {"none", "opt", "req"}, mpp : BOOLEAN]
B12Pres == [root : {"offer", "refund"}, mode : {"explicit", "explicitmd", "meta", "path"},
            chain : {"default", "testnet", "two"}, amt : {"none", "some", "max"},
            desc : BOOLEAN, expiry : BOOLEAN, issuer : BOOLEAN, paths : 0..2,
            qty : {"one", "bounded", "unbounded"}]
\* B12Valid (PayReq): the presence subsets the BOLT-12 builders accept

Bools == BOOLEAN
Obs11 == [parsed : Bools, payee_eq : Bools, signed_eq : Bools, has_n : Bools]

\* the verdict table does not depend on the presence subset: step through it for one subset of each format
Canon11 == [amt |-> "none", desc |-> "direct", expiry |-> "none", fb |-> 0, routes |-> 0,
            payee |-> "recovered", meta |-> "none", mpp |-> FALSE]
Canon12 == [root |-> "offer", mode |-> "explicit", chain |-> "default", amt |-> "none", desc |-> FALSE,
            expiry |-> FALSE, issuer |-> FALSE, paths |-> 0, qty |-> "one"]
\* the numbers a presence case is run with are chosen (seeded, admissible) by the engine and judged
\* by the trace spec; here: ordinary ones
Ord11 == [ts |-> <<0, 1, 700000000>>, expiry |-> <<0, 0, 3600>>, cltv |-> <<0, 0, 18>>,
          amt |-> <<0, 0, 2500000>>, desc |-> 12]
Ord12 == [amt |-> <<0, 0, 2500000>>, qty |-> NoNum, aexp |-> NoNum]
OrdI12 == [created |-> <<0, 1, 790000000>>, rexp |-> NoNum]
Free == objs = <<>> /\ tc.fmt = "none" /\ last.op = "none"

MCase11 ==
  /\ Free
  /\ \E p \in B11Pres : CaseBuild11(Ord11, TRUE) /\ hist' = <<[fmt |-> "b11", pres |-> p]>>
MCase12 ==
  /\ Free
  /\ \E p \in B12Pres : B12Valid(p) /\ CaseBuild12(p, TRUE) /\ hist' = <<[fmt |-> "b12", pres |-> p]>>

(* part (iii): boundary values of every numeric field, all combinations *)
U64Points(ord) == {Zero, One, ord, MaxU32, Succ(MaxU32)} \cup Around(MaxU64)
B11Vals == [ts : {Zero, One, Ord11.ts, MaxU64} \cup Around(MaxTimestamp),
            expiry : {NoNum} \cup U64Points(Ord11.expiry),
            cltv : U64Points(Ord11.cltv),
            amt : {NoNum, Zero, One, Ord11.amt, MaxU64} \cup Around(MaxMsat11),
            desc : {0 - 1, 0, 1, Ord11.desc, MaxDescBytes - 1, MaxDescBytes, MaxDescBytes + 1}]
B12Vals == [root : {"offer", "refund"},
            amt : {NoNum, Zero, One, Ord12.amt, MaxU64} \cup Around(MaxValueMsat),
            qty : {NoNum, Zero, One, <<0, 0, 2>>, Pred(MaxU64), MaxU64},
            aexp : {NoNum, Zero, One, <<0, 4, 0>>, Pred(MaxU64), MaxU64}]
I12Vals == [created : {Zero, One, OrdI12.created} \cup Around(MaxU32) \cup {Pred(MaxU64), MaxU64},
            rexp : {NoNum, Zero, One, <<0, 0, 7200>>} \cup Around(MaxU32)]
\* number of fields off their ordinary value (the check runs all cases with few, samples the rest)
Off(v, ord) == Cardinality({f \in DOMAIN ord : v[f] # ord[f]})

NumCase(fmt, v, off) == hist' = <<[fmt |-> fmt, vals |-> v, off |-> off]>>
MCaseNum11Built == Free /\ \E v \in B11Vals :
  CaseBuild11(v, TRUE) /\ NumCase("n11", v, Off(v, Ord11))
MCaseNum11Refused == Free /\ \E v \in B11Vals :
  CaseBuild11(v, FALSE) /\ NumCase("n11", v, Off(v, Ord11))
MCaseNum12Built == Free /\ \E v \in B12Vals : IsB12Input(v) /\
  CaseBuildNum12(v, TRUE) /\ NumCase("n12", v, Off(v, Ord12))
MCaseNum12Refused == Free /\ \E v \in B12Vals : IsB12Input(v) /\
  CaseBuildNum12(v, FALSE) /\ NumCase("n12", v, Off(v, Ord12))
MCaseInv12 == Free /\ \E v \in I12Vals :
  CaseBuildInv12(v, TRUE) /\ NumCase("i12", v, Off(v, OrdI12))
\* an assembled string / stream: any observation the table allows, for ordinary numbers
ObsA == [canon : Bools, parsed : Bools, reser : Bools, signer_eq : Bools, got : {Ord11, [Ord11 EXCEPT !.ts = Zero]}]
MAssembled == \E o \in ObsA :
  tc.fmt = "b11" /\ hist[1].fmt = "b11" /\ hist[1].pres = Canon11 /\ CaseAssembled(Ord11, o) /\ UNCHANGED hist
MExposed ==
  tc.fmt = "b11" /\ hist[1].fmt = "b11" /\ hist[1].pres = Canon11 /\ CaseExposed(Ord11) /\ UNCHANGED hist
MRoundTrip == \E k \in {"b11"} \cup B12Kinds :
  /\ tc.stage = "built"
  /\ CaseRoundTrip(k, [parsed |-> TRUE, equal |-> TRUE, acc |-> TRUE, reser |-> TRUE])
  /\ UNCHANGED hist
MMutate11 == \E c \in B11Classes, o \in Obs11 :
  tc.fmt = "b11" /\ hist[1].fmt = "b11" /\ hist[1].pres = Canon11 /\ CaseMutate11(c, o) /\ UNCHANGED hist
MMutate12 == \E k \in B12Kinds, b \in Bools :
  tc.fmt = "b12" /\ hist[1].fmt = "b12" /\ hist[1].pres = Canon12 /\ CaseMutate12(k, b) /\ UNCHANGED hist

\* a refused case is a case too (tc.fmt = "refused")
EmitCases ==
  ((tc.stage = "built" \/ tc.fmt = "refused") /\ Len(hist) = 1) => PrintT(<<"CASE", ToJson(hist[1])>>)

\* the admissibility rules are consistent and both answers occur among the enumerated inputs
ASSUME AdmissibleSane ==
  /\ \A v \in B11Vals : ~(B11MustAccept(v) /\ B11MustRefuse(v))
  /\ B11MustAccept(Ord11) /\ B11MustAccept([Ord11 EXCEPT !.ts = MaxTimestamp])
  /\ B11MustRefuse([Ord11 EXCEPT !.ts = Succ(MaxTimestamp)])
  /\ Succ(Pred(MaxU64)) = MaxU64 /\ Pred(Succ(MaxU32)) = MaxU32 /\ Lt(MaxU32, MaxTimestamp)
  /\ Lt(MaxTimestamp, MaxMsat11) /\ Lt(MaxMsat11, MaxValueMsat) /\ Lt(MaxValueMsat, MaxU64)

\* table sanity: no allowed BOLT-11 observation keeps the holder's name on altered content
NoForgery11 == \A c \in B11Classes, o \in Obs11 :
  B11Allowed(c, o) => ~(o.parsed /\ ~o.signed_eq /\ (o.payee_eq \/ o.has_n))

-----------------------------------------------------------------------------
MCNext == \/ MCreateOffer \/ MCreateRefund \/ MAlter \/ MRequest \/ MRespond \/ MRespondRefund
          \/ MVerifyReqAccept \/ MVerifyReqRefuseAltered \/ MVerifyReqRefuseOther
          \/ MVerifyInvAccept \/ MVerifyInvRefuseAltered \/ MVerifyInvRefuseOther \/ MVerifyReturn
          \/ MCase11 \/ MCase12 \/ MRoundTrip \/ MMutate11 \/ MMutate12
          \/ MCaseNum11Built \/ MCaseNum11Refused \/ MCaseNum12Built \/ MCaseNum12Refused
          \/ MCaseInv12 \/ MAssembled \/ MExposed

MCSpec == MCInit /\ [][MCNext]_mvars

View == <<objs, last, tc, IF tc.fmt = "none" THEN <<>> ELSE hist>>
=============================================================================
