SPECIFICATION TraceSpec
INVARIANT AllOrNothing
POSTCONDITION TraceAccepted
CHECK_DEADLOCK FALSE
