------------------------------ MODULE MUPTrace ------------------------------
(* Trace validation for C19 (b): the store operations the real
   MonitorUpdatingPersister issued on a recording, fault-injecting store, its reports, and the
   outcome of the real recovery at every crash point x subset of landed lazy removals must be a
   behaviour of MUPAbstract keeping its invariants. *)
EXTENDS MUPAbstract, Json, IOUtils

VARIABLE l

Rec == ndJsonDeserialize(IOEnv.TRACE)

tvars == <<avars, l>>

ToSet(s) == {s[i] : i \in DOMAIN s}

TraceInit == l = 1 /\ AInit

IsEvent(e) == l <= Len(Rec) /\ Rec[l].ev = e /\ l' = l + 1

TReset == IsEvent("reset") /\ mon' = -1 /\ upds' = <<>> /\ lazy' = {} /\ reported' = {}
          /\ recs' = {} /\ unsafe' = FALSE

TCall == IsEvent("call") /\ UNCHANGED avars
TQuery == IsEvent("sq") /\ UNCHANGED avars
TRestart == IsEvent("restart") /\ UNCHANGED avars

TStoreOp ==
  /\ IsEvent("sop")
  /\ LET r == Rec[l] IN
     CASE r.class = "mon" /\ r.op = "write" -> AWriteMon(r.cid, r.applied)
       [] r.class = "mon" /\ r.op = "remove" -> ARemoveMon(r.applied)
       [] r.class = "upd" /\ r.op = "write" -> AWriteUpd(r.k, r.cid, r.applied)
       [] r.class = "upd" /\ r.op = "remove" -> ARemoveUpd(r.k, r.lazy, r.applied)
       [] OTHER -> AOther

TRet ==
  /\ IsEvent("ret")
  /\ LET r == Rec[l] IN
     IF r.status = "completed" /\ r.kind \in {"new", "upd"} THEN AReport(r.id)
     ELSE UNCHANGED avars

TRec == IsEvent("rec") /\ LET r == Rec[l] IN ARec(ToSet(r.land), r.kind, r.rid, r.eq, r.rf)
TCrash == IsEvent("crash") /\ ACrash(ToSet(Rec[l].land))

TraceNext == TReset \/ TCall \/ TQuery \/ TRestart \/ TStoreOp \/ TRet \/ TRec \/ TCrash

TraceSpec == TraceInit /\ [][TraceNext]_tvars

TraceAccepted ==
  LET d == TLCGet("stats").diameter IN
  IF d - 1 = Len(Rec) THEN TRUE
  ELSE /\ PrintT(<<"REJECT", d, Len(Rec)>>)
       /\ FALSE
=============================================================================
