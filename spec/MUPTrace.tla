------------------------------ MODULE MUPTrace ------------------------------
(* Trace validation for C19 (b): the store operations the real
   MonitorUpdatingPersister issued on a recording, fault-injecting store -- called directly
   (engine mode `mup`) or by a real ChainMonitor (mode `cm`: watch_channel / update_channel with
   accepted and refused updates, block connections, deferred completion, archiving) --, its
   reports, and the outcome of the real recovery at every crash point x subset of landed lazy
   removals must be a behaviour of MUPAbstract keeping its invariants.
   A report is: the persister returning Completed for a new monitor, an update, or a full
   monitor write (the id is the monitor's latest update id); when the caller was told InProgress
   the report is the later completion (`complete`, channel_monitor_updated). *)
EXTENDS MUPAbstract, Json, IOUtils

VARIABLE l

Rec == ndJsonDeserialize(IOEnv.TRACE)

tvars == <<avars, l>>

ToSet(s) == {s[i] : i \in DOMAIN s}

TraceInit == l = 1 /\ AInit

IsEvent(e) == l <= Len(Rec) /\ Rec[l].ev = e /\ l' = l + 1

TReset == IsEvent("reset") /\ mon' = -1 /\ monLazy' = FALSE /\ upds' = <<>> /\ lazy' = {}
          /\ reported' = {} /\ recs' = {} /\ unsafe' = FALSE

TCall == IsEvent("call") /\ UNCHANGED avars
TQuery == IsEvent("sq") /\ UNCHANGED avars
TRestart == IsEvent("restart") /\ UNCHANGED avars

TStoreOp ==
  /\ IsEvent("sop")
  /\ LET r == Rec[l] IN
     CASE r.class = "mon" /\ r.op = "write" -> AWriteMon(r.cid, r.applied)
       [] r.class = "mon" /\ r.op = "remove" -> ARemoveMon(r.lazy, r.applied)
       [] r.class = "upd" /\ r.op = "write" -> AWriteUpd(r.k, r.cid, r.applied)
       [] r.class = "upd" /\ r.op = "remove" -> ARemoveUpd(r.k, r.lazy, r.applied)
       [] OTHER -> AOther

TRet ==
  /\ IsEvent("ret")
  /\ LET r == Rec[l] IN
     IF r.status = "completed" /\ r.kind \in {"new", "upd", "full"} THEN AReport(r.id)
     ELSE UNCHANGED avars

(* channel_monitor_updated for a persistence that had been returned InProgress *)
TComplete == IsEvent("complete") /\ AReport(Rec[l].id)

(* the caller asks for the channel to be archived *)
TArchive == IsEvent("archive") /\ AArchive

TRec == IsEvent("rec") /\ LET r == Rec[l] IN ARec(ToSet(r.land), r.landmon, r.kind, r.rid, r.eq, r.rf)
TCrash == IsEvent("crash") /\ ACrash(ToSet(Rec[l].land), Rec[l].landmon)

TraceNext == TReset \/ TCall \/ TQuery \/ TRestart \/ TStoreOp \/ TRet \/ TComplete \/ TArchive
             \/ TRec \/ TCrash

TraceSpec == TraceInit /\ [][TraceNext]_tvars

TraceAccepted ==
  LET d == TLCGet("stats").diameter IN
  IF d - 1 = Len(Rec) THEN TRUE
  ELSE /\ PrintT(<<"REJECT", d, Len(Rec)>>)
       /\ FALSE
=============================================================================
