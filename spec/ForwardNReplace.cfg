SPECIFICATION Spec
CONSTANTS
  H = {1, 2}
  BlockerMode = "replace"
  MaxCrash = 2
INVARIANT PreimageBeforeForget
INVARIANT NoLoss
INVARIANT NoTheft
CHECK_DEADLOCK TRUE
