------------------------------ MODULE OnionMC ------------------------------
(***************************************************************************)
(* Design model + bounded instance for C14.  It refines Onion by            *)
(* construction (every action conjoins the abstract action; the abstract    *)
(* guards are evaluated on results *computed from a symbolic packet*, and   *)
(* the Progress invariants make an unmet abstract guard a TLC error):       *)
(*                                                                         *)
(*  pkt   the onion in flight: hop_data as a sequence of segments           *)
(*        [owner, len] (owner j = payload + hmac destined to hop j,         *)
(*        owner 0 = padding / filler), the hop the ephemeral key is         *)
(*        blinded for, and whether the authenticated bytes are intact.      *)
(*        Peeling reads the head segment, shifts left and re-pads on the    *)
(*        right; a hop is final iff nothing but padding follows its         *)
(*        payload (the next hmac is zero).                                  *)
(*  fpkt  a failure / fulfil travelling back: originator, code, the         *)
(*        sequence of encryption layers (outermost first) and the           *)
(*        attribution array, which keeps at most MaxAttrHops entries        *)
(*        (inserting at the front drops the oldest).                        *)
(*                                                                         *)
(* Routes are enumerated over byte-length classes of the amounts and        *)
(* expiries of every leg, the recipient-field sizes (including sizes that   *)
(* fill hop_data exactly, one byte less and one byte more) and blinded      *)
(* tails; the size arithmetic of Onion decides which fit.  Failures are     *)
(* enumerated over hop position x failure form (FailForms): the class bits  *)
(* of the code, and for every BOLT 4 message that carries data the          *)
(* magnitudes of its fixed fields (expiries / heights around the multiples  *)
(* of 2^16 and 2^24, amounts with high bytes set, flags) x the length of    *)
(* the channel_update (none / small / realistic / large) x malformed        *)
(* variants; `Blame` is the design-level decision table of the sender.      *)
(* Every terminal state prints a driver script for harness/src/bin/onion.rs *)
(***************************************************************************)
EXTENDS Onion, Json

CONSTANTS
  MaxN,        \* longest route tried (longer ones than fit are tried too)
  SizeNs,      \* route lengths enumerated in "size" mode
  OpsNs,       \* route lengths enumerated in "ops" mode
  AmtLens,     \* byte-length classes of amounts
  CltvLens,    \* byte-length classes of expiries
  Metas,       \* subset of {"none","empty","small","big","fillm","fill","fillp"}
  Customs,     \* subset of {"none","small","two","fill","fillp"}
  Blindeds,    \* numbers of blinded hops tried (0 = no blinded tail)
  CodeClasses, \* subset of {"node_temp","node_perm","perm","plain","recipient"}: codes whose data
               \* the sender does not interpret, originated with DLens bytes of arbitrary data
  DLens,       \* failure data lengths of those
  ULens,       \* channel_update lengths of well-formed UPDATE messages
  KeyHops,     \* failing positions at which every failure form is tried, besides 1, 2, N-1, N
  EncFwd, EncRecv  \* length of the encrypted recipient data of a blinded forward / receive hop

VARIABLES pkt, fpkt, mode, hist

mvars == <<ovars, pkt, fpkt, mode, hist>>

-----------------------------------------------------------------------------
(* representative values of a byte-length class, offset x keeps hops apart  *)
AmtRep(a, x) ==
  CASE a = 1 -> <<1 + x, 0, 0>>
    [] a = 2 -> <<256 + x, 0, 0>>
    [] a = 3 -> <<65536 + x, 0, 0>>
    [] a = 4 -> <<x, 1, 0>>
    [] a = 5 -> <<x, 256, 0>>
    [] a = 6 -> <<x, 65536, 0>>
    [] a = 7 -> <<x, 0, 1>>
    [] a = 8 -> <<x, 0, 256>>
CltvRep(c, x) ==
  CASE c = 1 -> 50 + x
    [] c = 2 -> 256 + x
    [] c = 3 -> 65536 + x
    [] c = 4 -> 16777216 + x

(* a class pattern <<hi, lo, s>>: legs 2..s carry class hi, legs s+1..n class lo *)
Patterns(n, lens, adjacentOnly) ==
  {<<c, c, 1>> : c \in lens}
  \cup {p \in lens \X lens \X {2, (n + 1) \div 2, n - 1} :
          /\ p[3] >= 2 /\ p[3] <= n - 1
          /\ p[1] > p[2] /\ (adjacentOnly => p[1] = p[2] + 1)}
LegClass(p, j) == IF j <= p[3] THEN p[1] ELSE p[2]
\* expiries of one byte exist only just above the chain tip: at most 4 legs
CltvFeasible(n, b, p) ==
  /\ Cardinality({j \in 2..n : LegClass(p, j) = 1}) + (IF n = 1 /\ p[2] = 1 THEN 1 ELSE 0) <= 4
  /\ b > 0 => p[2] >= 2

FinalVariants ==
  {v \in [sec : BOOLEAN, ks : BOOLEAN, t8 : BOOLEAN, meta : Metas, cust : Customs] :
      /\ v.sec \/ v.ks
      /\ ~(v.meta \in {"fillm", "fill", "fillp"} /\ v.cust \in {"fill", "fillp"})
      /\ v.t8 => v.sec}

SmallCustom == [t |-> <<70001, 0, 0>>, len |-> 3, fp |-> "c1"]
EmptyCustom == [t |-> <<65537, 0, 0>>, len |-> 0, fp |-> "c0"]
WideCustom(len) == [t |-> <<11, 600, 0>>, len |-> len, fp |-> "c9"]   \* 9-byte type
FillCustom(len) == [t |-> <<70003, 0, 0>>, len |-> len, fp |-> "cf"]

BaseCustoms(v) ==
  CASE v.cust = "none" -> <<>>
    [] v.cust = "small" -> <<SmallCustom>>
    [] v.cust = "two" -> <<EmptyCustom, WideCustom(260)>>
    [] OTHER -> <<>>
BaseMeta(v) ==
  CASE v.meta = "none" -> -1
    [] v.meta = "empty" -> 0
    [] v.meta = "small" -> 5
    [] v.meta = "big" -> 253
    [] OTHER -> -1

(* the route for n hops of which the last b are blinded *)
MkRoute(n, b, ap, cp, v, metaLen, fillCustomLen) ==
  LET u == IF b > 0 THEN n - b + 1 ELSE n
      legAmt(j) == AmtRep(LegClass(ap, j), n - j)
      legCltv(j) == CltvRep(LegClass(cp, j), 48 * (n - j))
      blank == [kind |-> "fwd", amt |-> <<0, 0, 0>>, cltv |-> 0, scid |-> <<0, 0, 0>>,
                secret |-> "", total |-> <<0, 0, 0>>, meta_len |-> -1, meta_fp |-> "",
                customs |-> <<>>, keysend |-> "", enc_len |-> 0, intro |-> FALSE]
      finAmt == IF n = 1 THEN AmtRep(ap[2], 0) ELSE legAmt(n)
      finCltv == IF n = 1 THEN CltvRep(cp[2], 0) ELSE legCltv(n)
      customs == IF fillCustomLen >= 0 THEN BaseCustoms(v) \o <<FillCustom(fillCustomLen)>>
                 ELSE BaseCustoms(v)
  IN [i \in 1..n |->
       IF i < n
       THEN IF b > 0 /\ i >= u
            THEN [blank EXCEPT !.kind = "bfwd", !.amt = legAmt(i + 1), !.cltv = legCltv(i + 1),
                               !.scid = <<i + 1, 7, 0>>, !.enc_len = EncFwd, !.intro = (i = u)]
            ELSE [blank EXCEPT !.amt = legAmt(i + 1), !.cltv = legCltv(i + 1),
                               !.scid = <<i + 1, 7, 0>>]
       ELSE IF b > 0
            THEN [blank EXCEPT !.kind = "bfinal", !.amt = finAmt, !.cltv = finCltv,
                               !.secret = "s", !.total = IF v.t8 THEN AmtRep(8, 0) ELSE finAmt,
                               !.customs = customs, !.keysend = IF v.ks THEN "k" ELSE "",
                               !.enc_len = EncRecv, !.intro = (i = u)]
            ELSE [blank EXCEPT !.kind = "final", !.amt = finAmt, !.cltv = finCltv,
                               !.secret = IF v.sec THEN "s" ELSE "",
                               !.total = IF v.sec THEN (IF v.t8 THEN AmtRep(8, 0) ELSE finAmt)
                                         ELSE <<0, 0, 0>>,
                               !.meta_len = metaLen, !.meta_fp = IF metaLen >= 0 THEN "m" ELSE "",
                               !.customs = customs, !.keysend = IF v.ks THEN "k" ELSE ""]]

(* largest length of the filler field (metadata or a custom TLV) of the final hop with which
   route r0 (built with an empty filler) still fits; -1 if not even the empty one fits.
   `setLen(h, len)` is the final hop descriptor with a filler of length len.              *)
FillLen(r0, setLen(_, _)) ==
  LET n == Len(r0)
      others == SumLens(r0) - HopLen(r0[n])
      spare == HopDataLen - SumLens(r0)          \* room left with an empty filler
      fits(m) == others + HopLen(setLen(r0[n], m)) <= HopDataLen
      cands == {m \in (spare - 6)..spare : m >= 0 /\ fits(m)}
  IN IF spare < 0 THEN -1
     ELSE IF cands = {} THEN 0 ELSE CHOOSE m \in cands : \A m2 \in cands : m2 <= m

SetMeta(h, len) == [h EXCEPT !.meta_len = len, !.meta_fp = "m"]
SetFillCustom(h, len) ==
  [h EXCEPT !.customs = SubSeq(@, 1, Len(@) - 1) \o <<FillCustom(len)>>]

RouteFor(n, b, ap, cp, v) ==
  LET metaFill == v.meta \in {"fillm", "fill", "fillp"}
      custFill == v.cust \in {"fill", "fillp"}
      adj(kind, len) == IF len < 0 THEN -1
                        ELSE IF kind \in {"fillm"} THEN Max(len - 1, 0)
                        ELSE IF kind \in {"fillp"} THEN len + 1 ELSE len
      rM == MkRoute(n, b, ap, cp, v, 0, -1)
      rC == MkRoute(n, b, ap, cp, v, BaseMeta(v), 0)
      lenM == adj(v.meta, FillLen(rM, SetMeta))
      lenC == adj(v.cust, FillLen(rC, SetFillCustom))
  IN IF metaFill
       THEN IF lenM < 0 THEN MkRoute(n, b, ap, cp, v, -1, -1)
            ELSE [rM EXCEPT ![n] = SetMeta(@, lenM)]
     ELSE IF custFill
       THEN IF lenC < 0 THEN MkRoute(n, b, ap, cp, v, BaseMeta(v), -1)
            ELSE [rC EXCEPT ![n] = SetFillCustom(@, lenC)]
     ELSE MkRoute(n, b, ap, cp, v, BaseMeta(v), -1)

ScriptOf(n, b, ap, cp, v, r) ==
  LET u == IF b > 0 THEN n - b + 1 ELSE n
      f == r[n]
  IN [n |-> n, b |-> b,
      legs |-> [j \in 1..(u - 1) |-> [a |-> LegClass(ap, j + 1), c |-> LegClass(cp, j + 1)]],
      fin |-> [a |-> IF n = 1 THEN ap[2] ELSE LegClass(ap, n),
               c |-> IF n = 1 THEN cp[2] ELSE LegClass(cp, n)],
      final |-> [secret |-> f.secret # "" /\ b = 0,
                 tlen |-> IF v.t8 THEN 8 ELSE (IF n = 1 THEN ap[2] ELSE LegClass(ap, n)),
                 meta |-> f.meta_len,
                 customs |-> [c \in 1..Len(f.customs) |->
                                [tl |-> BigSizeLen64(f.customs[c].t), len |-> f.customs[c].len]],
                 keysend |-> f.keysend # ""],
      op |-> [kind |-> "deliver", at |-> 0, field |-> "", code |-> "", dlen |-> 0,
              codeval |-> -1, head |-> <<>>, tail |-> 0]]

-----------------------------------------------------------------------------
NoPkt == [segs |-> <<>>, eph |-> 0, intact |-> TRUE]
NoFpkt == [origin |-> 0, code |-> 0, len |-> 0, layers |-> <<>>, attr |-> <<>>, dlen |-> 0,
           head |-> <<>>]

RECURSIVE SegSum(_)
SegSum(s) == IF s = <<>> THEN 0 ELSE Head(s).len + SegSum(Tail(s))

MCInit ==
  /\ Init
  /\ pkt = NoPkt /\ fpkt = NoFpkt
  \* one initial state per (mode, length, blinded hops): the route enumeration is spread over workers
  /\ mode \in {[m |-> "size", n |-> n, b |-> b] : n \in SizeNs, b \in Blindeds}
            \cup {[m |-> "ops", n |-> n, b |-> 0] : n \in OpsNs}
  /\ hist = [op |-> [kind |-> "none"]]

HoldOf(j) == 100 + 7 * j
CodeOf(cls) ==
  CASE cls = "node_temp" -> 8192 + 2
    [] cls = "node_perm" -> 16384 + 8192 + 2
    [] cls = "perm" -> 16384 + 8
    [] cls = "update" -> 4096 + 7
    [] cls = "plain" -> 21
    [] cls = "recipient" -> 16384 + 15

DoBuild(n, b, ap, cp, v) ==
  LET r == RouteFor(n, b, ap, cp, v)
      ok == Fits(r)
      pad == HopDataLen - SumLens(r)
  IN /\ Build(r, ok, PacketLen)
     /\ pkt' = IF ok
               THEN [segs |-> [i \in 1..n |-> [owner |-> i, len |-> HopLen(r[i])]]
                              \o (IF pad > 0 THEN <<[owner |-> 0, len |-> pad]>> ELSE <<>>),
                     eph |-> 1, intact |-> TRUE]
               ELSE NoPkt
     /\ hist' = ScriptOf(n, b, ap, cp, v, r)
     /\ UNCHANGED <<fpkt, mode>>

(* size mode: all class patterns and recipient-field sizes, plain delivery only *)
MBuildSize ==
  /\ phase = "idle" /\ mode.m = "size"
  /\ LET n == mode.n  b == mode.b IN
    /\ b <= n /\ n <= MaxN
    /\ \E ap \in Patterns(n, AmtLens, FALSE), cp \in Patterns(n, CltvLens, TRUE), v \in FinalVariants :
         /\ CltvFeasible(n, b, cp)
         /\ b > 0 => (v.meta = "none" /\ v.sec)
         \* relay fees inside a blinded path are 32-bit: no amount class change there
         /\ b > 0 => ap[1] = ap[2]
         /\ DoBuild(n, b, ap, cp, v)

SetMin(S) == CHOOSE x \in S : \A y \in S : x <= y
SetMax(S) == CHOOSE x \in S : \A y \in S : x >= y
OpsClasses == {<<SetMin(AmtLens), SetMin(CltvLens \ {1})>>, <<SetMax(AmtLens), SetMax(CltvLens)>>}

(* ops mode: uniform classes, plain recipient fields, every corruption / failure / fulfil *)
MBuildOps ==
  /\ phase = "idle" /\ mode.m = "ops"
  /\ \E ac \in OpsClasses :
    /\ mode.n <= MaxN
    /\ DoBuild(mode.n, 0, <<ac[1], ac[1], 1>>, <<ac[2], ac[2], 1>>,
               [sec |-> TRUE, ks |-> FALSE, t8 |-> FALSE, meta |-> "none", cust |-> "none"])

NoOpYet == hist.op.kind = "deliver"

MCorrupt ==
  /\ phase = "fwd" /\ mode.m = "ops"
  /\ \E f \in Fields :
    /\ NoOpYet
    /\ Corrupt(pos + 1, f)
    /\ pkt' = [pkt EXCEPT !.intact = FALSE]
    /\ hist' = [hist EXCEPT !.op = [kind |-> "corrupt", at |-> pos + 1, field |-> f,
                                    code |-> "", dlen |-> 0, codeval |-> -1, head |-> <<>>,
                                    tail |-> 0]]
    /\ UNCHANGED <<fpkt, mode>>

(* what hop i reads out of the symbolic packet *)
PeelResult(i) ==
  LET head == pkt.segs[1]
      accept == pkt.intact /\ pkt.eph = i /\ head.owner > 0
      isFinal == Len(pkt.segs) = 1 \/ pkt.segs[2].owner = 0
      h == route[head.owner]
      next == Tail(pkt.segs) \o <<[owner |-> 0, len |-> head.len]>>
      blank == [res |-> "reject", amt |-> <<0, 0, 0>>, cltv |-> 0, scid |-> <<0, 0, 0>>, pkt_len |-> 0,
                secret |-> "", total |-> <<0, 0, 0>>, meta_len |-> -1, meta_fp |-> "",
                customs |-> <<>>, keysend |-> ""]
  IN IF ~accept THEN [r |-> blank, next |-> pkt]
     ELSE IF isFinal
     THEN [r |-> [blank EXCEPT !.res = "receive", !.amt = h.amt, !.cltv = h.cltv,
                               !.secret = h.secret, !.total = h.total, !.meta_len = h.meta_len,
                               !.meta_fp = h.meta_fp, !.customs = h.customs, !.keysend = h.keysend],
           next |-> pkt]
     ELSE [r |-> [blank EXCEPT !.res = "forward", !.amt = h.amt, !.cltv = h.cltv, !.scid = h.scid,
                               !.pkt_len = 1 + 33 + SegSum(next) + HmacLen],
           next |-> [segs |-> next, eph |-> i + 1, intact |-> TRUE]]

MPeel ==
  LET p == PeelResult(pos + 1) IN
  /\ phase = "fwd" /\ pos < N
  /\ Peel(pos + 1, p.r)
  /\ pkt' = p.next
  /\ UNCHANGED <<fpkt, mode, hist>>

FailLen(d) == IF 2 + d <= 256 THEN 32 + 2 + 256 + 2 ELSE 32 + 2 + 2 + d + 2

-----------------------------------------------------------------------------
(* Failure forms.  A form fixes the code, the first bytes of the data       *)
(* (`head`: the fixed-size fields of the BOLT 4 message and, for UPDATE     *)
(* messages, the u16 length of the channel_update) and the number of         *)
(* arbitrary bytes that follow (`tail`).  codeval = -1: the engine draws a  *)
(* code of class `cls`.                                                     *)
UPD == 4096
BE2(x) == <<x \div 256, x % 256>>
BE4(x) == <<x \div 16777216, (x \div 65536) % 256, (x \div 256) % 256, x % 256>>
Amt8(hi, lo) == BE4(hi) \o BE4(lo)

\* expiries / heights: below and above 2^16, around 5 * 2^16, mainnet height, the library's
\* upper bound for an expiry, all ones
CltvMags == {BE4(700), BE4(65535), BE4(65536), BE4(327679), BE4(327680), BE4(800000),
             BE4(499999999), <<255, 255, 255, 255>>}
\* msat amounts: small, bits 16..31 set, bits 32..47 set, bits 48..63 set, 21e6 BTC, all ones
AmtMags == {Amt8(0, 1000), Amt8(0, 100000000), Amt8(5, 0), <<0, 5, 0, 0, 0, 0, 0, 0>>,
            <<29, 36, 178, 223, 172, 82, 0, 0>>, <<255, 255, 255, 255, 255, 255, 255, 255>>}
FlagMags == {<<0, 0>>, <<0, 1>>, <<0, 2>>, <<1, 0>>, <<255, 255>>}

UpdateCodes == {UPD + 7, UPD + 11, UPD + 12, UPD + 13, UPD + 14, UPD + 20, UPD + 111}
FixedMags(c) ==
  CASE c = UPD + 13 -> CltvMags
    [] c \in {UPD + 11, UPD + 12} -> AmtMags
    [] c = UPD + 20 -> FlagMags
    [] OTHER -> {<<>>}
RepMag(c) ==
  CASE c = UPD + 13 -> BE4(800000)
    [] c \in {UPD + 11, UPD + 12} -> Amt8(0, 100000000)
    [] c = UPD + 20 -> <<0, 2>>
    [] OTHER -> <<>>
Form(cls, code, head, tail, fin) ==
  [cls |-> cls, codeval |-> code, head |-> head, tail |-> tail, only_final |-> fin, basic |-> FALSE]

UpdateForms ==
  UNION {
    {Form("update", c, m \o BE2(u), u, FALSE) : m \in FixedMags(c), u \in ULens}
    \cup {Form("update_short", c, SubSeq(RepMag(c) \o <<0>>, 1, Len(RepMag(c)) + 1), 0, FALSE),
          Form("update_overrun", c, RepMag(c) \o BE2(300), 10, FALSE),
          Form("update_trailing", c, RepMag(c) \o BE2(2), 7, FALSE)}
    : c \in UpdateCodes}
\* messages only the recipient sends: incorrect_or_unknown_payment_details [u64:htlc_msat][u32:height],
\* final_incorrect_cltv_expiry [u32:cltv_expiry], final_incorrect_htlc_amount [u64:amt], mpp_timeout
RecipientForms ==
  {Form("recipient", 16384 + 15, p[1] \o p[2], 0, TRUE) :
     p \in {<<Amt8(0, 1000), BE4(700)>>, <<Amt8(0, 100000000), BE4(327680)>>,
            <<<<0, 5, 0, 0, 0, 0, 0, 0>>, BE4(800000)>>,
            <<<<29, 36, 178, 223, 172, 82, 0, 0>>, BE4(499999999)>>}}
  \cup {Form("final_cltv", 18, m, 0, TRUE) : m \in {BE4(700), BE4(327680), BE4(499999999)}}
  \cup {Form("final_amt", 19, m, 0, TRUE) :
          m \in {Amt8(0, 1000), <<0, 5, 0, 0, 0, 0, 0, 0>>, <<29, 36, 178, 223, 172, 82, 0, 0>>}}
  \cup {Form("mpp_timeout", 23, <<>>, 0, TRUE)}
BasicForms ==
  {[cls |-> c, codeval |-> -1, head |-> <<>>, tail |-> d, only_final |-> (c = "recipient"),
    basic |-> TRUE] : c \in CodeClasses, d \in DLens}
FailForms == BasicForms \cup UpdateForms \cup RecipientForms
FormCode(f) == IF f.codeval >= 0 THEN f.codeval ELSE CodeOf(f.cls)

\* every form at the key positions, the basic forms at every position
KeyPos(k) == k \in ({1, 2, N - 1, N} \cup KeyHops)

MFailAt ==
  /\ phase \in {"fwd", "received"} /\ mode.m = "ops"
  /\ \E f \in FailForms :
    LET k == pos
        dlen == Len(f.head) + f.tail IN
    /\ NoOpYet
    /\ f.only_final => k = N
    /\ f.basic \/ (KeyPos(k) /\ hist.fin.a = SetMin(AmtLens))
    /\ FailAt(k, FormCode(f), HoldOf(k), dlen, f.head)
    /\ fpkt' = [origin |-> k, code |-> FormCode(f), len |-> FailLen(dlen), layers |-> <<k>>,
                attr |-> <<[hop |-> k, hold |-> HoldOf(k)]>>, dlen |-> dlen, head |-> f.head]
    /\ hist' = [hist EXCEPT !.op = [kind |-> "fail", at |-> k, field |-> "", code |-> f.cls,
                                    dlen |-> dlen, codeval |-> f.codeval, head |-> f.head,
                                    tail |-> f.tail]]
    /\ UNCHANGED <<pkt, mode>>

PushAttr(attr, i) ==
  LET a == <<[hop |-> i, hold |-> HoldOf(i)]>> \o attr
  IN SubSeq(a, 1, Min(Len(a), MaxAttrHops))

MWrap ==
  LET i == wrapped - 1 IN
  /\ phase = "failing"
  /\ WrapBack(i, HoldOf(i))
  /\ fpkt' = [fpkt EXCEPT !.layers = <<i>> \o @, !.attr = PushAttr(@, i)]
  /\ UNCHANGED <<pkt, mode, hist>>

(* the sender strips layers 1, 2, ... with the keys it shares with hops 1, 2, ...; the
   failure message authenticates under the key of hop j iff exactly the layers 1..j were
   on it and hop j originated it *)
Decoded ==
  LET L == fpkt.layers
      j == Len(L)
      wellLayered == \A t \in 1..j : L[t] = t
      nAttr == Min(j, MaxAttrHops)
      attrOK == Len(fpkt.attr) >= nAttr /\ \A t \in 1..nAttr : fpkt.attr[t].hop = t
  IN [ok |-> wellLayered /\ fpkt.origin = j /\ attrOK, hop |-> j,
      hold_times |-> [t \in 1..nAttr |-> fpkt.attr[t].hold]]

(* The sender's decision table at the granularity of the code            *)
(* (process_onion_failure): classes are tested in the order NODE, PERM,     *)
(* UPDATE; an UPDATE message is searched for [u16:len] after the fixed      *)
(* fields of its code (none for a code the sender does not know) and must   *)
(* contain at least that many further bytes.                                *)
LibFixedLen(code) == IF FixedLen(code) >= 0 THEN FixedLen(code) ELSE 0
Blame(k, code, dlen, head) ==
  LET d == LibFixedLen(code)
      out == IF k < N THEN k + 1 ELSE k
      updOK == /\ dlen >= d + 2 /\ Len(head) >= d + 2
               /\ d + 2 + head[d + 1] * 256 + head[d + 2] <= dlen
      node(p) == [nu_kind |-> "node", nu_node |-> k, nu_chan |-> 0, nu_perm |-> p,
                  has_scid |-> TRUE, chan |-> k]
      chan(p) == [nu_kind |-> "channel", nu_node |-> 0, nu_chan |-> out, nu_perm |-> p,
                  has_scid |-> TRUE, chan |-> out]
      none(s) == [nu_kind |-> "none", nu_node |-> 0, nu_chan |-> 0, nu_perm |-> FALSE,
                  has_scid |-> s, chan |-> IF s THEN k ELSE 0]
  IN IF NodeBit(code) THEN node(IsPerm(code))
     ELSE IF IsPerm(code) THEN (IF k = N /\ code = 16384 + 15 THEN none(FALSE) ELSE chan(TRUE))
     ELSE IF UpdateBit(code) THEN (IF updOK THEN chan(FALSE) ELSE node(TRUE))
     ELSE IF k = N /\ code \in {18, 19, 23} THEN none(code \in {18, 19})
     ELSE node(TRUE)

MAttribute ==
  LET d == Decoded
      bl == Blame(d.hop, fpkt.code, fpkt.dlen, fpkt.head) IN
  /\ phase = "failing" /\ d.ok
  /\ Attribute([code |-> fpkt.code, blinded |-> FALSE, hold_times |-> d.hold_times,
                nu_kind |-> bl.nu_kind, nu_node |-> bl.nu_node, nu_chan |-> bl.nu_chan,
                nu_perm |-> bl.nu_perm, has_scid |-> bl.has_scid, chan |-> bl.chan,
                perm |-> (d.hop = N /\ IsPerm(fpkt.code))])
  /\ UNCHANGED <<pkt, fpkt, mode, hist>>

MFulfill ==
  /\ phase = "received" /\ mode.m = "ops" /\ NoOpYet
  /\ FulfillAt(N, HoldOf(N))
  /\ fpkt' = [origin |-> N, code |-> 0, len |-> 0, layers |-> <<N>>,
              attr |-> <<[hop |-> N, hold |-> HoldOf(N)]>>, dlen |-> 0, head |-> <<>>]
  /\ hist' = [hist EXCEPT !.op = [kind |-> "fulfill", at |-> N, field |-> "", code |-> "",
                                  dlen |-> 0, codeval |-> -1, head |-> <<>>, tail |-> 0]]
  /\ UNCHANGED <<pkt, mode>>

MFulfillWrap ==
  LET i == wrapped - 1 IN
  /\ phase = "fulfilling"
  /\ FulfillWrap(i, HoldOf(i))
  /\ fpkt' = [fpkt EXCEPT !.layers = <<i>> \o @, !.attr = PushAttr(@, i)]
  /\ UNCHANGED <<pkt, mode, hist>>

MFulfillAttribute ==
  LET d == Decoded IN
  /\ phase = "fulfilling" /\ d.ok
  /\ FulfillAttribute(d.hold_times)
  /\ UNCHANGED <<pkt, fpkt, mode, hist>>

Terminal ==
  \/ phase \in {"nobuild", "rejected", "attributed", "fattributed"}
  \/ phase = "received"
  \/ phase = "idle" /\ (mode.b > mode.n \/ mode.n > MaxN)
MDone == Terminal /\ UNCHANGED mvars

MCNext == MBuildSize \/ MBuildOps \/ MCorrupt \/ MPeel \/ MFailAt \/ MWrap \/ MAttribute
          \/ MFulfill \/ MFulfillWrap \/ MFulfillAttribute \/ MDone

MCSpec == MCInit /\ [][MCNext]_mvars

-----------------------------------------------------------------------------
(* Design invariants *)
PacketSizeConstant ==
  phase \in {"fwd", "received", "rejected"} => SegSum(pkt.segs) = HopDataLen
HeadIsNextHop ==
  (phase = "fwd" /\ pkt.intact) => (pkt.segs[1].owner = pos + 1 /\ pkt.eph = pos + 1)
LastHopReceives ==
  phase = "received" => (pos = N /\ pkt.segs[1].owner = N)
CorruptRejected ==
  phase = "rejected" => ~pkt.intact
AttrBounded == Len(fpkt.attr) <= MaxAttrHops
AttributedRight ==
  phase = "attributed" => (Decoded.hop = fail.k /\ fpkt.code = fail.code
                            /\ Len(Decoded.hold_times) = Min(fail.k, MaxAttrHops))
\* an abstract guard that the design cannot meet shows up as a disabled step
Progress ==
  /\ (phase = "fwd" /\ pos < N) => ENABLED MPeel
  /\ (phase = "failing" /\ wrapped > 1) => ENABLED MWrap
  /\ (phase = "failing" /\ wrapped = 1) => ENABLED MAttribute
  /\ (phase = "fulfilling" /\ wrapped > 1) => ENABLED MFulfillWrap
  /\ (phase = "fulfilling" /\ wrapped = 1) => ENABLED MFulfillAttribute

\* Behaviour generation: one driver script per terminal state.
EmitScripts ==
  (\/ phase \in {"nobuild", "rejected", "attributed", "fattributed"}
   \/ phase = "received" /\ NoOpYet)
    => PrintT(<<"SCRIPT", ToJson(hist)>>)
=============================================================================
