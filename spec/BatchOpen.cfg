SPECIFICATION Spec
CONSTANTS
  N = 3
  CheckAll = TRUE
INVARIANT BroadcastOnlyWhenAllDurable
INVARIANT NotStuck
INVARIANT EmitScripts
CHECK_DEADLOCK TRUE
