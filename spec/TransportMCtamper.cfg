SPECIFICATION MCSpec
CONSTANTS
  Act1Len = 4
  Act2Len = 4
  Act3Len = 4
  HdrLen = 5
  TagLen = 2
  MinInitLen = 2
  MsgSize = 2
  Classes = {"custom"}
  Mode = "pm"
  RotAt = 1000
  StartN = 996
  PauseAt = 2
  MaxMsgs1 = 1
  MaxMsgs2 = 1
  MaxOps = 30
  MaxTampers = 1
  MaxBudgetOps = 0
  MaxDisc = 0
  CutReads = TRUE
  CutHandshake = FALSE
  EmitEvery = 2
CONSTRAINT Bound
VIEW View
INVARIANT ExactDelivery
INVARIANT TamperDisconnects
INVARIANT InitFirst
INVARIANT NoPanic
INVARIANT KeysMatch
INVARIANT ReaderAligned
INVARIANT TypeOK
INVARIANT EmitScripts
CHECK_DEADLOCK TRUE
