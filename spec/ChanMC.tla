------------------------------- MODULE ChanMC -------------------------------
(* Bounded design check of Chan.tla: two endpoints of one channel joined by two FIFO links, every
   interleaving of adds, fulfils, fails, one fee update, commitment_signed / revoke_and_ack at any
   moment the protocol allows, message delays, a disconnection at any point with the BOLT-2
   retransmissions.  Checks that the two sides never disagree about a commitment's content
   (the signer's view travels in the message and is compared with the receiver's own view), that
   every commitment conserves the channel value, and the revocation discipline.
   Prints user-level driver scripts (send / claim / fail / fee / deliver / disconnect / reconnect). *)
EXTENDS Chan, Json

CONSTANTS MaxAdds,      \* adds per direction
          Amounts,      \* set of msat amounts
          MaxFee,       \* number of fee updates
          MaxDisc,      \* number of disconnections
          QLen,         \* link capacity
          MaxCrash,     \* number of crash / restart events
          ChanType

VARIABLES q,      \* [<<from side, to side>> -> Seq(message)]
          agree,  \* FALSE once a receiver's view of a signed commitment differs from the signer's
          nAdd, nFee, nDisc, hist, ptc,
          uidc,   \* [endpoint -> id of the last ChannelMonitorUpdate it generated (all written synchronously)]
          savedS, \* [endpoint -> the ChannelManager snapshot last written, or <<>>]
          nCrash

mvars == <<cvars, q, agree, nAdd, nFee, nDisc, hist, ptc, uidc, savedS, nCrash>>

E1 == <<1, 1>>
E2 == <<1, 2>>
EPs == {E1, E2}
Q(e) == <<e[2], Other(e[2])>>       \* queue from e to its peer
QIn(e) == <<Other(e[2]), e[2]>>

Value == 2000
Init0 ==
  /\ par = [c \in {1} |-> [value |-> Value, funder |-> 1, type |-> ChanType, dust |-> <<354, 354>>]]
  /\ cnt = [e \in EPs |-> [sentCS |-> 0, recvCS |-> 0, sentRAA |-> 0, recvRAA |-> 0]]
  /\ hs = [e \in EPs |-> {}]
  /\ fees = [e \in EPs |-> <<>>]
  /\ feeBase = [e \in EPs |-> IF ChanType = "zerofee" THEN 0 ELSE 253]
  /\ base = [e \in EPs |-> Value * 500]
  /\ link = [e \in EPs |-> "up"]
  /\ redo = [e \in EPs |-> [cs |-> FALSE, raa |-> FALSE, upd |-> {}]]
  /\ lastCS = [e \in EPs |-> <<>>]
  /\ order = [e \in EPs |-> "none"]
  /\ pts = [e \in EPs |-> <<>>]
  /\ mon = [e \in EPs |-> [last |-> 0, infl |-> {}, cp |-> <<>>, holder |-> <<>>, pre |-> <<>>]]
  /\ ownExp = [e \in EPs |-> <<>>]
  /\ q = [d \in {<<1, 2>>, <<2, 1>>} |-> <<>>]
  /\ agree = TRUE
  /\ nAdd = [e \in EPs |-> 0] /\ nFee = 0 /\ nDisc = 0 /\ hist = <<>> /\ ptc = [e \in EPs |-> 0]
  /\ uidc = [e \in EPs |-> 0] /\ savedS = [e \in EPs |-> <<>>] /\ nCrash = 0

Push(e, m) == Len(q[Q(e)]) < QLen /\ q' = [q EXCEPT ![Q(e)] = Append(@, m)]
H(op) == hist' = Append(hist, op)
Same == UNCHANGED <<agree, nAdd, nFee, nDisc, ptc>>
Dur == UNCHANGED <<uidc, savedS, nCrash>>                 \* no monitor update, no restart
Upd(e) == uidc' = [uidc EXCEPT ![e] = @ + 1] /\ UNCHANGED <<savedS, nCrash>>   \* one monitor update

\* ---- local decisions
MAdd(e) == \E a \in Amounts :
  /\ nAdd[e] < MaxAdds /\ redo[e].upd = {} /\ ~redo[e].cs
  \* the sender can afford it out of its irrevocable balance: like the implementation it does not
  \* spend HTLCs it has fulfilled but whose removal is not irrevocable yet (a retransmission may
  \* deliver the add before the fulfil)
  /\ a + 200000 <= base[e] - Sum({h \in hs[e] : h.dir = "out"})
  /\ SendAdd(e, nAdd[e], a, 10 * e[2] + nAdd[e])
  /\ Push(e, [k |-> "add", id |-> nAdd[e], amt |-> a, hash |-> 10 * e[2] + nAdd[e]])
  /\ nAdd' = [nAdd EXCEPT ![e] = @ + 1]
  /\ H([op |-> "send", from |-> e[2] - 1, to |-> Other(e[2]) - 1, amt |-> a])
  /\ UNCHANGED <<agree, nFee, nDisc, ptc>> /\ Dur

MRemove(e) == \E h \in hs[e], r \in {"fulfill", "fail"} :
  /\ h.dir = "in" /\ h.rem = -1 /\ h.add = 4 /\ redo[e].upd = {} /\ ~redo[e].cs
  /\ SendRemove(e, h.id, r)
  /\ Push(e, [k |-> "rem", id |-> h.id, res |-> r])
  /\ H([op |-> IF r = "fulfill" THEN "claim" ELSE "fail", hash |-> h.hash])
  /\ Same /\ (IF r = "fulfill" THEN Upd(e) ELSE Dur)

MFee(e) == \E r \in {1000} :
  /\ nFee < MaxFee /\ ChanType # "zerofee" /\ par[1].funder = e[2] /\ redo[e].upd = {} /\ ~redo[e].cs
  /\ SendFee(e, r)
  /\ Push(e, [k |-> "fee", rate |-> r])
  /\ nFee' = nFee + 1
  /\ H([op |-> "fee", node |-> e[2] - 1, feerate |-> r])
  /\ UNCHANGED <<agree, nAdd, nDisc, ptc>> /\ Dur

\* retransmissions owed after a reconnection
MResend(e) == \E u \in redo[e].upd :
  /\ CASE u[1] = "add" -> LET h == Get(e, "out", u[2]) IN
                            SendAdd(e, h.id, h.amt, h.hash) /\ Push(e, [k |-> "add", id |-> h.id, amt |-> h.amt, hash |-> h.hash])
       [] u[1] = "rem" -> LET h == Get(e, "in", u[2]) IN
                            SendRemove(e, h.id, h.res) /\ Push(e, [k |-> "rem", id |-> h.id, res |-> h.res])
       [] u[1] = "fee" -> SendFee(e, u[2]) /\ Push(e, [k |-> "fee", rate |-> u[2]])
  /\ UNCHANGED hist /\ Same /\ Dur

MSendCS(e) ==
  /\ LET c == IF redo[e].cs THEN lastCS[e] ELSE Commit(e, FALSE) IN
       SendCS(e, c) /\ Push(e, [k |-> "cs", c |-> c])
  /\ UNCHANGED hist /\ Same /\ (IF redo[e].cs THEN Dur ELSE Upd(e))

MSendRAA(e) ==
  /\ SendRAA(e, IF ptc[e] >= 2 THEN ptc[e] - 1 ELSE 0, ptc[e] + 1)
  /\ Push(e, [k |-> "raa"])
  /\ ptc' = [ptc EXCEPT ![e] = IF redo[e].raa THEN @ ELSE @ + 1]
  /\ UNCHANGED <<hist, agree, nAdd, nFee, nDisc>> /\ Dur

\* ---- delivery of the head of the inbound link
MDeliver(e) ==
  /\ q[QIn(e)] # <<>>
  /\ LET m == Head(q[QIn(e)]) IN
     /\ CASE m.k = "add" -> RecvAdd(e, m.id, m.amt, m.hash) /\ UNCHANGED agree
          [] m.k = "rem" -> RecvRemove(e, m.id, m.res) /\ UNCHANGED agree
          [] m.k = "fee" -> RecvFee(e, m.rate) /\ UNCHANGED agree
          [] m.k = "cs" -> RecvCS(e) /\ agree' = (agree /\ m.c = Commit(e, TRUE))
          [] m.k = "raa" -> RecvRAA(e) /\ UNCHANGED agree
          [] m.k = "reest" -> RecvReestablish(e, m.nl, m.nr) /\ UNCHANGED agree
     /\ q' = [q EXCEPT ![QIn(e)] = Tail(@)]
  /\ H([op |-> "deliver", from |-> Other(e[2]) - 1, to |-> e[2] - 1])
  /\ UNCHANGED <<nAdd, nFee, nDisc, ptc>>
  /\ (IF Head(q[QIn(e)]).k \in {"cs", "raa"} THEN Upd(e) ELSE Dur)

MDisconnect ==
  /\ nDisc < MaxDisc /\ \A e \in EPs : link[e] # "closed"
  /\ Disconnect(EPs)
  /\ q' = [d \in DOMAIN q |-> <<>>]
  /\ nDisc' = nDisc + 1
  /\ H([op |-> "disconnect", a |-> 0, b |-> 1])
  /\ UNCHANGED <<agree, nAdd, nFee, ptc>> /\ Dur

MReconnect ==
  /\ \A e \in EPs : link[e] # "closed"
  /\ Reconnect(EPs)
  /\ q' = [d \in DOMAIN q |->
            <<[k |-> "reest", nl |-> cnt[<<1, d[1]>>].recvCS + 1, nr |-> cnt[<<1, d[1]>>].recvRAA]>>]
  /\ H([op |-> "reconnect", a |-> 0, b |-> 1])
  /\ Same /\ Dur

\* ---- the application writes the ChannelManager; later the node dies and restarts from the last
\* written manager and its (synchronously written) monitor
MSave(e) ==
  /\ MaxCrash > 0 /\ nCrash < MaxCrash /\ e = E2 /\ savedS[e] = <<>>     \* one snapshot, one side (symmetric)
  \* the manager is written when no revocation is owed: the implementation generates the
  \* revoke_and_ack together with accepting the signature and may only *hold* it (asynchronous
  \* persistence); snapshots taken while something is held are not used (DESIGN.md, C10 limits)
  /\ cnt[e].recvCS = cnt[e].sentRAA
  /\ savedS' = [savedS EXCEPT ![e] = [Snapshot({e}) EXCEPT !.mon = [x \in {e} |-> [mon[x] EXCEPT !.last = uidc[x]]]]]
  /\ H([op |-> "save", node |-> e[2] - 1])
  /\ UNCHANGED <<cvars, q, agree, nAdd, nFee, nDisc, ptc, uidc, nCrash>>

MCrash(e) ==
  /\ nCrash < MaxCrash /\ savedS[e] # <<>>
  /\ Restart({e}, {Peer(e)}, savedS[e], [x \in {e} |-> uidc[x]])
  /\ q' = [d \in DOMAIN q |-> <<>>]
  /\ nCrash' = nCrash + 1
  /\ ptc' = [ptc EXCEPT ![e] = Len(savedS[e].pts[e])]
  /\ H([op |-> "crash", node |-> e[2] - 1, mgr |-> "saved", mon |-> "latest"])
  /\ UNCHANGED <<agree, nAdd, nFee, nDisc, uidc, savedS>>

MDone == ((\A d \in DOMAIN q : q[d] = <<>>) \/ (\E e \in EPs : link[e] = "closed")) /\ UNCHANGED mvars

MCNext == \/ \E e \in EPs : MAdd(e) \/ MRemove(e) \/ MFee(e) \/ MResend(e) \/ MSendCS(e) \/ MSendRAA(e) \/ MDeliver(e)
                              \/ MSave(e) \/ MCrash(e)
          \/ MDisconnect \/ MReconnect \/ MDone

MCSpec == Init0 /\ [][MCNext]_mvars

View == <<cvars, q, agree, nAdd, nFee, nDisc, ptc, uidc, savedS, nCrash>>

\* ---- properties
Agreement == agree
ConservesAll == \A e \in EPs : Conserves(e, TRUE) /\ Conserves(e, FALSE)
\* both sides hold the same irrevocable balances whenever nothing is in flight
Quiet == (\A d \in DOMAIN q : q[d] = <<>>) /\ (\A e \in EPs : hs[e] = {} /\ link[e] = "up" /\ ~redo[e].cs /\ ~redo[e].raa)
BalancesAgree == Quiet => base[E1] + base[E2] = Value * 1000
\* an endpoint's own next commitment as it sees it equals what its peer would sign right now,
\* whenever the links are empty (no update or signature in flight)
ViewsAgree == ((\A d \in DOMAIN q : q[d] = <<>>) /\ (\A e \in EPs : link[e] = "up" /\ redo[e].upd = {} /\ ~redo[e].cs /\ ~redo[e].raa))
              => \A e \in EPs : LET a == Commit(e, TRUE)  b == Commit(Peer(e), FALSE) IN
                                    a.nondust = b.nondust /\ a.to_b = b.to_b /\ a.to_c = b.to_c /\ a.feerate = b.feerate

EmitScripts == ((Quiet \/ (nCrash > 0 /\ \E e \in EPs : link[e] = "closed")) /\ Len(hist) > 6) => PrintT(<<"SCRIPT", ToJson([ops |-> hist])>>)
=============================================================================
