----------------------------- MODULE PayRecvMC -----------------------------
(***************************************************************************)
(* Design model of the recipient (ChannelManager::process_receive_htlcs,   *)
(* check_incoming_mpp_part, timer_tick_occurred / check_mpp_timeout,        *)
(* best_block_updated / check_onchain_timeout, claim_payment_internal,      *)
(* fail_htlc_backwards; inbound_payment::verify) for one registered         *)
(* payment, composed with the observable specification PayRecv: every step  *)
(* appends the observations it causes to `obs`, `MObs` feeds them to the    *)
(* guards of PayRecv; an unmet guard leaves the model without successor     *)
(* (deadlock = counterexample).                                             *)
(*                                                                         *)
(* Sender A = node 0 and recipient D = node 1 share C channels; part i      *)
(* travels on channel ((i-1) mod C) + 1 as its own send_payment call, so    *)
(* that secret class, total_msat and final CLTV can differ per part.        *)
(*                                                                         *)
(* Onion fields: every part carries a class of recipient onion fields      *)
(* (custom TLVs of even / odd type with values, payment_metadata);         *)
(* RecipientOnionFields::check_merge compares a new part with what the     *)
(* parts held so far have in common.  Amounts: a part's last forwarding    *)
(* node may skim `short` off the sender-intended amount and report `tlv`   *)
(* as skimmed_fee_msat; the receiving channels have                        *)
(* accept_underpaying_htlcs (up) or not.  The user claims with claim_funds *)
(* or claim_funds_with_known_custom_tlvs.                                  *)
(* `Bug` plants a defect in the design (spec mutants: TLC must find the    *)
(* observable specification violated).                                     *)
(***************************************************************************)
EXTENDS PayRecv, Json

CONSTANTS C, MaxParts, Amts, Tots, Secs, Cls,
          RegAmt,      \* amount committed to at registration
          RegMin,      \* min_final_cltv_expiry_delta given at registration (0: none)
          BUF, MPPT,   \* HTLC_FAIL_BACK_BUFFER, MPP_TIMEOUT_TICKS
          MaxTicks, MaxBlocks, MaxDev, MaxOps,
          EmitMod,     \* print the behaviour of every EmitMod-th quiescent state only (1: all)
          StaleClaim,  \* TRUE: the user may answer a PaymentClaimable whose HTLCs were failed back meanwhile
                       \* while a new, incomplete set of the same hash is held (KNOWN finding, see c04.py)
          Flds,        \* classes of recipient onion fields a part may carry (FldTlvs / FldMeta)
          Sks,         \* what the last forwarding node does to a part (SkShort / SkTlv)
          Ups,         \* \subseteq BOOLEAN: accept_underpaying_htlcs of the recipient's channels
          RegMeta,     \* 0: registered without payment_metadata, n > 0: with metadata n
          ClaimKinds,  \* \subseteq {"claim", "claimk"}
          Bug          \* "none" | "evenLater" | "evenValue" | "skimNoOptIn" | "skimUncovered" | "claimEven" | "intendedShown"

VARIABLES cp, part, h, np, nextId, seen, answered, got, obs, hist, quiet, nops, ntick, nblk, ndev, up

dvars == <<cp, part, h, np, nextId, seen, answered, got, ntick, nblk, ndev, up>>
mvars == <<rvars, dvars, obs, hist, quiet, nops>>

H0 == 100
Init0 == 1000000
NoCp == [parts |-> {}, total |-> 0, complete |-> FALSE, shown |-> 0, sp |-> {}, fields |-> {}]

\* custom TLV types: E* must be understood by the recipient, O* are optional
E1 == 65536  O1 == 65537  E2 == 65538  O2 == 65539
FldTlvs(f) == CASE f = "none" -> {} [] f = "o1" -> {<<O1, 1>>} [] f = "o1b" -> {<<O1, 2>>} [] f = "o2" -> {<<O2, 1>>}
                [] f = "e1" -> {<<E1, 1>>} [] f = "e1b" -> {<<E1, 2>>} [] f = "e2" -> {<<E2, 1>>}
                [] f = "e1o1" -> {<<E1, 1>>, <<O1, 1>>} [] f = "e1e2" -> {<<E1, 1>>, <<E2, 1>>} [] f = "o1o2" -> {<<O1, 1>>, <<O2, 1>>} [] f = "o1e2" -> {<<O1, 1>>, <<E2, 1>>}
                [] f \in {"mnone", "mflip"} -> {}
\* payment_metadata of the part: 0 none, 1 the one the registration returned, 2 another one
FldMeta(f) == CASE f = "mnone" -> 0 [] f = "mflip" -> 2 [] OTHER -> IF RegMeta > 0 THEN 1 ELSE 0
\* the last forwarding node keeps SkShort of the sender-intended amount and reports SkTlv as skimmed_fee_msat
SkShort(k) == IF k \in {"no", "tlv"} THEN 0 ELSE 2
SkTlv(k) == CASE k = "no" -> 0 [] k = "tlv" -> 1 [] k = "s0" -> 0 [] k = "s-1" -> 1 [] k = "s=" -> 2 [] k = "s+" -> 3

MCInit ==
  /\ RInit
  /\ up \in Ups
  /\ cp = NoCp /\ part = <<>> /\ h = H0 /\ np = 0 /\ nextId = [c \in 1..C |-> 0]
  /\ seen = FALSE /\ answered = FALSE /\ got = 0 /\ ntick = 0 /\ nblk = 0 /\ ndev = 0
  /\ obs = <<[t |-> "open"], [t |-> "reg", r |-> 1, hash |-> 1, amt |-> RegAmt, min |-> RegMin, meta |-> RegMeta],
             [t |-> "reg", r |-> 2, hash |-> 2, amt |-> 1, min |-> 0, meta |-> 0]>>
  /\ hist = <<>> /\ quiet = FALSE /\ nops = 0

Idle == obs = <<>>
Hop(op) == hist' = Append(hist, op) /\ nops' = nops + 1
Emit(seq) == obs' = seq /\ UNCHANGED rvars
SeqOf(S) == SelectSeq([i \in 1..MaxParts |-> i], LAMBDA i : i \in S)
SumP(S) == FoldSet(LAMBDA i, acc : acc + part[i].amt, 0, S)          \* received
SumO(S) == FoldSet(LAMBDA i, acc : acc + part[i].oamt, 0, S)         \* intended by the sender
SumT(S) == FoldSet(LAMBDA i, acc : acc + part[i].tlv, 0, S)          \* reported as skimmed
MinC(S) == CHOOSE c \in {part[i].cltv : i \in S} : \A i \in S : c <= part[i].cltv
FailObs(S) == [j \in 1..Cardinality(S) |-> [t |-> "failmsg", chan |-> part[SeqOf(S)[j]].chan, id |-> part[SeqOf(S)[j]].id]]
FulObs(S) == [j \in 1..Cardinality(S) |-> [t |-> "fulmsg", chan |-> part[SeqOf(S)[j]].chan, id |-> part[SeqOf(S)[j]].id]]
Mark(S, st) == [i \in DOMAIN part |-> IF i \in S THEN [part[i] EXCEPT !.st = st] ELSE part[i]]

ClOff(cl) == CASE cl = "b0" -> BUF [] cl = "b1" -> BUF + 1 [] cl = "b2" -> BUF + 2
               [] cl = "far" -> 71 [] cl = "far2" -> 80 [] cl = "m-1" -> RegMin - 1 [] cl = "m0" -> RegMin

\* ---------------------------------------------------------------- observations -> PayRecv
MObs ==
  /\ obs # <<>>
  /\ LET o == Head(obs) IN
     CASE o.t = "open" -> ROpen({0, 1}, [n \in {0, 1} |-> Init0], H0, BUF, MPPT, IF up THEN 1..C ELSE {})
       [] o.t = "reg" -> RReg(o.r, 1, o.hash, o.amt, o.min, 3600, o.meta)
       [] o.t = "sent" -> RSent(<<[hash |-> 1, dst |-> 1, amt |-> o.amt, oamt |-> o.oamt, sreg |-> o.sreg, total |-> o.total,
                                  tlvs |-> o.tlvs, meta |-> o.meta, keysend |-> FALSE, used |-> FALSE]>>)
       [] o.t = "arrive" -> RArrive(1, o.chan, o.id, 1, o.amt, o.cltv, o.skim)
       [] o.t = "forward" -> RForward(1, {<<o.chan, o.id>>})
       [] o.t = "claimable" -> RClaimable(1, 1, o.amt, o.deadline, o.skimmed, o.tlvs, RegMeta)
       [] o.t = "claimcall" -> RDecide(1, 1, o.kind)
       [] o.t = "failcall" -> RDecide(1, 1, "fail")
       [] o.t = "fulmsg" -> RFulfil(1, o.chan, o.id)
       [] o.t = "failmsg" -> RFail(1, o.chan, o.id)
       [] o.t = "claimed" -> RClaimedEv(1, 1, o.amt)
       [] o.t = "tick" -> RTick(1)
       [] o.t = "block" -> RBlock(o.h, 0)
       [] o.t = "quiet" -> RQuietOK([n \in {0, 1} |-> IF n = 1 THEN Init0 + got ELSE Init0 - got], IF o.idle THEN {1} ELSE {}) /\ UNCHANGED rvars
  /\ obs' = Tail(obs)
  /\ UNCHANGED <<dvars, hist, quiet, nops>>

\* ---------------------------------------------------------------- a part arrives and is processed
Dev(a, sec, tot, cl, sk) == (IF sec # "ok" THEN 1 ELSE 0) + (IF tot # RegAmt THEN 1 ELSE 0) + (IF cl # "far" THEN 1 ELSE 0)
                            + (IF sk # "no" THEN 1 ELSE 0)
MPart(a, sec, tot, cl, f, sk) ==
  /\ Idle /\ np < MaxParts /\ ~answered
  /\ ndev + Dev(a, sec, tot, cl, sk) <= MaxDev
  /\ (cl \in {"m-1", "m0"}) => RegMin > 0
  /\ a > SkShort(sk)
  /\ LET i == np + 1
         c == ((i - 1) % C) + 1
         id == nextId[c]
         cltv == h + ClOff(cl)
         sreg == IF sec = "ok" THEN 1 ELSE IF sec = "other" THEN 2 ELSE 0
         recv == a - SkShort(sk)
         tlv == SkTlv(sk)
         tl == FldTlvs(f)
         p == [amt |-> recv, oamt |-> a, tlv |-> tlv, cltv |-> cltv, chan |-> c, id |-> id, st |-> "held", ticks |-> 0]
         pre == <<[t |-> "sent", amt |-> recv, oamt |-> a, sreg |-> sreg, total |-> tot, tlvs |-> tl, meta |-> FldMeta(f)],
                  [t |-> "arrive", chan |-> c, id |-> id, amt |-> recv, cltv |-> cltv, skim |-> tlv],
                  [t |-> "forward", chan |-> c, id |-> id]>>
         \* create_recv_pending_htlc_info: the amount against what the onion says
         amtOK == CASE Bug = "skimNoOptIn" -> recv >= a \/ ((up \/ tlv > 0) /\ recv + tlv >= a)
                    [] Bug = "skimUncovered" -> recv >= a \/ (up /\ tlv > 0)
                    [] OTHER -> recv >= a \/ (up /\ recv + tlv >= a)
         \* inbound_payment::verify (the secret authenticates amount, expiry, metadata) + the final-CLTV checks
         verifyOK == /\ sreg = 1 /\ tot >= RegAmt
                     /\ FldMeta(f) = (IF RegMeta > 0 THEN 1 ELSE 0)
                     /\ (RegMin = 0 \/ cltv >= h + RegMin)
                     /\ cltv > h + BUF + 1
         haveO == SumO(cp.parts)
         have == SumP(cp.parts)
         \* RecipientOnionFields::check_merge: the even TLVs must be the same; what differs otherwise is dropped
         evOK == CASE Bug = "evenLater" -> Evens(cp.fields) \subseteq tl
                   [] Bug = "evenValue" -> {x[1] : x \in Evens(cp.fields)} = {x[1] : x \in Evens(tl)}
                   [] OTHER -> Evens(cp.fields) = Evens(tl)
         merged == cp.fields \cap tl
         failNew(cpn) == /\ part' = Append(part, [p EXCEPT !.st = "failed"])
                         /\ Emit(pre \o <<[t |-> "failmsg", chan |-> c, id |-> id]>>)
                         /\ cp' = cpn /\ UNCHANGED seen
     IN /\ np' = i /\ nextId' = [nextId EXCEPT ![c] = @ + 1]
        /\ ndev' = ndev + Dev(a, sec, tot, cl, sk)
        /\ IF ~amtOK \/ ~verifyOK THEN failNew(cp)
           ELSE IF cp.parts = {} THEN
             /\ part' = Append(part, p)
             /\ IF a >= tot
                THEN /\ cp' = [parts |-> {i}, total |-> tot, complete |-> TRUE, shown |-> IF Bug = "intendedShown" THEN a ELSE recv, sp |-> {i}, fields |-> tl]
                     /\ seen' = TRUE
                     /\ Emit(pre \o <<[t |-> "claimable", amt |-> IF Bug = "intendedShown" THEN a ELSE recv, deadline |-> cltv - BUF, skimmed |-> tlv, tlvs |-> tl]>>)
                ELSE /\ cp' = [parts |-> {i}, total |-> tot, complete |-> FALSE, shown |-> 0, sp |-> {}, fields |-> tl]
                     /\ Emit(pre) /\ UNCHANGED seen
           ELSE IF tot # cp.total \/ ~evOK THEN failNew(cp)                       \* check_merge refuses
           ELSE IF haveO >= cp.total THEN failNew([cp EXCEPT !.fields = merged])    \* already claimable (the fields were merged)
           ELSE /\ part' = Append(part, p)
                /\ IF haveO + a >= cp.total
                   THEN /\ cp' = [cp EXCEPT !.parts = @ \cup {i}, !.complete = TRUE, !.shown = (IF Bug = "intendedShown" THEN haveO + a ELSE have + recv),
                                            !.sp = cp.parts \cup {i}, !.fields = merged]
                        /\ seen' = TRUE
                        /\ LET m == MinC(cp.parts) IN
                           Emit(pre \o <<[t |-> "claimable", amt |-> (IF Bug = "intendedShown" THEN haveO + a ELSE have + recv),
                                          deadline |-> (IF cltv < m THEN cltv ELSE m) - BUF,
                                          skimmed |-> SumT(cp.parts) + tlv, tlvs |-> merged]>>)
                   ELSE /\ cp' = [cp EXCEPT !.parts = @ \cup {i}, !.fields = merged]
                        /\ Emit(pre) /\ UNCHANGED seen
  /\ UNCHANGED <<h, answered, got, ntick, nblk, up>>
  /\ Hop([op |-> "part", amt |-> a, sec |-> sec, tot |-> tot, cl |-> cl, f |-> f, sk |-> sk]) /\ quiet' = FALSE

\* timer_tick_occurred: an incomplete set whose oldest part has waited MPP_TIMEOUT_TICKS is failed
MTick ==
  /\ Idle /\ ntick < MaxTicks
  /\ ntick' = ntick + 1
  /\ LET aged == [i \in DOMAIN part |-> IF i \in cp.parts THEN [part[i] EXCEPT !.ticks = @ + 1] ELSE part[i]] IN
     IF cp.parts # {} /\ SumO(cp.parts) < cp.total /\ \E i \in cp.parts : aged[i].ticks >= MPPT
     THEN /\ part' = [i \in DOMAIN part |-> IF i \in cp.parts THEN [aged[i] EXCEPT !.st = "failed"] ELSE part[i]]
          /\ cp' = NoCp
          /\ Emit(<<[t |-> "tick"]>> \o FailObs(cp.parts))
     ELSE part' = aged /\ UNCHANGED cp /\ Emit(<<[t |-> "tick"]>>)
  /\ UNCHANGED <<h, np, nextId, seen, answered, got, nblk, ndev, up>>
  /\ Hop([op |-> "tick"]) /\ quiet' = FALSE

\* best_block_updated: every held part that reached its own fail-back height is failed, the rest stays
Marks == {part[i].cltv - BUF : i \in cp.parts}
Jumps == {1} \cup {d - h - 1 : d \in {x \in Marks : x - h - 1 >= 1}} \cup {d - h : d \in {x \in Marks : x - h >= 1}}
MBlock(n) ==
  /\ Idle /\ nblk < MaxBlocks /\ n \in Jumps
  /\ nblk' = nblk + 1
  /\ h' = h + n
  /\ LET out == {i \in cp.parts : h + n >= part[i].cltv - BUF} IN
     /\ part' = Mark(out, "failed")
     /\ cp' = IF cp.parts \ out = {} THEN NoCp ELSE [cp EXCEPT !.parts = @ \ out]
     /\ Emit(<<[t |-> "block", h |-> h + n]>> \o FailObs(out))
  /\ UNCHANGED <<np, nextId, seen, answered, got, ntick, ndev, up>>
  /\ Hop([op |-> "block", n |-> n]) /\ quiet' = FALSE

\* claim_funds / claim_funds_with_known_custom_tlvs (the user has handled a PaymentClaimable): claim_funds fails
\* everything held for the hash if its onion fields have a custom TLV of even type; otherwise all parts or none; if
\* the set is no longer the one that was shown nothing is claimed (and what is left of it is forgotten)
MClaim(kind) ==
  /\ Idle /\ seen /\ ~answered
  /\ StaleClaim \/ cp.parts \subseteq cp.sp      \* every HTLC held for the hash was part of what was shown
  /\ answered' = TRUE
  /\ LET call == <<[t |-> "claimcall", kind |-> kind]>> IN
     IF cp.parts = {} THEN UNCHANGED <<part, cp, got>> /\ Emit(call)
     ELSE IF kind = "claim" /\ Evens(cp.fields) # {} /\ Bug # "claimEven"
     THEN /\ part' = Mark(cp.parts, "failed") /\ cp' = NoCp /\ UNCHANGED got
          /\ Emit(call \o FailObs(cp.parts))
     ELSE IF cp.complete /\ SumP(cp.parts) = cp.shown
     THEN /\ part' = Mark(cp.parts, "ful") /\ cp' = NoCp /\ got' = got + cp.shown
          /\ Emit(call \o FulObs(cp.parts) \o <<[t |-> "claimed", amt |-> cp.shown]>>)
     ELSE /\ part' = Mark(cp.parts, "leaked") /\ cp' = NoCp /\ UNCHANGED got
          /\ Emit(call)
  /\ UNCHANGED <<h, np, nextId, seen, ntick, nblk, ndev, up>>
  /\ Hop([op |-> "claim", kind |-> kind]) /\ quiet' = FALSE

MFailBack ==
  /\ Idle /\ seen /\ ~answered
  /\ answered' = TRUE
  /\ part' = Mark(cp.parts, "failed") /\ cp' = NoCp
  /\ Emit(<<[t |-> "failcall"]>> \o FailObs(cp.parts))
  /\ UNCHANGED <<h, np, nextId, seen, got, ntick, nblk, ndev, up>>
  /\ Hop([op |-> "failback"]) /\ quiet' = FALSE

MQuiet ==
  /\ Idle /\ ~quiet /\ np > 0
  /\ Emit(<<[t |-> "quiet", idle |-> \A i \in DOMAIN part : part[i].st \in {"failed", "ful"}]>>)
  /\ quiet' = TRUE
  /\ UNCHANGED <<dvars, hist, nops>>

MDone == quiet /\ Idle /\ UNCHANGED mvars

MCNext ==
  \/ MObs
  \/ \E a \in Amts, sec \in Secs, tot \in Tots, cl \in Cls, f \in Flds, sk \in Sks : MPart(a, sec, tot, cl, f, sk)
  \/ MTick \/ MFailBack
  \/ \E kind \in ClaimKinds : MClaim(kind)
  \/ \E n \in 1..100 : MBlock(n)
  \/ MQuiet \/ MDone

MCSpec == MCInit /\ [][MCNext]_mvars

Bound == nops <= MaxOps
View == <<rvars, dvars, obs, quiet, nops>>

Pick == (SumP(DOMAIN part) * 7 + h + ntick * 3 + nblk * 5 + np + got) % EmitMod = 0
EmitScripts == (quiet /\ Idle /\ Len(hist) > 2 /\ (answered \/ nblk > 0 \/ ntick > 0) /\ Pick) => PrintT(<<"SCRIPT", ToJson([c |-> C, regamt |-> RegAmt, regmin |-> RegMin, regmeta |-> RegMeta, up |-> up, ops |-> hist])>>)
=============================================================================
