----------------------------- MODULE PayRecvMC -----------------------------
(***************************************************************************)
(* Design model of the recipient (ChannelManager::process_receive_htlcs,   *)
(* check_incoming_mpp_part, timer_tick_occurred / check_mpp_timeout,        *)
(* best_block_updated / check_onchain_timeout, claim_payment_internal,      *)
(* fail_htlc_backwards; inbound_payment::verify) for one registered         *)
(* payment, composed with the observable specification PayRecv: every step  *)
(* appends the observations it causes to `obs`, `MObs` feeds them to the    *)
(* guards of PayRecv; an unmet guard leaves the model without successor     *)
(* (deadlock = counterexample).                                             *)
(*                                                                         *)
(* Sender A = node 0 and recipient D = node 1 share C channels; part i      *)
(* travels on channel ((i-1) mod C) + 1 as its own send_payment call, so    *)
(* that secret class, total_msat and final CLTV can differ per part.        *)
(***************************************************************************)
EXTENDS PayRecv, Json

CONSTANTS C, MaxParts, Amts, Tots, Secs, Cls,
          RegAmt,      \* amount committed to at registration
          RegMin,      \* min_final_cltv_expiry_delta given at registration (0: none)
          BUF, MPPT,   \* HTLC_FAIL_BACK_BUFFER, MPP_TIMEOUT_TICKS
          MaxTicks, MaxBlocks, MaxDev, MaxOps,
          EmitMod,     \* print the behaviour of every EmitMod-th quiescent state only (1: all)
          StaleClaim   \* TRUE: the user may answer a PaymentClaimable whose HTLCs were failed back meanwhile
                       \* while a new, incomplete set of the same hash is held (KNOWN finding, see c04.py)

VARIABLES cp, part, h, np, nextId, seen, answered, got, obs, hist, quiet, nops, ntick, nblk, ndev

dvars == <<cp, part, h, np, nextId, seen, answered, got, ntick, nblk, ndev>>
mvars == <<rvars, dvars, obs, hist, quiet, nops>>

H0 == 100
Init0 == 1000000
NoCp == [parts |-> {}, total |-> 0, complete |-> FALSE, shown |-> 0, sp |-> {}]

MCInit ==
  /\ RInit
  /\ cp = NoCp /\ part = <<>> /\ h = H0 /\ np = 0 /\ nextId = [c \in 1..C |-> 0]
  /\ seen = FALSE /\ answered = FALSE /\ got = 0 /\ ntick = 0 /\ nblk = 0 /\ ndev = 0
  /\ obs = <<[t |-> "open"], [t |-> "reg", r |-> 1, hash |-> 1, amt |-> RegAmt, min |-> RegMin],
             [t |-> "reg", r |-> 2, hash |-> 2, amt |-> 1, min |-> 0]>>
  /\ hist = <<>> /\ quiet = FALSE /\ nops = 0

Idle == obs = <<>>
Hop(op) == hist' = Append(hist, op) /\ nops' = nops + 1
Emit(seq) == obs' = seq /\ UNCHANGED rvars
SeqOf(S) == SelectSeq([i \in 1..MaxParts |-> i], LAMBDA i : i \in S)
SumP(S) == FoldSet(LAMBDA i, acc : acc + part[i].amt, 0, S)
MinC(S) == CHOOSE c \in {part[i].cltv : i \in S} : \A i \in S : c <= part[i].cltv
FailObs(S) == [j \in 1..Cardinality(S) |-> [t |-> "failmsg", chan |-> part[SeqOf(S)[j]].chan, id |-> part[SeqOf(S)[j]].id]]
FulObs(S) == [j \in 1..Cardinality(S) |-> [t |-> "fulmsg", chan |-> part[SeqOf(S)[j]].chan, id |-> part[SeqOf(S)[j]].id]]
Mark(S, st) == [i \in DOMAIN part |-> IF i \in S THEN [part[i] EXCEPT !.st = st] ELSE part[i]]

ClOff(cl) == CASE cl = "b0" -> BUF [] cl = "b1" -> BUF + 1 [] cl = "b2" -> BUF + 2
               [] cl = "far" -> 71 [] cl = "far2" -> 80 [] cl = "m-1" -> RegMin - 1 [] cl = "m0" -> RegMin

\* ---------------------------------------------------------------- observations -> PayRecv
MObs ==
  /\ obs # <<>>
  /\ LET o == Head(obs) IN
     CASE o.t = "open" -> ROpen({0, 1}, [n \in {0, 1} |-> Init0], H0, BUF, MPPT)
       [] o.t = "reg" -> RReg(o.r, 1, o.hash, o.amt, o.min, 3600)
       [] o.t = "sent" -> RSent(<<[hash |-> 1, dst |-> 1, amt |-> o.amt, sreg |-> o.sreg, total |-> o.total, keysend |-> FALSE, used |-> FALSE]>>)
       [] o.t = "arrive" -> RArrive(1, o.chan, o.id, 1, o.amt, o.cltv)
       [] o.t = "forward" -> RForward(1, {<<o.chan, o.id>>})
       [] o.t = "claimable" -> RClaimable(1, 1, o.amt, o.deadline)
       [] o.t = "claimcall" -> RDecide(1, 1, "claim")
       [] o.t = "failcall" -> RDecide(1, 1, "fail")
       [] o.t = "fulmsg" -> RFulfil(1, o.chan, o.id)
       [] o.t = "failmsg" -> RFail(1, o.chan, o.id)
       [] o.t = "claimed" -> RClaimedEv(1, 1, o.amt)
       [] o.t = "tick" -> RTick(1)
       [] o.t = "block" -> RBlock(o.h, 0)
       [] o.t = "quiet" -> RQuietOK([n \in {0, 1} |-> IF n = 1 THEN Init0 + got ELSE Init0 - got], IF o.idle THEN {1} ELSE {}) /\ UNCHANGED rvars
  /\ obs' = Tail(obs)
  /\ UNCHANGED <<dvars, hist, quiet, nops>>

\* ---------------------------------------------------------------- a part arrives and is processed
Dev(a, sec, tot, cl) == (IF sec # "ok" THEN 1 ELSE 0) + (IF tot # RegAmt THEN 1 ELSE 0) + (IF cl # "far" THEN 1 ELSE 0)
MPart(a, sec, tot, cl) ==
  /\ Idle /\ np < MaxParts /\ ~answered
  /\ ndev + Dev(a, sec, tot, cl) <= MaxDev
  /\ (cl \in {"m-1", "m0"}) => RegMin > 0
  /\ LET i == np + 1
         c == ((i - 1) % C) + 1
         id == nextId[c]
         cltv == h + ClOff(cl)
         sreg == IF sec = "ok" THEN 1 ELSE IF sec = "other" THEN 2 ELSE 0
         p == [amt |-> a, cltv |-> cltv, chan |-> c, id |-> id, st |-> "held", ticks |-> 0]
         pre == <<[t |-> "sent", amt |-> a, sreg |-> sreg, total |-> tot],
                  [t |-> "arrive", chan |-> c, id |-> id, amt |-> a, cltv |-> cltv],
                  [t |-> "forward", chan |-> c, id |-> id]>>
         \* inbound_payment::verify + the final-CLTV checks
         verifyOK == /\ sreg = 1 /\ tot >= RegAmt
                     /\ (RegMin = 0 \/ cltv >= h + RegMin)
                     /\ cltv > h + BUF + 1
         have == SumP(cp.parts)
         failNew == /\ part' = Append(part, [p EXCEPT !.st = "failed"])
                    /\ Emit(pre \o <<[t |-> "failmsg", chan |-> c, id |-> id]>>)
                    /\ UNCHANGED <<cp, seen>>
     IN /\ np' = i /\ nextId' = [nextId EXCEPT ![c] = @ + 1]
        /\ ndev' = ndev + Dev(a, sec, tot, cl)
        /\ IF ~verifyOK THEN failNew
           ELSE IF cp.parts = {} THEN
             /\ part' = Append(part, p)
             /\ IF a >= tot
                THEN /\ cp' = [parts |-> {i}, total |-> tot, complete |-> TRUE, shown |-> a, sp |-> {i}]
                     /\ seen' = TRUE
                     /\ Emit(pre \o <<[t |-> "claimable", amt |-> a, deadline |-> cltv - BUF]>>)
                ELSE /\ cp' = [parts |-> {i}, total |-> tot, complete |-> FALSE, shown |-> 0, sp |-> {}]
                     /\ Emit(pre) /\ UNCHANGED seen
           ELSE IF tot # cp.total \/ have >= cp.total THEN failNew      \* check_merge / already claimable
           ELSE /\ part' = Append(part, p)
                /\ IF have + a >= cp.total
                   THEN /\ cp' = [cp EXCEPT !.parts = @ \cup {i}, !.complete = TRUE, !.shown = have + a, !.sp = cp.parts \cup {i}]
                        /\ seen' = TRUE
                        /\ LET m == MinC(cp.parts) IN
                           Emit(pre \o <<[t |-> "claimable", amt |-> have + a, deadline |-> (IF cltv < m THEN cltv ELSE m) - BUF]>>)
                   ELSE /\ cp' = [cp EXCEPT !.parts = @ \cup {i}]
                        /\ Emit(pre) /\ UNCHANGED seen
  /\ UNCHANGED <<h, answered, got, ntick, nblk>>
  /\ Hop([op |-> "part", amt |-> a, sec |-> sec, tot |-> tot, cl |-> cl]) /\ quiet' = FALSE

\* timer_tick_occurred: an incomplete set whose oldest part has waited MPP_TIMEOUT_TICKS is failed
MTick ==
  /\ Idle /\ ntick < MaxTicks
  /\ ntick' = ntick + 1
  /\ LET aged == [i \in DOMAIN part |-> IF i \in cp.parts THEN [part[i] EXCEPT !.ticks = @ + 1] ELSE part[i]] IN
     IF cp.parts # {} /\ SumP(cp.parts) < cp.total /\ \E i \in cp.parts : aged[i].ticks >= MPPT
     THEN /\ part' = [i \in DOMAIN part |-> IF i \in cp.parts THEN [aged[i] EXCEPT !.st = "failed"] ELSE part[i]]
          /\ cp' = NoCp
          /\ Emit(<<[t |-> "tick"]>> \o FailObs(cp.parts))
     ELSE part' = aged /\ UNCHANGED cp /\ Emit(<<[t |-> "tick"]>>)
  /\ UNCHANGED <<h, np, nextId, seen, answered, got, nblk, ndev>>
  /\ Hop([op |-> "tick"]) /\ quiet' = FALSE

\* best_block_updated: every held part that reached its own fail-back height is failed, the rest stays
Marks == {part[i].cltv - BUF : i \in cp.parts}
Jumps == {1} \cup {d - h - 1 : d \in {x \in Marks : x - h - 1 >= 1}} \cup {d - h : d \in {x \in Marks : x - h >= 1}}
MBlock(n) ==
  /\ Idle /\ nblk < MaxBlocks /\ n \in Jumps
  /\ nblk' = nblk + 1
  /\ h' = h + n
  /\ LET out == {i \in cp.parts : h + n >= part[i].cltv - BUF} IN
     /\ part' = Mark(out, "failed")
     /\ cp' = IF cp.parts \ out = {} THEN NoCp ELSE [cp EXCEPT !.parts = @ \ out]
     /\ Emit(<<[t |-> "block", h |-> h + n]>> \o FailObs(out))
  /\ UNCHANGED <<np, nextId, seen, answered, got, ntick, ndev>>
  /\ Hop([op |-> "block", n |-> n]) /\ quiet' = FALSE

\* claim_funds (the user has handled a PaymentClaimable): all parts or none; if the set is no
\* longer the one that was shown nothing is claimed (and what is left of it is forgotten)
MClaim ==
  /\ Idle /\ seen /\ ~answered
  /\ StaleClaim \/ cp.parts \subseteq cp.sp      \* every HTLC held for the hash was part of what was shown
  /\ answered' = TRUE
  /\ IF cp.parts = {} THEN UNCHANGED <<part, cp, got>> /\ Emit(<<[t |-> "claimcall"]>>)
     ELSE IF cp.complete /\ SumP(cp.parts) = cp.shown
     THEN /\ part' = Mark(cp.parts, "ful") /\ cp' = NoCp /\ got' = got + cp.shown
          /\ Emit(<<[t |-> "claimcall"]>> \o FulObs(cp.parts) \o <<[t |-> "claimed", amt |-> cp.shown]>>)
     ELSE /\ part' = Mark(cp.parts, "leaked") /\ cp' = NoCp /\ UNCHANGED got
          /\ Emit(<<[t |-> "claimcall"]>>)
  /\ UNCHANGED <<h, np, nextId, seen, ntick, nblk, ndev>>
  /\ Hop([op |-> "claim"]) /\ quiet' = FALSE

MFailBack ==
  /\ Idle /\ seen /\ ~answered
  /\ answered' = TRUE
  /\ part' = Mark(cp.parts, "failed") /\ cp' = NoCp
  /\ Emit(<<[t |-> "failcall"]>> \o FailObs(cp.parts))
  /\ UNCHANGED <<h, np, nextId, seen, got, ntick, nblk, ndev>>
  /\ Hop([op |-> "failback"]) /\ quiet' = FALSE

MQuiet ==
  /\ Idle /\ ~quiet /\ np > 0
  /\ Emit(<<[t |-> "quiet", idle |-> \A i \in DOMAIN part : part[i].st \in {"failed", "ful"}]>>)
  /\ quiet' = TRUE
  /\ UNCHANGED <<dvars, hist, nops>>

MDone == quiet /\ Idle /\ UNCHANGED mvars

MCNext ==
  \/ MObs
  \/ \E a \in Amts, sec \in Secs, tot \in Tots, cl \in Cls : MPart(a, sec, tot, cl)
  \/ MTick \/ MClaim \/ MFailBack
  \/ \E n \in 1..100 : MBlock(n)
  \/ MQuiet \/ MDone

MCSpec == MCInit /\ [][MCNext]_mvars

Bound == nops <= MaxOps
View == <<rvars, dvars, obs, quiet, nops>>

Pick == (SumP(DOMAIN part) * 7 + h + ntick * 3 + nblk * 5 + np + got) % EmitMod = 0
EmitScripts == (quiet /\ Idle /\ Len(hist) > 2 /\ (answered \/ nblk > 0 \/ ntick > 0) /\ Pick) => PrintT(<<"SCRIPT", ToJson([c |-> C, regamt |-> RegAmt, regmin |-> RegMin, ops |-> hist])>>)
=============================================================================
