SPECIFICATION MCSpec
CONSTANTS
  U = 8
  MaxOps = 24
  FailCs = {}
  FailNs = {}
  PruneTs = {}
  RgsSnaps = {}
  ResolveCs = {1}
  WithReload = FALSE
CONSTRAINT Bound
VIEW View
INVARIANT OnlyAuthentic
INVARIANT NeverOlder
INVARIANT NodeCleanup
INVARIANT Confluence
INVARIANT CodeWithinSpec
INVARIANT EmitScripts
CHECK_DEADLOCK TRUE
