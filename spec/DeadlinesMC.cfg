\* Example instantiation (the constants of the tree at the time of writing).  `./check C08` does NOT
\* use this file: it writes DeadlinesMC_gen.cfg from the constants the harness binary `consts` prints.
\* Slack1 = eu - ed - d + 1 (TLC cfg files cannot hold negative numbers).
SPECIFICATION Spec
CONSTANTS
  CCB = 36
  LGP = 3
  MBC = 18
  ARD = 6
  HFB = 39
  MIND = 48
  MINF = 42
  FAR = 2016
  H0 = 100
  OffFinal = {38,39,40,41,42,43}
  OffFwdA = {2,3,4,5,6,7}
  OffFwdB = {41,42}
  Deltas = {48,49,50,51}
  Slack1 = {0,1,2}
  FarProbe = {0,1,2}
  ProbeDeltas = {12,18,47,72}
  ProbeOffD = {42}
  OffSoon = {0,1,2,3,4,5,6}
  BigHops = {0,24}
  CoKindsUsed = {"splice6","splice1","open6","openann"}
INVARIANTS TypeOK NeverShowOrForwardTooSoon ClaimableBelowDeadline OnChainInTimeOutbound OnChainInTimeInbound WinInboundRace BoundedLoss FailBackAfterBurial EmitScripts
CONSTRAINT Horizon
CHECK_DEADLOCK FALSE
