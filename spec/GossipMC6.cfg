SPECIFICATION MCSpec
CONSTANTS
  U = 6
  MaxOps = 9
  FailCs = {2}
  FailNs = {3}
  PruneTs = {150}
  RgsSnaps = {}
  ResolveCs = {}
  WithReload = TRUE
CONSTRAINT Bound
VIEW View
INVARIANT OnlyAuthentic
INVARIANT NeverOlder
INVARIANT NodeCleanup
INVARIANT FailedStayOut
INVARIANT Confluence
INVARIANT CodeWithinSpec
INVARIANT EmitScripts
CHECK_DEADLOCK TRUE
