----------------------------- MODULE DownReplay -----------------------------
(***************************************************************************)
(* C02 / C10 -- a forwarding node B is DOWN while its next hop C closes the  *)
(* channel B-C on chain.  B died with add exchanges on B-C at any stage and, *)
(* possibly, with the monitor write of its newest counterparty commitment    *)
(* still in flight (never landed; the manager recorded it).  On restart the  *)
(* application first brings the monitor up to the chain tip -- the monitor   *)
(* sees C's commitment confirmed -- and only then does the manager replay    *)
(* the in-flight update: a counterparty-commitment update applied AFTER the  *)
(* funding spend.  HTLCs of that update which the monitor has never heard of *)
(* can appear in no transaction and are failed backwards at once; HTLCs the  *)
(* monitor knew (from an earlier counterparty commitment or from one of the  *)
(* holder commitments) are left to the on-chain logic: failed backwards only *)
(* if the confirmed commitment has no output for them.                       *)
(*                                                                         *)
(* Design model at the granularity of ChannelMonitorImpl::                  *)
(* fail_htlcs_from_update_after_funding_spend (closure is_source_known) and  *)
(* fail_unbroadcast_htlcs.  K outbound HTLCs are offered one after the other *)
(* (a new commitment needs C's previous revocation); stage[h] is how far     *)
(* the exchange of HTLC h got:                                              *)
(*   0 not offered   1 B built C's commitment with h (monitor update issued) *)
(*   2 C holds that commitment (add + commitment_signed received)           *)
(*   3 B processed C's revoke_and_ack    4 B processed C's commitment_signed *)
(* KnownFrom = "both" is the code; "holder" is the planted defect (only the  *)
(* holder commitments are consulted).                                        *)
(* When the close is buried (Bury) and when C claims on chain (CClaim) --     *)
(* before B is back, before B acts on the close, or after -- is part of the  *)
(* behaviour: a fail-back takes effect only at that depth, and a claim that  *)
(* comes first teaches B the preimage.                                       *)
(* Every finished behaviour is printed as a script for channet.              *)
(***************************************************************************)
EXTENDS Naturals, Sequences, FiniteSets, TLC, Json

CONSTANTS K, KnownFrom

VARIABLES
  stage,      \* [H -> 0..4]
  inflight,   \* the HTLC whose counterparty-commitment update is in flight at B (0 = none)
  phase,      \* "run" | "down" | "closed" | "restarted"
  confirmed,  \* HTLCs with an output in the commitment C confirmed
  failedBack, \* HTLCs B failed backwards after the restart
  buried,     \* the close has reached the depth at which B acts on it (ANTI_REORG_DELAY): fail-backs take effect
  cclaimed,   \* C has claimed on chain, with the preimages, what the confirmed commitment gives it
  hist

vars == <<stage, inflight, phase, confirmed, failedBack, buried, cclaimed, hist>>
H == 1..K

Init == stage = [h \in H |-> 0] /\ inflight = 0 /\ phase = "run" /\ confirmed = {} /\ failedBack = {}
        /\ buried = FALSE /\ cclaimed = FALSE /\ hist = <<>>

Log(op, h, f) == hist' = Append(hist, [op |-> op, htlc |-> h, inflight |-> f])

\* B offers h: a new commitment for C; its monitor write completes at once or stays in flight
Build(h, f) ==
  /\ phase = "run" /\ inflight = 0 /\ stage[h] = 0
  /\ \A g \in H : g < h => stage[g] >= 3
  /\ stage' = [stage EXCEPT ![h] = 1]
  /\ inflight' = IF f THEN h ELSE 0
  /\ Log("build", h, f) /\ UNCHANGED <<phase, confirmed, failedBack, buried, cclaimed>>

\* the in-flight write lands: B releases the add and the commitment_signed
Complete ==
  /\ phase = "run" /\ inflight # 0
  /\ inflight' = 0
  /\ Log("complete", inflight, FALSE) /\ UNCHANGED <<stage, phase, confirmed, failedBack, buried, cclaimed>>

\* the exchange of h moves on by one message (nothing leaves B while the write is in flight)
Advance(h) ==
  /\ phase = "run" /\ stage[h] \in 1..3 /\ inflight # h
  /\ stage' = [stage EXCEPT ![h] = @ + 1]
  /\ Log("advance", h, FALSE) /\ UNCHANGED <<inflight, phase, confirmed, failedBack, buried, cclaimed>>

Kill ==
  /\ phase = "run" /\ \E h \in H : stage[h] >= 1
  /\ phase' = "down"
  /\ Log("kill", 0, FALSE) /\ UNCHANGED <<stage, inflight, confirmed, failedBack, buried, cclaimed>>

\* C broadcasts the latest commitment it holds; it confirms while B is down
CClose ==
  /\ phase = "down"
  /\ phase' = "closed"
  /\ confirmed' = {h \in H : stage[h] >= 2}
  /\ Log("close", 0, FALSE) /\ UNCHANGED <<stage, inflight, failedBack, buried, cclaimed>>

\* the close gets buried (while B is still down, or after its restart)
Bury ==
  /\ phase \in {"closed", "restarted"} /\ ~buried
  /\ buried' = TRUE
  /\ Log("bury", 0, FALSE) /\ UNCHANGED <<stage, inflight, phase, confirmed, failedBack, cclaimed>>

\* C takes what the confirmed commitment gives it -- before B is back, before B acts on the close, or after
CClaim ==
  /\ phase \in {"closed", "restarted"} /\ ~cclaimed /\ confirmed # {}
  /\ cclaimed' = TRUE
  /\ Log("cclaim", 0, FALSE) /\ UNCHANGED <<stage, inflight, phase, confirmed, failedBack, buried>>

\* what the durable monitor knows
CpKnown == {h \in H : stage[h] >= 1 /\ h # inflight}
HolderKnown == {h \in H : stage[h] >= 4}
Known == IF KnownFrom = "both" THEN CpKnown \cup HolderKnown ELSE HolderKnown

\* restart: chain catch-up (fail_unbroadcast_htlcs for what the monitor knows), then the replay of the in-flight
\* update -- the commitment of `inflight` holds every HTLC offered so far
Restart ==
  /\ phase = "closed"
  /\ phase' = "restarted"
  /\ LET onchain == (CpKnown \cup HolderKnown) \ confirmed
         replayed == IF inflight = 0 THEN {} ELSE {h \in H : stage[h] >= 1}
         fresh == replayed \ Known
     IN failedBack' = onchain \cup fresh
  /\ Log("restart", 0, FALSE) /\ UNCHANGED <<stage, inflight, confirmed, buried, cclaimed>>

Finished == phase = "restarted" /\ buried /\ (cclaimed \/ confirmed = {})
Done == Finished /\ UNCHANGED vars

Next == (\E h \in H, f \in BOOLEAN : Build(h, f)) \/ Complete \/ (\E h \in H : Advance(h)) \/ Kill \/ CClose \/ Bury \/ CClaim \/ Restart \/ Done
Spec == Init /\ [][Next]_vars

-----------------------------------------------------------------------------
\* C02: an HTLC that is an output of the confirmed commitment is still claimable by C: it is not failed backwards
NoEarlyFailBack == phase = "restarted" => failedBack \cap confirmed = {}
\* C02 / C10: what can appear in no transaction is failed backwards (the upstream HTLC is not left hanging)
NothingOrphaned == phase = "restarted" => {h \in H : stage[h] >= 1} \ confirmed \subseteq failedBack
EmitScripts == Finished => PrintT(<<"SCRIPT", ToJson([k |-> K, steps |-> hist])>>)
=============================================================================
