SPECIFICATION TraceSpec
CONSTANT NumNodes = 2
INVARIANT TypeOK
INVARIANT VerifySound
POSTCONDITION TraceAccepted
CHECK_DEADLOCK FALSE
