SPECIFICATION MCSpec
CONSTANTS
  Relax = {}
  MaxAdds = 1
  Amounts = {600000}
  MaxFee = 0
  MaxDisc = 1
  QLen = 3
  MaxCrash = 1
  ChanType = "static"
VIEW View
INVARIANT TypeOK
INVARIANT CountersSane
INVARIANT ExactlyOnce
INVARIANT NonNegative
INVARIANT Agreement
INVARIANT ConservesAll
INVARIANT BalancesAgree
INVARIANT ViewsAgree
INVARIANT EmitScripts
CHECK_DEADLOCK TRUE
