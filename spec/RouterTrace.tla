---------------------------- MODULE RouterTrace ----------------------------
(* Trace validation for C16.  Every record of the trace is one call of the real
   lightning::routing::router::find_route, logged by harness/src/bin/router.rs as
     [run, ev = "case", id, g (graph as read back from the NetworkGraph + supplied first hops and
      hints), req (the RouteParameters), res (ok, err, paths)]
   TLC evaluates the property's predicates (Router.tla) on it:
        res.ok   =>  ValidRoute(g, req, res.paths)
       ~res.ok   => ~MustNotFail(g, req)      (no sufficient single path, or limits binding)
   `bad` holds the names of the falsified conjuncts of the record just consumed.

   Two modes (environment variable C16_COLLECT):
     "0"  strict: INVARIANT NoViolation (bad = {}) stops at the first falsified record; a `panic`
          record (find_route panicked) has no action, so the trace is rejected there.
     "1"  collect: every falsified record is printed as <<"BAD", run, bad>> and validation goes on
          (a `panic` record is printed as <<"BAD", run, {"Panic"}>>), so that one pass over a
          large batch yields all verdicts; the check counts the BAD lines.
   C16_CLASSIFY = "1" additionally prints how the existence oracle judged each record (evidence). *)
EXTENDS Router, Json, IOUtils

VARIABLES l, bad

Rec == ndJsonDeserialize(IOEnv.TRACE)
Collect == IOEnv.C16_COLLECT = "1"
Classify == IOEnv.C16_CLASSIFY = "1"

tvars == <<l, bad>>

TraceInit == l = 1 /\ bad = {}

IsEvent(e) == l <= Len(Rec) /\ Rec[l].ev = e /\ l' = l + 1

Verdict(c) ==
  IF c.res.ok THEN Failed(c.g, c.req, c.res.paths)
  ELSE IF MustNotFail(c.g, c.req) THEN {"FailsThoughSinglePathSuffices"} ELSE {}

Note(c) == IF c.res.ok
           THEN PrintT(<<"OKCLASS", c.run, IF MustNotFail(c.g, c.req) THEN "premise_holds"
                                           ELSE "premise_open">>)
           ELSE PrintT(<<"ERRCLASS", c.run, ErrClass(c.g, c.req)>>)

TCase == /\ IsEvent("case")
         /\ bad' = Verdict(Rec[l])
         /\ (Collect /\ bad' # {}) => PrintT(<<"BAD", Rec[l].run, bad'>>)
         /\ Classify => Note(Rec[l])

TPanic == /\ Collect
          /\ IsEvent("panic")
          /\ bad' = {"Panic"}
          /\ PrintT(<<"BAD", Rec[l].run, bad'>>)

TraceNext == TCase \/ TPanic

TraceSpec == TraceInit /\ [][TraceNext]_tvars

NoViolation == Collect \/ bad = {}

TraceAccepted ==
  LET d == TLCGet("stats").diameter IN
  IF d - 1 = Len(Rec) THEN TRUE
  ELSE /\ PrintT(<<"REJECT", d, Len(Rec)>>)
       /\ FALSE
=============================================================================
