SPECIFICATION MCSpec
CONSTANTS
  MaxAttrHops = 20
  MaxN = 27
  SizeNs = {1, 2, 3, 8, 23, 24, 25, 26, 27}
  OpsNs = {1, 2, 3, 5, 19, 20, 21, 22}
  AmtLens = {1, 8}
  CltvLens = {2, 3}
  Metas = {"none", "fillm", "fill", "fillp"}
  Customs = {"none", "two"}
  Blindeds = {0, 2}
  CodeClasses = {"node_temp", "node_perm", "perm", "plain", "recipient"}
  ULens = {0, 2, 136}
  KeyHops = {20, 21}
  DLens = {0, 254, 300}
  EncFwd = 46
  EncRecv = 76
INVARIANT TypeOK
INVARIANT PacketSizeConstant
INVARIANT HeadIsNextHop
INVARIANT LastHopReceives
INVARIANT CorruptRejected
INVARIANT AttrBounded
INVARIANT AttributedRight
INVARIANT Progress
INVARIANT EmitScripts
CHECK_DEADLOCK TRUE
