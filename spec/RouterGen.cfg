SPECIFICATION Spec
CONSTANT Topos = {1, 2, 3, 4, 5, 6, 7, 8, 9}
CONSTANT Amts = {1, 1000, 100000, 2000000}
INVARIANT Emit
CHECK_DEADLOCK FALSE
