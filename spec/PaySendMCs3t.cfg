SPECIFICATION MCSpec
CONSTANTS
  NP = 1
  K = 3
  MaxSend = 1
  MaxDup = 0
  MaxRestart = 1
  Idem = 1
  MaxOps = 12
  MaxRetry = 1
  Stale = TRUE
  Outcomes = {"sent"}
  MppRetry = {0}
  Bug = "none"
CONSTRAINT Bound
VIEW View
INVARIANT NeverBoth
INVARIANT DesignSane
INVARIANT EmitScripts
CHECK_DEADLOCK TRUE
