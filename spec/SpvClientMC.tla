---------------------------- MODULE SpvClientMC ----------------------------
(* Bounded instance of SpvClient: all trees of NB blocks, all tip moves, every
   single-request fault position; prints one driver script per reachable idle state. *)
EXTENDS SpvClient, Integers, Json

CONSTANTS NB, MaxOps, SyncListeners, EmitEvery,   \* print the script of every EmitEvery-th quiescent state
            \* SyncListeners = 0: polling only
          LieMode   \* TRUE: the source's deviations are lying answers (wrong chainwork / height on a
                    \* correct header) instead of failed / malformed ones

VARIABLE hist
mvars == <<cvars, hist>>

One(S) == IF S = {} THEN -1 ELSE CHOOSE x \in S : TRUE

MCInit ==
  /\ IF SyncListeners = 0 THEN CInit(NB, 1, FALSE) ELSE CInit(NB, SyncListeners, TRUE)
  /\ hist = <<[op |-> "init", src |-> srcTip, ltips |-> ltip]>>

MSetTip == \E b \in Blocks : CSetTip(b) /\ b # srcTip /\ hist' = Append(hist, [op |-> "set_tip", b |-> b])
NoLieRec == [b |-> -1, k |-> "none", d |-> 0]
OneLie(L) == IF L = {} THEN NoLieRec ELSE CHOOSE x \in L : TRUE
MPoll == \E ff \in Faults, bf \in BOOLEAN :
        /\ LieMode => (ff = <<{}, {}>> /\ ~bf)
        /\ CPollBegin(ff[1], ff[2], bf, {})
        /\ hist' = Append(hist, [op |-> "poll", fh |-> One(ff[1]), fb |-> One(ff[2]), best |-> bf,
                                  lie |-> NoLieRec])
\* a poll during which the source attaches a wrong chainwork / height to a correct header
MPollLie == \E L \in Lies \ {{}} :
        /\ LieMode
        /\ CPollBegin({}, {}, FALSE, L)
        /\ hist' = Append(hist, [op |-> "poll", fh |-> -1, fb |-> -1, best |-> FALSE, lie |-> OneLie(L)])
MSync == \E ff \in Faults, bf \in BOOLEAN :
        /\ CSyncBegin(ff[1], ff[2], bf)
        /\ hist' = Append(hist, [op |-> "sync", fh |-> One(ff[1]), fb |-> One(ff[2]), best |-> bf,
                                  lie |-> NoLieRec])
MNotify == CNotify /\ UNCHANGED hist
MPollEnd == CPollEnd /\ UNCHANGED hist
MSyncEnd == CSyncEnd /\ UNCHANGED hist
MDead == phase = "dead" /\ UNCHANGED mvars   \* a failed start-up sync ends the run

MCNext == MSetTip \/ MPoll \/ MPollLie \/ MSync \/ MNotify \/ MPollEnd \/ MSyncEnd \/ MDead

MCSpec == MCInit /\ [][MCNext]_mvars

Bound == Len(hist) <= MaxOps + 1
View == cvars

\* thinning of the printed scripts (printing dominates the run time): a mix of the state's components
Mix == srcTip + 2 * ltip[1] + 3 * Cardinality(cache) + ChainWork(nb) + 5 * parent[nb] + 7 * parent[nb - 1]
       + 11 * Cardinality({x \in lied : x.k \in {"over", "hup"}}) + (IF lied = {} THEN 0 ELSE (CHOOSE x \in lied : TRUE).b)
\* Behaviour generation: print the driver script of every reachable quiescent state.
EmitScripts ==
  (phase \in {"idle", "dead"} /\ Len(hist) > 1 /\ hist[Len(hist)].op # "set_tip" /\ plan = <<>>
     /\ after.res # "none" /\ (LieMode => lied # {})
     /\ (EmitEvery > 1 => Mix % EmitEvery = 0))
    => PrintT(<<"SCRIPT", ToJson([parent |-> parent, work |-> bwork, ops |-> hist])>>)
=============================================================================
