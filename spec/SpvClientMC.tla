---------------------------- MODULE SpvClientMC ----------------------------
(* Bounded instance of SpvClient: all trees of NB blocks, all tip moves, every
   single-request fault position; prints one driver script per reachable idle state. *)
EXTENDS SpvClient, Integers, Json

CONSTANTS NB, MaxOps, SyncListeners   \* SyncListeners = 0: polling only

VARIABLE hist
mvars == <<cvars, hist>>

One(S) == IF S = {} THEN -1 ELSE CHOOSE x \in S : TRUE

MCInit ==
  /\ IF SyncListeners = 0 THEN CInit(NB, 1, FALSE) ELSE CInit(NB, SyncListeners, TRUE)
  /\ hist = <<[op |-> "init", src |-> srcTip, ltips |-> ltip]>>

MSetTip == \E b \in Blocks : CSetTip(b) /\ b # srcTip /\ hist' = Append(hist, [op |-> "set_tip", b |-> b])
MPoll == \E ff \in Faults, bf \in BOOLEAN :
        /\ CPollBegin(ff[1], ff[2], bf)
        /\ hist' = Append(hist, [op |-> "poll", fh |-> One(ff[1]), fb |-> One(ff[2]), best |-> bf])
MSync == \E ff \in Faults, bf \in BOOLEAN :
        /\ CSyncBegin(ff[1], ff[2], bf)
        /\ hist' = Append(hist, [op |-> "sync", fh |-> One(ff[1]), fb |-> One(ff[2]), best |-> bf])
MNotify == CNotify /\ UNCHANGED hist
MPollEnd == CPollEnd /\ UNCHANGED hist
MSyncEnd == CSyncEnd /\ UNCHANGED hist
MDead == phase = "dead" /\ UNCHANGED mvars   \* a failed start-up sync ends the run

MCNext == MSetTip \/ MPoll \/ MSync \/ MNotify \/ MPollEnd \/ MSyncEnd \/ MDead

MCSpec == MCInit /\ [][MCNext]_mvars

Bound == Len(hist) <= MaxOps + 1
View == cvars

\* Behaviour generation: print the driver script of every reachable quiescent state.
EmitScripts ==
  (phase \in {"idle", "dead"} /\ Len(hist) > 1 /\ hist[Len(hist)].op # "set_tip" /\ plan = <<>>
     /\ after.res # "none")
    => PrintT(<<"SCRIPT", ToJson([parent |-> parent, work |-> bwork, ops |-> hist])>>)
=============================================================================
