SPECIFICATION MCSpec
CONSTANTS
  NP = 1
  K = 2
  MaxSend = 2
  MaxDup = 1
  MaxRestart = 1
  Idem = 1
  MaxOps = 16
  MaxRetry = 0
  Stale = FALSE
  Outcomes = {"sent"}
  MppRetry = {0}
  Bug = "none"
CONSTRAINT Bound
VIEW View
INVARIANT NeverBoth
INVARIANT DesignSane
INVARIANT EmitScripts
CHECK_DEADLOCK TRUE
