SPECIFICATION MCSpec
CONSTANTS
  ReqTicks = 1
  NP = 2
  Manual = FALSE
  Hold = FALSE
  Offs = {1}
  MaxPay = 1
  MaxKeep = 1
  MaxTick = 2
  MaxRestart = 1
  MaxSave = 1
  MaxAband = 1
  MaxErr = 1
  MaxMsgRecv = 0
  MaxSend = 0
  MaxOps = 8
  MinOps = 8
  CodeTicks = 1
  Idem = 1
  Stale = FALSE
  Bug = "none"
CONSTRAINT Bound
VIEW View
INVARIANT TermSane
INVARIANT OneHashPerId
INVARIANT OnePaymentPerId
INVARIANT DesignSane
INVARIANT EmitScripts
CHECK_DEADLOCK TRUE
