------------------------------ MODULE ChanTrace ------------------------------
(* Trace validation of real ChannelManager networks (engine `channet`) against Chan.tla:
   every wire message sent or received, every monitor update handed to Persist and every
   completion is one event; TLC recomputes from the endpoint's own message history what each
   signed / accepted commitment must contain and when each message may be released. *)
EXTENDS Chan, Json, IOUtils

VARIABLES l, nodeOf,  \* position in the trace;  [chan -> <<node of side 1, node of side 2>>]
          saved,      \* [<<node, k>> -> Snapshot]  abstract state at each ChannelManager snapshot
          everRAA,    \* [endpoint -> number of revocations ever released]  (survives restarts)
          projB,      \* last projection logged per node (for the reload round trip)
          fw          \* forwarding observer (C02): [adds, downFul, upClaimed, settledNow, base0, pol]

Rec == ndJsonDeserialize(IOEnv.TRACE)
tvars == <<cvars, l, nodeOf, saved, everRAA, projB, fw>>

\* events about a channel opened during the run (not in the `open` record) are handled by TExtra
ChanEvents == {"msg", "deliver", "persist", "complete", "proj"}
Extra == l <= Len(Rec) /\ ((Rec[l].ev \in ChanEvents /\ Rec[l].chan # 0 /\ Rec[l].chan \notin DOMAIN nodeOf)
                           \/ (Rec[l].ev = "event" /\ Rec[l].kind = "ChannelClosed" /\ Rec[l].chan \notin DOMAIN nodeOf))
R == Rec[l]
IsEvent(e) == l <= Len(Rec) /\ Rec[l].ev = e /\ l' = l + 1 /\ ~Extra
Aux == <<nodeOf, saved, everRAA, projB, fw>>
Stutter == UNCHANGED <<cvars, Aux>>
Closed(e) == link[e] = "closed"
EPsOf(n) == {e \in DOMAIN link : nodeOf[e[1]][e[2]] = n}

Side(c, n) == IF nodeOf[c][1] = n THEN 1 ELSE 2
EP(c, n) == <<c, Side(c, n)>>
ToSet(s) == {s[k] : k \in 1..Len(s)}

\* a logged commitment as the abstract content (the dust list is compared too: C01 "as dust")
Content(c) == [num |-> c.num, feerate |-> c.feerate, to_b |-> c.to_b, to_c |-> c.to_c,
               nondust |-> {[hash |-> h.hash, amt |-> h.amt, offered |-> h.offered] : h \in ToSet(c.nondust)},
               dust |-> {[hash |-> h.hash, amt |-> h.amt, offered |-> h.offered] : h \in ToSet(c.dust)},
               negative |-> FALSE]
NoDup(c) == Cardinality(ToSet(c.nondust)) = Len(c.nondust) /\ Cardinality(ToSet(c.dust)) = Len(c.dust)

TraceInit ==
  /\ l = 1 /\ nodeOf = <<>> /\ saved = <<>> /\ everRAA = <<>> /\ projB = <<>>
  /\ fw = [adds |-> {}, downFul |-> {}, upClaimed |-> {}, settledNow |-> {}, base0 |-> <<>>, pol |-> <<>>,
           shut |-> {}, closeFee |-> <<>>, newInfl |-> {}, crashed |-> {}, liveAtCrash |-> {}, snapKnows |-> <<>>, needSent |-> {}, owed |-> {}, settled |-> FALSE, pays |-> {}, claimedEv |-> {}, sentEv |-> {}, failEv |-> {}, lastMgr |-> <<>>, cuid |-> <<>>, failedNow |-> {}, ruid |-> <<>>, claimable |-> <<>>, mustClaim |-> {}, mustAcc |-> {}, gs |-> <<>>, reloaded |-> {}, dirty |-> {}, evhead |-> <<>>, dustCfg |-> FALSE, shutBy |-> {}]
  /\ par = <<>> /\ cnt = <<>> /\ hs = <<>> /\ fees = <<>> /\ feeBase = <<>> /\ base = <<>>
  /\ link = <<>> /\ redo = <<>> /\ lastCS = <<>> /\ order = <<>> /\ pts = <<>> /\ mon = <<>>
  /\ ownExp = <<>>

TOpen ==
  /\ IsEvent("open")
  /\ LET cs == R.chans
         C == {cs[k].chan : k \in 1..Len(cs)}
         ch(c) == CHOOSE k \in 1..Len(cs) : cs[k].chan = c
         E == C \X {1, 2}
     IN /\ nodeOf' = [c \in C |-> <<cs[ch(c)].a, cs[ch(c)].b>>]
        /\ par' = [c \in C |-> [value |-> cs[ch(c)].value_sat,
                                 funder |-> IF cs[ch(c)].funder = cs[ch(c)].a THEN 1 ELSE 2,
                                 type |-> cs[ch(c)].type,
                                 dust |-> <<cs[ch(c)].dust_a_sat, cs[ch(c)].dust_b_sat>>]]
        /\ cnt' = [e \in E |-> [sentCS |-> 0, recvCS |-> 0, sentRAA |-> 0, recvRAA |-> 0]]
        /\ hs' = [e \in E |-> {}]
        /\ fees' = [e \in E |-> <<>>]
        /\ feeBase' = [e \in E |-> cs[ch(e[1])].feerate]
        /\ base' = [e \in E |-> IF e[2] = 1 THEN cs[ch(e[1])].bal_a_msat ELSE cs[ch(e[1])].bal_b_msat]
        /\ link' = [e \in E |-> "up"]
        /\ redo' = [e \in E |-> [cs |-> FALSE, raa |-> FALSE, upd |-> {}]]
        /\ lastCS' = [e \in E |-> <<>>]
        /\ order' = [e \in E |-> "none"]
        /\ pts' = [e \in E |-> <<>>]
        /\ mon' = [e \in E |-> [last |-> IF e[2] = 1 THEN cs[ch(e[1])].mon_id_a ELSE cs[ch(e[1])].mon_id_b,
                                 infl |-> {}, cp |-> <<>>, holder |-> <<>>, pre |-> <<>>]]
        /\ ownExp' = [e \in E |-> <<>>]
        /\ everRAA' = [e \in E |-> 0]
        /\ saved' = <<>> /\ projB' = <<>>
        /\ fw' = [adds |-> {}, downFul |-> {}, upClaimed |-> {}, settledNow |-> {},
                   base0 |-> [e \in E |-> IF e[2] = 1 THEN cs[ch(e[1])].bal_a_msat ELSE cs[ch(e[1])].bal_b_msat],
                   pol |-> R.policy, shut |-> {}, closeFee |-> [c \in C |-> 0], newInfl |-> {}, crashed |-> {}, liveAtCrash |-> {}, snapKnows |-> <<>>, needSent |-> {}, owed |-> {}, settled |-> FALSE, pays |-> {}, claimedEv |-> {}, sentEv |-> {}, failEv |-> {}, lastMgr |-> <<>>, cuid |-> <<>>, failedNow |-> {}, ruid |-> <<>>, claimable |-> <<>>, mustClaim |-> {}, mustAcc |-> {}, gs |-> <<>>, reloaded |-> {}, dirty |-> {}, evhead |-> <<>>, dustCfg |-> FALSE, shutBy |-> {}]

\* not part of the commitment protocol; `warning` / `disconnect_peer` ask the transport to drop the
\* peer (the harness then disconnects, as PeerManager would) -- an `error` is never acceptable
Ignored == {"channel_ready", "announcement_signatures", "channel_update", "warning", "disconnect_peer",
            "shutdown", "closing_signed"}

\* ---- a message leaves node R.from
\* ---- forwarding observer (C02)
UpAdds(n, h) == {a \in fw.adds : a.node = n /\ a.dir = "in" /\ a.hash = h}
OutLive(n, h) == \E e \in EPsOf(n) : ~Closed(e) /\ \E x \in hs[e] : x.dir = "out" /\ x.hash = h
AnyClosed(n) == \E e \in EPsOf(n) : Closed(e)
Policy(n) == fw.pol[n + 1]
\* B offers downstream no more than it was offered upstream less its advertised fee and CLTV delta
ForwardTerms(n, amt, cltv, h) ==
  UpAdds(n, h) = {} \/ \E u \in UpAdds(n, h) :
     /\ amt + Policy(n).fee_base + (amt * Policy(n).fee_ppm) \div 1000000 <= u.amt
     /\ cltv + Policy(n).cltv_delta <= u.cltv
\* B fails upstream only when the downstream HTLC can no longer be claimed by the next hop
MayFailUp(n, e, id) ==
  LET h == Get(e, "in", id).hash IN
  Has(e, "in", id) => /\ ~OutLive(n, h)                                    \* still claimable on an open downstream channel
                      /\ (<<n, h>> \in fw.downFul => n \in fw.crashed)     \* given the preimage: only a crash can have lost it

Harmless == Ignored \cup {"error", "channel_reestablish"}
\* after a crash in the run a broken promise about what was pending is C10's, otherwise C01's
GF(p) == IF fw.crashed = {} THEN G1(p) ELSE G10(p)
\* (the forwarding property holds "across ... restarts at any point" too: end-to-end loss after a crash is both's)
G210(p) == ("C02" \in Relax) \/ ("C10" \in Relax) \/ p
GE(p) == IF fw.crashed = {} THEN G2(p) ELSE G210(p)
MinDustMsat(c) == 1000 * (IF par[c].dust[1] <= par[c].dust[2] THEN par[c].dust[1] ELSE par[c].dust[2])
DustPending(e) == FoldSet(LAMBDA h, a : a + h.amt, 0, {h \in hs[e] : h.rem = -1 /\ h.amt < MinDustMsat(e[1])})
TMsg ==
  /\ IsEvent("msg")
  /\ UNCHANGED <<nodeOf, saved, projB>>
  /\ fw' = IF R.chan = 0 THEN fw ELSE
            IF R.kind = "update_add_htlc"
            THEN [fw EXCEPT !.adds = @ \cup {[node |-> R.from, chan |-> R.chan, dir |-> "out", hash |-> R.hash, amt |-> R.amt, cltv |-> R.cltv]}]
            ELSE IF R.kind = "update_fulfill_htlc" THEN [fw EXCEPT !.upClaimed = @ \cup {<<R.from, R.hash>>}]
            ELSE IF R.kind = "shutdown" THEN [fw EXCEPT !.shut = @ \cup {R.chan}, !.shutBy = @ \cup {<<R.chan, R.from>>}]
            ELSE IF R.kind = "closing_signed" THEN [fw EXCEPT !.closeFee[R.chan] = R.fee]
            ELSE fw
  \* a node that has sent its shutdown offers no new HTLC (its peer may, until it has sent its own: the two cross)
  /\ (R.chan # 0 /\ R.kind = "update_add_htlc" /\ ~Closed(EP(R.chan, R.from))) =>
        G1(<<R.chan, R.from>> \notin fw.shutBy \/ Has(EP(R.chan, R.from), "out", R.id))
  /\ (R.chan # 0 /\ R.kind = "update_add_htlc") => G2(ForwardTerms(R.from, R.amt, R.cltv, R.hash))
  \* C02: HTLCs too small to have an output on either commitment are forfeited to fees if the channel closes; the node keeps
  \* their total within its configured dust-exposure limit: it does not OFFER a further one (its own payment or a forward)
  \* that takes the total over the limit.  (Under-approximation that cannot misjudge: only HTLCs below both sides' plain
  \* dust limits -- dust whatever the feerate and channel type -- that are not yet being removed; the weakest limit the
  \* node had so far in the run.)
  /\ (R.chan # 0 /\ R.kind = "update_add_htlc" /\ ~Closed(EP(R.chan, R.from)) /\ ~Has(EP(R.chan, R.from), "out", R.id)
        /\ R.dustcap > 0 /\ R.amt < MinDustMsat(R.chan)) =>
        G2(DustPending(EP(R.chan, R.from)) + R.amt <= R.dustcap)
  \* C09: a forward leaves only after the monitor update that made the upstream HTLC irrevocable is durable
  /\ (R.chan # 0 /\ R.kind = "update_add_htlc" /\ ~Closed(EP(R.chan, R.from)) /\ ~Has(EP(R.chan, R.from), "out", R.id)) =>
        \A u \in UpAdds(R.from, R.hash) :
           LET ue == EP(u.chan, R.from) IN
           Closed(ue) \/ G9(<<ue, R.hash>> \in DOMAIN fw.cuid /\ Durable(ue, fw.cuid[<<ue, R.hash>>]))
  /\ (R.chan # 0 /\ R.kind \in {"update_fail_htlc", "update_fail_malformed_htlc"} /\ ~Closed(EP(R.chan, R.from)))
        => /\ G2(MayFailUp(R.from, EP(R.chan, R.from), R.id))
           /\ Has(EP(R.chan, R.from), "in", R.id) => G12(<<R.from, Get(EP(R.chan, R.from), "in", R.id).hash>> \notin fw.mustClaim)
           \* C01: an HTLC inside the reported limits, sent while nothing was in motion, is not refused by the peer
           /\ Has(EP(R.chan, R.from), "in", R.id) => G1(<<R.chan, Get(EP(R.chan, R.from), "in", R.id).hash>> \notin fw.mustAcc)
           \* C09: the failure of a forwarded HTLC is passed upstream only after the update of the downstream
           \* revocation that made its removal irrevocable is durable
           /\ Has(EP(R.chan, R.from), "in", R.id) /\ Get(EP(R.chan, R.from), "in", R.id).rem = -1 =>
                LET h == Get(EP(R.chan, R.from), "in", R.id).hash IN
                \A a \in {b \in fw.adds : b.node = R.from /\ b.dir = "out" /\ b.hash = h} :
                   LET de == EP(a.chan, R.from) IN
                   Closed(de) \/ R.from \in fw.crashed
                   \/ G9(<<de, h>> \in DOMAIN fw.ruid /\ Durable(de, fw.ruid[<<de, h>>]))
  /\ LET k == R.kind  e == EP(R.chan, R.from) IN
     IF R.chan = 0 THEN UNCHANGED cvars ELSE
     \* a closed channel is never resumed; in particular no revocation secret is released any more: the
     \* commitment it would revoke is the one this side has broadcast (or may broadcast) -- C05
     IF Closed(e) THEN (IF k = "revoke_and_ack" THEN G5(FALSE) ELSE G10(k \in Harmless)) /\ UNCHANGED cvars ELSE
     CASE k = "update_add_htlc" -> SendAdd(e, R.id, R.amt, R.hash)
       [] k = "update_fulfill_htlc" -> SendRemove(e, R.id, "fulfill") /\ MayReleaseFulfil(e, R.hash)
       [] k \in {"update_fail_htlc", "update_fail_malformed_htlc"} -> SendRemove(e, R.id, "fail")
       [] k = "update_fee" -> SendFee(e, R.feerate)
       [] k = "commitment_signed" -> /\ G1(NoDup(R.c))
                                     /\ SendCS(e, Content(R.c))
                                     /\ MayReleaseCS(e, R.c.num)
                                     /\ G1(R.nsigs = Len(R.c.nondust))
       [] k = "revoke_and_ack" -> SendRAA(e, R.secret_point, R.next_point) /\ MayReleaseRAA(e)
       [] k = "channel_reestablish" -> SendReestablish(e, R.next_local, R.next_remote)
       [] k \in Ignored -> UNCHANGED cvars
       [] OTHER -> G1(FALSE) /\ UNCHANGED cvars   \* error: never on an honest run
  /\ everRAA' = IF R.chan # 0 /\ R.kind = "revoke_and_ack" /\ ~Closed(EP(R.chan, R.from))
                 THEN [everRAA EXCEPT ![EP(R.chan, R.from)] = IF cnt'[EP(R.chan, R.from)].sentRAA > @ THEN cnt'[EP(R.chan, R.from)].sentRAA ELSE @]
                 ELSE everRAA

\* ---- a message is handed to node R.to
TDeliver ==
  /\ IsEvent("deliver")
  /\ UNCHANGED <<nodeOf, saved, everRAA, projB>>
  /\ fw' = IF R.chan = 0 THEN fw ELSE
            IF R.kind = "update_add_htlc"
            THEN [fw EXCEPT !.adds = @ \cup {[node |-> R.to, chan |-> R.chan, dir |-> "in", hash |-> R.hash, amt |-> R.amt, cltv |-> R.cltv]},
                            \* (an HTLC whose onion the receiver cannot process is failed back by it, rightly)
                            !.mustAcc = IF R.bad_onion THEN {} ELSE @]
            ELSE IF R.kind = "update_fulfill_htlc" /\ ~Closed(EP(R.chan, R.to))   \* (a closed endpoint ignores it)
                 THEN [fw EXCEPT !.downFul = @ \cup {<<R.to, R.hash>>}]
            ELSE IF R.kind = "revoke_and_ack" /\ ~Closed(EP(R.chan, R.to))
                 THEN \* fulfilled outbound HTLCs whose removal this revocation makes irrevocable
                      \* (accumulated: the monitor update of this revocation may be held back and reach Persist later)
                      [fw EXCEPT !.settledNow = @ \cup {<<EP(R.chan, R.to), x.hash>> : x \in {y \in hs[EP(R.chan, R.to)] : y.dir = "out" /\ y.rem = 3 /\ y.res = "fulfill"}},
                                 \* ... and failed ones: their failure may be passed upstream once this revocation's update is durable
                                 !.failedNow = @ \cup {<<EP(R.chan, R.to), x.hash>> : x \in {y \in hs[EP(R.chan, R.to)] : y.dir = "out" /\ y.rem = 3 /\ y.res = "fail"}}]
            ELSE fw
  /\ LET k == R.kind  e == EP(R.chan, R.to) IN
     IF R.chan = 0 \/ Closed(e) THEN UNCHANGED cvars ELSE
     IF k = "error" \/ (k = "channel_reestablish" /\ Closed(Peer(e))) \/ R.tampered THEN
          \* (a revoke_and_ack whose secret does not match the announced point must be refused: the
          \* receiver closes the channel and stores nothing -- C05)
          \* the peer closed (only a closed endpoint sends an error or a bogus reestablish): we close too
          /\ link' = [link EXCEPT ![e] = "closed"]
          /\ Unch(<<par, cnt, hs, fees, feeBase, base, redo, lastCS, order, pts, mon, ownExp>>) ELSE
     CASE k = "update_add_htlc" -> RecvAdd(e, R.id, R.amt, R.hash)
       [] k = "update_fulfill_htlc" -> RecvRemove(e, R.id, "fulfill")
       [] k \in {"update_fail_htlc", "update_fail_malformed_htlc"} -> RecvRemove(e, R.id, "fail")
       [] k = "update_fee" -> RecvFee(e, R.feerate)
       [] k = "commitment_signed" -> RecvCS(e)
       [] k = "revoke_and_ack" -> RecvRAA(e)
       [] k = "channel_reestablish" -> RecvReestablish(e, R.next_local, R.next_remote)
       [] k \in Ignored -> UNCHANGED cvars
       [] OTHER -> G1(FALSE) /\ UNCHANGED cvars

\* ---- a ChannelMonitorUpdate (or a full re-persist) reaches Persist
StepsOf(kind) == {k \in 1..Len(R.steps) : R.steps[k].k = kind}
RtOK == R.rt.monitor /\ R.rt.update /\ R.rt.truncated_refused /\ R.rt.commute
\* the update that made an inbound HTLC irrevocable (the peer's revocation) is remembered per HTLC: a forward
\* of that HTLC may only leave once this update is durable (C09)
NewlyCommitted(e) == {x \in hs[e] : x.dir = "in" /\ x.add = 4 /\ <<e, x.hash>> \notin DOMAIN fw.cuid}
TPersist ==
  /\ IsEvent("persist")
  /\ UNCHANGED <<nodeOf, saved, everRAA, projB>>
  /\ fw' = IF R.has_update /\ ~Closed(EP(R.chan, R.node)) /\ R.kind # "load" /\ StepsOf("commitment_secret") # {}
            THEN LET e == EP(R.chan, R.node)
                     new == {<<e, x.hash>> : x \in NewlyCommitted(e)}
                     gone == {p \in fw.failedNow : p[1] = e /\ p \notin DOMAIN fw.ruid}
                 IN [fw EXCEPT !.cuid = [k \in DOMAIN @ \cup new |-> IF k \in new THEN R.uid ELSE @[k]],
                               !.ruid = [k \in DOMAIN @ \cup gone |-> IF k \in gone THEN R.uid ELSE @[k]]]
            ELSE fw
  /\ G12(RtOK)
  \* a closed channel accepts no further revocation secret (in particular not a forged one)
  /\ Closed(EP(R.chan, R.node)) => G5(StepsOf("commitment_secret") = {})
  /\ IF ~R.has_update /\ R.kind = "update" /\ ~Closed(EP(R.chan, R.node)) /\ Closed(Peer(EP(R.chan, R.node)))
        /\ R.id > mon[EP(R.chan, R.node)].last
     THEN \* a full write at a NEW id: the monitor, which has seen the peer's close on the chain, refused an update (a node that
          \* was down replays a write that never landed after catching up with the chain); the refused update keeps its id
          /\ mon' = [mon EXCEPT ![EP(R.chan, R.node)].last = R.id]
          /\ Unch(<<par, cnt, hs, fees, feeBase, base, link, redo, lastCS, order, pts, ownExp>>)
     ELSE IF ~R.has_update \/ Closed(EP(R.chan, R.node)) \/ R.kind = "load" THEN UNCHANGED cvars
     ELSE IF StepsOf("force_closed") # {} /\ Closed(Peer(EP(R.chan, R.node)))
     THEN \* the peer has closed (its commitment is on the chain, or it said so): this side gives the channel up too
          /\ link' = [link EXCEPT ![EP(R.chan, R.node)] = "closed"]
          /\ Unch(<<par, cnt, hs, fees, feeBase, base, redo, lastCS, order, pts, mon, ownExp>>)
     ELSE LET e == EP(R.chan, R.node)
              cpN == {R.steps[k].c.num : k \in StepsOf("counterparty_commitment")}
              hoN == {R.steps[k].c.num : k \in StepsOf("holder_commitment")}
              pre == {R.steps[k].hash : k \in StepsOf("payment_preimage")}
          IN /\ Persist(e, R.uid, R.status = "inprogress", cpN, hoN, pre)
             \* the holder commitment the node accepted is the one its own history prescribes
             /\ \A k \in StepsOf("holder_commitment") :
                   /\ G5(R.steps[k].c.num \in DOMAIN ownExp[e])
                   /\ G1(NoDup(R.steps[k].c))
                   /\ G1(R.steps[k].c.num \in DOMAIN ownExp[e] => Content(R.steps[k].c) = ownExp[e][R.steps[k].c.num])
             \* a stored revocation secret is the one for the commitment just revoked
             /\ \A k \in StepsOf("commitment_secret") : G5(R.steps[k].idx = cnt[e].recvRAA - 1)
             /\ \A k \in StepsOf("force_closed") : GF(FALSE)      \* never on honest traffic with a live peer
             \* C02: before the downstream monitor forgets a fulfilled HTLC the preimage is durable upstream
             /\ \A k \in StepsOf("commitment_secret") : \A sh \in fw.settledNow :
                   (sh[1] = e) => \A u \in UpAdds(R.node, sh[2]) :
                      LET ue == EP(u.chan, R.node) IN
                      Closed(ue) \/ G2(sh[2] \in DOMAIN mon[ue].pre /\ Durable(ue, mon[ue].pre[sh[2]]))

TComplete == /\ IsEvent("complete") /\ UNCHANGED Aux
             /\ IF Closed(EP(R.chan, R.node)) THEN UNCHANGED cvars ELSE Complete(EP(R.chan, R.node), R.id)

\* ---- the user asks to send: the reported limits are exact (C01)
\* Nothing is in motion on channel c: every update is irrevocable on both sides, nothing awaits a signature, a
\* revocation, a retransmission or a monitor write.  An HTLC sent inside the reported limits in such a state is
\* "accepted by the sender and by the peer": a direct peer that is the recipient must not fail it back on its own
\* (it may when updates cross -- the limits were computed without them -- when its user says so, or when time passes).
QuietEP(e) == /\ link[e] = "up" /\ ~redo[e].cs /\ ~redo[e].raa /\ redo[e].upd = {}
              /\ fees[e] = <<>> /\ mon[e].infl = {}
              /\ cnt[e].sentCS = cnt[e].recvRAA /\ cnt[e].recvCS = cnt[e].sentRAA
              /\ \A h \in hs[e] : h.add = 4 /\ h.rem = -1
Quiet(c) == QuietEP(<<c, 1>>) /\ QuietEP(<<c, 2>>)
TSend ==
  /\ IsEvent("send")
  /\ UNCHANGED <<cvars, nodeOf, saved, everRAA, projB>>
  \* (the recipient decides when it processes the HTLC, looking at everything pending by then: the promise is about
  \*  this HTLC alone -- any further send, by either side, ends it for the earlier ones)
  /\ fw' = IF R.result = "ok"
            THEN [fw EXCEPT !.pays = @ \cup {[hash |-> R.hash, payer |-> R.node, amt |-> R.amt, snap |-> R.snap]},
                            \* (a peer whose user has set a fixed dust-exposure limit of its own may refuse small HTLCs the
                            \*  sender's limits cannot know about)
                            !.mustAcc = IF R.direct /\ R.usable /\ R.chan \in DOMAIN nodeOf /\ R.chan \notin fw.shut /\ Quiet(R.chan) /\ ~fw.dustCfg
                                        THEN {<<R.chan, R.hash>>} ELSE {}]
            ELSE [fw EXCEPT !.mustAcc = {}]
  /\ G1(R.usable => /\ (R.first_amt >= R.min /\ R.first_amt <= R.limit) => R.result = "ok"
                    /\ (R.first_amt > R.limit \/ R.first_amt < R.min) => R.result = "err")

ChanBetween(a, b) == CHOOSE c \in DOMAIN nodeOf : {nodeOf[c][1], nodeOf[c][2]} = {a, b}
Both(a, b) == {<<ChanBetween(a, b), 1>>, <<ChanBetween(a, b), 2>>}
NoAcc == /\ UNCHANGED <<nodeOf, saved, everRAA, projB>> /\ fw' = [fw EXCEPT !.mustAcc = {}]
TDisconnect ==
  /\ IsEvent("disconnect") /\ NoAcc
  /\ Disconnect({e \in Both(R.a, R.b) : ~Closed(e)})
TReconnect ==
  /\ IsEvent("reconnect") /\ UNCHANGED Aux
  /\ Reconnect({e \in Both(R.a, R.b) : ~Closed(e)})

\* ---- ChannelManager snapshots, crashes and restarts (C10, C12)
TMgrSnap ==
  /\ IsEvent("mgr_snap")
  /\ saved' = [k \in DOMAIN saved \cup {<<R.node, R.k>>} |->
                 IF k = <<R.node, R.k>> THEN Snapshot(EPsOf(R.node)) ELSE saved[k]]
  /\ fw' = [fw EXCEPT !.snapKnows = [k \in DOMAIN @ \cup {<<R.node, R.k>>} |->
                 IF k = <<R.node, R.k>> THEN {p[2] : p \in {q \in fw.downFul : q[1] = R.node}} ELSE @[k]]]
  /\ UNCHANGED <<cvars, nodeOf, everRAA, projB>>

MonIds == [e \in EPsOf(R.node) |->
             LET ks == {k \in 1..Len(R.mons) : R.mons[k].chan = e[1]} IN
             IF ks = {} THEN 0 ELSE R.mons[CHOOSE k \in ks : TRUE].id]
PeersOf(n) == {Peer(e) : e \in EPsOf(n)}
\* the update carrying the latest commitment_signed this endpoint accepted has reached its monitor (while the user
\* refuses events, updates may wait in the manager behind a blocked one: the monitor has not seen those)
HolderKnown(e) == LET n == cnt[e].recvCS IN n \in DOMAIN mon[e].holder /\ mon[e].holder[n] <= MonIds[e]
TCrash ==
  /\ IsEvent("crash")
  /\ UNCHANGED <<nodeOf, saved, everRAA, projB>>
  /\ fw' = [fw EXCEPT !.crashed = @ \cup {R.node}, !.mustAcc = {},
                       \* (gossip status: the staged counters are volatile, the peers are disconnected after a restart)
                       !.gs = [k \in DOMAIN @ |-> IF k[1] = R.node THEN [@[k] EXCEPT !.live = FALSE, !.streak = 0] ELSE @[k]],
                       !.reloaded = IF R.reload THEN @ \cup {R.node} ELSE @,
                       !.dirty = IF R.reload THEN @ ELSE @ \cup {R.node},
                       \* (a payment the restored manager has never heard of is no longer this node's to report -- also
                       \*  not after a later restart from a manager written in between)
                       !.pays = {q \in @ : ~(q.payer = R.node /\ q.snap > R.mgr)},
                       \* (what the user was shown survives a clean reload; an older manager may not know it)
                       !.claimable = IF R.reload THEN [x \in DOMAIN @ |-> IF x[1] = R.node THEN [@[x] EXCEPT !.reloaded = TRUE] ELSE @[x]]
                                     ELSE [x \in {y \in DOMAIN @ : y[1] # R.node} |-> @[x]],
                       !.mustClaim = IF R.reload THEN @ ELSE {p \in @ : p[1] # R.node},
                       !.lastMgr = [n \in DOMAIN @ \cup {R.node} |-> IF n = R.node THEN R.mgr ELSE @[n]],
                       \* (a terminal event the user handled before the restart stays handled, whatever manager is
                       \* restored: the library then no longer owes it -- its completion action told the monitor)
                       !.settledNow = {p \in @ : p[1] \notin EPsOf(R.node)},
                       !.failedNow = {p \in @ : p[1] \notin EPsOf(R.node)},
                       \* an event the user refused stays owed if the manager restarted from was written after
                       \* the refusal (pending events are part of it)
                       !.owed = {o \in @ : o[1] # R.node \/ o[4] <= R.mgr},
                       !.liveAtCrash = {p \in @ : p[1] # R.node} \cup
                          \* (the monitor knows a claim once the peer's signature for the removal was accepted: rem >= 1;
                          \* an update_fulfill_htlc alone is in no durable state)
                          {<<R.node, x.hash>> : x \in UNION {{y \in hs[e] : y.dir = "out" /\ MonIds[e] >= mon[e].last
                                                                      /\ (y.res = "fulfill" => y.rem >= 1 /\ HolderKnown(e))} : e \in {z \in EPsOf(R.node) : ~Closed(z)}}},
                       \* claims the durable monitor knows (peer's signature for the removal was accepted, so the
                       \* holder-commitment update recorded the claim) but the restored manager does not: the
                       \* restarted node must report them as sent again (own payments)
                       !.needSent = {p \in @ : p[1] # R.node} \cup
                          {<<R.node, x.hash>> : x \in UNION {{y \in hs[e] : y.dir = "out" /\ y.res = "fulfill" /\ y.rem >= 1
                                                                     /\ MonIds[e] >= mon[e].last /\ HolderKnown(e) /\ UpAdds(R.node, y.hash) = {}
                                                                     /\ y.hash \notin (IF <<R.node, R.mgr>> \in DOMAIN fw.snapKnows THEN fw.snapKnows[<<R.node, R.mgr>>] ELSE {})}
                                                              : e \in {z \in EPsOf(R.node) : ~Closed(z)}}}]
  /\ IF <<R.node, R.mgr>> \in DOMAIN saved
     THEN Restart(EPsOf(R.node), PeersOf(R.node), saved[<<R.node, R.mgr>>], MonIds)
     ELSE \* the snapshot taken right after channel open (k = 0): nothing had happened yet
          Restart(EPsOf(R.node), PeersOf(R.node),
                  [Snapshot(EPsOf(R.node)) EXCEPT !.cnt = [e \in EPsOf(R.node) |-> [sentCS |-> 0, recvCS |-> 0, sentRAA |-> 0, recvRAA |-> 0]],
                                                   !.hs = [e \in EPsOf(R.node) |-> {}],
                                                   !.mon = [e \in EPsOf(R.node) |-> [mon[e] EXCEPT !.last = 0]]], MonIds)
  \* a clean reload (latest manager, every monitor write landed) must never close a channel (C12)
  /\ R.reload => G12(\A e \in EPsOf(R.node) : link[e] # "closed" => link'[e] # "closed")

\* what a cooperative close pays: each side's irrevocable balance, the funder's less the agreed fee
\* (an output exactly at the dust limit may be kept -- BOLT-3 "below" -- or dropped, as LDK does)
CoopOutputs(c, atDust) ==
  LET f == par[c].funder
      vf == SatSub(base[<<c, f>>] \div 1000, fw.closeFee[c])
      vo == base[<<c, Other(f)>>] \div 1000
      keep(v, s) == v > par[c].dust[s] \/ (atDust /\ v = par[c].dust[s])
      lo == IF vf <= vo THEN vf ELSE vo
      hi == IF vf <= vo THEN vo ELSE vf
      klo == IF vf <= vo THEN keep(vf, f) ELSE keep(vo, Other(f))
      khi == IF vf <= vo THEN keep(vo, Other(f)) ELSE keep(vf, f)
  IN (IF klo THEN <<lo>> ELSE <<>>) \o (IF khi THEN <<hi>> ELSE <<>>)
TBroadcast ==
  /\ IsEvent("broadcast") /\ Stutter
  \* the funding transaction of a new channel is not broadcast while its first monitor write is in flight
  /\ R.type = "Funding" => G9(\A p \in fw.newInfl : p[1] # R.node)
  /\ (R.type = "CooperativeClose" /\ R.spends_chan # 0) => G1(R.out_values \in {CoopOutputs(R.spends_chan, TRUE), CoopOutputs(R.spends_chan, FALSE)})
  /\ (R.c_num >= 0 /\ R.chan \in DOMAIN nodeOf) =>
       LET o == EP(R.chan, R.node) IN
       /\ G1(Closed(o))                      \* never on a live channel
       /\ G5(R.c_num >= everRAA[o])          \* never a commitment whose secret was released

\* ---- events: a closed channel has no place on an honest off-chain run
CoopClose == R.kind = "ChannelClosed" /\ R.reason = "CooperativeClosure"
\* events the library documents as re-delivered until handled (the user's handler may answer ReplayEvent)
PersistentEvents == {"PaymentSent", "PaymentFailed", "PaymentClaimable"}
\* the user closes a channel unilaterally
TForceClose == /\ IsEvent("force_close") /\ NoAcc
               /\ link' = [link EXCEPT ![EP(R.chan, R.node)] = "closed"]
               /\ Unch(<<par, cnt, hs, fees, feeBase, base, redo, lastCS, order, pts, mon, ownExp>>)
\* every broadcast transaction has been mined and every timelock of the run has expired
TSettled == /\ IsEvent("settled") /\ UNCHANGED <<cvars, nodeOf, saved, everRAA, projB>>
            /\ fw' = [fw EXCEPT !.settled = TRUE]
\* the recipient's own spend of the HTLC output with the preimage has confirmed (`claim_onchain`: the preimage went straight
\* to its monitor): it took the money as surely as through a PaymentClaimed -- C02 "by message or from the chain"
TOnchainClaimed == /\ IsEvent("onchain_claimed") /\ UNCHANGED <<cvars, nodeOf, saved, everRAA, projB>>
                   /\ fw' = [fw EXCEPT !.claimedEv = @ \cup {R.hash}]
HasEv(S, n, h) == \E p \in S : p[1] = n /\ p[2] = h
TEventRefused ==
  /\ IsEvent("event_refused") /\ UNCHANGED <<cvars, nodeOf, saved, everRAA, projB>>
  /\ fw' = IF R.kind \in PersistentEvents THEN [fw EXCEPT !.owed = @ \cup {<<R.node, R.kind, R.hash, R.snap>>}] ELSE fw
TEvent ==
  /\ IsEvent("event") /\ UNCHANGED <<nodeOf, saved, everRAA, projB>>
  /\ fw' = IF R.kind \in PersistentEvents
            THEN [fw EXCEPT !.needSent = IF R.kind = "PaymentSent" THEN @ \ {<<R.node, R.hash>>} ELSE @,
                            !.owed = {o \in @ : ~(o[1] = R.node /\ o[2] = R.kind /\ o[3] = R.hash)},
                            !.sentEv = IF R.kind = "PaymentSent" THEN @ \cup {<<R.node, R.hash, R.snap>>} ELSE @,
                            !.failEv = IF R.kind = "PaymentFailed" THEN @ \cup {<<R.node, R.hash, R.snap>>} ELSE @,
                            !.claimable = IF R.kind = "PaymentClaimable"
                                          THEN [x \in DOMAIN @ \cup {<<R.node, R.hash>>} |->
                                                  IF x = <<R.node, R.hash>> THEN [deadline |-> R.deadline, reloaded |-> FALSE] ELSE @[x]]
                                          ELSE @]
            ELSE IF R.kind = "PaymentClaimed" THEN [fw EXCEPT !.claimedEv = IF R.node \in fw.crashed THEN @ ELSE @ \cup {R.hash}, !.mustClaim = @ \ {<<R.node, R.hash>>}]
            ELSE fw
  /\ IF CoopClose /\ ~Closed(EP(R.chan, R.node))
     THEN \* a cooperative close needs a shutdown exchange and no pending HTLC
          /\ G1(R.chan \in fw.shut /\ hs[EP(R.chan, R.node)] = {})
          /\ link' = [link EXCEPT ![EP(R.chan, R.node)] = "closed"]
          /\ Unch(<<par, cnt, hs, fees, feeBase, base, redo, lastCS, order, pts, mon, ownExp>>)
     ELSE /\ UNCHANGED cvars
          /\ R.kind = "ChannelClosed" => GF(Closed(EP(R.chan, R.node)))
  /\ R.kind = "PaymentSent" => R.preimage_ok
  \* C14: the fulfil's attribution data reports the hold time of every hop of the path, whatever way the claim took
  \* through the hops (directly, out of a holding cell, after a reconnection, behind a monitor write)
  \* (a claim that was replayed from a monitor after a restart, or made on chain, carries none: judged on runs without
  \*  restarts and closed channels)
  /\ (R.kind = "PaymentPathSuccessful" /\ fw.crashed = {} /\ \A e \in DOMAIN link : ~Closed(e)) => G14(R.hold_times = R.hops)
  \* A payment whose preimage this node has been given (update_fulfill_htlc delivered to it) is not
  \* reported failed.  After a restart from a stale ChannelManager the library documents one rare
  \* exception (PaymentFailed after a *completed* PaymentSent, to be ignored by the user): so after a
  \* crash only payments whose HTLC was still held by the (complete) monitor at the crash are judged --
  \* the monitor knows the claim and the restarted node must resolve them as sent (C10 / C03).
  \* That exception presupposes a PaymentSent the user HAS handled: one it refused (ReplayEvent) is still owed,
  \* its completion action has not run, so the monitor still holds the claim.
  /\ R.kind = "PaymentFailed" =>
        G10(<<R.node, R.hash>> \in fw.downFul =>
              (R.node \in fw.crashed /\ <<R.node, R.hash>> \notin fw.liveAtCrash /\ HasEv(fw.sentEv, R.node, R.hash)))

TProj ==
  /\ IsEvent("proj")
  /\ UNCHANGED <<cvars, nodeOf, saved, everRAA, fw>>
  /\ projB' = [n \in DOMAIN projB \cup {<<R.node, R.chan>>} |-> IF n = <<R.node, R.chan>> THEN R ELSE projB[n]]
  \* at the end of a wound-down run nothing is left pending on an open channel
  \* (an HTLC whose other leg was still pending on a channel when that channel was force-closed waits for the chain,
  \*  which is not part of these runs; one whose other leg had been removed irrevocably before has no such excuse)
  \* (after a crash in the run this is C10's "every HTLC that was pending still resolves", otherwise C01's)
  /\ (R.final /\ ~Closed(EP(R.chan, R.node))) =>
        /\ GF(\A x \in hs[EP(R.chan, R.node)] : ~fw.settled /\ \E a \in fw.adds : a.hash = x.hash /\ Closed(EP(a.chan, a.node))
                                                                  /\ \E y \in hs[EP(a.chan, a.node)] : y.hash = x.hash)
        /\ GF(R.n_in + R.n_out = Cardinality(hs[EP(R.chan, R.node)]))
  \* the projection after a reload equals the one taken before it
  /\ (R.after_reload /\ <<R.node, R.chan>> \in DOMAIN projB) =>
        LET b == projB[<<R.node, R.chan>>] IN
        G12(b.out_cap = R.out_cap /\ b.in_cap = R.in_cap /\ b.n_in = R.n_in /\ b.n_out = R.n_out /\ b.ready = R.ready
            \* ... and everything else a user can read about the channel: type, ids and aliases, reserves, limits, the
            \* peer's forwarding terms, the user's configuration, feerate, shutdown state (one interned value)
            /\ b.static = R.static
            \* ... the send limits, every pending HTLC as the user is shown it (id, amount, expiry, hash, stage, dust or not)
            \* and the node's recent payments (interned values)
            /\ b.limit = R.limit /\ b.min = R.min /\ b.dyn = R.dyn /\ b.pays = R.pays)

\* ---- the user claims / gives up a payment it was shown.  A node re-read from what it wrote reacts to the call like
\* the original (C12): a payment shown as claimable before a clean reload, and claimed below its advertised
\* deadline after it, is claimed -- its HTLC is not failed back.  (Whether the original itself would have claimed
\* is the inbound-payment property's business; here only the reload is judged.)
TClaimOp ==
  /\ l <= Len(Rec) /\ Rec[l].ev \in {"claim", "fail"} /\ l' = l + 1
  /\ UNCHANGED <<cvars, nodeOf, saved, everRAA, projB>>
  /\ LET r == Rec[l]  k == <<r.node, r.hash>> IN
     LET acc == {p \in fw.mustAcc : p[2] # r.hash} IN
     fw' = IF k \notin DOMAIN fw.claimable THEN [fw EXCEPT !.mustAcc = acc]
           ELSE IF r.ev = "claim" /\ fw.claimable[k].reloaded /\ r.height < fw.claimable[k].deadline
                THEN [fw EXCEPT !.mustClaim = @ \cup {k}, !.mustAcc = acc]
                ELSE [fw EXCEPT !.claimable = [x \in DOMAIN @ \ {k} |-> @[x]], !.mustAcc = acc]

\* ---- what a node tells the network about its channels (C12, design model GossipStatus.tla): a channel that has not
\* been live for DisableAfter consecutive timer ticks has been announced as disabled, one that has been live for
\* EnableAfter ticks as enabled.  Only the announced bit is persisted (the staged counters start again after a
\* reload); a node that was written and re-read keeps to this like the original.  Judged for nodes that were
\* re-read from their latest state (a stale manager may legitimately hold an older bit), on channels no side is
\* shutting down.  The bounds are generous (the code: DISABLE_GOSSIP_TICKS + 1 = 11, ENABLE_GOSSIP_TICKS + 1 = 6).
DisableAfter == 14
EnableAfter == 9
GsOf(k) == IF k \in DOMAIN fw.gs THEN fw.gs[k] ELSE [ann |-> TRUE, live |-> TRUE, streak |-> 0]
TTick ==
  /\ IsEvent("tick") /\ UNCHANGED <<cvars, nodeOf, saved, everRAA, projB>>
  /\ LET n == R.node
         C == {e[1] : e \in {x \in EPsOf(n) : ~Closed(x)}}
         lv(c) == link[EP(c, n)] = "up"
         \* (a broadcast waits in the node until some peer is connected: with nobody to tell, the count starts again)
         heard == \E e \in EPsOf(n) : link[e] = "up"
         upd(c) == [ann |-> GsOf(<<n, c>>).ann, live |-> lv(c),
                    streak |-> IF ~heard THEN 0 ELSE IF GsOf(<<n, c>>).live = lv(c) THEN GsOf(<<n, c>>).streak + 1 ELSE 1]
     IN /\ fw' = [fw EXCEPT !.mustAcc = {},
                            !.gs = [k \in DOMAIN @ \cup {<<n, c>> : c \in C} |-> IF k[1] = n /\ k[2] \in C THEN upd(k[2]) ELSE @[k]]]
        /\ (n \in fw.reloaded /\ n \notin fw.dirty) =>
              \A c \in C : LET g == GsOf(<<n, c>>) IN
                 (c \notin fw.shut /\ g.live = lv(c)) =>
                    /\ G12((~g.live /\ g.streak >= DisableAfter) => ~g.ann)
                    /\ G12((g.live /\ g.streak >= EnableAfter) => g.ann)
TBcastUpdate ==
  /\ IsEvent("bcast_update") /\ UNCHANGED <<cvars, nodeOf, saved, everRAA, projB>>
  /\ fw' = [fw EXCEPT !.gs = [k \in DOMAIN @ \cup {<<R.node, R.chan>>} |->
                                 IF k = <<R.node, R.chan>> THEN [GsOf(k) EXCEPT !.ann = R.enabled] ELSE @[k]]]

\* ---- the event at the head of a node's queue right before a clean shutdown's write and right after the re-read (C12:
\* "payments and events"): an event of a kind the library keeps across restarts comes back exactly as it was shown
\* (one interned value per distinct rendering; 0 = empty queue / a kind that is not kept)
EvHeadOf(n) == IF n \in DOMAIN fw.evhead THEN fw.evhead[n] ELSE 0
TEvHead ==
  /\ IsEvent("evhead") /\ UNCHANGED <<cvars, nodeOf, saved, everRAA, projB>>
  /\ R.after_reload => G12(EvHeadOf(R.node) = 0 \/ R.id = EvHeadOf(R.node))
  /\ fw' = [fw EXCEPT !.evhead = [n \in DOMAIN @ \cup {R.node} |-> IF n = R.node THEN R.id ELSE @[n]]]

TOther ==
  /\ l <= Len(Rec) /\ Rec[l].ev \in {"forward", "intercept_fwd", "intercept_fail", "signer", "fee", "block", "persist_mode", "restarted", "close", "open_extra", "pause_flush", "flush", "hold_events", "settle_chain", "mine_skipped", "kill", "claim_onchain", "sweeper_track_failed", "config"}
  /\ l' = l + 1 /\ UNCHANGED <<cvars, nodeOf, saved, everRAA, projB>>
  \* (time passing, fee changes, a slow signer, ... : whatever was promised about a quiet channel is off)
  \* (the `fee` operation makes the node's timer tick once more without a `tick` record: the tick counts start again)
  /\ fw' = IF Rec[l].ev \in {"forward", "persist_mode", "restarted", "pause_flush", "flush", "sweeper_track_failed"} THEN fw
            ELSE IF Rec[l].ev = "fee" THEN [fw EXCEPT !.mustAcc = {}, !.gs = [k \in DOMAIN @ |-> [@[k] EXCEPT !.streak = 0]]]
            \* (the user changes its forwarding policy: for a while HTLCs paying the old or the new terms are forwarded --
            \*  the node is held to the weaker of the two from here on)
            ELSE IF Rec[l].ev = "config"
                 THEN [fw EXCEPT !.mustAcc = {}, !.dustCfg = @ \/ (Rec[l].ok /\ Rec[l].max_dust > 0),
                                 !.pol = [k \in DOMAIN @ |-> IF k = Rec[l].node + 1 /\ Rec[l].ok
                                                              THEN [cltv_delta |-> IF Rec[l].cltv_delta < @[k].cltv_delta THEN Rec[l].cltv_delta ELSE @[k].cltv_delta,
                                                                    fee_base |-> IF Rec[l].fee_base < @[k].fee_base THEN Rec[l].fee_base ELSE @[k].fee_base,
                                                                    fee_ppm |-> IF Rec[l].fee_ppm < @[k].fee_ppm THEN Rec[l].fee_ppm ELSE @[k].fee_ppm]
                                                              ELSE @[k]]]
            ELSE [fw EXCEPT !.mustAcc = {}]

\* ---- a channel opened while the run is in progress (C09: nothing that depends on the initial
\* monitor write is released before that write is durable)
TExtra ==
  /\ Extra /\ l' = l + 1
  /\ UNCHANGED <<cvars, nodeOf, saved, everRAA, projB>>
  /\ LET r == Rec[l] IN
     \* (the first write of a new monitor is complete when ITS id is reported complete -- not when a later update of
     \*  the same channel, handed over while it was in flight, is: completions arrive in any order)
     /\ fw' = IF r.ev = "persist" /\ r.kind = "new" /\ r.status = "inprogress"
               THEN [fw EXCEPT !.newInfl = @ \cup {<<r.node, r.chan, r.id>>}]
               ELSE IF r.ev = "complete" THEN [fw EXCEPT !.newInfl = @ \ {<<r.node, r.chan, r.id>>}]
               ELSE fw
     \* (funding_signed is deliberately sent at once by the acceptor -- it has nothing at stake yet --
     \* and is not in the property's list; channel_ready and the funding broadcast are)
     /\ (r.ev = "msg" /\ r.kind = "channel_ready") => G9(\A p \in fw.newInfl : ~(p[1] = r.from /\ p[2] = r.chan))
     \* ... and once it is, exactly what was held comes out: at the end of a wound-down run (every write
     \* completed, peers connected, everything delivered) a channel whose funding is buried is ready
     /\ (r.ev = "proj" /\ r.final /\ r.confs_req > 0 /\ r.confs >= r.confs_req) => G9(r.ready)

\* C12: the scorer survives serialization (same bytes, same answers), truncations are refused
TScorer == IsEvent("rt_scorer") /\ Stutter
           /\ G12(R.read_ok /\ R.answers_equal /\ R.truncated_refused)   \* (byte equality is not required: hash-map order)

\* C12: the output sweeper survives serialization and reacts to later blocks like the original
TSweeper == IsEvent("rt_sweeper") /\ Stutter /\ G12(R.read_ok /\ R.equal)

\* ---- end of a wound-down run, per node (also for nodes all of whose channels are closed)
TFin ==
  /\ IsEvent("fin") /\ Stutter
  \* C10: every claim the durable monitor knew at a crash was reported again as PaymentSent
  /\ G10(\A p \in fw.needSent : p[1] # R.node)
  \* C10: every event the user refused was handed over again
  /\ G10(\A o \in fw.owed : o[1] # R.node)
  \* Once the chain has settled everything (C02 / C10, end to end): a payment of this node -- which never
  \* restarted -- that the recipient claimed was reported sent and never failed (otherwise a hop in between
  \* lost the money), and every payment has reached its terminal event.  (Amounts that may have no output on
  \* a commitment transaction are forfeited to fees when their channel closes: not judged.)
  /\ (fw.settled /\ R.node \notin fw.crashed) =>
        \A p \in {q \in fw.pays : q.payer = R.node /\ q.amt >= 10000000} :
           /\ GE(p.hash \in fw.claimedEv => HasEv(fw.sentEv, R.node, p.hash))
           /\ GE(HasEv(fw.failEv, R.node, p.hash) => p.hash \notin fw.claimedEv)
           /\ GE(HasEv(fw.sentEv \cup fw.failEv, R.node, p.hash))
  \* A payer that restarted from a manager which knows the payment reports a terminal event (again) after
  \* the restart: pending events and the monitors' knowledge of resolved HTLCs survive (C10).  Which one is not
  \* judged here (registered findings about stale restarts concern exactly that).
  /\ (fw.settled /\ R.node \in fw.crashed /\ R.node \in DOMAIN fw.lastMgr) =>
        \A p \in {q \in fw.pays : q.payer = R.node /\ q.amt >= 10000000 /\ q.snap <= fw.lastMgr[R.node]} :
           G10(HasEv(fw.sentEv \cup fw.failEv, R.node, p.hash))
  /\ ~AnyClosed(R.node) =>
        \* C02: every preimage the node learned downstream was used upstream ...
        /\ G2(\A p \in fw.downFul : (p[1] = R.node /\ UpAdds(R.node, p[2]) # {}) => p \in fw.upClaimed)
        \* ... and over the HTLCs it forwarded, what it was paid upstream covers what it paid downstream
        /\ G2(LET n == R.node
                   fwd == {a \in fw.adds : a.node = n /\ a.dir = "out" /\ UpAdds(n, a.hash) # {}}
                   paidOut == FoldSet(LAMBDA a, s : s + (IF <<n, a.hash>> \in fw.downFul THEN a.amt \div 1000 ELSE 0), 0, fwd)
                   gotIn == FoldSet(LAMBDA a, s : s + (IF <<n, a.hash>> \in fw.upClaimed /\ \E o \in fwd : o.hash = a.hash THEN a.amt \div 1000 ELSE 0), 0,
                                    {a \in fw.adds : a.node = n /\ a.dir = "in"})
               IN gotIn >= paidOut)

TraceNext == TOnchainClaimed \/ TTick \/ TEvHead \/ TBcastUpdate \/ TClaimOp \/ TSweeper \/ TForceClose \/ TSettled \/ TEventRefused \/ TFin \/ TScorer \/ TExtra \/ TOpen \/ TMsg \/ TDeliver \/ TPersist \/ TComplete \/ TSend \/ TDisconnect \/ TReconnect
             \/ TEvent \/ TOther \/ TMgrSnap \/ TCrash \/ TBroadcast \/ TProj

TraceSpec == TraceInit /\ [][TraceNext]_tvars

TraceAccepted ==
  LET d == TLCGet("stats").diameter IN
  IF d - 1 = Len(Rec) THEN TRUE
  ELSE /\ PrintT(<<"REJECT", d, Len(Rec)>>)
       /\ FALSE
=============================================================================
