SPECIFICATION MCSpec
CONSTANTS
  U = 1
  MaxOps = 14
  FailCs = {}
  FailNs = {}
  PruneTs = {}
  RgsSnaps = {}
  ResolveCs = {}
  WithReload = FALSE
CONSTRAINT Bound
VIEW View
INVARIANT OnlyAuthentic
INVARIANT NeverOlder
INVARIANT NodeCleanup
INVARIANT FailedStayOut
INVARIANT Confluence
INVARIANT CodeWithinSpec
INVARIANT EmitScripts
CHECK_DEADLOCK TRUE
