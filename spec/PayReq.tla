------------------------------- MODULE PayReq -------------------------------
(***************************************************************************)
(* C18 -- payment requests round-trip and cannot be forged or altered.     *)
(*                                                                         *)
(* Part (i), PROTOCOL: the stateless BOLT-12 derivation / verification     *)
(* protocol, stated over what a caller of the offers API can observe:      *)
(* which party (= which ExpandedKey + node key) built which object from    *)
(* which other object, which unsigned object was altered, and what         *)
(* InvoiceRequest::verify_using_metadata / verify_using_recipient_data and  *)
(* Bolt12Invoice::verify_using_metadata answer.  Metadata, derived signing *)
(* keys and HMACs are symbolic terms (`Commit`) recording the key that     *)
(* produced them, the nonce, the IV class and the content they commit to;  *)
(* verification recomputes the term under the verifier's key and compares. *)
(* The invariant VerifySound says that this accepts exactly the objects    *)
(* that derive, unaltered, from what the verifier itself created (ghost    *)
(* provenance fields `by`, `otamp`, `ptamp`, never read by the Accepts operators). *)
(*                                                                         *)
(* Part (ii), VERDICT TABLE: Build -> RoundTrip -> Mutate(class) -> Parse  *)
(* -> Verdict for BOLT-11 strings and signed BOLT-12 TLV streams, as       *)
(* predicates over the observations of one parse.                          *)
(*                                                                         *)
(* Part (iii), ADMISSIBLE INPUTS: which builder inputs the property        *)
(* quantifies over (field value ranges of BOLT-11 / BOLT-12): an           *)
(* admissible input that a builder refuses is a violation, and so is an    *)
(* input the format cannot represent that a builder accepts.  What a built *)
(* or parsed object exposes through its accessors must be the numbers that *)
(* went in; hand-assembled, honestly signed strings / TLV streams with the *)
(* same boundary numbers must not panic the parsers and, when parsed, must *)
(* re-serialise to themselves.                                             *)
(*                                                                         *)
(* Object ids are positions in `objs`.  Nodes are 1..NumNodes; node 0 is   *)
(* "nobody" (an altered copy has no builder).                              *)
(***************************************************************************)
EXTENDS Integers, Sequences, FiniteSets, TLC

CONSTANT NumNodes

VARIABLES
  objs,   \* sequence of payment-request objects built so far (part i)
  last,   \* the last verification call and its answer (part i)
  tc      \* the verdict-table case under examination (part ii)

pvars == <<objs, last, tc>>

Nodes == 1..NumNodes
KeyModes == {"explicit", "meta", "path"}    \* explicit signing key / metadata-derived / blinded-path-derived
\* what an alteration changes: a committed field (re-encoded) / the commitment itself (metadata,
\* derived key replaced) / one single bit of one TLV record of the byte stream (any record: keys and
\* their parity byte, paths, amounts, strings, metadata...)
AlterClasses == {"field", "commit", "bit"}

-----------------------------------------------------------------------------
(* Symbolic terms *)
NoCommit == [k |-> 0, nz |-> 0, iv |-> "none", over |-> <<>>]
Commit(k, nz, iv, over) == [k |-> k, nz |-> nz, iv |-> iv, over |-> over]
NoContent == <<0, "none">>
Junk(c) == [c EXCEPT !.k = 0]               \* a commitment nobody's key produces

NoLast == [op |-> "none", n |-> 0, obj |-> 0, via |-> "none", nz |-> 0, accept |-> FALSE]
NoCase == [fmt |-> "none", stage |-> "none", hasN |-> FALSE, hasv |-> FALSE, vals |-> <<>>]

(* kind: "offer" | "refund" | "invreq" | "invoice"
   by:   builder (0 for an altered copy)          src: object it was built from / copied from
   root: the offer / refund at the start of the chain
   mode: key mode of the root
   ofl/ocm: offer-level content and commitment   (what offer TLVs 1..79 say)
   rfl/rcm: payer-level content and commitment   (invoice-request / refund TLVs and payer metadata)
   otamp/ptamp: GHOST -- offer-level / payer-level content differs from what its creator built *)
Obj(kind, by, src, root, mode, ofl, ocm, rfl, rcm, otamp, ptamp) ==
  [kind |-> kind, by |-> by, src |-> src, root |-> root, mode |-> mode, ofl |-> ofl, ocm |-> ocm,
   rfl |-> rfl, rcm |-> rcm, otamp |-> otamp, ptamp |-> ptamp]

Ids == 1..Len(objs)
NextId == Len(objs) + 1
IsKind(i, k) == i \in Ids /\ objs[i].kind = k

-----------------------------------------------------------------------------
(* What the verification functions compute (never looks at ghost fields).  *)

\* InvoiceRequest::verify_using_metadata(key of n) / verify_using_recipient_data(nonce nz, key of n)
AcceptsInvReq(n, r, via, nz) ==
  LET o == objs[r] IN
  IF via = "metadata"
  THEN /\ o.ocm.iv = "meta"                                   \* offer carries nonce||hmac metadata
       /\ o.ocm = Commit(n, o.ocm.nz, "meta", o.ofl)          \* hmac recomputed under n's key
  ELSE /\ o.ocm = Commit(n, nz, "path", o.ofl)                \* issuer key re-derived under n's key

\* Bolt12Invoice::verify_using_metadata(key of n)
AcceptsInvoice(n, i) ==
  LET o == objs[i] IN
  /\ o.rcm.iv \in {"invreq", "meta", "path"}                  \* payer metadata has derivation form
  /\ o.rcm = Commit(n, o.rcm.nz, o.rcm.iv,
                    IF o.rcm.iv = "invreq" THEN <<o.ofl, o.ocm, o.rfl>> ELSE <<o.rfl>>)

(* GHOST: the object derives, unaltered, from what n itself created under its key material. *)
GenuineInvReq(n, r, via, nz) ==
  LET o == objs[r]  rt == objs[objs[r].root] IN
  /\ rt.kind = "offer" /\ rt.by = n
  /\ ~o.otamp
  /\ IF via = "metadata" THEN rt.mode = "meta" ELSE rt.mode = "path" /\ nz = o.root

PayerRoot(i) ==   \* the invoice request or refund the invoice answers
  LET o == objs[i] IN IF objs[o.root].kind = "refund" THEN o.root ELSE o.src

GenuineInvoice(n, i) ==
  LET o == objs[i]  p == objs[PayerRoot(i)] IN
  /\ p.by = n
  /\ (p.kind = "refund" => p.mode # "explicit")
  /\ ~o.ptamp

-----------------------------------------------------------------------------
(* Builders *)

CreateOffer(n, mode) ==
  /\ n \in Nodes /\ mode \in KeyModes
  /\ LET id == NextId  fl == <<id, "orig">> IN
     objs' = Append(objs, Obj("offer", n, 0, id, mode, fl,
                IF mode = "explicit" THEN NoCommit ELSE Commit(n, id, mode, fl),
                NoContent, NoCommit, FALSE, FALSE))
  /\ UNCHANGED <<last, tc>>

CreateRefund(n, mode) ==
  /\ n \in Nodes /\ mode \in KeyModes
  /\ LET id == NextId  fl == <<id, "orig">> IN
     objs' = Append(objs, Obj("refund", n, 0, id, mode, NoContent, NoCommit, fl,
                IF mode = "explicit" THEN NoCommit ELSE Commit(n, id, mode, <<fl>>),
                FALSE, FALSE))
  /\ UNCHANGED <<last, tc>>

\* Anybody copies an (unsigned) offer or refund and changes it.
CanAlter(s, cls) ==
  /\ s \in Ids /\ objs[s].kind \in {"offer", "refund"} /\ objs[s].by # 0
  /\ cls \in AlterClasses
  /\ cls = "commit" => objs[s].mode # "explicit"
Alter(s, cls) ==
  /\ CanAlter(s, cls)
  /\ LET o == objs[s] IN
     objs' = Append(objs,
       IF o.kind = "offer"
       THEN [o EXCEPT !.by = 0, !.src = s, !.otamp = TRUE,
                      !.ofl = IF cls \in {"field", "bit"} THEN <<o.root, cls>> ELSE @,
                      !.ocm = IF cls = "commit" THEN Junk(@) ELSE @]
       ELSE [o EXCEPT !.by = 0, !.src = s, !.ptamp = TRUE,
                      !.rfl = IF cls \in {"field", "bit"} THEN <<o.root, cls>> ELSE @,
                      !.rcm = IF cls = "commit" THEN Junk(@) ELSE @])
  /\ UNCHANGED <<last, tc>>

\* Offer::request_invoice(key of n, fresh nonce, payment id).build_and_sign()
RequestInvoice(n, s) ==
  /\ n \in Nodes /\ IsKind(s, "offer")
  /\ LET o == objs[s]  id == NextId  fl == <<id, "orig">> IN
     objs' = Append(objs, Obj("invreq", n, s, o.root, o.mode, o.ofl, o.ocm, fl,
                Commit(n, id, "invreq", <<o.ofl, o.ocm, fl>>), o.otamp, FALSE))
  /\ UNCHANGED <<last, tc>>

\* The offer's creator answers a request; alt # "none": it echoes an altered copy of the request.
CanRespond(n, r, alt) ==
  /\ IsKind(r, "invreq")
  /\ n = objs[objs[r].root].by
  /\ alt \in {"none"} \cup AlterClasses
  /\ IF objs[r].mode = "path"
     THEN alt = "none" /\ AcceptsInvReq(n, r, "recipient", objs[r].root)  \* signing keys come from verification
     ELSE TRUE                                                            \* signs with its node key
RespondInvoice(n, r, alt) ==
  /\ CanRespond(n, r, alt)
  /\ LET o == objs[r] IN
     objs' = Append(objs, [o EXCEPT !.kind = "invoice", !.by = n, !.src = r,
                !.ptamp = (alt # "none"),
                !.rfl = IF alt \in {"field", "bit"} THEN <<r, alt>> ELSE @,
                !.rcm = IF alt = "commit" THEN Junk(@) ELSE @])
  /\ UNCHANGED <<last, tc>>

\* Refund::respond_with / respond_using_derived_keys by anybody
RespondToRefund(n, s) ==
  /\ n \in Nodes /\ IsKind(s, "refund")
  /\ objs' = Append(objs, [objs[s] EXCEPT !.kind = "invoice", !.by = n, !.src = s])
  /\ UNCHANGED <<last, tc>>

-----------------------------------------------------------------------------
(* Verification calls and their answers *)

VerifyInvReq(n, r, via, nz, accept) ==
  /\ n \in Nodes /\ IsKind(r, "invreq")
  /\ via \in {"metadata", "recipient"}
  /\ nz \in 0..Len(objs)
  /\ accept = AcceptsInvReq(n, r, via, nz)
  /\ last' = [op |-> "verify_invreq", n |-> n, obj |-> r, via |-> via, nz |-> nz, accept |-> accept]
  /\ UNCHANGED <<objs, tc>>

VerifyInvoice(n, i, accept) ==
  /\ n \in Nodes /\ IsKind(i, "invoice")
  /\ accept = AcceptsInvoice(n, i)
  /\ last' = [op |-> "verify_invoice", n |-> n, obj |-> i, via |-> "metadata", nz |-> 0, accept |-> accept]
  /\ UNCHANGED <<objs, tc>>

VerifyReturn == last.op # "none" /\ last' = NoLast /\ UNCHANGED <<objs, tc>>

(* THE PROPERTY (part i): verification accepts iff the object derives, unaltered, from what the
   verifier created under its own key material. *)
VerifySound ==
  \/ last.op = "none"
  \/ /\ last.op = "verify_invreq"
     /\ last.accept <=> GenuineInvReq(last.n, last.obj, last.via, last.nz)
  \/ /\ last.op = "verify_invoice"
     /\ last.accept <=> GenuineInvoice(last.n, last.obj)

-----------------------------------------------------------------------------
(* Part (ii): verdict table.  One parse of a (mutated) serialisation is observed as
   rt  = [parsed, equal, acc, reser]   round trip: parsed back, == original, accessors equal,
                                       re-serialises to the same string / bytes
   m11 = [parsed, payee_eq, signed_eq, has_n]
         payee_eq : the parsed invoice names the original payee key
         signed_eq: its signed content (HRP + data without signature) is exactly the original's
         has_n    : the parsed invoice names its payee by an explicit `n` field (not by recovery) *)

RoundTripOK(o) == o.parsed /\ o.equal /\ o.acc /\ o.reser

B11Classes == {"char", "data", "hrp", "sig"}
\* "char": one character substituted, checksum left alone.  "data"/"hrp"/"sig": one data symbol
\* (timestamp or tagged fields) / the amount in the HRP / one signature symbol changed and the
\* bech32 checksum recomputed.
B11Allowed(cls, o) ==
  IF cls = "char" THEN ~o.parsed
  ELSE \/ ~o.parsed                         \* fails to parse (includes signature check failures)
       \/ o.signed_eq                       \* carries exactly the signed content the holder signed
       \/ ~o.payee_eq /\ ~o.has_n           \* names a different key, identified by recovery

B12Signed == {"invreq", "invoice", "refund_invoice", "static_invoice"}
B12Kinds == B12Signed \cup {"offer", "refund"}
B12BitAllowed(kind, parsed) == kind \in B12Signed /\ ~parsed

-----------------------------------------------------------------------------
(* Part (iii): admissible builder inputs and numeric boundaries.

   TLC integers have 32 bits; the numeric fields of payment requests have up to 64 (and a string
   can spell more).  A number is a triple of base-10^9 limbs <<hi, mid, lo>>, most significant
   first; NoNum (the empty tuple) is an absent optional field. *)
Base == 1000000000
NoNum == <<>>
Zero == <<0, 0, 0>>
One == <<0, 0, 1>>
IsNum(x) == Len(x) = 3 /\ \A i \in 1..3 : x[i] >= 0 /\ x[i] < Base
IsOptNum(x) == x = NoNum \/ IsNum(x)
Lt(x, y) == \/ x[1] < y[1]
            \/ x[1] = y[1] /\ x[2] < y[2]
            \/ x[1] = y[1] /\ x[2] = y[2] /\ x[3] < y[3]
Leq(x, y) == x = y \/ Lt(x, y)
Succ(x) == IF x[3] < Base - 1 THEN <<x[1], x[2], x[3] + 1>>
           ELSE IF x[2] < Base - 1 THEN <<x[1], x[2] + 1, 0>> ELSE <<x[1] + 1, 0, 0>>
Pred(x) == IF x[3] > 0 THEN <<x[1], x[2], x[3] - 1>>
           ELSE IF x[2] > 0 THEN <<x[1], x[2] - 1, Base - 1>> ELSE <<x[1] - 1, Base - 1, Base - 1>>
Around(m) == {Pred(m), m, Succ(m)}

MaxU16 == <<0, 0, 65535>>
MaxU32 == <<0, 4, 294967295>>                  \* 2^32 - 1
MaxU64 == <<18, 446744073, 709551615>>         \* 2^64 - 1
MaxTimestamp == <<0, 34, 359738367>>           \* 2^35 - 1: BOLT-11 timestamp, 35 bits
MaxMsat11 == <<1, 844674407, 370955161>>       \* (2^64 - 1) \div 10: amount in pico-BTC fits 64 bits
MaxDescBytes == 639                            \* 1023 data symbols of 5 bits
MaxValueMsat == <<2, 100000000, 0>>            \* 21 million BTC in msat

(* BOLT-11 builder input: timestamp, expiry (optional), min_final_cltv_expiry_delta, amount in
   msat (optional), description (its length in bytes; -1: a description hash instead). *)
IsB11Input(v) ==
  /\ IsNum(v.ts) /\ IsOptNum(v.expiry) /\ IsNum(v.cltv) /\ IsOptNum(v.amt) /\ v.desc \in -1..100000
\* every timestamp of 35 bits, every 64-bit expiry and cltv delta, every amount from 0 to the
\* largest one expressible in pico-BTC, every description of at most 639 bytes
B11MustAccept(v) ==
  /\ Leq(v.ts, MaxTimestamp)
  /\ v.expiry = NoNum \/ Leq(v.expiry, MaxU64)
  /\ Leq(v.cltv, MaxU64)
  /\ v.amt = NoNum \/ Leq(v.amt, MaxMsat11)
  /\ v.desc <= MaxDescBytes
\* what a BOLT-11 string cannot carry (larger amounts are left open: a builder that accepts one
\* must expose it and round-trip it, see CaseExposed)
B11MustRefuse(v) == Lt(MaxTimestamp, v.ts) \/ v.desc > MaxDescBytes

(* BOLT-12 offer / refund builder input: amount (optional for offers), quantity (offers: NoNum =
   one, 0 = unbounded, n = at most n; refunds: NoNum or the quantity), absolute expiry (optional) *)
IsB12Input(v) ==
  /\ v.root \in {"offer", "refund"} /\ IsOptNum(v.amt) /\ IsOptNum(v.qty) /\ IsOptNum(v.aexp)
  /\ (v.root = "refund") => v.amt # NoNum
B12MustAccept(v) ==
  /\ \/ v.amt = NoNum
     \/ Leq(v.amt, MaxValueMsat) /\ (v.root = "offer" => Lt(Zero, v.amt))   \* an offer's amount is positive
  /\ v.qty = NoNum \/ Leq(v.qty, MaxU64)
  /\ v.aexp = NoNum \/ Leq(v.aexp, MaxU64)
\* invoice: created_at (seconds), relative_expiry (optional, 32 bits)
IsI12Input(v) == IsNum(v.created) /\ IsOptNum(v.rexp)
I12MustAccept(v) == Leq(v.created, MaxU64) /\ (v.rexp = NoNum \/ Leq(v.rexp, MaxU32))

\* the presence subsets the BOLT-12 builders accept: derived signing keys need a blinded path,
\* metadata-derived means none; a refund always has an amount and a description and at most one chain
B12Valid(p) ==
  /\ (p.mode = "path") => p.paths > 0
  /\ (p.mode = "meta") => p.paths = 0
  /\ (p.root = "refund") => p.amt # "none" /\ p.desc /\ p.chain # "two"

Refused == [NoCase EXCEPT !.fmt = "refused"]
Started(fmt, built, hasv, v) ==
  tc' = IF built THEN [fmt |-> fmt, stage |-> "built", hasN |-> FALSE, hasv |-> hasv, vals |-> v]
        ELSE Refused

\* a BOLT-11 builder call with the numbers v (presence subsets: every one of them is admissible)
CaseBuild11(v, built) ==
  /\ IsB11Input(v)
  /\ built => ~B11MustRefuse(v)
  /\ ~built => ~B11MustAccept(v)
  /\ Started("b11", built, TRUE, v)
  /\ UNCHANGED <<objs, last>>

\* a BOLT-12 offer / refund builder call with the presence subset p
CaseBuild12(p, built) ==
  /\ ~built => ~B12Valid(p)
  /\ Started("b12", built, FALSE, <<>>)
  /\ UNCHANGED <<objs, last>>

\* a BOLT-12 offer / refund builder call with the numbers v
CaseBuildNum12(v, built) ==
  /\ IsB12Input(v)
  /\ ~built => ~B12MustAccept(v)
  /\ Started("b12", built, TRUE, v)
  /\ UNCHANGED <<objs, last>>

\* a BOLT-12 invoice builder call (answering an ordinary refund) with the numbers v
CaseBuildInv12(v, built) ==
  /\ IsI12Input(v)
  /\ ~built => ~I12MustAccept(v)
  /\ Started("b12", built, TRUE, v)
  /\ UNCHANGED <<objs, last>>

\* what the accessors of the object built (and parsed back) in this case say is what went in
CaseExposed(v) ==
  /\ tc.stage \in {"built", "rt"} /\ tc.hasv
  /\ v = tc.vals
  /\ UNCHANGED pvars

(* A hand-assembled string (BOLT-11, signed by a fresh key, payee by recovery, bech32 checksum
   computed) or TLV stream (BOLT-12 offer / refund; invoice signed by a fresh key) that spells the
   numbers v in the canonical form (shortest integers).  The parser may refuse it; it must not
   panic (no action for that), and what it parses must expose v, name the signer, and
   re-serialise to the very same string / bytes.
   o = [canon, parsed, reser, signer_eq, got] *)
CaseAssembled(v, o) ==
  /\ (o.canon /\ o.parsed) => (o.reser /\ o.signer_eq /\ o.got = v)
  /\ UNCHANGED pvars

\* every built object must round-trip before it is mutated
CaseRoundTrip(kind, o) ==
  /\ tc.stage \in {"built", "rt"}
  /\ kind \in (IF tc.fmt = "b11" THEN {"b11"} ELSE B12Kinds)
  /\ RoundTripOK(o)
  /\ tc' = [tc EXCEPT !.stage = "rt"]
  /\ UNCHANGED <<objs, last>>

CaseMutate11(cls, o) ==
  /\ tc.fmt = "b11" /\ tc.stage = "rt"
  /\ cls \in B11Classes
  /\ B11Allowed(cls, o)
  /\ UNCHANGED pvars

CaseMutate12(kind, parsed) ==
  /\ tc.fmt = "b12" /\ tc.stage = "rt"
  /\ B12BitAllowed(kind, parsed)
  /\ UNCHANGED pvars

\* arbitrary strings / byte streams: any answer is fine (only a panic is not)
Fuzz == UNCHANGED pvars

-----------------------------------------------------------------------------
Init == objs = <<>> /\ last = NoLast /\ tc = NoCase

TypeOK ==
  /\ \A i \in Ids : /\ objs[i].kind \in {"offer", "refund", "invreq", "invoice"}
                    /\ objs[i].root \in Ids /\ objs[i].src \in 0..Len(objs)
  /\ tc.stage \in {"none", "built", "rt"}
=============================================================================
