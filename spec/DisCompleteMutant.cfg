SPECIFICATION Spec
CONSTANTS
  Release = "connected"
  Whats = {"forward", "failback", "claimfin"}
INVARIANT ReleasedOnCompletion
CONSTRAINT Bounded
CHECK_DEADLOCK TRUE
