------------------------------ MODULE GossipMC ------------------------------
(* Bounded design-level instance of Gossip: a small message universe (selected by U) is
   delivered in every order with every duplication, interleaved with permanent failures,
   pruning passes and reloads.  Where the observable spec leaves the outcome open the model
   takes the decision the code takes (precise tombstones ptc/ptn of failure reports, made at the
   start of the run, and ptp: scid -> clock of the pruning call that removed it; CACode, CodeR) and
   CodeWithinSpec checks that this decision is one the observable spec allows.  Prints one
   driver script per reachable state. *)
EXTENDS Gossip, Json

CONSTANTS U, MaxOps, FailCs, FailNs, PruneTs, WithReload, RgsSnaps, ResolveCs

\* hl: scid -> the message the code holds per key while the lookup is pending
VARIABLES ptc, ptp, ptn, hl, hist
mvars == <<avars, ptc, ptp, ptn, hl, hist>>

CA(c, n1, n2, s1, s2, bs, chain, w) ==
  [Msg EXCEPT !.k = "ca", !.c = c, !.n1 = n1, !.n2 = n2, !.s1 = s1, !.s2 = s2, !.bs = bs,
              !.chain = chain, !.w = w]
CAok(c, n1, n2) == CA(c, n1, n2, n1, n2, 1, TRUE, 0)
\* payload p determines the routing parameters
CU(c, d, ts, s, chain, p, hmax) ==
  [Msg EXCEPT !.k = "cu", !.c = c, !.d = d, !.ts = ts, !.s = s, !.chain = chain,
              !.en = (p % 2 = 1), !.cltv = 10 + p, !.hmin = p, !.hmax = hmax, !.fb = 100 + p,
              !.fp = 200 + p]
NA(n, ts, s, ap) == [Msg EXCEPT !.k = "na", !.n = n, !.ts = ts, !.s = s, !.ap = ap, !.ad = 1000 + ap]

Universe ==
  CASE U = 1 ->  \* valid messages only: confluence under all orders and duplications
       [lookup |-> FALSE,
        M |-> {CAok(1, 1, 2), CAok(2, 2, 3),
               CU(1, 0, 100, 1, TRUE, 1, 500000), CU(1, 0, 200, 1, TRUE, 2, 500000),
               CU(1, 1, 100, 2, TRUE, 3, 500000), NA(2, 100, 2, 1), NA(2, 200, 2, 2)}]
    [] U = 2 ->  \* tampered / conflicting announcements, UTXO source present
       [lookup |-> TRUE,
        M |-> {CAok(1, 1, 2), CA(1, 1, 2, 3, 4, 1, TRUE, 0), CA(1, 1, 2, 1, -1, 1, TRUE, 1),
               CA(1, 1, 2, 1, 2, 0, TRUE, 2), CA(1, 1, 2, 1, 2, 1, FALSE, 0), CAok(1, 1, 3),
               CU(1, 0, 100, 1, TRUE, 1, 500000), NA(3, 100, 3, 1)}]
    [] U = 3 ->  \* tampered / outdated updates, capacity 1000 sat known
       [lookup |-> TRUE,
        M |-> {CAok(1, 1, 2),
               CU(1, 0, 200, 1, TRUE, 1, 500000), CU(1, 0, 200, 1, TRUE, 2, 500000),
               CU(1, 0, 100, 1, TRUE, 3, 500000), CU(1, 0, 300, 2, TRUE, 4, 500000),
               CU(1, 0, 300, -1, TRUE, 4, 500000),
               CU(1, 0, 300, 1, TRUE, 5, 1000001), CU(1, 0, 300, 1, FALSE, 6, 500000),
               CU(2, 0, 100, 2, TRUE, 7, 500000),
               CU(1, 0, 200, -2, TRUE, 8, 500000)}]    \* unsigned entry point, equal timestamp
    [] U = 4 ->  \* node announcements and node clean-up
       [lookup |-> FALSE,
        M |-> {CAok(1, 1, 2), CAok(2, 2, 3), NA(2, 200, 2, 1), NA(2, 200, 2, 2), NA(2, 100, 2, 3),
               NA(2, 300, 0, 4), NA(2, 300, -1, 4), NA(4, 100, 4, 5),
               NA(2, 200, -2, 6)}]                     \* unsigned entry point, equal timestamp
    [] U = 5 ->  \* staleness and pruning
       [lookup |-> FALSE,
        M |-> {CAok(1, 1, 2), CAok(2, 1, 3), CU(1, 0, 100, 1, TRUE, 1, 500000),
               CU(1, 1, 300, 2, TRUE, 2, 500000), CU(2, 0, 100, 1, TRUE, 3, 500000),
               CU(2, 1, 100, 3, TRUE, 4, 500000), NA(3, 100, 3, 1)}]
    [] U = 6 ->  \* larger: three channels, four nodes, capacity known, hmax above capacity w/o lookup
       [lookup |-> FALSE,
        M |-> {CAok(1, 1, 2), CAok(2, 2, 3), CAok(3, 3, 4),
               CU(1, 0, 100, 1, TRUE, 1, 500000), CU(1, 0, 200, 1, TRUE, 2, 5000000),
               CU(2, 1, 100, 3, TRUE, 3, 500000), CU(3, 0, 100, 3, TRUE, 4, 500000),
               CU(3, 0, 100, 4, TRUE, 5, 500000), NA(3, 100, 3, 1), NA(4, 200, 4, 2)}]

    [] U = 7 ->  \* P2P gossip with a UTXO source interleaved with rapid-gossip-sync snapshots
       [lookup |-> TRUE,
        M |-> {CAok(1, 1, 2), CAok(2, 1, 3), CU(1, 0, 100, 1, TRUE, 1, 500000),
               CU(1, 0, 300, 1, TRUE, 2, 500000), CU(2, 1, 200, 3, TRUE, 3, 500000),
               NA(1, 250, 1, 1)}]       \* same timestamp as the node record of snapshot 2
    [] U = 8 ->  \* asynchronous UTXO lookups: updates / node announcements held while pending
       [lookup |-> TRUE,
        M |-> {CAok(1, 1, 2), CU(1, 0, 200, 1, TRUE, 1, 500000), CU(1, 0, 100, 1, TRUE, 2, 500000),
               CU(1, 1, 100, 2, TRUE, 3, 500000), CU(1, 0, 300, 2, TRUE, 4, 500000),
               NA(1, 200, 1, 1), NA(1, 100, 1, 2), NA(2, 100, -2, 3)}]
    [] U = 9 ->  \* the memory of removals: a permanently failed node / channel against later gossip
                 \* of every class -- another channel of the node with the node in either slot, the
                 \* removed channel again (signed and unsigned entry point), its updates, the node's
                 \* announcement -- with pruning calls that keep (Early) or drop the memory
       [lookup |-> FALSE,
        M |-> {CAok(1, 1, 2), CAok(2, 2, 3), CA(1, 1, 2, -2, -2, 1, TRUE, 0),
               CU(1, 1, 100, 2, TRUE, 1, 500000), NA(2, 100, 2, 1)}]
    [] U = 10 -> \* the same with asynchronous lookups: the report arrives while the lookup for
                 \* another channel of the node is pending
       [lookup |-> TRUE,
        M |-> {CAok(1, 1, 2), CAok(2, 2, 3),
               CU(2, 0, 100, 2, TRUE, 1, 500000), CU(1, 1, 100, 2, TRUE, 2, 500000)}]
               \* (no node announcements: this model does not follow a held node announcement
               \* that moves on to another pending lookup; the random runs of the engine do)

M == Universe.M

MCInit ==
  /\ G = EmptyG /\ Gprev = EmptyG
  /\ lookup = Universe.lookup
  /\ amode = (U \in {8, 10})
  /\ pend = <<>> /\ hl = <<>>
  /\ caps = [c \in 1..3 |-> 1000]
  /\ tombC = {} /\ tombN = {} /\ remC = {} /\ remN = {} /\ delivered = {} /\ eff = {} /\ pure = TRUE
  /\ ptc = {} /\ ptp = <<>> /\ ptn = {}
  /\ hist = <<>>

(* the decisions of the implementation *)
CACodeG(m) ==
  IF ~CAValid(m) THEN "none"
  ELSE IF m.c \in Chs(G) /\ (IF G.ch[m.c].cap >= 0 THEN SamePair(m) ELSE ~lookup) THEN "none"
  ELSE IF m.c \in ptc \cup DOMAIN ptp \/ m.n1 \in ptn \/ m.n2 \in ptn THEN "none"
  ELSE IF m.c \in Chs(G) THEN (IF lookup THEN "replace" ELSE "none")
  ELSE "add"
CACode(m) ==
  IF amode /\ lookup /\ CACodeG(m) = "add" THEN (IF m.c \in Pending THEN "none" ELSE "pending")
  ELSE CACodeG(m)
Code(m) == IF m.k = "ca" THEN CACode(m) ELSE CHOOSE o \in Allowed(m) : TRUE
CodeRFrom(g, t) ==
  LET g1 == Dropped(g, t) IN
  {c \in Chs(g1) : (~g1.ch[c].d0.has \/ ~g1.ch[c].d1.has) /\ AnnOld(g1, c, t)}
CodeR(t) == CodeRFrom(G, t)

(* rapid-gossip-sync snapshots (unsigned): announcement of scid 2 between nodes 1 and 3 and
   updates for scids 1 and 2 stamped 150 resp. 250; the second one ends with a pruning pass *)
RU(c, d, p, hmax) == [c |-> c, d |-> d, en |-> (p % 2 = 1), cltv |-> 10 + p, hmin |-> p, hmax |-> hmax,
                      fb |-> 100 + p, fp |-> 200 + p]
Snap(i) ==
  IF i = 1 THEN [ver |-> 1, ts |-> 150, anns |-> <<[c |-> 2, n1 |-> 1, n2 |-> 3, cap |-> -1]>>, nodes |-> <<>>,
                 upds |-> <<RU(1, 0, 8, 500000), RU(2, 1, 9, 500000)>>, prune |-> FALSE, t |-> 0]
  ELSE [ver |-> 2, ts |-> 250, nodes |-> <<[n |-> 1, ad |-> 7], [n |-> 3, ad |-> 8]>>, anns |-> <<[c |-> 2, n1 |-> 1, n2 |-> 3, cap |-> 1000], [c |-> 3, n1 |-> 2, n2 |-> 3, cap |-> -1]>>,
        upds |-> <<RU(1, 1, 10, 500000), RU(2, 0, 11, 1000001)>>, prune |-> TRUE, t |-> 150]

NoHeld == [d0 |-> NoMsg, d1 |-> NoMsg, na |-> NoMsg, nb |-> NoMsg]
Keep(h, m) == IF h = NoMsg \/ h.ts < m.ts THEN m ELSE h
HlAfter(m) ==
  LET o == Code(m) IN
  IF o = "pending" THEN [x \in DOMAIN hl \cup {m.c} |-> IF x = m.c THEN NoHeld ELSE hl[x]]
  ELSE IF m.k = "cu" /\ m.chain /\ m.c \notin Chs(G) /\ m.c \in Pending
       THEN [hl EXCEPT ![m.c] = IF m.d = 0 THEN [@ EXCEPT !.d0 = Keep(@, m)] ELSE [@ EXCEPT !.d1 = Keep(@, m)]]
  ELSE IF m.k = "na" /\ ~NAReject(m) /\ m.n \notin Nds(G)
       THEN [x \in DOMAIN hl |->
               IF m.n = pend[x].ca.n1 THEN [hl[x] EXCEPT !.na = Keep(@, m)]
               ELSE IF m.n = pend[x].ca.n2 THEN [hl[x] EXCEPT !.nb = Keep(@, m)]
               ELSE hl[x]]
  ELSE hl
MDeliver == \E m \in M :
  /\ Deliver(m, Code(m))
  /\ hl' = HlAfter(m)
  /\ hist' = Append(hist, [op |-> "deliver", m |-> m])
  /\ UNCHANGED <<ptc, ptp, ptn>>
MResolve == \E c \in ResolveCs, ok \in BOOLEAN :
  /\ c \in Pending
  /\ Resolve(c, ok, IF ok THEN CACodeG(pend[c].ca) ELSE "none", <<hl[c].d0, hl[c].d1, hl[c].na, hl[c].nb>>)
  /\ hl' = Restrict(hl, DOMAIN hl \ {c})
  /\ hist' = Append(hist, [op |-> "resolve", c |-> c, ok |-> ok])
  /\ UNCHANGED <<ptc, ptp, ptn>>
\* a report about a channel overwrites the time of an older tombstone of that channel
MFailC == \E c \in FailCs :
  /\ FailChan(c)
  /\ ptc' = IF c \in Chs(G) THEN ptc \cup {c} ELSE ptc
  /\ ptp' = Restrict(ptp, DOMAIN ptp \ (IF c \in Chs(G) THEN {c} ELSE {}))
  /\ hist' = Append(hist, [op |-> "failc", c |-> c])
  /\ UNCHANGED <<ptn, hl>>
MFailN == \E n \in FailNs :
  /\ FailNode(n)
  /\ ptc' = ptc \cup ChansOf(G, n)
  /\ ptp' = Restrict(ptp, DOMAIN ptp \ ChansOf(G, n))
  /\ ptn' = IF n \in Nds(G) THEN ptn \cup {n} ELSE ptn
  /\ hist' = Append(hist, [op |-> "failn", n |-> n])
  /\ UNCHANGED hl
\* a pruning call with the clock at (start + two weeks + t): tombstones are kept for one week;
\* those of failure reports date from the start of the run, those of channels the call prunes
\* (R) are dated with its clock
PtcAfter(t) == IF 2 * Week + t >= Week THEN {} ELSE ptc
PtnAfter(t) == IF 2 * Week + t >= Week THEN {} ELSE ptn
PtpAfter(t, R) ==
  LET P == 2 * Week + t
      kept == {c \in DOMAIN ptp : P - ptp[c] < Week}
  IN [c \in kept \cup R |-> IF c \in R THEN P ELSE ptp[c]]
\* (a .cfg cannot name negative numbers) universes 9 and 10 also prune with the clock 100 s after
\* the start of the run, i.e. within the week for which a failure report is remembered
EarlyTs == IF U \in {9, 10} THEN {100 - 2 * Week} ELSE {}
MPrune == \E t \in PruneTs \cup EarlyTs :
  /\ Prune(t, CodeR(t))
  /\ ptc' = PtcAfter(t) \ CodeR(t) /\ ptn' = PtnAfter(t)
  /\ ptp' = PtpAfter(t, CodeR(t))
  /\ UNCHANGED hl
  /\ hist' = Append(hist, [op |-> "prune", t |-> t])
\* tombstones are not persisted
MReload ==
  /\ WithReload
  /\ Reload
  /\ ptc' = {} /\ ptp' = <<>> /\ ptn' = {} /\ hl' = <<>>
  /\ hist' = Append(hist, [op |-> "reload"])

MRgs == \E i \in RgsSnaps :
  LET sn == Snap(i)
      g2 == RgsGraph(G, sn.ts, sn.anns, sn.nodes, sn.upds)
      R == IF sn.prune THEN CodeRFrom(g2, sn.t) ELSE {} IN
  /\ Rgs(sn.ts, sn.anns, sn.nodes, sn.upds, sn.prune, sn.t, R)
  /\ IF sn.prune THEN ptc' = PtcAfter(sn.t) \ R /\ ptn' = PtnAfter(sn.t) /\ ptp' = PtpAfter(sn.t, R)
     ELSE UNCHANGED <<ptc, ptp, ptn>>
  /\ UNCHANGED hl
  /\ hist' = Append(hist, [op |-> "rgs", ver |-> sn.ver, ts |-> sn.ts, anns |-> sn.anns, nodes |-> sn.nodes, upds |-> sn.upds,
                           prune |-> sn.prune, t |-> sn.t])

MCNext == MDeliver \/ MFailC \/ MFailN \/ MPrune \/ MReload \/ MRgs \/ MResolve
MCSpec == MCInit /\ [][MCNext]_mvars

Bound == Len(hist) <= MaxOps
View == <<avars, ptc, ptp, ptn, hl>>

\* the code's decisions are decisions the observable spec allows; precise tombstones are
\* within the over-approximation
CodeWithinSpec ==
  /\ \A m \in M : Code(m) \in Allowed(m)
  /\ \A t \in PruneTs \cup EarlyTs : LET g1 == Dropped(G, t) IN
       MustRemove(g1, t) \subseteq CodeR(t) /\ CodeR(t) \subseteq MayRemove(g1, t)
  /\ ptc \cup DOMAIN ptp \subseteq tombC /\ ptn \subseteq tombN
  \* the code remembers at least the reports the observable spec requires to be remembered
  \* (a snapshot may re-add what was reported; the memory of that is void in the spec)
  /\ remC \subseteq ptc /\ remN \subseteq ptn
  \* what the code holds per key while a lookup is pending is what Resolve has to apply
  /\ DOMAIN hl = Pending
  /\ \A c \in Pending :
       LET ca == pend[c].ca
           o == CACodeG(ca)
           g1 == CAApplyG(G, ca, o) IN
       /\ o \in CAAllowedG(G, ca)
       /\ PickOK(g1, HeldCU(c, 0), hl[c].d0) /\ PickOK(g1, HeldCU(c, 1), hl[c].d1)
       /\ PickOK(g1, HeldNA(c, ca.n1), hl[c].na) /\ PickOK(g1, HeldNA(c, ca.n2), hl[c].nb)

EmitScripts ==
  (Len(hist) > 0 /\ Len(hist) <= MaxOps) => PrintT(<<"SCRIPT", ToJson([lookup |-> lookup, async |-> amode, u |-> U, ops |-> hist])>>)
=============================================================================
