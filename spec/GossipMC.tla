------------------------------ MODULE GossipMC ------------------------------
(* Bounded design-level instance of Gossip: a small message universe (selected by U) is
   delivered in every order with every duplication, interleaved with permanent failures,
   pruning passes and reloads.  Where the observable spec leaves the outcome open the model
   takes the decision the code takes (precise tombstones ptc/ptp/ptn, CACode, CodeR) and
   CodeWithinSpec checks that this decision is one the observable spec allows.  Prints one
   driver script per reachable state. *)
EXTENDS Gossip, Json

CONSTANTS U, MaxOps, FailCs, FailNs, PruneTs, WithReload, RgsSnaps

VARIABLES ptc, ptp, ptn, hist
mvars == <<avars, ptc, ptp, ptn, hist>>

Msg == [k |-> "", c |-> 0, n1 |-> 0, n2 |-> 0, s1 |-> 0, s2 |-> 0, bs |-> 0, chain |-> TRUE,
        n |-> 0, d |-> 0, ts |-> 0, s |-> 0, en |-> FALSE, cltv |-> 0, hmin |-> 0, hmax |-> 0,
        fb |-> 0, fp |-> 0, ap |-> 0, w |-> 0]
CA(c, n1, n2, s1, s2, bs, chain, w) ==
  [Msg EXCEPT !.k = "ca", !.c = c, !.n1 = n1, !.n2 = n2, !.s1 = s1, !.s2 = s2, !.bs = bs,
              !.chain = chain, !.w = w]
CAok(c, n1, n2) == CA(c, n1, n2, n1, n2, 1, TRUE, 0)
\* payload p determines the routing parameters
CU(c, d, ts, s, chain, p, hmax) ==
  [Msg EXCEPT !.k = "cu", !.c = c, !.d = d, !.ts = ts, !.s = s, !.chain = chain,
              !.en = (p % 2 = 1), !.cltv = 10 + p, !.hmin = p, !.hmax = hmax, !.fb = 100 + p,
              !.fp = 200 + p]
NA(n, ts, s, ap) == [Msg EXCEPT !.k = "na", !.n = n, !.ts = ts, !.s = s, !.ap = ap]

Universe ==
  CASE U = 1 ->  \* valid messages only: confluence under all orders and duplications
       [lookup |-> FALSE,
        M |-> {CAok(1, 1, 2), CAok(2, 2, 3),
               CU(1, 0, 100, 1, TRUE, 1, 500000), CU(1, 0, 200, 1, TRUE, 2, 500000),
               CU(1, 1, 100, 2, TRUE, 3, 500000), NA(2, 100, 2, 1), NA(2, 200, 2, 2)}]
    [] U = 2 ->  \* tampered / conflicting announcements, UTXO source present
       [lookup |-> TRUE,
        M |-> {CAok(1, 1, 2), CA(1, 1, 2, 3, 4, 1, TRUE, 0), CA(1, 1, 2, 1, -1, 1, TRUE, 1),
               CA(1, 1, 2, 1, 2, 0, TRUE, 2), CA(1, 1, 2, 1, 2, 1, FALSE, 0), CAok(1, 1, 3),
               CU(1, 0, 100, 1, TRUE, 1, 500000), NA(3, 100, 3, 1)}]
    [] U = 3 ->  \* tampered / outdated updates, capacity 1000 sat known
       [lookup |-> TRUE,
        M |-> {CAok(1, 1, 2),
               CU(1, 0, 200, 1, TRUE, 1, 500000), CU(1, 0, 200, 1, TRUE, 2, 500000),
               CU(1, 0, 100, 1, TRUE, 3, 500000), CU(1, 0, 300, 2, TRUE, 4, 500000),
               CU(1, 0, 300, -1, TRUE, 4, 500000),
               CU(1, 0, 300, 1, TRUE, 5, 1000001), CU(1, 0, 300, 1, FALSE, 6, 500000),
               CU(2, 0, 100, 2, TRUE, 7, 500000)}]
    [] U = 4 ->  \* node announcements and node clean-up
       [lookup |-> FALSE,
        M |-> {CAok(1, 1, 2), CAok(2, 2, 3), NA(2, 200, 2, 1), NA(2, 200, 2, 2), NA(2, 100, 2, 3),
               NA(2, 300, 0, 4), NA(2, 300, -1, 4), NA(4, 100, 4, 5)}]
    [] U = 5 ->  \* staleness and pruning
       [lookup |-> FALSE,
        M |-> {CAok(1, 1, 2), CAok(2, 1, 3), CU(1, 0, 100, 1, TRUE, 1, 500000),
               CU(1, 1, 300, 2, TRUE, 2, 500000), CU(2, 0, 100, 1, TRUE, 3, 500000),
               CU(2, 1, 100, 3, TRUE, 4, 500000), NA(3, 100, 3, 1)}]
    [] U = 6 ->  \* larger: three channels, four nodes, capacity known, hmax above capacity w/o lookup
       [lookup |-> FALSE,
        M |-> {CAok(1, 1, 2), CAok(2, 2, 3), CAok(3, 3, 4),
               CU(1, 0, 100, 1, TRUE, 1, 500000), CU(1, 0, 200, 1, TRUE, 2, 5000000),
               CU(2, 1, 100, 3, TRUE, 3, 500000), CU(3, 0, 100, 3, TRUE, 4, 500000),
               CU(3, 0, 100, 4, TRUE, 5, 500000), NA(3, 100, 3, 1), NA(4, 200, 4, 2)}]

    [] U = 7 ->  \* P2P gossip with a UTXO source interleaved with rapid-gossip-sync snapshots
       [lookup |-> TRUE,
        M |-> {CAok(1, 1, 2), CAok(2, 1, 3), CU(1, 0, 100, 1, TRUE, 1, 500000),
               CU(1, 0, 300, 1, TRUE, 2, 500000), CU(2, 1, 200, 3, TRUE, 3, 500000)}]

M == Universe.M

MCInit ==
  /\ G = EmptyG /\ Gprev = EmptyG
  /\ lookup = Universe.lookup
  /\ caps = [c \in 1..3 |-> 1000]
  /\ tombC = {} /\ tombN = {} /\ delivered = {} /\ eff = {} /\ pure = TRUE
  /\ ptc = {} /\ ptp = {} /\ ptn = {}
  /\ hist = <<>>

(* the decisions of the implementation *)
CACode(m) ==
  IF ~CAValid(m) THEN "none"
  ELSE IF m.c \in Chs(G) /\ (IF G.ch[m.c].cap >= 0 THEN SamePair(m) ELSE ~lookup) THEN "none"
  ELSE IF m.c \in ptc \cup ptp \/ m.n1 \in ptn \/ m.n2 \in ptn THEN "none"
  ELSE IF m.c \in Chs(G) THEN (IF lookup THEN "replace" ELSE "none")
  ELSE "add"
Code(m) == IF m.k = "ca" THEN CACode(m) ELSE CHOOSE o \in Allowed(m) : TRUE
CodeRFrom(g, t) ==
  LET g1 == Dropped(g, t) IN
  {c \in Chs(g1) : (~g1.ch[c].d0.has \/ ~g1.ch[c].d1.has) /\ AnnOld(g1, c, t)}
CodeR(t) == CodeRFrom(G, t)

(* rapid-gossip-sync snapshots (unsigned): announcement of scid 2 between nodes 1 and 3 and
   updates for scids 1 and 2 stamped 150 resp. 250; the second one ends with a pruning pass *)
RU(c, d, p, hmax) == [c |-> c, d |-> d, en |-> (p % 2 = 1), cltv |-> 10 + p, hmin |-> p, hmax |-> hmax,
                      fb |-> 100 + p, fp |-> 200 + p]
Snap(i) ==
  IF i = 1 THEN [ver |-> 1, ts |-> 150, anns |-> <<[c |-> 2, n1 |-> 1, n2 |-> 3, cap |-> -1]>>,
                 upds |-> <<RU(1, 0, 8, 500000), RU(2, 1, 9, 500000)>>, prune |-> FALSE, t |-> 0]
  ELSE [ver |-> 2, ts |-> 250, anns |-> <<[c |-> 2, n1 |-> 1, n2 |-> 3, cap |-> 1000], [c |-> 3, n1 |-> 2, n2 |-> 3, cap |-> -1]>>,
        upds |-> <<RU(1, 1, 10, 500000), RU(2, 0, 11, 1000001)>>, prune |-> TRUE, t |-> 150]

MDeliver == \E m \in M :
  /\ Deliver(m, Code(m))
  /\ hist' = Append(hist, [op |-> "deliver", m |-> m])
  /\ UNCHANGED <<ptc, ptp, ptn>>
MFailC == \E c \in FailCs :
  /\ FailChan(c)
  /\ ptc' = IF c \in Chs(G) THEN ptc \cup {c} ELSE ptc
  /\ hist' = Append(hist, [op |-> "failc", c |-> c])
  /\ UNCHANGED <<ptp, ptn>>
MFailN == \E n \in FailNs :
  /\ FailNode(n)
  /\ ptc' = ptc \cup ChansOf(G, n)
  /\ ptn' = IF n \in Nds(G) THEN ptn \cup {n} ELSE ptn
  /\ hist' = Append(hist, [op |-> "failn", n |-> n])
  /\ UNCHANGED ptp
\* the clock jumps two weeks ahead: tombstones of failures (kept one week) expire, those the
\* pruning pass itself creates stay
MPrune == \E t \in PruneTs :
  /\ Prune(t, CodeR(t))
  /\ ptc' = {} /\ ptn' = {}
  /\ ptp' = ptp \cup CodeR(t)
  /\ hist' = Append(hist, [op |-> "prune", t |-> t])
\* tombstones are not persisted
MReload ==
  /\ WithReload
  /\ Reload
  /\ ptc' = {} /\ ptp' = {} /\ ptn' = {}
  /\ hist' = Append(hist, [op |-> "reload"])

MRgs == \E i \in RgsSnaps :
  LET sn == Snap(i)
      g2 == RgsUpds(RgsAnns(G, sn.anns, sn.ts), sn.upds, sn.ts)
      R == IF sn.prune THEN CodeRFrom(g2, sn.t) ELSE {} IN
  /\ Rgs(sn.ts, sn.anns, sn.upds, sn.prune, sn.t, R)
  /\ IF sn.prune THEN ptc' = {} /\ ptn' = {} /\ ptp' = ptp \cup R ELSE UNCHANGED <<ptc, ptp, ptn>>
  /\ hist' = Append(hist, [op |-> "rgs", ver |-> sn.ver, ts |-> sn.ts, anns |-> sn.anns, upds |-> sn.upds,
                           prune |-> sn.prune, t |-> sn.t])

MCNext == MDeliver \/ MFailC \/ MFailN \/ MPrune \/ MReload \/ MRgs
MCSpec == MCInit /\ [][MCNext]_mvars

Bound == Len(hist) <= MaxOps
View == <<avars, ptc, ptp, ptn>>

\* the code's decisions are decisions the observable spec allows; precise tombstones are
\* within the over-approximation
CodeWithinSpec ==
  /\ \A m \in M : Code(m) \in Allowed(m)
  /\ \A t \in PruneTs : LET g1 == Dropped(G, t) IN
       MustRemove(g1, t) \subseteq CodeR(t) /\ CodeR(t) \subseteq MayRemove(g1, t)
  /\ ptc \cup ptp \subseteq tombC /\ ptn \subseteq tombN

EmitScripts ==
  (Len(hist) > 0 /\ Len(hist) <= MaxOps) => PrintT(<<"SCRIPT", ToJson([lookup |-> lookup, u |-> U, ops |-> hist])>>)
=============================================================================
