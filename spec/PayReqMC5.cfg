SPECIFICATION MCSpec
CONSTANTS
  NumNodes = 2
  MaxObjs = 5
  MaxRoots = 2
  MaxAlters = 2
VIEW View
INVARIANT TypeOK
INVARIANT VerifySound
INVARIANT NoForgery11
INVARIANT EmitScripts
INVARIANT EmitCases
CHECK_DEADLOCK FALSE
