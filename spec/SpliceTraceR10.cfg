SPECIFICATION TraceSpec
CONSTANT Drop = {}
CONSTANT Relax = {"C10"}
INVARIANT TypeOK
INVARIANT CountersSane
INVARIANT ExactlyOnce
INVARIANT NonNegative
INVARIANT QuiescentIsQuiet
INVARIANT CandsSane
POSTCONDITION TraceAccepted
CHECK_DEADLOCK FALSE
