SPECIFICATION MCSpec
CONSTANTS
  MaxListeners = 3
  NB = 3
  MaxOps = 3
  EmitEvery = 1
  LieMode = FALSE
  SyncListeners = 2
CONSTRAINT Bound
VIEW View
INVARIANT TipAgreement
INVARIANT ListenerOnTree
INVARIANT EmitScripts
CHECK_DEADLOCK TRUE
