------------------------------ MODULE Deadlines ------------------------------
(* C08 -- HTLC deadlines: the node acts before money can be lost to a timeout.

   Integers only: block heights, CLTV expiries, deltas.  The buffers are CONSTANTS that the
   check instantiates FROM THE CODE at every run (harness binary `consts`).

   One node B is observed.  Role "final": B is the recipient of an HTLC (expiry eu) offered by
   its peer A.  Role "fwd": B forwards A's HTLC (expiry eu) to C as an HTLC with expiry ed.
   h is the best-block height of the honest nodes; blocks arrive one at a time.

   This module is the OBSERVABLE level: every action below is something a user / peer / chain
   watcher can see (an event, a wire message of B, a transaction of B reaching the broadcaster,
   a block with the transactions it confirms).  Each action takes the step and records in `viol`
   the part of the property it breaks, if any; the state invariants at the end are the timing
   part of the property.  The design model (DeadlinesMC) fires these actions by the rules
   transcribed from the code; the trace spec (DeadlinesTrace) fires them from what real nodes
   did. *)
EXTENDS Integers, Sequences, FiniteSets, TLC

CONSTANTS
  CCB,    \* CLTV_CLAIM_BUFFER
  LGP,    \* LATENCY_GRACE_PERIOD_BLOCKS
  MBC,    \* MAX_BLOCKS_FOR_CONF
  ARD,    \* ANTI_REORG_DELAY
  HFB,    \* HTLC_FAIL_BACK_BUFFER
  MIND,   \* MIN_CLTV_EXPIRY_DELTA
  MINF,   \* MIN_FINAL_CLTV_EXPIRY_DELTA
  FAR     \* CLTV_FAR_FAR_AWAY

VARIABLES
  h,       \* best block height (honest nodes in lockstep)
  role,    \* "none" | "final" | "fwd"
  upMode,  \* upstream peer A: "honest" (answers at once) | "silent" (never answers, times out on chain)
  dnMode,  \* downstream peer C: "offchain" | "silent" | "early" | "dust" | "onchain" | "cell"
  eu, ed, d,
  dl,      \* advertised claim deadline (0: nothing shown)
  up,      \* A's HTLC at B: "none" | "offered" | "held" | "fulfilled" | "failed"
  upH,     \* height at which B put that resolution on the wire
  pre,     \* B knows the preimage
  preLate, \* ... but learnt it only after its own go-on-chain point for the upstream HTLC
  dn,      \* B's HTLC at C: "none" | "cell" (accepted, waiting in B's holding cell) | "pending" (on the
           \* wire) | "fulfilled" | "failed" | "gone" | "claimed"
  dnH,     \* height of that resolution (gone: B's timeout / HTLC-less commitment confirmed)
  xH,      \* height at which C acted off chain (-1: never)
  cD, cDb, cDc,   \* downstream channel "open" | "bcast" | "conf"; broadcast / confirmation height
  toB,            \* height at which B's HTLC-timeout reached the broadcaster (-1: never)
  cU, cUb, cUc,   \* upstream channel, same
  suB, suC,       \* B's HTLC-success on the upstream channel: broadcast / confirmation height
  lost,    \* the payer's timeout confirmed although B knew the preimage in time
  viol     \* "" or the name of the part of the property an action broke

vars == <<h, role, upMode, dnMode, eu, ed, d, dl, up, upH, pre, preLate, dn, dnH, xH,
          cD, cDb, cDc, toB, cU, cUb, cUc, suB, suC, lost, viol>>

Flag(ok, name) == viol' = IF viol = "" /\ ~ok THEN name ELSE viol

\* ---------------------------------------------------------------- the property's guards
\* A tx with nLockTime E can be mined in block E+1 at the earliest; it can be broadcast at tip E.

\* shown as claimable: more than the next block is left to claim, and a claim made strictly below
\* the advertised deadline is made before the node's own on-chain point for that HTLC
MayShow(hh, E, D) == D > hh + 1 /\ D <= E - CCB

Max(a, b) == IF a >= b THEN a ELSE b

\* forwarded (B's update_add_htlc to C goes on the wire at height hh, dd = the cltv_expiry_delta B is
\* configured with): the incoming HTLC outlives the outgoing one by the configured delta AND by the
\* hard minimum MIND whatever the configuration says (a configured value below the minimum "is
\* treated as MIN_CLTV_EXPIRY_DELTA": every margin 2*LGP + 2*MBC + ARD is derived from it), and the
\* outgoing HTLC is not about to expire: more than LGP blocks are left at the moment it goes out
\* (the code asks for one block more when it accepts the forward, `<= best + 1 + LGP` is refused,
\* and exactly this when it releases a forward from the holding cell on a later block).
MayForward(hh, Eu, Ed, dd) == Eu - Ed >= Max(dd, MIND) /\ Ed > hh + LGP

\* upstream fail-back of a forwarded HTLC: the downstream HTLC was failed by C off chain, or it can
\* no longer be claimed on chain and that is buried ARD deep ...
MayFailUpResolved == dn = "failed" \/ (dn = "gone" /\ h >= dnH + ARD - 1)
\* ... or (the trade-off documented in ChannelMonitorImpl::block_confirmed: "Fail back HTLCs on backwards
\* channels if they expire within LATENCY_GRACE_PERIOD_BLOCKS blocks and the channel is closed (i.e. we're
\* at a point where no further off-chain updates will be accepted).  If we haven't seen the preimage for an
\* HTLC by the time the previous hop's timeout expires, we've lost that HTLC, so we might as well fail it
\* back instead of having our counterparty force-close the inbound channel"): B has given up the downstream
\* channel (its commitment transaction reached the broadcaster), does not know the preimage, the downstream
\* HTLC is still not resolved-and-buried, and the upstream HTLC is within LGP blocks of its expiry.  Not one
\* block earlier: until then the burial rule stands.
MayFailUpEarly == cD # "open" /\ ~pre /\ h + LGP >= eu
MayFailUp == MayFailUpResolved \/ MayFailUpEarly

\* the upstream HTLC is settled for B: A took the fulfil / fail, or B's HTLC-success confirmed
Settled == up = "failed" \/ (up = "fulfilled" /\ upMode = "honest") \/ suC >= 0

\* B needs the chain to get paid upstream
NeedsChain == pre /\ ~preLate /\ ~Settled /\ up \in {"held", "fulfilled"}

\* ---------------------------------------------------------------- observable actions
Reset(r, um, dm, dd, h0) ==
  /\ h' = h0 /\ role' = r /\ upMode' = um /\ dnMode' = dm /\ d' = dd
  /\ eu' = 0 /\ ed' = 0 /\ dl' = 0 /\ up' = "none" /\ upH' = -1 /\ pre' = FALSE /\ preLate' = FALSE
  /\ dn' = "none" /\ dnH' = -1 /\ xH' = -1 /\ cD' = "open" /\ cDb' = -1 /\ cDc' = -1 /\ toB' = -1
  /\ cU' = "open" /\ cUb' = -1 /\ cUc' = -1 /\ suB' = -1 /\ suC' = -1 /\ lost' = FALSE /\ viol' = ""

Offer(Eu, Ed) ==
  /\ up = "none" /\ role # "none"
  /\ up' = "offered" /\ eu' = Eu /\ ed' = Ed
  /\ UNCHANGED <<h, role, upMode, dnMode, d, dl, upH, pre, preLate, dn, dnH, xH, cD, cDb, cDc, toB,
                 cU, cUb, cUc, suB, suC, lost, viol>>

\* Event::PaymentClaimable with claim_deadline D
Show(D) ==
  /\ role = "final" /\ up = "offered"
  /\ up' = "held" /\ dl' = D
  /\ Flag(MayShow(h, eu, D), "NeverShowOrForwardTooSoon")
  /\ UNCHANGED <<h, role, upMode, dnMode, eu, ed, d, upH, pre, preLate, dn, dnH, xH, cD, cDb, cDc, toB,
                 cU, cUb, cUc, suB, suC, lost>>

\* B's update_add_htlc to C with expiry E
Forward(E) ==
  /\ role = "fwd" /\ up = "offered"
  /\ up' = "held" /\ ed' = E /\ dn' = "pending"
  /\ Flag(MayForward(h, eu, E, d), "NeverShowOrForwardTooSoon")
  /\ UNCHANGED <<h, role, upMode, dnMode, eu, d, dl, upH, pre, preLate, dnH, xH, cD, cDb, cDc, toB,
                 cU, cUb, cUc, suB, suC, lost>>

\* (not observable) B accepted the forward but cannot put it on the wire yet: holding cell
Queue ==
  /\ role = "fwd" /\ up = "offered" /\ dn = "none"
  /\ dn' = "cell"
  /\ UNCHANGED <<h, role, upMode, dnMode, eu, ed, d, dl, up, upH, pre, preLate, dnH, xH, cD, cDb, cDc, toB,
                 cU, cUb, cUc, suB, suC, lost, viol>>
\* (not observable) the downstream peer finally answers and finds B's holding cell empty
Probe ==
  /\ xH' = h
  /\ UNCHANGED <<h, role, upMode, dnMode, eu, ed, d, dl, up, upH, pre, preLate, dn, dnH, cD, cDb, cDc, toB,
                 cU, cUb, cUc, suB, suC, lost, viol>>

\* B's update_fail_htlc to A
FailUp ==
  /\ up \in {"offered", "held"}
  /\ up' = "failed" /\ upH' = h
  /\ Flag(CASE up = "offered" -> TRUE                       \* refusing an offer is always allowed
            [] role = "final" -> ~pre /\ h >= dl             \* not before the advertised deadline
            [] OTHER -> MayFailUp /\ dn # "claimed" /\ dn # "fulfilled",
          IF role = "final" THEN "ClaimableBelowDeadline" ELSE "FailBackAfterBurial")
  /\ UNCHANGED <<h, role, upMode, dnMode, eu, ed, d, dl, pre, preLate, dn, dnH, xH, cD, cDb, cDc, toB,
                 cU, cUb, cUc, suB, suC, lost>>

\* B's update_fulfill_htlc to A
FulfilUp ==
  /\ up = "held"
  /\ up' = "fulfilled" /\ upH' = h
  /\ Flag(pre, "BoundedLoss")
  /\ UNCHANGED <<h, role, upMode, dnMode, eu, ed, d, dl, pre, preLate, dn, dnH, xH, cD, cDb, cDc, toB,
                 cU, cUb, cUc, suB, suC, lost>>

\* the user calls claim_funds; ok = a fulfil went out
Claim(ok) ==
  /\ role = "final"
  /\ Flag(ok <=> (up = "held" /\ h < dl), "ClaimableBelowDeadline")
  /\ pre' = (pre \/ ok) /\ xH' = h
  /\ UNCHANGED <<h, role, upMode, dnMode, eu, ed, d, dl, up, upH, preLate, dn, dnH, cD, cDb, cDc, toB,
                 cU, cUb, cUc, suB, suC, lost>>

\* C's update_fulfill_htlc / update_fail_htlc taken by B (downstream channel still open at B)
DnFulfil ==
  /\ dn = "pending" /\ cD = "open"
  /\ dn' = "fulfilled" /\ dnH' = h /\ xH' = h /\ pre' = TRUE /\ preLate' = (h > eu - CCB)
  /\ UNCHANGED <<h, role, upMode, dnMode, eu, ed, d, dl, up, upH, cD, cDb, cDc, toB,
                 cU, cUb, cUc, suB, suC, lost, viol>>
DnFail ==
  /\ dn = "pending" /\ cD = "open"
  /\ dn' = "failed" /\ dnH' = h /\ xH' = h
  /\ UNCHANGED <<h, role, upMode, dnMode, eu, ed, d, dl, up, upH, pre, preLate, cD, cDb, cDc, toB,
                 cU, cUb, cUc, suB, suC, lost, viol>>

\* B's commitment transaction of the downstream channel reaches the broadcaster (withTimeout: so
\* does its HTLC-timeout transaction)
GoOnChainDn(withTimeout) ==
  /\ cD = "open"
  /\ cD' = "bcast" /\ cDb' = h /\ toB' = IF withTimeout THEN h ELSE toB
  \* only for an outbound HTLC that expired (a slow peer costs nothing before that)
  /\ Flag(dn = "pending" /\ h >= ed, "BoundedLoss")
  /\ UNCHANGED <<h, role, upMode, dnMode, eu, ed, d, dl, up, upH, pre, preLate, dn, dnH, xH, cDc,
                 cU, cUb, cUc, suB, suC, lost>>

\* B's HTLC-timeout transaction of the downstream channel reaches the broadcaster (if not already
\* recorded with the commitment transaction); never before the HTLC expired
BcastTimeoutDn ==
  /\ toB' = IF toB < 0 THEN h ELSE toB
  /\ Flag(h >= ed, "BoundedLoss")
  /\ UNCHANGED <<h, role, upMode, dnMode, eu, ed, d, dl, up, upH, pre, preLate, dn, dnH, xH, cD, cDb, cDc,
                 cU, cUb, cUc, suB, suC, lost>>

\* B's commitment transaction of the upstream channel reaches the broadcaster (withSuccess: so does
\* its HTLC-success transaction)
GoOnChainUp(withSuccess) ==
  /\ cU = "open"
  /\ cU' = "bcast" /\ cUb' = h /\ suB' = IF withSuccess THEN h ELSE suB
  \* a bad downstream peer costs at most the downstream channel: the upstream channel is closed by
  \* B only to enforce a claim the upstream peer does not take
  /\ Flag(pre /\ ~Settled, "BoundedLoss")
  /\ UNCHANGED <<h, role, upMode, dnMode, eu, ed, d, dl, up, upH, pre, preLate, dn, dnH, xH, cD, cDb, cDc, toB,
                 cUc, suC, lost>>
BcastSuccessUp ==
  /\ suB' = IF suB < 0 THEN h ELSE suB
  /\ UNCHANGED <<h, role, upMode, dnMode, eu, ed, d, dl, up, upH, pre, preLate, dn, dnH, xH, cD, cDb, cDc, toB,
                 cU, cUb, cUc, suC, lost, viol>>

\* the upstream peer closes the channel for a reason of its own (not in reaction to B's commitment)
PeerClosedUp ==
  /\ Flag(upMode = "silent" \/ cU # "open", "BoundedLoss")
  /\ UNCHANGED <<h, role, upMode, dnMode, eu, ed, d, dl, up, upH, pre, preLate, dn, dnH, xH, cD, cDb, cDc, toB,
                 cU, cUb, cUc, suB, suC, lost>>

\* end of an observed run: who holds the money
EndRun(aSent, cPaid, abOpen) ==
  /\ Flag(upMode = "honest" => (abOpen /\ ~(cPaid /\ ~aSent) /\ up \notin {"offered", "held"}), "BoundedLoss")
  /\ UNCHANGED <<h, role, upMode, dnMode, eu, ed, d, dl, up, upH, pre, preLate, dn, dnH, xH, cD, cDb, cDc, toB,
                 cU, cUb, cUc, suB, suC, lost>>

\* B was stopped and started again from what it had persisted (ChannelManager + ChannelMonitors written at
\* this height): nothing observable changes; in particular every rule above holds across it (what the
\* restarted node does is judged by the same guards: FailUp only when MayFailUp)
Restart ==
  /\ role = "fwd"
  /\ UNCHANGED vars

\* The next block.  cf \subseteq {"commitD","timeoutD","claimD","commitU","successU","timeoutU","noHtlcD"} is what
\* it confirms ("noHtlcD" with "commitD": B's confirmed commitment transaction has no output for the HTLC --
\* the HTLC never entered B's own commitment (C went silent right after B's update_add_htlc +
\* commitment_signed, it exists only in the commitment B signed for C) or it is below the dust limit: the
\* confirmation of that commitment itself is what makes the HTLC unclaimable for C).
Block(cf) ==
  /\ h' = h + 1
  /\ cD' = IF "commitD" \in cf THEN "conf" ELSE cD
  /\ cDc' = IF "commitD" \in cf THEN h + 1 ELSE cDc
  /\ cU' = IF "commitU" \in cf THEN "conf" ELSE cU
  /\ cUc' = IF "commitU" \in cf THEN h + 1 ELSE cUc
  /\ LET gone == "timeoutD" \in cf \/ ("commitD" \in cf /\ "noHtlcD" \in cf) IN
     /\ dn' = IF dn # "pending" THEN dn ELSE IF "claimD" \in cf THEN "claimed" ELSE IF gone THEN "gone" ELSE dn
     /\ dnH' = IF dn = "pending" /\ ("claimD" \in cf \/ gone) THEN h + 1 ELSE dnH
  /\ pre' = (pre \/ (dn = "pending" /\ "claimD" \in cf))
  /\ preLate' = IF ~pre /\ dn = "pending" /\ "claimD" \in cf THEN (h + 1 > eu - CCB) ELSE preLate
  /\ suC' = IF "successU" \in cf THEN h + 1 ELSE IF "timeoutU" \in cf THEN -2 ELSE suC
  /\ lost' = (lost \/ ("timeoutU" \in cf /\ pre /\ ~preLate))
  /\ UNCHANGED <<role, upMode, dnMode, eu, ed, d, dl, up, upH, xH, cDb, toB, cUb, suB, viol>>

\* k >= 1 blocks that confirm nothing of interest and during which nothing observable happens (a recorded
\* run lists them as one event).  Every timing invariant below has the form `condition on the other
\* variables => bound on h`: holding after the k-th of these blocks it held after each of them.
Blocks(k) ==
  /\ k >= 1
  /\ h' = h + k
  /\ UNCHANGED <<role, upMode, dnMode, eu, ed, d, dl, up, upH, pre, preLate, dn, dnH, xH, cD, cDb, cDc, toB,
                 cU, cUb, cUc, suB, suC, lost, viol>>

\* ---------------------------------------------------------------- the property, timing part
TypeOK ==
  /\ role \in {"none", "final", "fwd"} /\ up \in {"none", "offered", "held", "fulfilled", "failed"}
  /\ dn \in {"none", "cell", "pending", "fulfilled", "failed", "gone", "claimed"}
  /\ cD \in {"open", "bcast", "conf"} /\ cU \in {"open", "bcast", "conf"}

NeverShowOrForwardTooSoon == viol # "NeverShowOrForwardTooSoon"

\* claimable at any height strictly below the deadline (guards of Claim / FailUp), and from the
\* deadline on the node fails it back itself: the HTLC is not left unclaimed past that height
ClaimableBelowDeadline ==
  /\ viol # "ClaimableBelowDeadline"
  /\ (role = "final" /\ up = "held" /\ ~pre) => h <= dl

\* on chain within the grace period after an outbound HTLC expired ...
OnChainInTimeOutbound == (dn = "pending" /\ cD = "open") => h <= ed + LGP
\* ... and early enough for an inbound HTLC whose preimage is known and whose payer does not answer
OnChainInTimeInbound == (NeedsChain /\ cU = "open") => h + CCB <= eu

\* with transactions confirming within MBC blocks our HTLC-success confirms no later than block eu;
\* the payer's timeout (nLockTime eu) cannot confirm before block eu + 1
WinInboundRace == ~lost /\ (NeedsChain => h < eu)

\* a bad downstream peer costs at most that channel: never paid downstream and failed upstream, the
\* upstream HTLC is resolved while the upstream peer still has no reason to close (it closes LGP
\* after expiry by its own clock and may be up to LGP blocks ahead of us: the resolution is on the
\* wire no later than at height eu - LGP, which is where the code's last resort -- the early fail-back
\* of an HTLC whose downstream close is still unresolved, MayFailUpEarly -- acts), and we never close
\* the upstream channel ourselves when that peer is responsive.  The same deadline stands for an HTLC
\* B has taken from A and not yet passed on (it waits in B's holding cell because C owes an answer):
\* passed on in time, or given back -- whatever else the blocks in between make B do for that channel
\* (a splice or a fresh channel reaching its depth, announcement signatures)
BoundedLoss ==
  /\ viol # "BoundedLoss"
  /\ ~(up = "failed" /\ dn \in {"fulfilled", "claimed"})
  /\ (role = "fwd" /\ upMode = "honest" /\ up \in {"offered", "held"}) => h + LGP <= eu
  /\ (upMode = "honest") => cU = "open"

FailBackAfterBurial == viol # "FailBackAfterBurial"
=============================================================================
