----------------------------- MODULE BatchOpen -----------------------------
(***************************************************************************)
(* C09 -- batch funding: one funding transaction for several new channels   *)
(* of a node is broadcast (and the channels made ready) only when EVERY      *)
(* channel of the batch has its first ChannelMonitor write durable,          *)
(* whatever the order in which funding_signed arrives and the writes         *)
(* complete.                                                                 *)
(*                                                                         *)
(* Design model of the funder, at the granularity of                        *)
(* ChannelManager::post_monitor_update_unlock: per channel of the batch      *)
(*   - funding_signed arrives: the initial monitor is handed to Persist,     *)
(*     which answers Completed or InProgress;                                *)
(*   - an InProgress write is reported complete later, in any order;         *)
(*   - each completion marks its channel in the batch's bookkeeping and      *)
(*     then asks whether the whole batch is done (CheckAll): only then is    *)
(*     the shared transaction broadcast.                                     *)
(* CheckAll = FALSE is the planted defect of an iterator that is reused      *)
(* after `find`: only the channels listed AFTER the completing one are       *)
(* looked at.  TLC refutes it.                                               *)
(*                                                                         *)
(* Every terminal behaviour is printed as a script for the engine channet    *)
(* (open_batch; per channel the write mode and the moment funding_signed is  *)
(* delivered; completions oldest / newest first).                            *)
(***************************************************************************)
EXTENDS Naturals, Sequences, FiniteSets, TLC, Json

CONSTANTS N,          \* channels in the batch (2 or 3), in batch order 1..N
          CheckAll    \* TRUE: the library's rule; FALSE: planted defect

VARIABLES
  signed,     \* channels whose funding_signed has been handled
  durable,    \* channels whose first monitor write is durable
  pending,    \* sequence of channels with an InProgress first write (oldest first)
  marked,     \* the batch bookkeeping: channels marked complete
  broadcast,  \* the shared funding transaction has been handed to the broadcaster
  hist        \* script under construction (hidden from the state by VIEW)

vars == <<signed, durable, pending, marked, broadcast, hist>>
view == <<signed, durable, pending, marked, broadcast>>
Chans == 1..N

Init == /\ signed = {} /\ durable = {} /\ pending = <<>> /\ marked = {} /\ broadcast = FALSE
        /\ hist = <<>>

\* what post_monitor_update_unlock does for channel c once its first write is durable
Unlock(c, mk) ==
  LET seen == IF CheckAll THEN Chans ELSE {d \in Chans : d > c}     \* (defect: only the entries after c)
  IN (\A d \in seen : d \in mk)

FundingSigned(c, async) ==
  /\ c \notin signed /\ ~broadcast
  /\ signed' = signed \cup {c}
  /\ IF async
     THEN /\ pending' = Append(pending, c)
          /\ UNCHANGED <<durable, marked, broadcast>>
     ELSE /\ durable' = durable \cup {c}
          /\ marked' = marked \cup {c}
          /\ broadcast' = Unlock(c, marked \cup {c})
          /\ UNCHANGED pending
  /\ hist' = Append(hist, [op |-> "fs", chan |-> c, async |-> async])

\* the oldest or the newest in-flight write is reported complete
Complete(newest) ==
  /\ pending # <<>> /\ ~broadcast
  /\ (newest => Len(pending) > 1)
  /\ LET k == IF newest THEN Len(pending) ELSE 1
         c == pending[k]
     IN /\ pending' = [i \in 1..(Len(pending) - 1) |-> IF i < k THEN pending[i] ELSE pending[i + 1]]
        /\ durable' = durable \cup {c}
        /\ marked' = marked \cup {c}
        /\ broadcast' = Unlock(c, marked \cup {c})
  /\ UNCHANGED signed
  /\ hist' = Append(hist, [op |-> "complete", newest |-> newest])

Done == broadcast /\ UNCHANGED vars

Next == (\E c \in Chans, a \in BOOLEAN : FundingSigned(c, a)) \/ (\E nw \in BOOLEAN : Complete(nw)) \/ Done

Spec == Init /\ [][Next]_vars

-----------------------------------------------------------------------------
\* C09: the funding transaction depends on every channel's first monitor write
BroadcastOnlyWhenAllDurable == broadcast => (signed = Chans /\ durable = Chans)
\* ... and the batch is not forgotten: once everything is durable the transaction goes out
NotStuck == (signed = Chans /\ durable = Chans /\ pending = <<>>) => broadcast

EmitScripts == broadcast => PrintT(<<"SCRIPT", ToJson([n |-> N, steps |-> hist])>>)
=============================================================================
