SPECIFICATION MCSpec
CONSTANTS
  ARD = 6
  MaxA = 4
  MaxB = 2
  MaxBlocks = 6
  UseRoles = {1, 2, 4}
  MinH2 = 3
  MinH3 = 2
  MinH4 = 0
  Dep3 = 1
  FundingRole = FALSE
  MaxExplored = 1
  MaxDup = 0
  MaxRestarts = 1
  Intermediate = FALSE
INVARIANT EnvConsistent
INVARIANT IdleIsSynced
INVARIANT EmitScripts
CHECK_DEADLOCK TRUE
