SPECIFICATION Spec
CONSTANTS
  K = 3
  ResetFlag = TRUE
INVARIANT NothingOrphaned
INVARIANT EmitScripts
CHECK_DEADLOCK TRUE
