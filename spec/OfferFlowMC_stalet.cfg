SPECIFICATION MCSpec
CONSTANTS
  ReqTicks = 1
  NP = 1
  Manual = FALSE
  Hold = FALSE
  Offs = {1, 3}
  MaxPay = 2
  MaxKeep = 1
  MaxTick = 3
  MaxRestart = 1
  MaxSave = 1
  MaxAband = 1
  MaxErr = 0
  MaxMsgRecv = 0
  MaxSend = 0
  MaxOps = 9
  MinOps = 8
  CodeTicks = 1
  Idem = 1
  Stale = TRUE
  Bug = "none"
CONSTRAINT Bound
VIEW View
INVARIANT TermSane
INVARIANT OneHashPerId
INVARIANT OnePaymentPerId
INVARIANT DesignSane
INVARIANT EmitScripts
CHECK_DEADLOCK TRUE
