SPECIFICATION MCSpec
CONSTANTS
  U = 4
  MaxOps = 22
  FailCs = {1, 2}
  FailNs = {2}
  PruneTs = {150}
  RgsSnaps = {}
  ResolveCs = {}
  WithReload = FALSE
CONSTRAINT Bound
VIEW View
INVARIANT OnlyAuthentic
INVARIANT NeverOlder
INVARIANT NodeCleanup
INVARIANT FailedStayOut
INVARIANT Confluence
INVARIANT CodeWithinSpec
INVARIANT EmitScripts
CHECK_DEADLOCK TRUE
