------------------------------ MODULE Forward ------------------------------
(***************************************************************************)
(* C02 -- a forwarding node B never loses money on an HTLC it forwards.    *)
(* Design model of one forwarded HTLC A -> B -> C at the granularity of    *)
(* B's durable state: B's two ChannelMonitors (upstream A-B, downstream    *)
(* B-C), the monitor updates in flight, the RAA blocker that keeps the      *)
(* downstream monitor from forgetting a fulfilled HTLC before the preimage  *)
(* is durable upstream, B's persisted ChannelManager, crashes at any point. *)
(*                                                                         *)
(*   down:  "none" -> "offered" -> ("fulfilled" | "failed") -> "gone"      *)
(*          fulfilled = C's update_fulfill_htlc received (preimage learned) *)
(*          gone      = C's revocation processed: the downstream monitor    *)
(*                      no longer holds the HTLC in any unrevoked commitment*)
(***************************************************************************)
EXTENDS Naturals, FiniteSets, TLC

CONSTANTS UseBlocker,     \* TRUE in the real design; FALSE = the mutant that loses money
          MaxCrash

VARIABLES
  up,         \* upstream HTLC at B: "pending" | "claimed" | "failed"
  down,       \* downstream HTLC at B
  mem,        \* does B's volatile ChannelManager know the preimage / the downstream failure?
  upPre,      \* preimage update on the upstream monitor: "none" | "inflight" | "durable"
  downRaa,    \* the monitor update for C's revocation that forgets the HTLC: "none"|"blocked"|"inflight"|"durable"
  blocker,    \* RAA blocker held on the downstream channel
  mgrKnows,   \* what the last persisted ChannelManager knows: "nothing" | "preimage" | "downfail"
  downMonHas, \* durable downstream monitor still holds the HTLC (and, if fulfilled, its preimage)
  crashes,
  paid        \* ghost: C released the preimage, i.e. B has paid downstream

vars == <<up, down, mem, upPre, downRaa, blocker, mgrKnows, downMonHas, crashes, paid>>

Init ==
  /\ up = "pending" /\ down = "offered" /\ mem = "nothing" /\ upPre = "none" /\ downRaa = "none"
  /\ blocker = FALSE /\ mgrKnows = "nothing" /\ downMonHas = TRUE /\ crashes = 0 /\ paid = FALSE

\* C fulfils: B learns the preimage, submits it to the upstream monitor, blocks downstream RAAs
DownFulfil ==
  /\ down = "offered" /\ mem = "nothing"
  /\ down' = "fulfilled" /\ mem' = "preimage"
  /\ upPre' = IF upPre = "none" THEN "inflight" ELSE upPre
  /\ blocker' = UseBlocker /\ paid' = TRUE
  /\ UNCHANGED <<up, downRaa, mgrKnows, downMonHas, crashes>>

DownFail ==
  /\ down = "offered" /\ mem = "nothing"
  /\ down' = "failed" /\ mem' = "downfail"
  /\ UNCHANGED <<up, upPre, downRaa, blocker, mgrKnows, downMonHas, crashes, paid>>

\* the upstream preimage write lands; its completion action releases the blocker
UpPreimageComplete ==
  /\ upPre = "inflight"
  /\ upPre' = "durable" /\ blocker' = FALSE
  /\ downRaa' = IF downRaa = "blocked" THEN "inflight" ELSE downRaa
  /\ UNCHANGED <<up, down, mem, mgrKnows, downMonHas, crashes, paid>>

\* C's revoke_and_ack for the commitment that removed the HTLC arrives: B generates the monitor
\* update that makes the downstream monitor forget the HTLC -- held while the blocker is set
DownRaaSubmit ==
  /\ down \in {"fulfilled", "failed"} /\ downRaa = "none"
  /\ downRaa' = IF blocker THEN "blocked" ELSE "inflight"
  /\ UNCHANGED <<up, down, mem, upPre, blocker, mgrKnows, downMonHas, crashes, paid>>

DownRaaComplete ==
  /\ downRaa = "inflight"
  /\ downRaa' = "durable" /\ downMonHas' = FALSE /\ down' = "gone"
  /\ UNCHANGED <<up, mem, upPre, blocker, mgrKnows, crashes, paid>>

\* B claims / fails upstream
UpClaim ==
  /\ up = "pending" /\ mem = "preimage"
  /\ up' = "claimed"
  /\ UNCHANGED <<down, mem, upPre, downRaa, blocker, mgrKnows, downMonHas, crashes, paid>>

\* only once the downstream HTLC is irrevocably removed without a preimage
UpFail ==
  /\ up = "pending" /\ mem = "downfail" /\ down = "gone"
  /\ up' = "failed"
  /\ UNCHANGED <<down, mem, upPre, downRaa, blocker, mgrKnows, downMonHas, crashes, paid>>

PersistManager ==
  /\ mgrKnows' = mem
  /\ UNCHANGED <<up, down, mem, upPre, downRaa, blocker, downMonHas, crashes, paid>>

\* B dies.  In-flight monitor writes are lost (they may also have landed: that is the Complete
\* action taken first).  On restart B rebuilds what it knows from the persisted manager and from
\* the monitors: a preimage found in either monitor is replayed upstream.
Crash ==
  /\ crashes < MaxCrash
  /\ crashes' = crashes + 1
  /\ LET preimageRecoverable == upPre = "durable" \/ (downMonHas /\ down \in {"fulfilled"}) \/ mgrKnows = "preimage"
     IN /\ mem' = IF preimageRecoverable THEN "preimage"
                  ELSE IF mgrKnows = "downfail" \/ (down = "gone") THEN "downfail" ELSE
                  IF down = "failed" THEN "downfail" ELSE "nothing"
        /\ upPre' = IF upPre = "inflight" THEN (IF preimageRecoverable THEN "inflight" ELSE "none") ELSE upPre
  /\ downRaa' = IF downRaa \in {"inflight", "blocked"} THEN "none" ELSE downRaa
  /\ blocker' = (UseBlocker /\ upPre' = "inflight")
  /\ UNCHANGED <<up, down, mgrKnows, downMonHas, paid>>

Done == (up # "pending") /\ UNCHANGED vars

Next == DownFulfil \/ DownFail \/ UpPreimageComplete \/ DownRaaSubmit \/ DownRaaComplete \/ UpClaim \/ UpFail
        \/ PersistManager \/ Crash \/ Done

Spec == Init /\ [][Next]_vars /\ WF_vars(Next)

-----------------------------------------------------------------------------
\* Whenever the downstream monitor has forgotten an HTLC that C claimed, the preimage is durable
\* on B's side (upstream monitor or persisted manager): a crash cannot make B lose it
PreimageBeforeForget ==
  (down = "gone" /\ paid /\ up = "pending") => (upPre = "durable" \/ mgrKnows = "preimage")
\* B never fails the upstream HTLC after C claimed the downstream one
NoLoss == ~(up = "failed" /\ paid)
\* B never claims upstream without a preimage
NoTheft == up = "claimed" => paid
\* the upstream HTLC is eventually resolved
Resolved == <>(up # "pending")
=============================================================================
