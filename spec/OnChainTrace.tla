---------------------------- MODULE OnChainTrace ----------------------------
(* Trace validation of real unilateral closes (engine `onchain`) against OnChain.tla: every
   broadcast, block, balance report, SpendableOutputs event and sweep of a run is one event;
   TLC rebuilds the transaction tree and the chain from them and evaluates the monitor's
   obligations at every checkpoint.  A trace file holds many runs, each starting with `open`. *)
EXTENDS OnChain, Json, IOUtils

VARIABLE l
Rec == ndJsonDeserialize(IOEnv.TRACE)
tvars == <<ovars, l>>
R == Rec[l]
IsEvent(e) == l <= Len(Rec) /\ Rec[l].ev = e /\ l' = l + 1

TraceInit == l = 1 /\ OInit

\* feerate: of the package the transaction forms with its unconfirmed parents; own: its own; inval: the
\* value it spends
TxRec(by, ins, wal, outwal, feerate, valid, final, sweep, dup, h, own, weight, inval) ==
  [by |-> by, ins |-> ins, wal |-> wal, nout |-> Len(outwal), outwal |-> outwal, feerate |-> feerate,
   ok |-> valid /\ final, valid |-> valid, final |-> final, sweep |-> sweep, dup |-> dup, bh |-> h,
   own |-> own, weight |-> weight, inval |-> inval, onrb |-> FALSE, old |-> FALSE]

TOpen == IsEvent("open") /\
  Open([kind |-> R.kind, live |-> ToSet(R.live), owner |-> R.owner, delays |-> R.delays,
        anti_reorg |-> R.anti_reorg, chan_type |-> R.chan_type, h |-> R.h, est |-> R.est])

TBcast == IsEvent("bcast") /\
  Bcast(R.tx, TxRec(R.by, R.ins, R.wal, [k \in 1..Len(R.outs) |-> R.outs[k].wal], R.pfeerate,
                    R.valid, R.final, FALSE, R.dup, R.h, R.feerate, R.weight, R.inval))

TCommit == IsEvent("commit") /\
  Commit([tx |-> R.tx, owner |-> R.owner, revoked |-> R.revoked, h |-> R.h, outs |-> R.outs, gone |-> FALSE,
          known |-> <<ToSet(R.known[1]), ToSet(R.known[2])>>])

TBlock == IsEvent("block") /\ Block(R.h, ToSet(R.txs))
TIdle == IsEvent("idle") /\ Idle(R.from, R.h)
TJump == IsEvent("jump") /\ Jump(R.from, R.h)
TPreimage == IsEvent("preimage") /\ Preimage(R.node, R.hash)
TSpendable == IsEvent("spendable") /\ Spendable(R.node, R.outs)
TSweep == IsEvent("sweep") /\
  Sweep(R.node, R.tx, TxRec(R.node, R.ins, [k \in 1..Len(R.ins) |-> FALSE], <<TRUE>>, 0,
                            R.valid, R.final, TRUE, FALSE, R.h, 0, 1, 0),
        ToSet(R.req), R.ok /\ R.valid /\ R.final /\ R.fee >= 0)
TBal == IsEvent("bal") /\ Balances(R.node, R.items)
TState == IsEvent("state") /\ Checkpoint(R.h)
TFinal == IsEvent("final") /\ Final(R)
TBump == IsEvent("bump") /\ Bump(R.node, R.claim, R.target, ToSet(R.ops))
\* `unconf` (the transactions that left the chain) is implied by the heights recorded so far; the trace
\* spec checks that the engine's chain agrees with the one rebuilt here
TRewind == IsEvent("rewind") /\ Rewind(R.h, ToSet(R.evicted))
                             /\ ToSet(R.unconf) = {t \in DOMAIN conf : conf[t] > R.h}
TRebroadcast == IsEvent("rebroadcast") /\ Rebroadcast(R.node)
TFeerate == IsEvent("feerate") /\ Feerate(R.node, R.v)
TGaveUp == IsEvent("ldk_log") /\ GaveUp(R.node)
\* (close2: a second channel of the node goes to the chain; its transactions follow as broadcasts)
TSilent == l <= Len(Rec) /\ Rec[l].ev \in {"reload", "close2"} /\ l' = l + 1 /\ Silent
\* `panic` and `commit_unknown` have no action: a run containing one is rejected

TraceNext == TOpen \/ TBcast \/ TCommit \/ TBlock \/ TIdle \/ TJump \/ TPreimage \/ TSpendable \/ TSweep
             \/ TBal \/ TState \/ TFinal \/ TBump \/ TRewind \/ TRebroadcast \/ TFeerate \/ TGaveUp \/ TSilent

TraceSpec == TraceInit /\ [][TraceNext]_tvars

TraceAccepted ==
  LET d == TLCGet("stats").diameter IN
  IF d - 1 = Len(Rec) THEN TRUE
  ELSE /\ PrintT(<<"REJECT", d, Len(Rec)>>)
       /\ FALSE
=============================================================================
