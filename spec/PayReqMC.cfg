SPECIFICATION MCSpec
CONSTANTS
  NumNodes = 2
  MaxObjs = 4
  MaxRoots = 2
  MaxAlters = 1
VIEW View
INVARIANT TypeOK
INVARIANT VerifySound
INVARIANT NoForgery11
INVARIANT EmitScripts
INVARIANT EmitCases
CHECK_DEADLOCK FALSE
