SPECIFICATION MCSpec
CONSTANTS
  Relax = {}
  Mode = "honest"
  MaxBlocks = 1
  Layouts = {"plain"}
  MaxUnwind = 0
  Features = {"second", "few"}
  Defect = "none"
  MaxReload = 0
CONSTRAINT Bounded
VIEW View
INVARIANT TypeOK
INVARIANT JusticeCovers
INVARIANT JusticeCadence
INVARIANT CheaterKeepsNothing
INVARIANT NoEntitledOutputIdle
INVARIANT BalancesAddUp
INVARIANT Drained
INVARIANT EmitScripts
CHECK_DEADLOCK TRUE
