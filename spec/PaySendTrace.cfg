SPECIFICATION TraceSpec
INVARIANT NeverBoth
POSTCONDITION TraceAccepted
CHECK_DEADLOCK FALSE
