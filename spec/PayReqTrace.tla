---------------------------- MODULE PayReqTrace ----------------------------
(* Trace validation for C18: every recorded run of the real lightning-invoice / offers code
   must be a behaviour of PayReq.  A trace file holds many runs; each starts with a `reset`
   record.  Runs of part (i) replay a derivation script and then log every verification call;
   runs of part (ii) log one built object family: round trips, then mutations with the
   observations of each parse.  A `panic` record has no action: it rejects the trace. *)
EXTENDS PayReq, Json, IOUtils

VARIABLE l

Rec == ndJsonDeserialize(IOEnv.TRACE)

tvars == <<pvars, l>>

TraceInit == l = 1 /\ Init

IsEvent(e) == l <= Len(Rec) /\ Rec[l].ev = e /\ l' = l + 1

TReset == IsEvent("reset") /\ objs' = <<>> /\ last' = NoLast /\ tc' = NoCase

\* builders: the model says the call is possible, so it must have succeeded and produced the next object
Built == Rec[l].ok /\ Rec[l].id = NextId
TOffer == IsEvent("offer") /\ Built /\ CreateOffer(Rec[l].n, Rec[l].mode)
TRefund == IsEvent("refund") /\ Built /\ CreateRefund(Rec[l].n, Rec[l].mode)
TAlter == IsEvent("alter") /\ Built /\ Alter(Rec[l].src, Rec[l].cls)
TRequest == IsEvent("request") /\ Built /\ RequestInvoice(Rec[l].n, Rec[l].src)
TRespond == IsEvent("respond") /\ Built /\ RespondInvoice(Rec[l].n, Rec[l].src, Rec[l].cls)
TRespondRefund == IsEvent("respond_refund") /\ Built /\ RespondToRefund(Rec[l].n, Rec[l].src)

\* a derivation step of part (i) that failed is not judged here (it may be the engine that found no
\* alteration the parser accepts; the builders' admissible inputs are judged in part (iii)): nothing
\* is built, and the engine stops building in this run -- the objects that exist are still verified
BuildEvents == {"offer", "refund", "alter", "request", "respond", "respond_refund"}
TBuildRefused == l <= Len(Rec) /\ Rec[l].ev \in BuildEvents /\ ~Rec[l].ok /\ l' = l + 1
                 /\ UNCHANGED pvars

TVerifyInvReq == IsEvent("verify_invreq")
  /\ VerifyInvReq(Rec[l].n, Rec[l].obj, Rec[l].via, Rec[l].nz, Rec[l].accept)
TVerifyInvoice == IsEvent("verify_invoice") /\ VerifyInvoice(Rec[l].n, Rec[l].obj, Rec[l].accept)

\* parts (ii) and (iii): a builder call with the presence subset / the numbers it was given and
\* its answer -- judged: an admissible input must be accepted, an unrepresentable one refused
TCase11 == IsEvent("case") /\ Rec[l].fmt \in {"b11", "n11"} /\ CaseBuild11(Rec[l].vals, Rec[l].built)
TCase12 == IsEvent("case") /\ Rec[l].fmt = "b12" /\ CaseBuild12(Rec[l].pres, Rec[l].built)
TCaseNum12 == IsEvent("case") /\ Rec[l].fmt = "n12" /\ CaseBuildNum12(Rec[l].vals, Rec[l].built)
TCaseInv12 == IsEvent("case") /\ Rec[l].fmt = "i12" /\ CaseBuildInv12(Rec[l].vals, Rec[l].built)
TExposed == IsEvent("exposed") /\ CaseExposed(Rec[l].vals)
TAssembled == IsEvent("assembled")
  /\ CaseAssembled(Rec[l].vals, [canon |-> Rec[l].canon, parsed |-> Rec[l].parsed, reser |-> Rec[l].reser,
                                  signer_eq |-> Rec[l].signer_eq, got |-> Rec[l].got])
TRoundTrip == IsEvent("roundtrip")
  /\ CaseRoundTrip(Rec[l].kind, [parsed |-> Rec[l].parsed, equal |-> Rec[l].equal,
                                 acc |-> Rec[l].acc, reser |-> Rec[l].reser])
TMut11 == IsEvent("mut11")
  /\ CaseMutate11(Rec[l].cls, [parsed |-> Rec[l].parsed, payee_eq |-> Rec[l].payee_eq,
                               signed_eq |-> Rec[l].signed_eq, has_n |-> Rec[l].has_n])
TMut12 == IsEvent("mut12") /\ CaseMutate12(Rec[l].kind, Rec[l].parsed)
TFuzz == IsEvent("fuzz") /\ Fuzz

TraceNext == \/ TReset \/ TOffer \/ TRefund \/ TAlter \/ TRequest \/ TRespond \/ TRespondRefund
             \/ TBuildRefused \/ TVerifyInvReq \/ TVerifyInvoice
             \/ TCase11 \/ TCase12 \/ TCaseNum12 \/ TCaseInv12 \/ TExposed \/ TAssembled
             \/ TRoundTrip \/ TMut11 \/ TMut12 \/ TFuzz

TraceSpec == TraceInit /\ [][TraceNext]_tvars

TraceAccepted ==
  LET d == TLCGet("stats").diameter IN
  IF d - 1 = Len(Rec) THEN TRUE
  ELSE /\ PrintT(<<"REJECT", d, Len(Rec)>>)
       /\ FALSE
=============================================================================
