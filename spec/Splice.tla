------------------------------- MODULE Splice -------------------------------
(***************************************************************************)
(* Quiescence (stfu) and splicing of one channel as an independent observer *)
(* sees them, on top of the BOLT-2 update protocol (the part of Chan.tla    *)
(* that matters here is repeated with a funding *scope* parameter: while a  *)
(* splice is pending every commitment exists once per funding transaction). *)
(*                                                                         *)
(* An endpoint e = <<c, s>> is side s of channel c.  Every operator reads   *)
(* and writes endpoint-local state driven by that endpoint's own history of *)
(* sent / received messages, API calls and chain view.                      *)
(*                                                                         *)
(* Update stages as in Chan.tla:                                            *)
(*   proposer P: 0 sent, 1 P signed it, 2 Q revoked, 3 Q signed it, 4 P revoked *)
(*   receiver Q: 0 rcvd, 1 got sig, 2 Q revoked, 3 Q signed it, 4 P revoked *)
(***************************************************************************)
EXTENDS Integers, Sequences, FiniteSets, FiniteSetsExt, TLC

CONSTANT Relax      \* subset of {"C01", "C05", "C09", "C10"}; {} in every registered check
G1(p) == ("C01" \in Relax) \/ p      \* contents, agreement, conservation, quiescence / splice protocol
G5(p) == ("C05" \in Relax) \/ p      \* revocation discipline, commitment numbering
G9(p) == ("C09" \in Relax) \/ p      \* monitor-update ordering and release conditions
G10(p) == ("C10" \in Relax) \/ p     \* restart / reconnection: both sides end in the same funding state
\* single guards that a rehearsal of the design model removes (Drop = {} in every registered check)
CONSTANT Drop
GN(name, p) == (name \in Drop) \/ G1(p)

VARIABLES
  par,    \* [chan -> funder (1|2), type, dust[1..2], feerate, depth]
  fund,   \* [endpoint -> [tx, vout, value]]   the funding output this endpoint's commitments spend
  cnt,    \* [endpoint -> [sentCS, recvCS, sentRAA, recvRAA]]
  hs,     \* [endpoint -> set of HTLC records]
  base,   \* [endpoint -> own balance in msat counting only irrevocably settled HTLCs]
  link,   \* [endpoint -> "up" | "down" | "sync" | "closed"]
  redo,   \* [endpoint -> [cs, raa: BOOLEAN, upd: set of update keys to retransmit]]
  lastCS, \* [endpoint -> the batch last signed for the peer: [scope tx -> content]]
  order,  \* [endpoint -> "cs" | "raa" | "none"]
  pts,    \* [endpoint -> Seq(point id)]
  mon,    \* [endpoint -> [last, infl, cp, holder, pre, reneg]]  monitor-update pipeline
  ownExp, \* [endpoint -> [<<num, scope tx>> -> content]]  what each accepted holder commitment must contain
  qs,     \* [endpoint -> [sent, rcvd, mine, theirs: BOOLEAN]]  stfu handshake (mine / theirs: initiator flags)
  neg,    \* [endpoint -> negotiation record]  splice_init .. tx_signatures
  cands,  \* [endpoint -> set of [tx, value, dself]]  negotiated, not yet locked funding transactions
  lk,     \* [endpoint -> [sent, rcvd]]  txid of the splice_locked last sent / received (0: none)
  cv,     \* [endpoint -> [h, conf]]  chain view of the endpoint's node: height, [tx -> height of its block]
  txc     \* [tx -> [ins, outs, fvout, fvalue]]  contents of the transactions seen in events / broadcasts

svars == <<par, fund, cnt, hs, base, link, redo, lastCS, order, pts, mon, ownExp, qs, neg, cands, lk, cv, txc>>

Other(s) == 3 - s
Peer(e) == <<e[1], Other(e[2])>>
Sum(S) == FoldSet(LAMBDA h, acc : acc + h.amt, 0, S)
SatSub(a, b) == IF a >= b THEN a - b ELSE 0
Unch(vs) == UNCHANGED vs
Up(e) == link[e] = "up"

NoNeg == [st |-> "none", role |-> "-", cI |-> 0, cA |-> 0, feerate |-> 0, locktime |-> 0, ins |-> {}, outs |-> {},
          turn |-> "-", lastMine |-> FALSE, lastPeer |-> FALSE, tx |-> 0,
          sentCS |-> FALSE, rcvdCS |-> FALSE, sentSigs |-> FALSE, rcvdSigs |-> FALSE, redoCS |-> FALSE, redoSigs |-> FALSE,
          abortOK |-> FALSE, drain |-> FALSE]
NoQ == [sent |-> FALSE, rcvd |-> FALSE, mine |-> FALSE, theirs |-> FALSE]

\* ------------------------------------------------------------ BOLT-3 contents, per funding scope
BaseWeight(t) == IF t = "anchors" THEN 1124 ELSE 724
HtlcTxFee(t, rate, offered) == IF t = "static" THEN (rate * (IF offered THEN 663 ELSE 703)) \div 1000 ELSE 0
AnchorsSat(t) == IF t = "anchors" THEN 660 ELSE 0

AddApplied(h, own) == IF own THEN (h.dir = "in" \/ h.add >= 2) ELSE (h.dir = "out" \/ h.add >= 2)
RemApplied(h, own) ==
  /\ h.rem >= 0
  /\ IF own THEN (IF h.dir = "out" THEN TRUE ELSE h.rem >= 2) ELSE (IF h.dir = "in" THEN TRUE ELSE h.rem >= 2)
Live(e, own) == {h \in hs[e] : AddApplied(h, own) /\ ~RemApplied(h, own)}
BalSelf(e, own) ==
  base[e]
  - Sum({h \in hs[e] : h.dir = "out" /\ AddApplied(h, own) /\ ~(RemApplied(h, own) /\ h.res = "fail")})
  + Sum({h \in hs[e] : h.dir = "in" /\ RemApplied(h, own) /\ h.res = "fulfill"})

\* A funding scope of endpoint e: the current funding (dval = dself = 0) or a negotiated candidate, in
\* which the channel value is larger by dval and e's own balance by dself (sat, may be negative).
CurScope(e) == [tx |-> fund[e].tx, dval |-> 0, dself |-> 0]
CandScope(e, k) == [tx |-> k.tx, dval |-> k.value - fund[e].value, dself |-> k.dself]
Scopes(e) == {CurScope(e)} \cup {CandScope(e, k) : k \in cands[e]}
ScopeTxs(e) == {s.tx : s \in Scopes(e)}
ScopeOf(e, t) == CHOOSE s \in Scopes(e) : s.tx = t

\* the commitment of `own` (TRUE: e's own, FALSE: the one e signs for its peer) in scope sc, numbered num
CommitS(e, own, sc, num) ==
  LET p == par[e[1]]
      owner == IF own THEN e[2] ELSE Other(e[2])
      rate == p.feerate
      live == Live(e, own)
      offeredByOwner(h) == (own /\ h.dir = "out") \/ (~own /\ h.dir = "in")
      isDust(h) == (h.amt \div 1000) < p.dust[owner] + HtlcTxFee(p.type, rate, offeredByOwner(h))
      nd == {h \in live : ~isDust(h)}
      fee == (rate * (BaseWeight(p.type) + 172 * Cardinality(nd))) \div 1000
      selfMsat == BalSelf(e, own) + sc.dself * 1000
      peerMsat == (fund[e].value + sc.dval) * 1000 - selfMsat - Sum(live)
      ownerMsat == IF own THEN selfMsat ELSE peerMsat
      otherMsat == IF own THEN peerMsat ELSE selfMsat
      ownerFunds == p.funder = owner
      oA == IF ownerFunds THEN SatSub(ownerMsat, AnchorsSat(p.type) * 1000) ELSE ownerMsat
      tA == IF ownerFunds THEN otherMsat ELSE SatSub(otherMsat, AnchorsSat(p.type) * 1000)
      oS == IF ownerFunds THEN SatSub(oA \div 1000, fee) ELSE oA \div 1000
      tS == IF ownerFunds THEN tA \div 1000 ELSE SatSub(tA \div 1000, fee)
      trim(x) == IF x >= p.dust[owner] THEN x ELSE 0
  IN [num |-> num, feerate |-> rate, to_b |-> trim(oS), to_c |-> trim(tS),
      nondust |-> {[hash |-> h.hash, amt |-> h.amt, offered |-> offeredByOwner(h)] : h \in nd},
      dust |-> {[hash |-> h.hash, amt |-> h.amt, offered |-> offeredByOwner(h)] : h \in live \ nd},
      negative |-> selfMsat < 0 \/ peerMsat < 0]

\* Conservation: what a commitment pays out never exceeds the value of the funding output it spends
ConservesS(e, own, sc) ==
  LET c == CommitS(e, own, sc, 0)
      out == c.to_b + c.to_c + FoldSet(LAMBDA h, a : a + (h.amt \div 1000), 0, c.nondust)
  IN ~c.negative /\ out <= fund[e].value + sc.dval

\* a recorded content equals an expected one (the dust list of a content observed without it is not compared)
SameContent(obs, exp) ==
  /\ obs.num = exp.num /\ obs.feerate = exp.feerate /\ obs.to_b = exp.to_b /\ obs.to_c = exp.to_c
  /\ obs.nondust = exp.nondust /\ (obs.dust_known => obs.dust = exp.dust) /\ ~exp.negative

\* ------------------------------------------------------------ stage bumps
Bump(S, fromP, fromR) ==
  {[h EXCEPT !.add = IF (h.dir = "out" /\ @ = fromP) \/ (h.dir = "in" /\ @ = fromR) THEN @ + 1 ELSE @,
             !.rem = IF (h.dir = "in" /\ @ = fromP) \/ (h.dir = "out" /\ @ = fromR) THEN @ + 1 ELSE @] : h \in S}
Settle(e, S) ==
  LET done == {h \in S : h.rem = 4}
      nb == base[e] - Sum({h \in done : h.dir = "out" /\ h.res = "fulfill"}) + Sum({h \in done : h.dir = "in" /\ h.res = "fulfill"})
  IN hs' = [hs EXCEPT ![e] = S \ done] /\ base' = [base EXCEPT ![e] = nb]

\* ------------------------------------------------------------ quiescence
Quiescent(e) == qs[e].sent /\ qs[e].rcvd
\* the quiescence initiator: the one that asked; if both did, the channel funder
Initiator(e) == Quiescent(e) /\ qs[e].mine /\ (~qs[e].theirs \/ par[e[1]].funder = e[2])
\* none of e's own proposals (adds it offered, removals of HTLCs offered to it) is still on its way to being
\* irrevocable on both sides
OwnSettled(e) == \A h \in hs[e] : (h.dir = "out" => h.add = 4) /\ (h.dir = "in" => h.rem = -1)
\* after its stfu a node proposes nothing new until quiescence ends; after a reconnection what it owes for an
\* interrupted signing (its signatures again, or the tx_abort of a transaction it does not know) goes first
SignFirst(e) == ~neg[e].redoSigs /\ ~neg[e].redoCS /\ ~neg[e].abortOK
MayUpdate(e) == ~qs[e].sent /\ SignFirst(e)

\* ------------------------------------------------------------ update messages
Has(e, d, id) == \E h \in hs[e] : h.dir = d /\ h.id = id
Get(e, d, id) == CHOOSE h \in hs[e] : h.dir = d /\ h.id = id

Rest1 == <<par, fund, cnt, base, link, lastCS, order, pts, mon, ownExp, qs, neg, cands, lk, cv, txc>>
SendAdd(e, id, amt, hash) ==
  /\ Up(e)
  /\ IF Has(e, "out", id)
     THEN /\ <<"add", id>> \in redo[e].upd
          /\ G1(SignFirst(e))
          /\ Get(e, "out", id).amt = amt /\ Get(e, "out", id).hash = hash
          /\ redo' = [redo EXCEPT ![e].upd = @ \ {<<"add", id>>}]
          /\ Unch(<<hs>>)
     ELSE /\ redo[e].upd = {}
          /\ GN("MayUpdate", MayUpdate(e))
          /\ hs' = [hs EXCEPT ![e] = @ \cup {[dir |-> "out", id |-> id, amt |-> amt, hash |-> hash, add |-> 0, rem |-> -1, res |-> "none"]}]
          /\ Unch(<<redo>>)
  /\ Unch(Rest1)
RecvAdd(e, id, amt, hash) ==
  /\ Up(e) /\ ~Has(e, "in", id)
  /\ G1(~qs[e].rcvd)                      \* the peer proposes nothing after its stfu
  /\ hs' = [hs EXCEPT ![e] = @ \cup {[dir |-> "in", id |-> id, amt |-> amt, hash |-> hash, add |-> 0, rem |-> -1, res |-> "none"]}]
  /\ Unch(<<redo>>) /\ Unch(Rest1)
SendRemove(e, id, res) ==
  /\ Up(e) /\ Has(e, "in", id)
  /\ LET h == Get(e, "in", id) IN
     IF h.rem >= 0
     THEN /\ <<"rem", id>> \in redo[e].upd /\ h.res = res
          /\ G1(SignFirst(e))
          /\ redo' = [redo EXCEPT ![e].upd = @ \ {<<"rem", id>>}]
          /\ Unch(<<hs>>)
     ELSE /\ redo[e].upd = {}
          /\ h.add = 4
          /\ G1(MayUpdate(e))
          /\ hs' = [hs EXCEPT ![e] = (@ \ {h}) \cup {[h EXCEPT !.rem = 0, !.res = res]}]
          /\ Unch(<<redo>>)
  /\ Unch(Rest1)
RecvRemove(e, id, res) ==
  /\ Up(e) /\ Has(e, "out", id)
  /\ G1(~qs[e].rcvd)
  /\ LET h == Get(e, "out", id) IN
     /\ h.rem = -1 /\ h.add = 4
     /\ hs' = [hs EXCEPT ![e] = (@ \ {h}) \cup {[h EXCEPT !.rem = 0, !.res = res]}]
  /\ Unch(<<redo>>) /\ Unch(Rest1)

\* ------------------------------------------------------------ commitment_signed / revoke_and_ack
HasNews(e) == \E h \in hs[e] : (h.dir = "out" /\ h.add = 0) \/ (h.dir = "in" /\ h.rem = 0)
                                \/ (h.dir = "in" /\ h.add = 2) \/ (h.dir = "out" /\ h.rem = 2)

\* e signs its peer's next commitment once per funding scope.  B: [scope tx -> content signed]
\* (a batch of one may leave the funding txid out: key 0 stands for the current funding)
NormKey(e, t) == IF t = 0 THEN fund[e].tx ELSE t
SendCS(e, B) ==
  /\ Up(e)
  /\ G1(SignFirst(e))
  /\ IF redo[e].cs
     THEN /\ redo[e].upd = {}
          /\ G5(~redo[e].raa \/ order[e] = "raa")
          \* the same signatures again, for the funding scopes still pending (one that was locked in or
          \* discarded in the meantime needs none)
          /\ G1(ScopeTxs(e) \subseteq {NormKey(e, t) : t \in DOMAIN B} /\ {NormKey(e, t) : t \in DOMAIN B} \subseteq DOMAIN lastCS[e])
          /\ G1(\A t \in DOMAIN B : NormKey(e, t) \in DOMAIN lastCS[e] => B[t] = lastCS[e][NormKey(e, t)])
          /\ redo' = [redo EXCEPT ![e].cs = FALSE]
          /\ Unch(<<cnt, hs, base, lastCS, order>>)
     ELSE /\ G5(cnt[e].sentCS = cnt[e].recvRAA)
          /\ G1(~redo[e].raa)
          /\ G1(HasNews(e))
          /\ G1(~Quiescent(e))
          \* every pending funding scope is covered, each with the same HTLC set and the balances of that scope
          /\ G1({NormKey(e, t) : t \in DOMAIN B} = ScopeTxs(e))
          /\ G1(Cardinality(DOMAIN B) = Cardinality(ScopeTxs(e)))
          /\ G1(0 \in DOMAIN B => cands[e] = {})
          /\ \A t \in DOMAIN B : NormKey(e, t) \in ScopeTxs(e) =>
                /\ G1(SameContent(B[t], CommitS(e, FALSE, ScopeOf(e, NormKey(e, t)), cnt[e].sentCS + 1)))
                /\ G1(ConservesS(e, FALSE, ScopeOf(e, NormKey(e, t))))
          /\ lastCS' = [lastCS EXCEPT ![e] = [t \in {NormKey(e, x) : x \in DOMAIN B} |-> B[CHOOSE x \in DOMAIN B : NormKey(e, x) = t]]]
          /\ order' = [order EXCEPT ![e] = "cs"]
          /\ cnt' = [cnt EXCEPT ![e].sentCS = @ + 1]
          /\ hs' = [hs EXCEPT ![e] = Bump(@, 0, 2)]
          /\ Unch(<<base, redo>>)
  /\ Unch(<<par, fund, link, pts, mon, ownExp, qs, neg, cands, lk, cv, txc>>)

RecvCS(e) ==
  /\ Up(e)
  /\ G5(cnt[e].recvCS = cnt[e].sentRAA)
  /\ \A sc \in Scopes(e) : G1(ConservesS(e, TRUE, sc))
  /\ cnt' = [cnt EXCEPT ![e].recvCS = @ + 1]
  /\ hs' = [hs EXCEPT ![e] = Bump(@, 2, 0)]
  /\ LET n == cnt[e].recvCS + 1
         new == {<<n, sc.tx>> : sc \in Scopes(e)} IN
     ownExp' = [ownExp EXCEPT ![e] = [k \in DOMAIN @ \cup new |->
                                         IF k \in new THEN CommitS(e, TRUE, ScopeOf(e, k[2]), n) ELSE @[k]]]
  /\ Unch(<<par, fund, base, link, redo, lastCS, order, pts, mon, qs, neg, cands, lk, cv, txc>>)

SendRAA(e, secretPt, nextPt) ==
  /\ Up(e)
  /\ IF redo[e].raa /\ (~redo[e].cs \/ order[e] = "cs")
     THEN /\ redo' = [redo EXCEPT ![e].raa = FALSE]
          /\ Unch(<<cnt, hs, base, order, pts>>)
     ELSE /\ ~redo[e].raa
          /\ G1(~redo[e].cs)
          /\ G5(cnt[e].recvCS = cnt[e].sentRAA + 1)
          /\ G5(Len(pts[e]) >= 2 => secretPt = pts[e][Len(pts[e]) - 1])
          /\ pts' = [pts EXCEPT ![e] = Append(@, nextPt)]
          /\ cnt' = [cnt EXCEPT ![e].sentRAA = @ + 1]
          /\ order' = [order EXCEPT ![e] = "raa"]
          /\ Settle(e, Bump(hs[e], 3, 1))
          /\ Unch(<<redo>>)
  /\ Unch(<<par, fund, link, lastCS, mon, ownExp, qs, neg, cands, lk, cv, txc>>)

RecvRAA(e) ==
  /\ Up(e)
  /\ G5(cnt[e].sentCS = cnt[e].recvRAA + 1)
  /\ cnt' = [cnt EXCEPT ![e].recvRAA = @ + 1]
  /\ Settle(e, Bump(hs[e], 1, 3))
  /\ Unch(<<par, fund, link, redo, lastCS, order, pts, mon, ownExp, qs, neg, cands, lk, cv, txc>>)

\* ------------------------------------------------------------ stfu
Rest2 == <<par, fund, cnt, hs, base, link, redo, lastCS, order, pts, mon, ownExp, neg, cands, lk, cv, txc>>
SendStfu(e, initiator) ==
  /\ Up(e)
  /\ G1(~qs[e].sent)
  \* (nothing owed from before a reconnection either: a lost revoke_and_ack leaves its update unsettled at the peer)
  /\ G1(redo[e].upd = {} /\ ~redo[e].cs /\ ~redo[e].raa)
  /\ GN("OwnSettled", OwnSettled(e))           \* no pending update of its own
  /\ G1(initiator <=> ~qs[e].rcvd)             \* a reply carries initiator = 0
  /\ qs' = [qs EXCEPT ![e].sent = TRUE, ![e].mine = initiator]
  /\ Unch(Rest2)
RecvStfu(e, initiator) ==
  /\ Up(e)
  /\ G1(~qs[e].rcvd)
  /\ qs' = [qs EXCEPT ![e].rcvd = TRUE, ![e].theirs = initiator]
  /\ Unch(Rest2)

\* ------------------------------------------------------------ splice_init / splice_ack
Rest3 == <<par, fund, cnt, hs, base, link, redo, lastCS, order, pts, mon, ownExp, qs, cands, lk, cv, txc>>
\* (rbf: the message is tx_init_rbf -- a replacement for the candidates negotiated so far, which spends the
\* same funding output; only then may candidates exist)
SendSpliceInit(e, c, rate, lt, rbf) ==
  /\ Up(e)
  /\ G1(Quiescent(e) /\ Initiator(e))
  /\ G1(neg[e].st = "none" /\ (rbf <=> cands[e] # {}))
  /\ G1(rbf \/ c # 0)
  /\ neg' = [neg EXCEPT ![e] = [NoNeg EXCEPT !.st = "init", !.role = "I", !.cI = c, !.feerate = rate, !.locktime = lt]]
  /\ Unch(Rest3)
RecvSpliceInit(e, c, rate, lt) ==
  /\ Up(e)
  /\ G1(Quiescent(e) /\ ~Initiator(e))
  /\ G1(neg[e].st = "none")
  /\ neg' = [neg EXCEPT ![e] = [NoNeg EXCEPT !.st = "acking", !.role = "A", !.cI = c, !.feerate = rate, !.locktime = lt]]
  /\ Unch(Rest3)
SendSpliceAck(e, c) ==
  /\ Up(e)
  /\ G1(neg[e].st = "acking")
  /\ neg' = [neg EXCEPT ![e].st = "build", ![e].cA = c, ![e].turn = "peer"]
  /\ Unch(Rest3)
RecvSpliceAck(e, c) ==
  /\ Up(e)
  /\ G1(neg[e].st = "init")
  /\ neg' = [neg EXCEPT ![e].st = "build", ![e].cA = c, ![e].turn = "me"]
  /\ Unch(Rest3)

\* ------------------------------------------------------------ interactive transaction construction
MyRole(e) == neg[e].role
ByMe(e) == IF neg[e].role = "I" THEN "I" ELSE "A"
ByPeer(e) == IF neg[e].role = "I" THEN "A" ELSE "I"
Serials(e) == {x.serial : x \in neg[e].ins} \cup {x.serial : x \in neg[e].outs}
SumF(S, f(_)) == FoldSet(LAMBDA x, a : a + f(x), 0, S)
\* The constructed transaction spends the current funding output exactly once, creates exactly one new
\* funding output worth the old value plus both contributions, and each party's own inputs cover its own
\* outputs and its contribution: what is left is that party's share of the fee (never negative).
FeeShare(e, who) ==
  LET n == neg[e] IN
  SumF({x \in n.ins : x.by = who /\ ~x.shared}, LAMBDA x : x.value)
  - SumF({x \in n.outs : x.by = who /\ ~x.funding}, LAMBDA x : x.sats)
  - (IF who = "I" THEN n.cI ELSE n.cA)
NewValue(e) == fund[e].value + neg[e].cI + neg[e].cA
TxOK(e) ==
  LET n == neg[e]
      sh == {x \in n.ins : x.shared}
      fo == {x \in n.outs : x.funding} IN
  /\ Cardinality(sh) = 1 /\ \A x \in sh : x.ptx = fund[e].tx /\ x.vout = fund[e].vout /\ x.by = "I"
  /\ Cardinality(fo) = 1 /\ \A x \in fo : x.sats = NewValue(e) /\ x.by = "I"
  /\ FeeShare(e, "I") >= 0 /\ FeeShare(e, "A") >= 0
  /\ \A x, y \in n.ins : (x.ptx = y.ptx /\ x.vout = y.vout) => x = y          \* no outpoint twice

\* the step that ends the construction: a tx_complete right after the other side's tx_complete
Finish(n) == [n EXCEPT !.st = "sign", !.turn = "-"]
SendTx(e, what, rec) ==
  /\ Up(e)
  /\ G1(neg[e].st = "build" /\ neg[e].turn = "me")            \* strictly alternating
  /\ LET n == neg[e]
         n1 == CASE what = "add_input" -> [n EXCEPT !.ins = @ \cup {[rec EXCEPT !.by = ByMe(e)]}]
                 [] what = "add_output" -> [n EXCEPT !.outs = @ \cup {[rec EXCEPT !.by = ByMe(e)]}]
                 [] what = "remove_input" -> [n EXCEPT !.ins = {x \in @ : x.serial # rec.serial}]
                 [] what = "remove_output" -> [n EXCEPT !.outs = {x \in @ : x.serial # rec.serial}]
                 [] what = "complete" -> n
         n2 == [n1 EXCEPT !.turn = "peer", !.lastMine = (what = "complete")]
     IN /\ what \in {"add_input", "add_output"} =>
              /\ G1(rec.serial \notin Serials(e))
              /\ G1(rec.parity = IF n.role = "I" THEN 0 ELSE 1)
        /\ what = "remove_input" => G1(\E x \in n.ins : x.serial = rec.serial /\ x.by = ByMe(e))
        /\ what = "remove_output" => G1(\E x \in n.outs : x.serial = rec.serial /\ x.by = ByMe(e))
        /\ IF what = "complete" /\ n.lastPeer
           THEN neg' = [neg EXCEPT ![e] = Finish(n2)] /\ G1(TxOK(e))
           ELSE neg' = [neg EXCEPT ![e] = n2]
  /\ Unch(Rest3)
RecvTx(e, what, rec) ==
  /\ Up(e)
  /\ G1(neg[e].st = "build" /\ neg[e].turn = "peer")
  /\ LET n == neg[e]
         n1 == CASE what = "add_input" -> [n EXCEPT !.ins = @ \cup {[rec EXCEPT !.by = ByPeer(e)]}]
                 [] what = "add_output" -> [n EXCEPT !.outs = @ \cup {[rec EXCEPT !.by = ByPeer(e)]}]
                 [] what = "remove_input" -> [n EXCEPT !.ins = {x \in @ : x.serial # rec.serial}]
                 [] what = "remove_output" -> [n EXCEPT !.outs = {x \in @ : x.serial # rec.serial}]
                 [] what = "complete" -> n
         n2 == [n1 EXCEPT !.turn = "me", !.lastPeer = (what = "complete")]
     IN IF what = "complete" /\ n.lastMine
        THEN neg' = [neg EXCEPT ![e] = Finish(n2)] /\ G1(TxOK(e))
        ELSE neg' = [neg EXCEPT ![e] = n2]
  /\ Unch(Rest3)

\* the transaction t (content as seen in an event / broadcast) is the one that was negotiated
TxMatchesC(e, t) ==
  LET n == neg[e] IN
  /\ {<<x.ptx, x.vout>> : x \in n.ins} = t.ins
  /\ Cardinality(n.outs) = Len(t.outs)
  /\ \A v \in {x.sats : x \in n.outs} :
        Cardinality({x \in n.outs : x.sats = v}) = Cardinality({k \in 1..Len(t.outs) : t.outs[k].v = v})
  /\ t.fvalue = NewValue(e)
TxMatches(e, T) == T \in DOMAIN txc => TxMatchesC(e, txc[T])

\* ------------------------------------------------------------ signing: commitment_signed, tx_signatures
\* the first commitment_signed of the new funding: the current state (no new number), new scope
NegScope(e) == [tx |-> neg[e].tx, dval |-> neg[e].cI + neg[e].cA, dself |-> IF neg[e].role = "I" THEN neg[e].cI ELSE neg[e].cA]
SendInitCS(e, T) ==
  /\ Up(e)
  /\ G1(neg[e].st = "sign" /\ neg[e].tx \in {0, T})
  /\ G1(~neg[e].sentCS \/ neg[e].redoCS)
  /\ G1(neg[e].tx = 0 => TxMatches(e, T))
  /\ neg' = [neg EXCEPT ![e].tx = T, ![e].sentCS = TRUE, ![e].redoCS = FALSE]
  /\ Unch(Rest3)
RecvInitCS(e, T) ==
  /\ Up(e)
  /\ G1(neg[e].st = "sign" /\ neg[e].tx \in {0, T})
  /\ neg' = [neg EXCEPT ![e].tx = T, ![e].rcvdCS = TRUE]
  /\ Unch(Rest3)

\* e's share of the inputs (the funding output being spent is counted for the initiator, or for nobody)
InSum(e, who, withShared) ==
  SumF({x \in neg[e].ins : x.by = who /\ ~x.shared}, LAMBDA x : x.value)
  + (IF withShared /\ who = "I" THEN fund[e].value ELSE 0)
MayGoFirst(e) == \E ws \in BOOLEAN : InSum(e, ByMe(e), ws) <= InSum(e, ByPeer(e), ws)

\* the negotiation is over for e: T becomes a candidate funding, quiescence ends
Concluded(e, n) == n.sentSigs /\ n.rcvdSigs
AsCand(e, n) == [tx |-> n.tx, value |-> fund[e].value + n.cI + n.cA, dself |-> IF n.role = "I" THEN n.cI ELSE n.cA]
Conclude(e, n) ==
  IF Concluded(e, n)
  THEN /\ neg' = [neg EXCEPT ![e] = NoNeg]
       /\ cands' = [cands EXCEPT ![e] = @ \cup {AsCand(e, n)}]
       /\ qs' = [qs EXCEPT ![e] = NoQ]
  ELSE /\ neg' = [neg EXCEPT ![e] = n] /\ Unch(<<cands, qs>>)
Rest4 == <<par, fund, cnt, hs, base, link, redo, lastCS, order, pts, mon, ownExp, lk, cv, txc>>
SendTxSigs(e, T) ==
  /\ Up(e)
  /\ IF neg[e].st = "sign"
     THEN /\ G1(neg[e].tx = T /\ neg[e].sentCS /\ neg[e].rcvdCS)
          /\ G1(~neg[e].sentSigs \/ neg[e].redoSigs)
          /\ G1(neg[e].rcvdSigs \/ MayGoFirst(e))
          \* C09: the monitor update that recorded the new funding scope is durable
          /\ G9(T \in DOMAIN mon[e].reneg /\ mon[e].reneg[T] <= mon[e].last /\ \A u \in mon[e].infl : u > mon[e].reneg[T])
          /\ Conclude(e, [neg[e] EXCEPT !.sentSigs = TRUE, !.redoSigs = FALSE])
     ELSE \* a retransmission after reconnecting: the peer asked for T again, which is complete here
          /\ G1(neg[e].redoSigs /\ neg[e].tx = T)
          /\ neg' = [neg EXCEPT ![e] = NoNeg] /\ Unch(<<cands, qs>>)
  /\ Unch(Rest4)
RecvTxSigs(e, T) ==
  /\ Up(e)
  /\ G1(neg[e].st = "sign" /\ neg[e].tx = T /\ neg[e].sentCS)
  /\ Conclude(e, [neg[e] EXCEPT !.rcvdSigs = TRUE])
  /\ Unch(Rest4)

\* e holds everything needed to publish T: a negotiated candidate, or the peer's signatures are in and its own
\* are ready (the scope is durably recorded) although the message carrying them has not left yet
MayPublish(e, T) ==
  \/ \E k \in cands[e] : k.tx = T
  \/ /\ neg[e].st = "sign" /\ neg[e].tx = T /\ neg[e].rcvdSigs /\ neg[e].sentCS /\ neg[e].rcvdCS
     /\ T \in DOMAIN mon[e].reneg /\ mon[e].reneg[T] <= mon[e].last /\ \A u \in mon[e].infl : u > mon[e].reneg[T]

\* tx_abort: the negotiation is dropped (never once one's own tx_signatures are out); quiescence ends
SendTxAbort(e) ==
  /\ Up(e)
  /\ G1(neg[e].st # "none" \/ neg[e].abortOK)
  /\ G1(~neg[e].sentSigs)
  \* (what the peer sent for this negotiation before it sees the abort still arrives: it is dropped)
  /\ neg' = [neg EXCEPT ![e] = [NoNeg EXCEPT !.drain = (neg[e].st # "none" \/ neg[e].drain)]]
  /\ qs' = [qs EXCEPT ![e] = NoQ]
  /\ Unch(<<cands>>) /\ Unch(Rest4)
\* a negotiation message of the peer that crossed this side's tx_abort
StaleNeg(e) == neg[e].drain /\ neg[e].st = "none"
DropStale(e) == Up(e) /\ StaleNeg(e) /\ UNCHANGED svars
RecvTxAbort(e) ==
  /\ Up(e)
  /\ G1(~neg[e].sentSigs)       \* the peer may not abort what this side has fully signed
  /\ neg' = [neg EXCEPT ![e] = [NoNeg EXCEPT !.abortOK = (neg[e].st # "none")]]
  \* (the echo of this side's own tx_abort ends nothing: a new stfu may already be out)
  /\ qs' = [qs EXCEPT ![e] = IF neg[e].st # "none" THEN NoQ ELSE @]
  /\ Unch(<<cands>>) /\ Unch(Rest4)

\* ------------------------------------------------------------ splice_locked
Depth(e, T) == IF T \in DOMAIN cv[e].conf THEN cv[e].h - cv[e].conf[T] + 1 ELSE 0
\* both splice_locked for T are out: the channel moves to the new funding on this side (the other
\* candidates are dropped; expectations computed for scope T stay valid: they are keyed by its txid)
IsCand(e, T) == \E k \in cands[e] : k.tx = T
Promote(e, T) ==
  LET k == CHOOSE x \in cands[e] : x.tx = T IN
  /\ fund' = [fund EXCEPT ![e] = [tx |-> k.tx, vout |-> IF T \in DOMAIN txc THEN txc[T].fvout ELSE 0, value |-> k.value]]
  /\ base' = [base EXCEPT ![e] = @ + k.dself * 1000]
  /\ cands' = [cands EXCEPT ![e] = {}]
  /\ lk' = [lk EXCEPT ![e] = [sent |-> 0, rcvd |-> 0]]
\* e tells its peer (by splice_locked, or by naming T in channel_reestablish) that T is locked
LockSent(e, T) ==
  IF T = 0 \/ T = fund[e].tx \/ ~IsCand(e, T)
  THEN Unch(<<fund, base, cands, lk>>)            \* nothing new (already in force here)
  ELSE /\ GN("Depth", Depth(e, T) >= par[e[1]].depth)      \* buried deep enough on the sender's own chain view
       /\ IF lk[e].rcvd = T THEN Promote(e, T)
          ELSE lk' = [lk EXCEPT ![e].sent = T] /\ Unch(<<fund, base, cands>>)
LockRcvd(e, T) ==
  IF T = 0 \/ T = fund[e].tx THEN Unch(<<fund, base, cands, lk>>)
  ELSE IF lk[e].sent = T /\ IsCand(e, T) THEN Promote(e, T)
  ELSE lk' = [lk EXCEPT ![e].rcvd = T] /\ Unch(<<fund, base, cands>>)
Rest5 == <<par, cnt, hs, link, redo, lastCS, order, pts, mon, ownExp, qs, neg, cv, txc>>
SendSpliceLocked(e, T) ==
  /\ Up(e)
  /\ G1(T = fund[e].tx \/ IsCand(e, T))
  /\ LockSent(e, T)
  /\ Unch(Rest5)
RecvSpliceLocked(e, T) ==
  /\ Up(e)
  /\ LockRcvd(e, T)
  /\ Unch(Rest5)

\* a block reaches the node of endpoint e
Block(e, h, T) ==
  /\ cv' = [cv EXCEPT ![e] = [h |-> h, conf |-> [t \in DOMAIN @.conf \cup T |-> IF t \in T /\ t \notin DOMAIN @.conf THEN h ELSE @.conf[t]]]]
  /\ Unch(<<par, fund, cnt, hs, base, link, redo, lastCS, order, pts, mon, ownExp, qs, neg, cands, lk, txc>>)

\* ------------------------------------------------------------ disconnect / reestablish
Forgotten(S) ==
  LET dropAdd == {h \in S : h.add = 0}
      undoRem == {h \in S : h.rem = 0}
  IN (S \ (dropAdd \cup undoRem)) \cup {[h EXCEPT !.rem = -1, !.res = "none"] : h \in undoRem \ dropAdd}
\* a negotiation that has not reached the signing stage is abandoned; one that has is kept until the
\* reestablish exchange shows whether the peer still knows it
NegAfterDisc(n) == IF n.st = "sign" THEN [n EXCEPT !.redoCS = FALSE, !.redoSigs = FALSE, !.abortOK = FALSE] ELSE NoNeg
Disconnect(E) ==
  /\ \A e \in E : link[e] # "down"
  /\ link' = [e \in DOMAIN link |-> IF e \in E THEN "down" ELSE link[e]]
  /\ hs' = [e \in DOMAIN hs |-> IF e \in E THEN Forgotten(hs[e]) ELSE hs[e]]
  /\ redo' = [e \in DOMAIN redo |-> IF e \in E THEN [cs |-> FALSE, raa |-> FALSE, upd |-> {}] ELSE redo[e]]
  \* quiescence ends -- unless a transaction is being signed: that is resumed (or aborted) after reconnecting
  /\ qs' = [e \in DOMAIN qs |-> IF e \in E /\ neg[e].st # "sign" THEN NoQ ELSE qs[e]]
  /\ neg' = [e \in DOMAIN neg |-> IF e \in E THEN NegAfterDisc(neg[e]) ELSE neg[e]]
  /\ Unch(<<par, fund, cnt, base, lastCS, order, pts, mon, ownExp, cands, lk, cv, txc>>)
Reconnect(E) ==
  /\ \A e \in E : link[e] = "down"
  /\ link' = [e \in DOMAIN link |-> IF e \in E THEN "sync" ELSE link[e]]
  /\ Unch(<<par, fund, cnt, hs, base, redo, lastCS, order, pts, mon, ownExp, qs, neg, cands, lk, cv, txc>>)

\* e announces where it stands; nf: next_funding txid (0: none)
\* cfl: the funding transaction it names as locked on its side (0: none) -- naming a candidate there counts as splice_locked
Rest6 == <<par, cnt, hs, link, redo, lastCS, order, pts, mon, ownExp, cv, txc>>
SendReestablish(e, nextLocal, nextRemote, nf, cfl) ==
  /\ link[e] \in {"sync", "up"}
  /\ G5(nextLocal = cnt[e].recvCS + 1)
  /\ G5(nextRemote = cnt[e].recvRAA)
  /\ IF nf # 0
     THEN \* only for a transaction in its signing stage whose tx_signatures have not arrived
          /\ G10(neg[e].st = "sign" /\ neg[e].tx \in {0, nf} /\ ~neg[e].rcvdSigs)
          /\ neg' = [neg EXCEPT ![e].tx = nf]
          /\ Unch(<<qs>>)
     ELSE \* it must be named once one's commitment_signed for it is out and the peer's tx_signatures are not in
          /\ G10(~(neg[e].st = "sign" /\ neg[e].sentCS /\ ~neg[e].rcvdSigs))
          /\ neg' = [neg EXCEPT ![e] = IF @.st = "sign" /\ ~@.sentCS THEN NoNeg ELSE @]
          /\ qs' = [qs EXCEPT ![e] = IF neg[e].st = "sign" /\ ~neg[e].sentCS THEN NoQ ELSE @]
  /\ G10(cfl = 0 \/ cfl = fund[e].tx \/ IsCand(e, cfl))
  /\ LockSent(e, cfl)
  /\ Unch(Rest6)

RecvReestablish(e, nextLocal, nextRemote, nf, nfcs, cfl) ==
  /\ link[e] = "sync"
  /\ G5(nextLocal \in {cnt[e].sentCS, cnt[e].sentCS + 1})
  /\ G5(nextRemote \in {cnt[e].sentRAA, cnt[e].sentRAA - 1})
  /\ LET lostCS == nextLocal = cnt[e].sentCS /\ cnt[e].sentCS > cnt[e].recvRAA
         lostRAA == nextRemote = cnt[e].sentRAA - 1
         upd == IF lostCS
                THEN {<<"add", h.id>> : h \in {x \in hs[e] : x.dir = "out" /\ x.add = 1}}
                     \cup {<<"rem", h.id>> : h \in {x \in hs[e] : x.dir = "in" /\ x.rem = 1}}
                ELSE {}
     IN redo' = [redo EXCEPT ![e] = [cs |-> lostCS, raa |-> lostRAA, upd |-> upd]]
  /\ link' = [link EXCEPT ![e] = "up"]
  /\ neg' = [neg EXCEPT ![e] =
        IF nf = 0 THEN @
        ELSE IF @.st = "sign" /\ @.tx \in {0, nf}
             \* the peer lacks our signatures (and says whether our commitment_signed for it has arrived)
             THEN [@ EXCEPT !.tx = nf, !.redoCS = nfcs, !.redoSigs = neg[e].sentSigs, !.sentCS = (@ \/ ~nfcs)]
        ELSE IF (\E k \in cands[e] : k.tx = nf) \/ fund[e].tx = nf
             THEN [NoNeg EXCEPT !.tx = nf, !.redoSigs = TRUE]                         \* complete here: send them again
        ELSE [@ EXCEPT !.abortOK = TRUE, !.drain = TRUE]]      \* unknown here: tx_abort (and what the peer still sends for it is dropped)
  /\ LockRcvd(e, cfl)
  /\ Unch(<<par, cnt, hs, lastCS, order, pts, mon, ownExp, qs, cv, txc>>)

\* ------------------------------------------------------------ restart from persisted state
Snapshot(E) == [cnt |-> [e \in E |-> cnt[e]], hs |-> [e \in E |-> hs[e]], base |-> [e \in E |-> base[e]],
                fund |-> [e \in E |-> fund[e]], lastCS |-> [e \in E |-> lastCS[e]], order |-> [e \in E |-> order[e]],
                pts |-> [e \in E |-> pts[e]], mon |-> [e \in E |-> mon[e]], ownExp |-> [e \in E |-> ownExp[e]],
                link |-> [e \in E |-> link[e]], neg |-> [e \in E |-> neg[e]], cands |-> [e \in E |-> cands[e]],
                lk |-> [e \in E |-> lk[e]]]
Stale(S, M, e) == S.mon[e].last < M[e]
Restart(E, P, S, M) ==
  /\ link' = [e \in DOMAIN link |->
       IF e \in E THEN (IF S.link[e] = "closed" \/ link[e] = "closed" \/ Stale(S, M, e) THEN "closed" ELSE "down")
       ELSE IF e \in P /\ link[e] # "closed" THEN "down" ELSE link[e]]
  /\ cnt' = [e \in DOMAIN cnt |-> IF e \in E THEN S.cnt[e] ELSE cnt[e]]
  /\ hs' = [e \in DOMAIN hs |-> IF e \in E THEN Forgotten(S.hs[e]) ELSE IF e \in P THEN Forgotten(hs[e]) ELSE hs[e]]
  /\ base' = [e \in DOMAIN base |-> IF e \in E THEN S.base[e] ELSE base[e]]
  /\ fund' = [e \in DOMAIN fund |-> IF e \in E THEN S.fund[e] ELSE fund[e]]
  /\ lastCS' = [e \in DOMAIN lastCS |-> IF e \in E THEN S.lastCS[e] ELSE lastCS[e]]
  /\ order' = [e \in DOMAIN order |-> IF e \in E THEN S.order[e] ELSE order[e]]
  /\ pts' = [e \in DOMAIN pts |-> IF e \in E THEN S.pts[e] ELSE pts[e]]
  /\ ownExp' = [e \in DOMAIN ownExp |-> IF e \in E THEN S.ownExp[e] ELSE ownExp[e]]
  /\ redo' = [e \in DOMAIN redo |-> IF e \in E \cup P THEN [cs |-> FALSE, raa |-> FALSE, upd |-> {}] ELSE redo[e]]
  /\ mon' = [e \in DOMAIN mon |-> IF e \in E THEN [S.mon[e] EXCEPT !.last = IF M[e] < @ THEN M[e] ELSE @, !.infl = {}] ELSE mon[e]]
  /\ qs' = [e \in DOMAIN qs |-> IF e \in E THEN (IF S.neg[e].st = "sign" THEN [NoQ EXCEPT !.sent = TRUE, !.rcvd = TRUE] ELSE NoQ)
                                  ELSE IF e \in P /\ neg[e].st # "sign" THEN NoQ ELSE qs[e]]
  /\ neg' = [e \in DOMAIN neg |-> IF e \in E THEN NegAfterDisc(S.neg[e]) ELSE IF e \in P THEN NegAfterDisc(neg[e]) ELSE neg[e]]
  /\ cands' = [e \in DOMAIN cands |-> IF e \in E THEN S.cands[e] ELSE cands[e]]
  /\ lk' = [e \in DOMAIN lk |-> IF e \in E THEN S.lk[e] ELSE lk[e]]
  /\ Unch(<<par, cv, txc>>)

\* ------------------------------------------------------------ monitor-update pipeline (C09)
\* renegT: the funding transactions whose scope this update records (RenegotiatedFunding)
MonAfter(e, uid, inprogress, cpNums, holderNums, preHashes, renegT) ==
  [mon EXCEPT ![e] =
       [last |-> uid,
        infl |-> IF inprogress THEN @.infl \cup {uid} ELSE @.infl,
        cp |-> [n \in DOMAIN @.cp \cup cpNums |-> IF n \in cpNums THEN uid ELSE @.cp[n]],
        holder |-> [n \in DOMAIN @.holder \cup holderNums |-> IF n \in holderNums THEN uid ELSE @.holder[n]],
        pre |-> [h \in DOMAIN @.pre \cup preHashes |-> IF h \in DOMAIN @.pre THEN @.pre[h] ELSE uid],
        reneg |-> [t \in DOMAIN @.reneg \cup renegT |-> IF t \in renegT THEN uid ELSE @.reneg[t]]]]
Persist(e, uid, inprogress, cpNums, holderNums, preHashes, renegT) ==
  /\ G9(uid = mon[e].last + 1)
  /\ mon' = MonAfter(e, uid, inprogress, cpNums, holderNums, preHashes, renegT)
  /\ Unch(<<par, fund, cnt, hs, base, link, redo, lastCS, order, pts, ownExp, qs, neg, cands, lk, cv, txc>>)
\* While the peer is away a node whose peer has already sent splice_locked(T) sees T reach the required depth:
\* it moves to the new funding at once (recording that in its monitor) and says so in its channel_reestablish.
PersistLockOffline(e, uid, inprogress, T) ==
  /\ G9(uid = mon[e].last + 1)
  /\ G1(link[e] \in {"down", "sync"} /\ IsCand(e, T) /\ lk[e].rcvd = T)
  /\ GN("Depth", Depth(e, T) >= par[e[1]].depth)
  /\ mon' = MonAfter(e, uid, inprogress, {}, {}, {}, {})
  /\ Promote(e, T)
  /\ Unch(<<par, cnt, hs, link, redo, lastCS, order, pts, ownExp, qs, neg, cv, txc>>)
Complete(e, uid) ==
  /\ mon' = [mon EXCEPT ![e].infl = @ \ {uid}]
  /\ Unch(<<par, fund, cnt, hs, base, link, redo, lastCS, order, pts, ownExp, qs, neg, cands, lk, cv, txc>>)
Durable(e, uid) == uid <= mon[e].last /\ \A u \in mon[e].infl : u > uid
MayReleaseCS(e, num) == G9(num \in DOMAIN mon[e].cp /\ Durable(e, mon[e].cp[num]))
MayReleaseRAA(e) == G9(LET n == cnt[e].recvCS IN n \in DOMAIN mon[e].holder /\ Durable(e, mon[e].holder[n]))
MayReleaseFulfil(e, hash) == G9(hash \in DOMAIN mon[e].pre /\ Durable(e, mon[e].pre[hash]))

\* the content recorded with a RenegotiatedFunding step: the peer's current commitment in the new scope
RenegContentOK(e, T, cp) ==
  /\ G1(neg[e].st = "sign" /\ neg[e].tx \in {0, T} /\ neg[e].rcvdCS)
  /\ G1(SameContent(cp, CommitS(e, FALSE, [NegScope(e) EXCEPT !.tx = T], cnt[e].sentCS)))
  /\ G1(ConservesS(e, FALSE, NegScope(e)) /\ ConservesS(e, TRUE, NegScope(e)))

\* ------------------------------------------------------------ invariants over every state
TypeOK == \A e \in DOMAIN hs : \A h \in hs[e] : h.add \in 0..4 /\ h.rem \in -1..4
CountersSane == \A e \in DOMAIN cnt :
   /\ cnt[e].sentCS - cnt[e].recvRAA \in {0, 1}
   /\ cnt[e].recvCS - cnt[e].sentRAA \in {0, 1}
ExactlyOnce == \A e \in DOMAIN hs : \A h1, h2 \in hs[e] : (h1.dir = h2.dir /\ h1.id = h2.id) => h1 = h2
NonNegative == \A e \in DOMAIN base : base[e] >= 0
\* a quiescent endpoint has no update of either side in flight
QuiescentIsQuiet == \A e \in DOMAIN qs : (Quiescent(e) /\ link[e] = "up") => \A h \in hs[e] : h.add = 4 /\ h.rem = -1
\* at most one transaction is being negotiated, and a candidate never equals the current funding
CandsSane == \A e \in DOMAIN cands : \A k \in cands[e] : k.tx # fund[e].tx /\ k.value > 0
=============================================================================
