SPECIFICATION MCSpec
CONSTANTS
  ReqTicks = 1
  NP = 1
  Manual = TRUE
  Hold = FALSE
  Offs = {1, 3}
  MaxPay = 2
  MaxKeep = 1
  MaxTick = 2
  MaxRestart = 1
  MaxSave = 1
  MaxAband = 1
  MaxErr = 1
  MaxMsgRecv = 0
  MaxSend = 2
  MaxOps = 9
  MinOps = 9
  CodeTicks = 1
  Idem = 1
  Stale = FALSE
  Bug = "none"
CONSTRAINT Bound
VIEW View
INVARIANT TermSane
INVARIANT OneHashPerId
INVARIANT OnePaymentPerId
INVARIANT DesignSane
INVARIANT EmitScripts
CHECK_DEADLOCK TRUE
