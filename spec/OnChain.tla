------------------------------- MODULE OnChain -------------------------------
(***************************************************************************)
(* The on-chain life of a unilaterally closed channel as an outside        *)
(* observer sees it: the transaction tree below the funding output (one     *)
(* side's commitment transaction with its outputs, second-stage HTLC        *)
(* transactions, claims, sweeps), the chain as confirmation heights, and    *)
(* what a node (ChannelMonitor + the application around it) reports:        *)
(* broadcasts, claimable balances, SpendableOutputs.                        *)
(*                                                                         *)
(* The obligations of the monitoring node are stated as guards of the       *)
(* observed actions and as invariants that are evaluated at *checkpoints*   *)
(* (phase = "check": after the node has reacted to a block or an API call). *)
(*   C06  JusticeCovers, CheaterKeepsNothing, swept and reported            *)
(*   C07  OnlyValidFinal, NoEntitledOutputIdle, FeeMonotone (replacement     *)
(*        transactions and BumpTransactionEvent requests), BalancesAddUp,   *)
(*        drains to nothing, everything won is reported and spendable       *)
(* Nodes are 0 and 1; sender 2 is the would-be cheater's old-state monitor  *)
(* (transactions of the revoked state), 3 the harness (honest third party   *)
(* that merely puts a signed commitment on the chain).                      *)
(***************************************************************************)
EXTENDS Integers, Sequences, FiniteSets, FiniteSetsExt, TLC

CONSTANT Relax     \* subset of {"C06", "C07"}: guard groups switched off (attribution only)
G6(p) == ("C06" \in Relax) \/ p
G7(p) == ("C07" \in Relax) \/ p

Cheater == 2
NoCom == [tx |-> 0]
\* An output that cannot pay for a standalone claim (its value less the fee of a one-input
\* transaction at the relay floor is below the dust limit of the claim's own output) is only ever
\* claimable as part of an aggregate; LDK gives up on such a remainder when a competing spend
\* splits the aggregate (package.rs feerate_bump: "output amount would end up below dust
\* threshold").  Such outputs are exempt from the liveness obligations below -- see the report.
Uneconomic == 1000

VARIABLES
  par,      \* run parameters: kind, live (set of nodes under test), owner, delays, anti_reorg
  height,   \* best height
  txs,      \* [tx id -> [by, ins (sequence of outpoints), wal (sequence of BOOLEAN), nout, feerate, ok, sweep, bh]]
  conf,     \* [tx id -> confirmation height]            (domain: confirmed transactions)
  com,      \* the commitment transaction that confirmed, NoCom before
  known,    \* <<hashes whose preimage node 0's monitor has, same for node 1>>
  handed,   \* <<outpoints reported to node 0 in SpendableOutputs, same for node 1>>
  bal,      \* <<last balances reported by node 0, by node 1>>  (sequences of records)
  starved,  \* <<a live claim of node 0 was left out of a block, same for node 1>>
  asked,    \* [<<node, claim id>> -> feerate last requested for that claim in a BumpTransactionEvent]
  est,      \* <<what node 0's fee estimator says (sat per 1000 weight), node 1's>>
  gaveup,   \* nodes whose claim machinery has logged that it cannot raise the fee of a claim any further
  rb,       \* [n |-> the node just asked to rebroadcast its pending claims (-1: nobody),
            \*  cov |-> the channel outpoints its broadcasts / bump requests have covered since]
  phase     \* "op" | "check" | "final"

ovars == <<par, height, txs, conf, com, known, handed, bal, starved, asked, est, gaveup, rb, phase>>
NoRb == [n |-> -1, cov |-> {}]

OInit ==
  /\ par = [kind |-> "none", live |-> {}, owner |-> 0, delays |-> <<0, 0>>, anti_reorg |-> 6, chan_type |-> ""]
  /\ height = 0 /\ txs = <<>> /\ conf = <<>> /\ com = NoCom
  /\ known = <<{}, {}>> /\ handed = <<{}, {}>> /\ bal = <<<<>>, <<>>>> /\ starved = <<FALSE, FALSE>>
  /\ asked = <<>> /\ rb = NoRb /\ est = <<253, 253>> /\ gaveup = {}
  /\ phase = "op"

ToSet(s) == {s[k] : k \in 1..Len(s)}
Ins(t) == ToSet(txs[t].ins)
\* the inputs that come out of the channel (not the wallet's fee inputs)
ChanIns(t) == {txs[t].ins[k] : k \in {j \in 1..Len(txs[t].ins) : ~txs[t].wal[j]}}

Confirmed(t) == t \in DOMAIN conf
Spent(o) == \E t \in DOMAIN conf : o \in Ins(t)
SpenderOf(o) == CHOOSE t \in DOMAIN conf : o \in Ins(t)
\* a broadcast, consensus-valid, final transaction none of whose inputs is gone
\* (an unconfirmed parent -- CPFP -- must itself still be able to confirm)
Live(t) == /\ t \in DOMAIN txs /\ ~Confirmed(t) /\ txs[t].ok
           /\ \A o \in Ins(t) :
                 /\ ~Spent(o)
                 /\ (o[1] \in DOMAIN txs /\ ~Confirmed(o[1])) => (txs[o[1]].ok /\ \A oo \in Ins(o[1]) : ~Spent(oo))
\* A claim is the monitor's business as far as the channel's outputs go: if the wallet's fee input
\* of a bump transaction is used up by another of the node's own transactions, the claim request
\* still stands and is re-funded at the next bump -- such a claim counts as live.
\* (After a reorganisation a claim may hang on a transaction that is not confirmed any more: it is alive
\*  only as long as that parent can still come back -- not forgotten, none of its inputs spent otherwise.)
LiveClaim(t) == /\ t \in DOMAIN txs /\ ~Confirmed(t) /\ txs[t].ok
                /\ \A o \in ChanIns(t) :
                      /\ ~Spent(o)
                      /\ (o[1] \in DOMAIN txs /\ ~Confirmed(o[1])) => (txs[o[1]].ok /\ \A oo \in Ins(o[1]) : ~Spent(oo))
HasLiveClaim(n, o) == \E t \in DOMAIN txs : txs[t].by = n /\ ~txs[t].sweep /\ o \in ChanIns(t) /\ LiveClaim(t)

\* ------------------------------------------------------------ the confirmed commitment
HasCom == com.tx # 0
\* A reorganisation may take the commitment transaction out of the chain again (Rewind); until it is
\* back nothing below it can confirm and the node owes nothing: every obligation is stated for the
\* time the commitment IS confirmed.  When it confirms again -- at the same height or another one -- the
\* obligations are back in full at the next checkpoint ("re-issues those claims ... until they are
\* buried"): claims the node dropped at the disconnection have to be made again.
ComConf == HasCom /\ com.tx \in DOMAIN conf
Outs == IF HasCom THEN ToSet(com.outs) ELSE {}
OP(r) == <<com.tx, r.v>>
IsHtlc(r) == r.k \in {"offered", "received"}
\* from node n's point of view (the commitment belongs to com.owner)
Outbound(n, r) == (n = com.owner /\ r.k = "offered") \/ (n # com.owner /\ r.k = "received")
Inbound(n, r) == (n = com.owner /\ r.k = "received") \/ (n # com.owner /\ r.k = "offered")
Main(n, r) == (n = com.owner /\ r.k = "to_local") \/ (n # com.owner /\ r.k = "to_remote")

\* ------------------------------------------------------------ C06
Victim == 1 - com.owner
\* the outputs of transaction t that continue an HTLC of the commitment (second-stage outputs:
\* output i belongs to input i, BOLT-3 / SIGHASH_SINGLE)
\* With option_anchors the counterparty's signature on an HTLC transaction is SIGHASH_SINGLE|ANYONECANPAY:
\* the cheater may put several HTLC inputs into one transaction, add inputs of its own before, between
\* and after them and add outputs wherever no HTLC input stands, so the numbers of inputs and outputs are
\* unrelated; what consensus fixes is only that the output at the position of an HTLC input is that
\* HTLC's delayed, revocable output.  (Both signatures commit to nLockTime: HTLC-success, locktime 0, and
\* HTLC-timeout, locktime = expiry, cannot share a transaction; nor can timeouts of different expiries.)
SecondStage(t) == {<<t, k - 1>> : k \in {j \in 1..Len(txs[t].ins) : txs[t].ins[j][1] = com.tx /\ j <= txs[t].nout}}
\* everything the cheater could still turn into money: its balance, every HTLC output, and the
\* outputs of the second-stage transactions it got confirmed
CheaterClaimable ==
  {OP(r) : r \in {x \in Outs : x.k \in {"to_local", "offered", "received"}}}
  \cup UNION {SecondStage(t) : t \in {u \in DOMAIN conf : txs[u].by = Cheater /\ u # com.tx}}

Tiny(o) == \E r \in Outs : OP(r) = o /\ IsHtlc(r) /\ r.amt < Uneconomic
JusticeCovers ==
  (phase = "check" /\ ComConf /\ com.revoked /\ Victim \in par.live) =>
     G6(\A o \in CheaterClaimable : Spent(o) \/ HasLiveClaim(Victim, o) \/ Tiny(o))

\* "re-issues those claims with adequate fees until they are buried": the cheater's delayed outputs (its
\* balance, the outputs of its confirmed second-stage transactions) become spendable by the cheater
\* `delay` blocks after they confirmed.  The justice claim is re-issued the faster the closer that height
\* is (package.rs get_height_timer: every 15 blocks, every 3 blocks once at most 15 are left, every block
\* once at most 3 are left): with the newest claim of such an output issued at height a and the expiry at
\* T, the next one is due Gap(T - a) blocks later.  (Not judged once the node has logged that the fee
\* of a claim cannot be raised any further -- the claimed value is used up.)
CheaterDelayed ==
  {OP(r) : r \in {x \in Outs : x.k = "to_local"}}
  \cup UNION {SecondStage(t) : t \in {u \in DOMAIN conf : txs[u].by = Cheater /\ u # com.tx}}
\* (a transaction made in answer to a rebroadcast request does not restart that timer)
IssueHeights(n, o) == {txs[t].bh : t \in {u \in DOMAIN txs : txs[u].by = n /\ ~txs[u].sweep /\ ~txs[u].onrb /\ o \in ChanIns(u)}}
Gap(x) == IF x <= 3 THEN 1 ELSE IF x <= 15 THEN 3 ELSE 15
JusticeCadence ==
  (phase = "check" /\ ComConf /\ com.revoked /\ Victim \in par.live /\ Victim \notin gaveup) =>
     G6(\A o \in CheaterDelayed :
          (~Spent(o) /\ IssueHeights(Victim, o) # {}) =>
             LET a == Max(IssueHeights(Victim, o))
                 T == conf[o[1]] + par.delays[com.owner + 1]
             IN height - a < Gap(T - a))

\* at the end: everything is in the victim's hands, reported and swept
Reported(n, t) == \A k \in 0..(txs[t].nout - 1) : (txs[t].outwal[k + 1] \/ <<t, k>> \in handed[n + 1])
SweptAll(n) == \A o \in handed[n + 1] : Spent(o) /\ txs[SpenderOf(o)].by = n /\ txs[SpenderOf(o)].sweep

CheaterKeepsNothing ==
  (phase = "final" /\ ComConf /\ com.revoked /\ Victim \in par.live) =>
     G6(/\ \A o \in {x \in CheaterClaimable : ~Tiny(x) \/ Spent(x)} :
              /\ Spent(o)
              /\ txs[SpenderOf(o)].by \in {Victim, Cheater}
              /\ txs[SpenderOf(o)].by = Victim => Reported(Victim, SpenderOf(o))
        /\ \A r \in Outs : Main(Victim, r) => OP(r) \in handed[Victim + 1]
        /\ SweptAll(Victim))

\* ------------------------------------------------------------ C07
\* every entitled, mature, unspent HTLC output has a live claim
Entitled(n, r) == \/ (Outbound(n, r) /\ height >= r.exp)
                  \/ (Inbound(n, r) /\ r.hash \in known[n + 1] /\ height < r.exp)
NoEntitledOutputIdle ==
  (phase = "check" /\ ComConf /\ ~com.revoked) =>
     G7(\A n \in par.live : \A r \in {x \in Outs : IsHtlc(x)} :
          (~Spent(OP(r)) /\ r.amt >= Uneconomic /\ Entitled(n, r)) => HasLiveClaim(n, OP(r)))

\* ... and the monitor keeps pursuing it until it confirms: when the application asks for the pending
\* claims to be rebroadcast (ChainMonitor::rebroadcast_pending_claims, "ensuring reliability if
\* broadcasting fails"), every such output is covered again by a broadcast or a bump request --
\* a claim broadcast once and then forgotten (never re-announced, never fee-bumped) does not count.
RebroadcastCovers ==
  (phase = "check" /\ ComConf /\ ~com.revoked /\ rb.n \in par.live) =>
     G7(\A r \in {x \in Outs : IsHtlc(x)} :
          (~Spent(OP(r)) /\ r.amt >= Uneconomic /\ Entitled(rb.n, r)) => OP(r) \in rb.cov)

\* --- balances
Counted == {"awaiting", "contentious", "maybe_timeout", "revoked", "on_close"}
BalSum(n) == FoldSet(LAMBDA k, acc : acc + (IF bal[n + 1][k].k \in Counted THEN bal[n + 1][k].amt ELSE 0),
                     0, 1..Len(bal[n + 1]))
\* has the value of commitment output r (in n's favour) been handed over in a SpendableOutputs event?
HandedOver(n, r) ==
  \/ OP(r) \in handed[n + 1]
  \/ /\ Spent(OP(r)) /\ txs[SpenderOf(OP(r))].by = n
     /\ \E o \in handed[n + 1] : o[1] = SpenderOf(OP(r))
\* the items whose value node n is (or may still be) owed: definitely / at most
Mine(n, r) == Main(n, r) \/ (IsHtlc(r) /\ (Outbound(n, r) \/ (Inbound(n, r) /\ r.hash \in known[n + 1])))
TakenByPeer(n, r) == Spent(OP(r)) /\ txs[SpenderOf(OP(r))].by # n
\* "until our counterparty has claimed the balance and accrued several confirmations on the claim
\*  transaction" (get_claimable_balances): between the peer's spend and its ANTI_REORG_DELAY-th
\*  confirmation the balance may or may not still be listed
PeerSpendFresh(n, r) == TakenByPeer(n, r) /\ height <= conf[SpenderOf(OP(r))] + par.anti_reorg
OwedLow(n) == FoldSet(LAMBDA r, acc : acc + r.amt, 0,
                      {r \in Outs : Mine(n, r) /\ ~HandedOver(n, r) /\ ~TakenByPeer(n, r)})
OwedHigh(n) == FoldSet(LAMBDA r, acc : acc + r.amt, 0,
                      {r \in Outs : Mine(n, r) /\ ~HandedOver(n, r) /\ (~TakenByPeer(n, r) \/ PeerSpendFresh(n, r))})

BalancesAddUp ==
  (phase = "check" /\ ComConf /\ ~com.revoked) =>
     G7(\A n \in par.live : BalSum(n) >= OwedLow(n) /\ BalSum(n) <= OwedHigh(n))

\* --- the end of an honest close: nothing left, everything won is reported and swept
Won(n, r) == Spent(OP(r)) /\ txs[SpenderOf(OP(r))].by = n
Drained ==
  (phase = "final" /\ ComConf /\ ~com.revoked) =>
     G7(\A n \in par.live :
          \* (an inbound HTLC whose preimage never turned up is not owed; it stays listed until
          \*  the peer's timeout claim is buried)
          /\ \A k \in 1..Len(bal[n + 1]) : bal[n + 1][k].k = "maybe_preimage" \/ bal[n + 1][k].amt < Uneconomic
          /\ \A r \in Outs : Main(n, r) => OP(r) \in handed[n + 1]
          /\ \A r \in {x \in Outs : IsHtlc(x)} :
                /\ (Outbound(n, r) /\ r.amt >= Uneconomic) => Spent(OP(r))
                /\ Won(n, r) => HandedOver(n, r)
                \* a preimage known well before the expiry wins the HTLC if the miners were fair
                /\ (Inbound(n, r) /\ r.hash \in com.known[n + 1] /\ com.h + 12 < r.exp /\ ~starved[n + 1])
                      => Won(n, r)
          /\ SweptAll(n))

\* ------------------------------------------------------------ observed actions
Open(p) ==
  /\ par' = p /\ height' = p.h /\ phase' = "op"
  /\ txs' = <<>> /\ conf' = <<>> /\ com' = NoCom
  /\ known' = <<{}, {}>> /\ handed' = <<{}, {}>> /\ bal' = <<<<>>, <<>>>> /\ starved' = <<FALSE, FALSE>>
  /\ asked' = <<>> /\ rb' = NoRb /\ est' = p.est /\ gaveup' = {}

FeeTol(f) == 2 + f \div 50
\* "broadcasts consensus-valid justice transactions": a transaction that spends an output which a transaction
\* confirmed in an EARLIER block of the best chain has already spent can never confirm on that chain.  (A
\* competitor confirmed in the newest block does not count: with some delivery styles the node announces the
\* new tip -- and re-issues its pending claims -- before it is shown the block's transactions.)  Stated for
\* revoked closes, where every claim of the victim is its own, self-funded transaction; for honest closes such
\* stale broadcasts are counted by the driver, not judged (see the known finding
\* late_preimage_claim_bundled_with_settled_htlc).
NoSpentInput(t, rec) ==
  (HasCom /\ com.revoked /\ rec.by \in par.live) =>
     \A k \in 1..Len(rec.ins) :
        Spent(rec.ins[k]) => (SpenderOf(rec.ins[k]) = t \/ conf[SpenderOf(rec.ins[k])] >= height)

\* a transaction is handed to the broadcaster by `by`
Bcast(t, rec) ==
  /\ phase' = "op"
  /\ G6(NoSpentInput(t, rec))
  /\ rb' = IF rec.by = rb.n
             THEN [rb EXCEPT !.cov = @ \cup {rec.ins[k] : k \in {j \in 1..Len(rec.ins) : ~rec.wal[j]}}]
             ELSE rb
  /\ IF rec.dup
       THEN UNCHANGED txs
       \* (a transaction the network had forgotten in a reorganisation may be announced again)
       ELSE /\ IF t \in DOMAIN txs THEN ~txs[t].ok /\ txs[t].old ELSE TRUE
            /\ txs' = [x \in DOMAIN txs \cup {t} |-> IF x = t THEN [rec EXCEPT !.onrb = (rec.by = rb.n)] ELSE txs[x]]
            /\ rec.by \in par.live =>
                 \* OnlyValidFinal (the inputs exist: on the best chain, or in unconfirmed ancestors that can still
                 \* confirm -- not in a transaction that lost an input to a confirmed competitor)
                 /\ G7(rec.valid /\ rec.final) /\ G6(rec.valid /\ rec.final)
                 \* (a competitor confirmed in the newest block does not count yet: with some delivery styles the
                 \*  node announces the new tip before the block's transactions, and requests made in between are
                 \*  answered by the application a moment later)
                 /\ LET Exists == \A k \in 1..Len(rec.ins) :
                                    (rec.ins[k][1] \in DOMAIN txs /\ ~Confirmed(rec.ins[k][1]))
                                       => \A oo \in Ins(rec.ins[k][1]) : Spent(oo) => conf[SpenderOf(oo)] >= height
                    IN G7(Exists) /\ G6(Exists)
                 \* FeeMonotone: a re-issued claim of the same outpoints never pays a lower feerate
                 \* (a transaction that re-spends an output which already has a confirmed spend is not a
                 \*  re-issue of a pending claim; such stale broadcasts are counted, not judged -- see report)
                 /\ LET cins == {rec.ins[k] : k \in {j \in 1..Len(rec.ins) : ~rec.wal[j]}}
                        Mono == (\A o \in cins : ~Spent(o)) =>
                                 \A e \in DOMAIN txs :
                                   (txs[e].by = rec.by /\ ~txs[e].sweep /\ ~txs[e].old /\ ChanIns(e) # {} /\ ChanIns(e) = cins)
                                     => rec.feerate + FeeTol(rec.feerate) >= txs[e].feerate
                        \* AdequateOnRebroadcast: a self-funded claim re-issued in answer to
                        \* rebroadcast_pending_claims ("detecting substantial mempool feerate changes") pays what
                        \* the fee estimator says now, or -- if the claimed value cannot afford that -- the feerate
                        \* that spends half of it (package.rs compute_fee_from_spent_amounts)
                        \* (not the commitment transaction itself -- it spends the funding output, transaction 1 --
                        \*  whose fee was fixed when it was signed and is topped up through its anchor)
                        Adequate == (/\ rec.by = rb.n /\ cins # {} /\ \A j \in 1..Len(rec.wal) : ~rec.wal[j]
                                     /\ \A o \in cins : o[1] # 1
                                     /\ rec.inval >= Uneconomic
                                     /\ \A o \in cins : ~Spent(o)
                                     /\ \E e \in DOMAIN txs : txs[e].by = rec.by /\ ~txs[e].sweep /\ ChanIns(e) = cins)
                                      => rec.own + FeeTol(rec.own) >= Min({est[rec.by + 1], ((rec.inval \div 2) * 1000) \div rec.weight})
                    IN G6(Mono /\ Adequate) /\ G7(Mono /\ Adequate)
  /\ UNCHANGED <<par, height, conf, com, known, handed, bal, starved, asked, est, gaveup>>

\* A BumpTransactionEvent of node n (anchor channels: the monitor asks the application to attach fees
\* to its commitment transaction -- ChannelClose -- or to its zero-fee HTLC transactions --
\* HTLCResolution).  `c` is the event's claim id (events.rs: "a new claim with the same identifier ...
\* resulting in a fee-bumping attempt"), `ops` the channel outpoints the requested transaction spends.
\* FeeMonotone for externally funded claims: as long as none of those outputs has a confirmed spend,
\* the feerate requested for one claim never goes down, whatever the fee estimator said in between.
Bump(n, c, target, ops) ==
  /\ phase' = "op"
  /\ LET Mono == (<<n, c>> \in DOMAIN asked /\ \A o \in ops : ~Spent(o)) => target >= asked[<<n, c>>]
     IN n \in par.live => (G6(Mono) /\ G7(Mono))
  /\ asked' = [x \in DOMAIN asked \cup {<<n, c>>} |-> IF x = <<n, c>> THEN target ELSE asked[x]]
  /\ rb' = IF n = rb.n THEN [rb EXCEPT !.cov = @ \cup ops] ELSE rb
  /\ UNCHANGED <<par, height, txs, conf, com, known, handed, bal, starved, est, gaveup>>

\* (after a reorganisation took the commitment out of the chain a different, competing commitment
\*  transaction may confirm in its place; from then on the obligations are about that one)
Commit(c) ==
  /\ IF HasCom THEN com.gone /\ c.tx # com.tx ELSE TRUE
  /\ com' = c /\ phase' = "op"
  /\ known' = c.known
  /\ UNCHANGED <<par, height, txs, conf, handed, bal, starved, asked, est, gaveup>> /\ rb' = NoRb

\* was a live claim of node n left out?
LeftOut(n, ids) == \E t \in DOMAIN txs :
   /\ txs[t].by = n /\ Live(t) /\ t \notin ids
   /\ \A o \in Ins(t) : ~\E u \in ids : o \in Ins(u)     \* not merely replaced by a competing version
Block(h, ids) ==
  /\ h = height + 1 /\ height' = h /\ phase' = "op"
  /\ ids \subseteq DOMAIN txs
  /\ conf' = [x \in DOMAIN conf \cup ids |-> IF x \in DOMAIN conf THEN conf[x] ELSE h]
  /\ starved' = <<starved[1] \/ LeftOut(0, ids), starved[2] \/ LeftOut(1, ids)>>
  \* (the commitment transaction may confirm a second time, after a reorganisation: its height follows)
  \* (claims made for its earlier confirmation, or while it was out of the chain, are a closed chapter:
  \*  no feerate comparison with them)
  /\ LET back == HasCom /\ com.tx \in ids /\ com.gone IN
       /\ com' = IF HasCom /\ com.tx \in ids THEN [com EXCEPT !.h = h, !.gone = FALSE] ELSE com
       /\ txs' = IF back THEN [t \in DOMAIN txs |-> [txs[t] EXCEPT !.old = TRUE]] ELSE txs
       /\ asked' = IF back THEN <<>> ELSE asked
  /\ UNCHANGED <<par, known, handed, bal, est, gaveup>> /\ rb' = NoRb

Idle(from, h) ==
  /\ from = height + 1 /\ h >= from /\ height' = h /\ phase' = "check"
  /\ starved' = <<starved[1] \/ LeftOut(0, {}), starved[2] \/ LeftOut(1, {})>>
  /\ UNCHANGED <<par, txs, conf, com, known, handed, bal, asked, est, gaveup>> /\ rb' = NoRb

\* several empty blocks of which the node is only told the last (no checkpoint in between)
Jump(from, h) ==
  /\ from = height + 1 /\ h >= from /\ height' = h /\ phase' = "op"
  /\ starved' = <<starved[1] \/ LeftOut(0, {}), starved[2] \/ LeftOut(1, {})>>
  /\ UNCHANGED <<par, txs, conf, com, known, handed, bal, asked, est, gaveup>> /\ rb' = NoRb

Preimage(n, hash) ==
  /\ known' = [known EXCEPT ![n + 1] = @ \cup {hash}] /\ phase' = "op"
  /\ UNCHANGED <<par, height, txs, conf, com, handed, bal, starved, asked, est, gaveup>> /\ rb' = NoRb

\* The chain is reorganised away down to height h.  Transactions confirmed above h are unconfirmed
\* again (they may confirm again later, at any height, or never).  `ev`: transactions the network has
\* forgotten in the course of it -- unconfirmed descendants of transactions that left the chain, which no
\* mempool is obliged to keep; they will never confirm unless broadcast again.  What was handed over in
\* SpendableOutputs events but is not on the chain any more has to be handed over again once it is back
\* (and buried); a feerate comparison across such a reorganisation is not made (`old`).
Rewind(h, ev) ==
  /\ h < height
  /\ LET gone == {t \in DOMAIN conf : conf[t] > h}
         stay == DOMAIN conf \ gone
     IN /\ ev \subseteq DOMAIN txs \ stay
        /\ conf' = [t \in stay |-> conf[t]]
        /\ txs' = [t \in DOMAIN txs |->
                     IF t \in ev THEN [txs[t] EXCEPT !.ok = FALSE, !.old = TRUE]
                     ELSE IF gone # {} THEN [txs[t] EXCEPT !.old = TRUE] ELSE txs[t]]
        /\ handed' = <<{o \in handed[1] : o[1] \notin gone \cup ev}, {o \in handed[2] : o[1] \notin gone \cup ev}>>
        /\ asked' = IF gone = {} THEN asked ELSE <<>>
        /\ starved' = IF gone = {} THEN starved ELSE <<TRUE, TRUE>>
        /\ com' = IF HasCom /\ com.tx \in gone THEN [com EXCEPT !.gone = TRUE] ELSE com
  /\ height' = h /\ phase' = "op" /\ rb' = NoRb
  /\ UNCHANGED <<par, known, bal, est, gaveup>>

\* node n's fee estimator now says v
Feerate(n, v) ==
  /\ est' = [est EXCEPT ![n + 1] = v] /\ phase' = "op"
  /\ UNCHANGED <<par, height, txs, conf, com, known, handed, bal, starved, asked, gaveup, rb>>

\* node n's claim machinery logs that it cannot raise the fee of a claim any further
GaveUp(n) ==
  /\ gaveup' = gaveup \cup {n} /\ phase' = "op"
  /\ UNCHANGED <<par, height, txs, conf, com, known, handed, bal, starved, asked, est, rb>>

\* the application asks node n to rebroadcast its pending claims
Rebroadcast(n) ==
  /\ rb' = [n |-> n, cov |-> {}] /\ phase' = "op"
  /\ UNCHANGED <<par, height, txs, conf, com, known, handed, bal, starved, asked, est, gaveup>>

\* SpendableOutputs: each descriptor names a real, confirmed output with its real value
Spendable(n, ds) ==
  /\ phase' = "op"
  /\ G7(\A d \in ToSet(ds) : d.confirmed /\ d.amt = d.real_amt /\ d.op \notin handed[n + 1])
  /\ G6(\A d \in ToSet(ds) : d.confirmed /\ d.amt = d.real_amt)
  /\ handed' = [handed EXCEPT ![n + 1] = @ \cup {d.op : d \in ToSet(ds)}]
  /\ UNCHANGED <<par, height, txs, conf, com, known, bal, starved, asked, est, gaveup, rb>>

\* "... SpendableOutputs events that the node's keys can actually spend": the application hands a set `req` of
\* reported, mature outputs to the node's OutputSpender (spend_spendable_outputs) -- one descriptor, the
\* descriptors of one event, or everything it has been handed so far (what OutputSweeper does), from one channel
\* of the node or from several, in any order.  Every such request is answered by a transaction that spends
\* exactly the requested outputs, is consensus-valid and final (`good`: the call returned a transaction, the
\* harness chain verified it, its fee is not negative).  A refusal (Err) of a request for reported outputs has no
\* matching action: an output that was reported spendable and cannot be swept with the others is not recovered.
Sweep(n, t, rec, req, good) ==
  /\ phase' = "op"
  /\ LET Owed == req # {} /\ req \subseteq handed[n + 1]
         Good == good /\ ToSet(rec.ins) = req
     IN G7(Owed => Good) /\ G6(Owed => Good)
  /\ IF good /\ t \notin DOMAIN txs
       THEN txs' = [x \in DOMAIN txs \cup {t} |-> IF x = t THEN rec ELSE txs[x]]
       ELSE UNCHANGED txs
  /\ UNCHANGED <<par, height, conf, com, known, handed, bal, starved, asked, est, gaveup, rb>>

Balances(n, items) ==
  /\ bal' = [bal EXCEPT ![n + 1] = items] /\ phase' = "op"
  /\ UNCHANGED <<par, height, txs, conf, com, known, handed, starved, asked, est, gaveup, rb>>

Checkpoint(h) ==
  /\ h = height /\ phase' = "check"
  /\ UNCHANGED <<par, height, txs, conf, com, known, handed, bal, starved, asked, est, gaveup, rb>>

Final(f) ==
  /\ phase' = "final"
  \* bounded liveness: under fair mining everything is over within the settle horizon
  \* (other_left: what the monitor of a second closed channel of the node still lists as claimable -- that
  \*  channel drains to nothing as well)
  /\ G7((HasCom /\ ~com.revoked) => (f.unswept = 0 /\ Len(f.mempool_left) = 0 /\ f.other_left = 0))
  /\ G6((HasCom /\ com.revoked) => (f.unswept = 0 /\ Len(f.mempool_left) = 0))
  /\ UNCHANGED <<par, height, txs, conf, com, known, handed, bal, starved, asked, est, gaveup>> /\ rb' = NoRb

Silent == phase' = "op" /\ UNCHANGED <<par, height, txs, conf, com, known, handed, bal, starved, asked, est, gaveup, rb>>

TypeOK ==
  /\ phase \in {"op", "check", "final"}
  /\ DOMAIN conf \subseteq DOMAIN txs
=============================================================================
