SPECIFICATION TraceSpec
INVARIANT NoViolation
POSTCONDITION TraceAccepted
CHECK_DEADLOCK FALSE
