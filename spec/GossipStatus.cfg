SPECIFICATION Spec
CONSTANTS
  D = 3
  E = 2
  Write = "announced"
  MaxOps = 9
  MaxReloads = 2
INVARIANT Follows
INVARIANT BeliefIsAnnounced
INVARIANT EmitScripts
CHECK_DEADLOCK TRUE
