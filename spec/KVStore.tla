------------------------------- MODULE KVStore -------------------------------
(***************************************************************************)
(* C19 (a) -- a key-value store is an ATOMIC MAP with per-key issue order,   *)
(* stated only over what callers observe: the calls they make and what the  *)
(* calls return.                                                            *)
(*                                                                         *)
(* Every operation is split into Call / Return; between the two it takes    *)
(* effect at one instant (its linearisation point).  A concurrent execution *)
(* satisfies the property iff linearisation points can be chosen so that    *)
(*   - a read returns the value of the last write linearised before it (0 = *)
(*     NotFound after a removal / before any write) -- a value that is not   *)
(*     the complete value of one write (torn, mixed) is no such value;       *)
(*   - removals and listings agree with the completed writes;               *)
(*   - keys are independent: an operation on k touches kv[k] only;          *)
(*   - writes/removals of one key take effect in the order they were        *)
(*     issued: an operation that returned before another one was called is  *)
(*     linearised before it (calls of one thread are issued in program      *)
(*     order, calls of different threads are ordered by real time).         *)
(*                                                                         *)
(* Linearisation points are not observable, so they are chosen lazily: a    *)
(* mutator (write/remove) that has not taken effect yet does so, at the     *)
(* latest, when it returns, and a returning operation may first let any     *)
(* other pending mutators of the keys it touches take effect (in any        *)
(* order).  Delaying a linearisation point to the next return event on the  *)
(* same key never invalidates a linearisation, hence this loses no          *)
(* behaviours; Lin(t) (a single mutator taking effect on its own) is kept   *)
(* as an explicit action for the model checker.                             *)
(*                                                                         *)
(* ISSUE ORDER.  Through the asynchronous API an operation is issued by the   *)
(* call that creates its future (ticket tk > 0 = position in the issue       *)
(* order) and takes effect while the future is driven, possibly much later   *)
(* and in another order.  Writes/removals of one key must take effect in the *)
(* order they were issued, whatever the order in which their futures         *)
(* complete: when a mutator takes effect, every mutator of that key issued   *)
(* before it and not yet in effect takes effect first (it is overwritten:    *)
(* "the state must either see the first write then the second, or only ever  *)
(* the second"), and a mutator never takes effect after one issued later.    *)
(* Synchronous calls (tk = 0) obtain their place in the order somewhere      *)
(* inside the call, so for them real-time order is all that can be said.     *)
(* (A run uses one API only.)                                                *)
(*                                                                         *)
(* A read can be linearised anywhere in its interval: `seen` collects the   *)
(* values its key held while it was pending.  A listing is NOT required to  *)
(* be one atomic snapshot of a namespace (the property only asks that it    *)
(* agrees with the writes that completed): it is one independent presence   *)
(* observation per key, each linearised somewhere in the listing's          *)
(* interval.  After a lazy removal the key may still be listed until it is  *)
(* written again (KVStoreSync::remove documentation).                       *)
(***************************************************************************)
EXTENDS Naturals, Sequences, FiniteSets, TLC

CONSTANT MaxThreads

VARIABLES
  nk,     \* keys of this run are 1..nk
  ns,     \* [1..nk -> namespace index]   list(n) covers the keys k with ns[k] = n
  kv,     \* [1..nk -> Nat]               0 = absent, v > 0 = "the value with id v"
  lz,     \* [1..nk -> BOOLEAN]           absent because of a lazy removal (may still be listed)
  pend    \* [1..MaxThreads -> pending operation]

kvars == <<nk, ns, kv, lz, pend>>

Threads == 1..MaxThreads
Keys == 1..nk
NoOp == [op |-> "none", k |-> 0, v |-> 0, lazy |-> FALSE, tk |-> 0, done |-> FALSE, seen |-> {}]

IsMut(p) == p.op \in {"write", "remove"}
Pres(v) == IF v = 0 THEN 0 ELSE 1

(* The mutator pending on thread t takes effect on the state st = [kv, lz, pend]. *)
ApplyOne(st, t) ==
  LET p  == st.pend[t]
      nv == IF p.op = "write" THEN p.v ELSE 0
      obs == IF nv = 0 /\ p.lazy THEN {<<p.k, 0>>, <<p.k, 1>>} ELSE {<<p.k, Pres(nv)>>}
  IN [kv |-> [st.kv EXCEPT ![p.k] = nv],
      lz |-> [st.lz EXCEPT ![p.k] = (nv = 0 /\ p.lazy)],
      pend |-> [u \in Threads |->
                 LET q == st.pend[u] IN
                 IF u = t THEN [q EXCEPT !.done = TRUE]
                 ELSE IF q.op = "read" /\ q.k = p.k THEN [q EXCEPT !.seen = @ \cup {<<p.k, nv>>}]
                 ELSE IF q.op = "list" /\ ns[p.k] = q.k THEN [q EXCEPT !.seen = @ \cup obs]
                 ELSE q]]

RECURSIVE ApplySeq(_, _)
ApplySeq(st, seq) == IF seq = <<>> THEN st ELSE ApplySeq(ApplyOne(st, Head(seq)), Tail(seq))

(* all orderings of all subsets of S (|S| <= MaxThreads - 1) *)
OrderedSubsets(S) ==
  UNION {{s \in [1..n -> S] : \A i, j \in 1..n : i # j => s[i] # s[j]} : n \in 0..Cardinality(S)}

Cur == [kv |-> kv, lz |-> lz, pend |-> pend]

(* pending mutators, not yet in effect, of the keys in K, other than t's *)
Others(t, K) == {u \in Threads \ {t} : IsMut(pend[u]) /\ ~pend[u].done /\ pend[u].k \in K}

RECURSIVE ByTicket(_)
ByTicket(S) ==
  IF S = {} THEN <<>>
  ELSE LET m == CHOOSE u \in S : \A w \in S : pend[u].tk <= pend[w].tk
       IN <<m>> \o ByTicket(S \ {m})

(* issue-order closed: with a mutator also every earlier-issued one of its key *)
Closed(S, All) ==
  \A u \in S, w \in All : (pend[w].k = pend[u].k /\ pend[w].tk < pend[u].tk) => w \in S

(* the sequences of other pending mutators that may take effect before the    *)
(* observation of t (a read / list) is made                                   *)
BeforeObs(t, K) ==
  IF pend[t].tk = 0 THEN OrderedSubsets(Others(t, K))
  ELSE {ByTicket(S) : S \in {X \in SUBSET Others(t, K) : Closed(X, Others(t, K))}}

(* ... before the mutator t itself takes effect (at the latest when it returns) *)
BeforeMut(t) ==
  IF pend[t].tk = 0 THEN OrderedSubsets(Others(t, {pend[t].k}))
  ELSE {ByTicket({u \in Others(t, {pend[t].k}) : pend[u].tk < pend[t].tk})}

-----------------------------------------------------------------------------
Call(t, op, k, v, lazy, tk) ==
  /\ t \in Threads /\ pend[t].op = "none"
  /\ op \in {"write", "remove", "read", "list"}
  /\ IF op = "list" THEN k \in {ns[j] : j \in Keys} \cup {0} ELSE k \in Keys
  /\ op = "write" => v > 0
  /\ pend' = [pend EXCEPT ![t] =
       [op |-> op, k |-> k, v |-> v, lazy |-> lazy, tk |-> tk, done |-> FALSE,
        seen |-> IF op = "read" THEN {<<k, kv[k]>>}
                 ELSE IF op = "list"
                   THEN UNION {IF lz[j] THEN {<<j, 0>>, <<j, 1>>} ELSE {<<j, Pres(kv[j])>>}
                               : j \in {i \in Keys : ns[i] = k}}
                 ELSE {}]]
  /\ UNCHANGED <<nk, ns, kv, lz>>

(* one pending mutator takes effect on its own (explicit linearisation point) *)
Lin(t) ==
  /\ t \in Threads /\ IsMut(pend[t]) /\ ~pend[t].done
  /\ pend[t].tk > 0 => \A u \in Others(t, {pend[t].k}) : pend[u].tk > pend[t].tk
  /\ LET st == ApplyOne(Cur, t) IN kv' = st.kv /\ lz' = st.lz /\ pend' = st.pend
  /\ UNCHANGED <<nk, ns>>

Finish(st, t) ==
  /\ kv' = st.kv /\ lz' = st.lz
  /\ pend' = [st.pend EXCEPT ![t] = NoOp]
  /\ UNCHANGED <<nk, ns>>

(* a write / remove returns successfully *)
RetMut(t) ==
  /\ t \in Threads /\ IsMut(pend[t])
  /\ IF pend[t].done THEN Finish(Cur, t)
     ELSE \E seq \in BeforeMut(t) :
            Finish(ApplySeq(Cur, seq \o <<t>>), t)

(* a read returns r: 0 = NotFound, v > 0 = exactly the bytes of the write with value id v *)
RetRead(t, r) ==
  /\ t \in Threads /\ pend[t].op = "read"
  /\ \E seq \in BeforeObs(t, {pend[t].k}) :
       LET st == ApplySeq(Cur, seq) IN
       /\ <<pend[t].k, r>> \in st.pend[t].seen
       /\ Finish(st, t)

(* a listing of namespace pend[t].k returns exactly the key set R *)
RetList(t, R) ==
  /\ t \in Threads /\ pend[t].op = "list"
  /\ LET K == {j \in Keys : ns[j] = pend[t].k} IN
     /\ R \subseteq K
     /\ \E seq \in BeforeObs(t, K) :
          LET st == ApplySeq(Cur, seq) IN
          /\ \A j \in K : <<j, IF j \in R THEN 1 ELSE 0>> \in st.pend[t].seen
          /\ Finish(st, t)

(* a listing may give up with an error (FilesystemStore documents this for   *)
(* directory races); it then tells nothing.  No other operation may fail on *)
(* a healthy file system: there is no action for that.                      *)
RetListErr(t) ==
  /\ t \in Threads /\ pend[t].op = "list"
  /\ Finish(Cur, t)

-----------------------------------------------------------------------------
TypeOK ==
  /\ kv \in [Keys -> Nat]
  /\ \A t \in Threads : pend[t].op \in {"none", "write", "remove", "read", "list"}

(* a key is "lazily absent" only while absent *)
LazyOnlyAbsent == \A k \in Keys : lz[k] => kv[k] = 0

(* issue order: a mutator that is not in effect yet was issued after every    *)
(* pending mutator of its key that is                                        *)
IssueOrder ==
  \A t, u \in Threads :
    (IsMut(pend[t]) /\ IsMut(pend[u]) /\ pend[t].k = pend[u].k /\ pend[t].tk > 0 /\ pend[u].tk > 0
       /\ pend[t].done /\ ~pend[u].done) => pend[t].tk < pend[u].tk
=============================================================================
