SPECIFICATION Spec
CONSTANTS
  HoldUntilHandled = TRUE
  MaxCrash = 2
  MaxRefuse = 2
INVARIANT NoLostSent
INVARIANT CrashSafe
CHECK_DEADLOCK TRUE
