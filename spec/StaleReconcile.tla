--------------------------- MODULE StaleReconcile ---------------------------
(***************************************************************************)
(* C10 -- a node restarts from a ChannelManager that is older than the      *)
(* ChannelMonitor of one of its channels: the channel is closed from the     *)
(* monitor, and every outbound HTLC the stale manager still lists but the    *)
(* monitor has already forgotten (it was removed, the dance completed, after *)
(* the manager was written) is failed back / reported failed by the          *)
(* restarted manager itself -- nobody else will: the monitor does not track  *)
(* it any more and the channel object is gone.                               *)
(*                                                                         *)
(* Design model at the granularity of the reconciliation loop in            *)
(* ChannelManager::read (the OutdatedChannelManager branch): K outbound      *)
(* HTLCs, in the order the manager lists them, pending when the manager is   *)
(* written; afterwards the peer resolves any subset (fail or fulfil), each   *)
(* removal running to completion, so the monitor -- durable -- no longer     *)
(* holds it; then the crash.  The loop walks the manager's list and fails    *)
(* back what the monitor does not hold.  ResetFlag = FALSE is the planted    *)
(* defect of a `found` flag declared outside the loop.                       *)
(*                                                                         *)
(* Every behaviour is printed as a script for the engine channet.            *)
(***************************************************************************)
EXTENDS Naturals, Sequences, FiniteSets, TLC, Json

CONSTANTS K, ResetFlag

VARIABLES
  mon,       \* HTLCs the durable monitor still holds
  how,       \* [h -> "fail" | "claim"] for the HTLCs resolved after the manager was written
  phase,     \* "run" | "restarted"
  failedBack,\* HTLCs the restarted manager failed back (or, if claimed, had been claimed upstream)
  hist

vars == <<mon, how, phase, failedBack, hist>>
H == 1..K

Init == mon = H /\ how = <<>> /\ phase = "run" /\ failedBack = {} /\ hist = <<>>

\* the peer resolves HTLC h and the removal is irrevocably committed on both sides: the monitor forgets it
Resolve(h, r) ==
  /\ phase = "run" /\ h \in mon
  /\ mon' = mon \ {h}
  /\ how' = [x \in DOMAIN how \cup {h} |-> IF x = h THEN r ELSE how[x]]
  /\ hist' = Append(hist, [op |-> r, htlc |-> h])
  /\ UNCHANGED <<phase, failedBack>>

\* the reconciliation loop over the manager's list 1..K, with its `found` flag
RECURSIVE Walk(_, _, _)
Walk(i, found, acc) ==
  IF i > K THEN acc
  ELSE LET f0 == IF ResetFlag THEN FALSE ELSE found
           f1 == f0 \/ (i \in mon)
       IN Walk(i + 1, f1, IF f1 THEN acc ELSE acc \cup {i})

Crash ==
  /\ phase = "run" /\ mon # H            \* the monitor has moved on: the manager is stale
  /\ phase' = "restarted"
  /\ failedBack' = Walk(1, FALSE, {})
  /\ hist' = Append(hist, [op |-> "crash", htlc |-> 0])
  /\ UNCHANGED <<mon, how>>

Done == phase = "restarted" /\ UNCHANGED vars

Next == (\E h \in H, r \in {"fail", "claim"} : Resolve(h, r)) \/ Crash \/ Done
Spec == Init /\ [][Next]_vars

-----------------------------------------------------------------------------
\* C10: what the monitor no longer holds is resolved by the restarted manager
NothingOrphaned == phase = "restarted" => failedBack = H \ mon
EmitScripts == phase = "restarted" => PrintT(<<"SCRIPT", ToJson([k |-> K, steps |-> hist])>>)
=============================================================================
