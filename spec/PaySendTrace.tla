---------------------------- MODULE PaySendTrace ----------------------------
(* Trace validation of real ChannelManager networks (engine `paynet`) against PaySend.tla (C03). *)
EXTENDS PaySend, Json, IOUtils

VARIABLE l
Rec == ndJsonDeserialize(IOEnv.TRACE)
tvars == <<svars, l>>
R == Rec[l]
IsEvent(e) == l <= Len(Rec) /\ Rec[l].ev = e /\ l' = l + 1
Stutter == UNCHANGED svars

TraceInit == l = 1 /\ SInit

TOpen ==
  /\ IsEvent("open")
  /\ SOpen(0..(R.nodes - 1), [n \in 0..(R.nodes - 1) |-> R.bal[n + 1].bal])

TSend ==
  /\ IsEvent("send")
  \* the first-hop channel of every part of the route the user chose (0: routed by the payer's router, not known)
  /\ SSend(R.node, R.pid, R.hash, R.amt,
           [k \in 1..Len(R.parts) |-> IF Len(R.parts[k].path) > 0 THEN R.parts[k].path[1] ELSE 0],
           ~R.auto, R.evs_handled, R.res)

TMsg ==
  /\ IsEvent("msg")
  /\ CASE R.kind = "update_add_htlc" -> SAdd(R.from, R.chan, R.id, R.hash, R.amt)
       [] R.kind = "update_fail_htlc" -> SFailMsg(R.chan, R.to, R.id)
       [] R.kind = "update_fulfill_htlc" -> Stutter
       [] OTHER -> stale /\ Stutter   \* an `error` message: only about channels a stale restart closed

TDeliver ==
  /\ IsEvent("deliver")
  /\ CASE R.kind = "update_add_htlc" -> SGotAdd(R.to)
       [] R.kind = "update_fulfill_htlc" -> SResolve(R.chan, R.to, R.id, "ful")
       [] R.kind = "update_fail_htlc" -> SResolve(R.chan, R.to, R.id, "fail")
       [] OTHER -> stale /\ Stutter

TClaim == IsEvent("claim") /\ SClaimCall(R.hash)

TEvent ==
  /\ IsEvent("event")
  /\ CASE R.kind = "PaymentSent" -> SEvSent(R.node, R.pid, R.hash, R.preimage_ok, R.fee)
       [] R.kind = "PaymentFailed" -> SEvFailed(R.node, R.pid, R.pend)
       [] R.kind = "PaymentPathFailed" -> SEvPathFailed(R.node, R.pid, R.hash, R.blamed, R.initial, R.path)
       [] OTHER -> Stutter

\* the payer's persister returned InProgress for a monitor write / the user reports the write complete
TPersist == IsEvent("persist") /\ R.status = "inprogress" /\ SPersistInProgress(R.node, R.chan, R.id)
TComplete == IsEvent("complete") /\ SPersistComplete(R.node, R.chan, R.id)

TSave == IsEvent("save") /\ SSave(R.node)
TRestart == IsEvent("restart") /\ SRestart(R.node, R.stale)

TChain ==
  /\ IsEvent("chain")
  /\ IF R.what = "commitment" THEN SChainCommit(R.chan, SeqSet(R.outs)) ELSE SChainHtlc(R.chan, R.hash, R.preimage)
TRecent ==
  /\ IsEvent("recent")
  /\ IF R.after_restart THEN SRecentAfterRestart(R.node, {R.list[k].pid : k \in 1..Len(R.list)}) ELSE Stutter

TQuiet ==
  /\ IsEvent("quiet")
  /\ R.queued = 0
  /\ ((R.writes = 0) <=> (wip = {}))    \* quiet: no monitor write is in flight (every `persist` has met its `complete`)
  /\ IF ~R.closed
     THEN SQuietOK([n \in DOMAIN initBal |-> R.nodes[n + 1].bal],
                   {n \in DOMAIN initBal : R.nodes[n + 1].htlcs = 0 /\ ~R.nodes[n + 1].floor})
     ELSE R.settled => SQuietChainOK
  /\ Stutter

TOther ==
  /\ l <= Len(Rec)
  /\ Rec[l].ev \in {"reg", "failback", "forward", "tick", "block", "disconnect", "reconnect", "handled", "abandon", "broadcast", "settle_chain", "settled", "mine_skipped", "persist_mode", "config"}
  /\ l' = l + 1 /\ Stutter

TraceNext == TOpen \/ TSend \/ TPersist \/ TComplete \/ TMsg \/ TDeliver \/ TClaim \/ TEvent \/ TSave \/ TRestart \/ TRecent \/ TChain \/ TQuiet \/ TOther

TraceSpec == TraceInit /\ [][TraceNext]_tvars

TraceAccepted ==
  LET d == TLCGet("stats").diameter IN
  IF d - 1 = Len(Rec) THEN TRUE
  ELSE /\ PrintT(<<"REJECT", d, Len(Rec)>>)
       /\ FALSE
=============================================================================
