SPECIFICATION MCSpec
CONSTANTS
  MaxAttrHops = 20
  MaxN = 27
  SizeNs = {1, 2, 3, 4, 5, 6, 7, 8, 9, 10, 11, 12, 13, 14, 15, 16, 17, 18, 19, 20, 21, 22, 23, 24, 25, 26, 27}
  OpsNs = {1, 2, 3, 4, 5, 6, 7, 8, 9, 10, 11, 12, 13, 14, 15, 16, 17, 18, 19, 20, 21, 22, 23, 24, 25, 26}
  AmtLens = {1, 3, 8}
  CltvLens = {1, 2, 3}
  Metas = {"none", "empty", "fillm", "fill", "fillp"}
  Customs = {"none", "two", "fill"}
  Blindeds = {0, 1, 2, 3}
  CodeClasses = {"node_temp", "node_perm", "perm", "plain", "recipient"}
  ULens = {0, 1, 2, 136, 1000}
  KeyHops = {3, 19, 20, 21}
  DLens = {0, 7, 254, 255, 300}
  EncFwd = 46
  EncRecv = 76
INVARIANT TypeOK
INVARIANT PacketSizeConstant
INVARIANT HeadIsNextHop
INVARIANT LastHopReceives
INVARIANT CorruptRejected
INVARIANT AttrBounded
INVARIANT AttributedRight
INVARIANT Progress
INVARIANT EmitScripts
CHECK_DEADLOCK TRUE
