---------------------------- MODULE SpvAbstract ----------------------------
(***************************************************************************)
(* C20 -- what a chain-sync client may do, stated only over what a caller  *)
(* can observe: the block tree served by the source, the source's best     *)
(* tip, the Listen notifications each listener receives and the value each *)
(* poll / start-up synchronisation returns.  Nothing about caches, request *)
(* order or the client's private tip appears here, so any implementation   *)
(* that keeps the property is a behaviour of this specification.           *)
(*                                                                         *)
(* Block 0 is genesis; blocks 1..nb have parent[b] < b and work bwork[b].   *)
(***************************************************************************)
EXTENDS Naturals, Sequences, FiniteSets, TLC

CONSTANT MaxListeners

VARIABLES
  nb,        \* number of non-genesis blocks in the tree
  parent,    \* [1..nb -> 0..nb-1]
  bwork,     \* [1..nb -> Nat \ {0}]   work contributed by each block
  srcTip,    \* block the source currently reports as best
  nl,        \* number of listeners
  ltip,      \* [1..nl -> block]       tip of the chain each listener has been told
  phase,     \* "idle" | "polling" | "syncing" | "dead"
  startTip,  \* [1..nl -> block]       ltip at the start of the current operation
  faulted,   \* the source deviated from honest answers during this operation
  moved,     \* [1..nl -> BOOLEAN]     listener got a notification during this operation
  connd      \* [1..nl -> BOOLEAN]     listener got a block_connected during this operation

avars == <<nb, parent, bwork, srcTip, nl, ltip, phase, startTip, faulted, moved, connd>>

Blocks == 0..nb
Listeners == 1..nl

RECURSIVE Height(_), ChainWork(_), IsAncestor(_, _), Fork(_, _)
Height(b) == IF b = 0 THEN 0 ELSE Height(parent[b]) + 1
ChainWork(b) == IF b = 0 THEN 1 ELSE ChainWork(parent[b]) + bwork[b]
\* a is an ancestor of (or equal to) b
IsAncestor(a, b) == IF a = b THEN TRUE ELSE IF b = 0 THEN FALSE
                    ELSE IF a > b THEN FALSE ELSE IsAncestor(a, parent[b])
\* last common ancestor
Fork(a, b) == IF a = b THEN a
              ELSE IF Height(a) > Height(b) THEN Fork(parent[a], b)
              ELSE IF Height(b) > Height(a) THEN Fork(a, parent[b])
              ELSE Fork(parent[a], parent[b])

TreeOK == /\ nb \in Nat
          /\ parent \in [1..nb -> 0..nb]
          /\ \A b \in 1..nb : parent[b] < b
          /\ bwork \in [1..nb -> {1, 2}]

-----------------------------------------------------------------------------
(* Environment: the source's best tip moves anywhere in the tree.          *)
SetTip(b) ==
  /\ phase = "idle"
  /\ b \in Blocks
  /\ srcTip' = b
  /\ UNCHANGED <<nb, parent, bwork, nl, ltip, phase, startTip, faulted, moved, connd>>

Begin(ph, f) ==
  /\ phase = "idle"
  /\ phase' = ph
  /\ startTip' = ltip
  /\ faulted' = f
  /\ moved' = [i \in Listeners |-> FALSE]
  /\ connd' = [i \in Listeners |-> FALSE]
  /\ UNCHANGED <<nb, parent, bwork, srcTip, nl, ltip>>

PollBegin(f) == Begin("polling", f)
SyncBegin(f) == Begin("syncing", f)

(* The source injected an error or a lie (logged by the source itself).    *)
(* Lies include a correct header served with a wrong accumulated chainwork  *)
(* or a wrong height; whatever the source says, ChainWork / Height below    *)
(* are the REAL ones of the block tree.                                      *)
Fault ==
  /\ phase \in {"polling", "syncing"}
  /\ faulted' = TRUE
  /\ UNCHANGED <<nb, parent, bwork, srcTip, nl, ltip, phase, startTip, moved, connd>>

(* "each poll either leaves the listeners untouched or moves them to a tip  *)
(* with more accumulated work": whatever the source answered (errors, lies  *)
(* about work or height included), a poll notifies a listener only on the   *)
(* way to a source tip that REALLY has more accumulated work than the block  *)
(* the listener was on when the poll began.  (After a failed fetch the walk  *)
(* may stop short of that tip; it never heads for a tip with less or equal   *)
(* work.)  Start-up synchronisation goes to the source's tip whatever its    *)
(* work, so the guard is for polls only.                                     *)
TowardsMoreWork(i) ==
  phase = "polling" => ChainWork(srcTip) > ChainWork(startTip[i])

(* blocks_disconnected(f) on listener i: f must be a strict ancestor of    *)
(* its tip, not beyond the fork point with the source's tip, and must come *)
(* before any block is connected in this operation.                        *)
Disconnected(i, f) ==
  /\ phase \in {"polling", "syncing"}
  /\ i \in Listeners /\ f \in Blocks
  /\ TowardsMoreWork(i)
  /\ f # ltip[i]
  /\ IsAncestor(f, ltip[i])
  /\ IsAncestor(Fork(startTip[i], srcTip), f)
  /\ ~connd[i]
  /\ ltip' = [ltip EXCEPT ![i] = f]
  /\ moved' = [moved EXCEPT ![i] = TRUE]
  /\ UNCHANGED <<nb, parent, bwork, srcTip, nl, phase, startTip, faulted, connd>>

(* block_connected / filtered_block_connected(b, h) on listener i: b       *)
(* extends the listener's tip by one, at the right height, towards the     *)
(* source's tip.                                                           *)
Connected(i, b, h) ==
  /\ phase \in {"polling", "syncing"}
  /\ i \in Listeners /\ b \in 1..nb
  /\ TowardsMoreWork(i)
  /\ parent[b] = ltip[i]
  /\ h = Height(b)
  /\ IsAncestor(b, srcTip)
  /\ ltip' = [ltip EXCEPT ![i] = b]
  /\ moved' = [moved EXCEPT ![i] = TRUE]
  /\ connd' = [connd EXCEPT ![i] = TRUE]
  /\ UNCHANGED <<nb, parent, bwork, srcTip, nl, phase, startTip, faulted>>

AnyMoved == \E i \in Listeners : moved[i]
SameTips == \A i, j \in Listeners : ltip[i] = ltip[j]

(* poll_best_tip returned.  res \in {"common","better","worse","err"};     *)
(* flag is the boolean returned with Ok.  All listeners of a polling client *)
(* share one tip (they are one composite listener).                        *)
PollEnd(res, flag) ==
  /\ phase = "polling"
  /\ SameTips
  /\ LET lt == ltip[1]  st == startTip[1] IN
     \/ /\ res = "common"
        /\ ~AnyMoved /\ flag = FALSE
        /\ faulted \/ srcTip = lt
     \/ /\ res = "worse"
        /\ ~AnyMoved /\ flag = FALSE
        /\ faulted \/ (srcTip # lt /\ ChainWork(srcTip) <= ChainWork(lt))
     \/ /\ res = "better"
        /\ flag = AnyMoved
        /\ faulted \/ (ChainWork(srcTip) > ChainWork(st) /\ lt = srcTip)
     \/ /\ res = "err"
        /\ ~AnyMoved /\ faulted
  /\ phase' = "idle"
  /\ UNCHANGED <<nb, parent, bwork, srcTip, nl, ltip, startTip, faulted, moved, connd>>

(* synchronize_listeners returned.  On success every listener is at the    *)
(* source's tip, which is the tip handed back for the SpvClient.  After a  *)
(* failure the listeners may be anywhere (each on a valid walk) and the    *)
(* caller has to reload: the run ends.                                     *)
SyncEnd(ok, tip) ==
  /\ phase = "syncing"
  /\ IF ok THEN /\ \A i \in Listeners : ltip[i] = srcTip
                /\ tip = srcTip
                /\ phase' = "idle"
           ELSE /\ faulted
                /\ phase' = "dead"
  /\ UNCHANGED <<nb, parent, bwork, srcTip, nl, ltip, startTip, faulted, moved, connd>>

-----------------------------------------------------------------------------
(* State invariants of the property (hold by construction of the guards,   *)
(* listed so that they are evaluated -- and reported by name -- on every    *)
(* state of every validated trace and every state of the design model).    *)
ListenerOnTree == \A i \in Listeners : ltip[i] \in Blocks

=============================================================================
