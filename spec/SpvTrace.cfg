SPECIFICATION TraceSpec
CONSTANT MaxListeners = 3
INVARIANT ListenerOnTree
INVARIANT TreeInv
POSTCONDITION TraceAccepted
CHECK_DEADLOCK FALSE
