SPECIFICATION MCSpec
CONSTANTS
  Act1Len = 4
  Act2Len = 4
  Act3Len = 4
  HdrLen = 5
  TagLen = 2
  MinInitLen = 2
  MsgSize = 2
  Classes = {"custom", "open_channel", "open_channel_v2", "accept_channel", "accept_channel_v2",
             "funding_created", "funding_signed", "channel_ready", "peer_storage", "peer_storage_retrieval",
             "shutdown", "closing_signed", "stfu", "splice_init", "splice_ack",
             "splice_locked", "tx_add_input", "tx_add_output", "tx_remove_input", "tx_remove_output",
             "tx_complete", "tx_signatures", "tx_init_rbf", "tx_ack_rbf", "tx_abort",
             "update_add_htlc", "update_fulfill_htlc", "update_fail_htlc", "update_fail_malformed_htlc", "commitment_signed",
             "revoke_and_ack", "update_fee", "channel_reestablish", "announcement_signatures", "channel_announcement",
             "node_announcement", "channel_update", "query_short_channel_ids", "reply_short_channel_ids_end", "query_channel_range",
             "reply_channel_range", "onion_message", "ping", "ping_nopong", "pong",
             "warning", "error_chan", "error_all", "start_batch", "gossip_timestamp_filter",
             "unknown_odd", "unknown_even"}
  Mode = "raw1"
  RotAt = 1000
  StartN = 996
  PauseAt = 2
  MaxMsgs1 = 1
  MaxMsgs2 = 0
  MaxOps = 30
  MaxTampers = 0
  MaxBudgetOps = 0
  MaxDisc = 0
  CutReads = FALSE
  CutHandshake = FALSE
  EmitEvery = 1
CONSTRAINT Bound
VIEW View
INVARIANT ExactDelivery
INVARIANT TamperDisconnects
INVARIANT InitFirst
INVARIANT NoPanic
INVARIANT KeysMatch
INVARIANT ReaderAligned
INVARIANT TypeOK
INVARIANT EmitScripts
CHECK_DEADLOCK TRUE
