SPECIFICATION MCSpec
CONSTANTS
  ReqTicks = 1
  NP = 2
  Manual = FALSE
  Hold = FALSE
  Offs = {1}
  MaxPay = 1
  MaxKeep = 0
  MaxTick = 0
  MaxRestart = 0
  MaxSave = 0
  MaxAband = 0
  MaxErr = 1
  MaxMsgRecv = 0
  MaxSend = 0
  MaxOps = 6
  MinOps = 9
  CodeTicks = 1
  Idem = 1
  Stale = FALSE
  Bug = "err_other"
CONSTRAINT Bound
VIEW View
INVARIANT TermSane
INVARIANT OneHashPerId
INVARIANT OnePaymentPerId
CHECK_DEADLOCK TRUE
