SPECIFICATION Spec
CONSTANT MaxNK = 4
CONSTANT MaxRecs = 3
INVARIANT TypeOK
INVARIANT Agree
INVARIANT PrefixClosed
INVARIANT SizeNeutral
INVARIANT Emit
CHECK_DEADLOCK FALSE
