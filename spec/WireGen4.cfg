SPECIFICATION Spec
CONSTANT MaxNK = 2
CONSTANT MaxRecs = 4
INVARIANT TypeOK
INVARIANT Agree
INVARIANT PrefixClosed
INVARIANT SizeNeutral
INVARIANT Emit
CHECK_DEADLOCK FALSE
