------------------------------- MODULE Router -------------------------------
(* C16 -- "Returned routes are valid for the graph and for the caller's constraints".

   The router is one pure function  find_route(graph, first_hops, request) -> Ok(route) | Err.
   This module is the property as a pair of predicates over what a caller can observe:

     ValidRoute(g, req, r)          every conjunct of the property for a returned route r
     SomeSinglePathSuffices(g, req) brute-force existence oracle (all simple paths, backward
                                    fee propagation) used for the last sentence of the property

   They are evaluated by TLC on recorded results of the real find_route (RouterTrace.tla) and the
   same operators compute the boundary values of the generated cases (RouterGen.tla).

   Data (all integers are msat / blocks / indices; -1 encodes "none / unknown / unlimited"):

     g.n, g.payer, g.payee      nodes are 0..n-1
     g.fh                       TRUE iff a first-hop set was supplied (then the payer's own
                                channels in the public graph are not to be used)
     g.edges                    sequence of DIRECTED edges with a known policy
        [scid, src, dst, kind, en, rev, base, prop, cltv, min, hmax, cap]
        kind = "pub"   one direction of an announced channel for which a channel_update is known
                       (en = its enabled bit, cap = funding capacity in msat or -1,
                        rev = the update of the opposite direction is known as well)
               "first" a supplied ChannelDetails (min/hmax = next_outbound_htlc_minimum/limit)
               "hint"  one hop of a BOLT-11 route hint (hmax = -1 when no htlc_maximum given)
     req  [amt, max_fee, max_cltv, max_paths, max_len, final_cltv, mpp, sat, failed]
     r    sequence of paths; a path is a sequence of hops [node, scid, fee, cltv]  (RouteHop)

   RouteHop conventions (lightning/src/routing/router.rs, `RouteHop`, `Path`, `Route`):
     hop i names the channel INTO node_i;   fee_i (i < last) is what node_i keeps, i.e. the
     price of channel i+1;  fee_last is the value delivered by the path;  hence the amount
     carried over channel i is  A_i = SUM_{j >= i} fee_j.   cltv_i (i < last) is the delta node_i
     needs for channel i+1, cltv_last the delta at the destination.

   Arithmetic bound (TLC integers are 32 bit): every amount that occurs is <= 10^8 msat * and
   proportional_millionths <= 10^6; MulDivM is exact under that bound without any intermediate
   product above 2^31 (it never forms amount * prop).  Limits/capacities are <= 2*10^9.          *)
EXTENDS Integers, Sequences, FiniteSets, TLC

Max2(a, b) == IF a >= b THEN a ELSE b
Min2(a, b) == IF a <= b THEN a ELSE b

(* floor(a * p / 10^6) for 0 <= a <= 10^8, 0 <= p <= 10^6.
   a = a1*1000 + a0, p = p1*1000 + p0:
   a*p = a1*p1*10^6 + (a1*p0 + a0*p1)*10^3 + a0*p0                                             *)
MulDivM(a, p) ==
  LET a1 == a \div 1000   a0 == a % 1000
      p1 == p \div 1000   p0 == p % 1000
  IN  a1 * p1 + ((a1 * p0 + a0 * p1 + ((a0 * p0) \div 1000)) \div 1000)

(* BOLT-7 forwarding fee of a policy for forwarding `amt` *)
Fee(e, amt) == e.base + MulDivM(amt, e.prop)

(* what may flow over a directed edge: min(htlc_maximum, capacity), each if known *)
Unlimited == 2147483647
Limit(e) ==
  LET a == IF e.hmax >= 0 THEN e.hmax ELSE Unlimited
      b == IF e.cap >= 0 THEN e.cap ELSE Unlimited
  IN  Min2(a, b)

RECURSIVE SumSeq(_)
SumSeq(s) == IF s = <<>> THEN 0 ELSE Head(s) + SumSeq(Tail(s))

InSeq(x, s) == \E i \in DOMAIN s : s[i] = x

-----------------------------------------------------------------------------
(* The edge a hop refers to.  Hop (u -> v over scid):  a supplied first hop if u is the payer and
   first hops were supplied (the graph's view of the payer's channels is then ignored; a route
   hint that starts at the payer is still a route hint), else the public direction, else a
   route-hint hop.  0 = there is no such edge.                                                 *)
EdgeIdx(g, u, v, scid) ==
  LET M(kind) == {k \in DOMAIN g.edges :
                    /\ g.edges[k].scid = scid /\ g.edges[k].src = u /\ g.edges[k].dst = v
                    /\ g.edges[k].kind = kind}
  IN  IF u = g.payer /\ g.fh
      THEN (IF M("first") # {} THEN CHOOSE k \in M("first") : TRUE
            ELSE IF M("hint") # {} THEN CHOOSE k \in M("hint") : TRUE ELSE 0)
      ELSE IF M("pub") # {} THEN CHOOSE k \in M("pub") : TRUE
      ELSE IF M("hint") # {} THEN CHOOSE k \in M("hint") : TRUE
      ELSE 0

SrcOf(g, p, i) == IF i = 1 THEN g.payer ELSE p[i - 1].node
HopEdge(g, p, i) == EdgeIdx(g, SrcOf(g, p, i), p[i].node, p[i].scid)

(* A_i *)
Carried(p, i) == SumSeq([j \in 1..(Len(p) - i + 1) |-> p[i + j - 1].fee])
Delivered(p) == p[Len(p)].fee
PathFees(p) == SumSeq([j \in 1..(Len(p) - 1) |-> p[j].fee])
PathCltv(p) == SumSeq([j \in 1..Len(p) |-> p[j].cltv])
TotalDelivered(r) == SumSeq([k \in 1..Len(r) |-> Delivered(r[k])])

(* what node_i must at least be paid: the fee of channel i+1 on the amount it forwards *)
RequiredFee(g, p, i) == Fee(g.edges[HopEdge(g, p, i + 1)], Carried(p, i + 1))

(* The amount by which hop j of p was raised to reach its channel's htlc_minimum: for an
   intermediate hop the excess of fee_j over the required fee when the hop carries exactly (no more
   than) its minimum; for the last hop the over-delivery of the whole route (Route::get_total_fees
   reports it as a fee) when the last hop carries no more than its minimum.                     *)
RaisedAt(g, req, r, p, j) ==
  IF Carried(p, j) > g.edges[HopEdge(g, p, j)].min THEN 0
  ELSE IF j < Len(p) THEN Max2(0, p[j].fee - RequiredFee(g, p, j))
  ELSE Max2(0, TotalDelivered(r) - req.amt)

(* "apart from amounts deliberately raised to meet a later hop's minimum": what hop i carries
   without the raises made at later hops j > i                                                  *)
RaisedAfter(g, req, r, p, i) ==
  SumSeq([d \in 1..(Len(p) - i) |-> RaisedAt(g, req, r, p, i + d)])
Unraised(g, req, r, p, i) == Carried(p, i) - RaisedAfter(g, req, r, p, i)

(* all (path, hop) uses of edge k *)
Uses(g, r, k) == {<<a, i>> \in UNION {{<<a, i>> : i \in 1..Len(r[a])} : a \in 1..Len(r)} :
                    HopEdge(g, r[a], i) = k}
RECURSIVE SumUses(_, _, _, _)
SumUses(g, req, r, U) ==
  IF U = {} THEN 0
  ELSE LET u == CHOOSE x \in U : TRUE
       IN  Unraised(g, req, r, r[u[1]], u[2]) + SumUses(g, req, r, U \ {u})

-----------------------------------------------------------------------------
(* The conjuncts of the property, one name each.  Failed(g, req, r) = the set of names of the
   conjuncts that do NOT hold; ValidRoute <=> Failed = {}.                                      *)

Shape(r) == Len(r) >= 1 /\ \A a \in 1..Len(r) : Len(r[a]) >= 1
MaxPaths(req, r) == Len(r) <= req.max_paths
(* connected chain payer -> payee over channels that exist in that direction with a known policy *)
Connected(g, r) == \A a \in 1..Len(r) :
                     /\ \A i \in 1..Len(r[a]) : HopEdge(g, r[a], i) # 0
                     /\ r[a][Len(r[a])].node = g.payee
Enabled(g, r) == \A a \in 1..Len(r) : \A i \in 1..Len(r[a]) : g.edges[HopEdge(g, r[a], i)].en
(* "excluded channels respect the request's limits": req.failed = PaymentParameters::
   previously_failed_channels names channels by the scid the ROUTE would carry for them, whatever the
   channel's kind -- an announced channel, a hop of a route hint, one of the payer's own (possibly
   unannounced) first-hop channels.  Stated on the hop's scid only, not on the edge's kind.       *)
NotExcluded(req, r) == \A a \in 1..Len(r) : \A i \in 1..Len(r[a]) : ~InSeq(r[a][i].scid, req.failed)
HtlcMin(g, r) == \A a \in 1..Len(r) : \A i \in 1..Len(r[a]) :
                   Carried(r[a], i) >= g.edges[HopEdge(g, r[a], i)].min
(* jointly over all paths that share the channel (direction) *)
HtlcMaxAndCapacity(g, req, r) ==
  \A k \in DOMAIN g.edges :
     LET U == Uses(g, r, k) IN U # {} => SumUses(g, req, r, U) <= Limit(g.edges[k])
(* every forwarder's fee is judged on the amount that hop ACTUALLY forwards (Carried includes every
   raise made at a later hop, in the middle of the path or at its end: a raise travels over all earlier
   hops and their proportional fees are due on it)                                               *)
FeesPaid(g, r) == \A a \in 1..Len(r) : \A i \in 1..(Len(r[a]) - 1) :
                    r[a][i].fee >= RequiredFee(g, r[a], i)
(* Another weaker form, again only to NAME a class of failure (still a violation): the limits
   hold once, on paths whose last hop carries no more than its htlc_minimum (i.e. may have been
   raised), each hop is relieved of the excess fee paid on that very hop.  A raise computed on an
   amount that misses the last hop's raise overshoots the hop's own minimum by at most that excess. *)
OwnExcess(g, p, i) == IF i < Len(p) THEN Max2(0, p[i].fee - RequiredFee(g, p, i)) ELSE 0
LastAtMin(g, p) == Carried(p, Len(p)) <= g.edges[HopEdge(g, p, Len(p))].min
RECURSIVE SumUsesLenient(_, _, _, _)
SumUsesLenient(g, req, r, U) ==
  IF U = {} THEN 0
  ELSE LET u == CHOOSE x \in U : TRUE
           p == r[u[1]]
       IN  Unraised(g, req, r, p, u[2]) - (IF LastAtMin(g, p) THEN OwnExcess(g, p, u[2]) ELSE 0)
             + SumUsesLenient(g, req, r, U \ {u})
HtlcMaxButForOvershootingRaise(g, req, r) ==
  \A k \in DOMAIN g.edges :
     LET U == Uses(g, r, k) IN U # {} => SumUsesLenient(g, req, r, U) <= Limit(g.edges[k])
(* A weaker form, used only to NAME one class of failure precisely (it is not an excuse: the
   class is still a violation): the fees suffice for the amounts forwarded if the raise made at
   the path's last hop is left out of them.                                                     *)
FeesPaidButForLastHopRaise(g, req, r) == \A a \in 1..Len(r) : \A i \in 1..(Len(r[a]) - 1) :
  r[a][i].fee >= Fee(g.edges[HopEdge(g, r[a], i + 1)],
                     Max2(0, Carried(r[a], i + 1) - RaisedAt(g, req, r, r[a], Len(r[a]))))
(* per-hop timelock (title: "valid for the graph"): >= because find_route adds a random offset *)
CltvDeltas(g, req, r) == \A a \in 1..Len(r) :
   /\ \A i \in 1..(Len(r[a]) - 1) : r[a][i].cltv >= g.edges[HopEdge(g, r[a], i + 1)].cltv
   /\ r[a][Len(r[a])].cltv >= req.final_cltv
DeliversEnough(req, r) == TotalDelivered(r) >= req.amt
(* no path could be dropped with the rest still delivering the requested amount *)
NoSuperfluousPart(req, r) ==
  \A a \in 1..Len(r) : Len(r) > 1 => TotalDelivered(r) - Delivered(r[a]) < req.amt
(* Route::get_total_fees = routing fees + over-delivery *)
TotalFees(req, r) == SumSeq([a \in 1..Len(r) |-> PathFees(r[a])]) + (TotalDelivered(r) - req.amt)
FeeLimit(req, r) == req.max_fee >= 0 => TotalFees(req, r) <= req.max_fee
CltvLimit(req, r) == \A a \in 1..Len(r) : PathCltv(r[a]) <= req.max_cltv
LengthLimit(req, r) == \A a \in 1..Len(r) : Len(r[a]) <= req.max_len

Failed(g, req, r) ==
  IF ~Shape(r) THEN {"Shape"}
  ELSE IF ~Connected(g, r) THEN {"Connected"} \cup (IF MaxPaths(req, r) THEN {} ELSE {"MaxPaths"})
  ELSE (IF MaxPaths(req, r) THEN {} ELSE {"MaxPaths"})
    \cup (IF Enabled(g, r) THEN {} ELSE {"Enabled"})
    \cup (IF NotExcluded(req, r) THEN {} ELSE {"NotExcluded"})
    \cup (IF HtlcMin(g, r) THEN {} ELSE {"HtlcMin"})
    \cup (IF FeesPaid(g, r) THEN {}
          ELSE IF FeesPaidButForLastHopRaise(g, req, r) THEN {"FeesPaid_LastHopRaiseNotCharged"}
          ELSE {"FeesPaid"})
    \cup (IF ~HtlcMaxAndCapacity(g, req, r)
          THEN (IF HtlcMaxButForOvershootingRaise(g, req, r)
                THEN {"HtlcMaxAndCapacity_LastHopRaiseNotCharged"} ELSE {"HtlcMaxAndCapacity"})
          ELSE {})
    \cup (IF CltvDeltas(g, req, r) THEN {} ELSE {"CltvDeltas"})
    \cup (IF DeliversEnough(req, r) THEN {} ELSE {"DeliversEnough"})
    \cup (IF NoSuperfluousPart(req, r) THEN {} ELSE {"NoSuperfluousPart"})
    \cup (IF DeliversEnough(req, r) /\ ~FeeLimit(req, r) THEN {"FeeLimit"} ELSE {})
    \cup (IF CltvLimit(req, r) THEN {} ELSE {"CltvLimit"})
    \cup (IF LengthLimit(req, r) THEN {} ELSE {"LengthLimit"})

ValidRoute(g, req, r) == Failed(g, req, r) = {}

-----------------------------------------------------------------------------
(* Existence oracle.  Independent of Dijkstra: enumerate every simple path of usable edges and
   propagate the amount backwards from the payee.                                               *)

Usable(g, req, k) ==
  LET e == g.edges[k] IN
  /\ e.en
  \* the library treats an announced channel as usable only once both directions' updates are known
  /\ e.rev
  /\ ~InSeq(e.scid, req.failed)
  /\ e.dst # g.payer
  /\ e.kind = "first" => (g.fh /\ e.src = g.payer)
  /\ e.kind = "pub" => ~(g.fh /\ e.src = g.payer)
  \* a hint hop whose channel is announced is superseded by the announced policy; a hint hop that
  \* starts at the payer is not counted on when the caller supplied its own first-hop set
  /\ e.kind = "hint" => ~(g.fh /\ e.src = g.payer)
  /\ e.kind = "hint" => ~\E k2 \in DOMAIN g.edges :
        g.edges[k2].kind = "pub" /\ g.edges[k2].scid = e.scid /\ g.edges[k2].dst = e.dst

(* all simple paths (sequences of edge indices) from node u to the payee that avoid `seen` *)
RECURSIVE PathsFrom(_, _, _, _)
PathsFrom(g, req, u, seen) ==
  IF u = g.payee THEN {<<>>}
  ELSE UNION {{<<k>> \o q : q \in PathsFrom(g, req, g.edges[k].dst, seen \cup {g.edges[k].dst})} :
               k \in {k \in DOMAIN g.edges :
                        Usable(g, req, k) /\ g.edges[k].src = u /\ g.edges[k].dst \notin seen}}

(* amount that must enter edge q[i] so that `amt` arrives; the node in front of q[i+1] charges
   Fee(q[i+1]) on what it forwards; the first edge of a payer-rooted path is never charged      *)
RECURSIVE Need(_, _, _, _)
Need(g, q, i, amt) ==
  IF i = Len(q) THEN amt
  ELSE LET nx == Need(g, q, i + 1, amt) IN nx + Fee(g.edges[q[i + 1]], nx)

(* amount the node in front of q (a payee-rooted suffix) must RECEIVE: q[1] is charged as well *)
NeedInto(g, q, amt) ==
  IF q = <<>> THEN amt ELSE LET n1 == Need(g, q, 1, amt) IN n1 + Fee(g.edges[q[1]], n1)

SuffixCltv(g, q) == SumSeq([i \in 1..Len(q) |-> g.edges[q[i]].cltv])
(* CLTV of a payer-rooted path: the first channel adds nothing, the destination adds final_cltv *)
RouteCltv(g, req, q) == SumSeq([i \in 1..(Len(q) - 1) |-> g.edges[q[i + 1]].cltv]) + req.final_cltv

(* q (payer -> payee) can carry req.amt by itself: every hop within [min, limit] at the natural
   amounts (no raising needed), and q itself is inside the request's limits                     *)
PathSuffices(g, req, q) ==
  /\ Len(q) >= 1 /\ Len(q) <= req.max_len
  /\ \A i \in 1..Len(q) :
       LET a == Need(g, q, i, req.amt) IN
       g.edges[q[i]].min <= a /\ a <= Limit(g.edges[q[i]])
  /\ req.max_fee >= 0 => Need(g, q, 1, req.amt) - req.amt <= req.max_fee
  /\ RouteCltv(g, req, q) <= req.max_cltv

SomeSinglePathSuffices(g, req) ==
  g.payer # g.payee /\ req.amt >= 1 /\ req.max_paths >= 1 /\
  \E q \in PathsFrom(g, req, g.payer, {g.payer}) : PathSuffices(g, req, q)

(* "... and the fee and timelock limits are not binding".  find_route is a best-first search that
   keeps ONE best continuation per node and that first restricts every channel to a share
   (capacity >> max_channel_saturation_power_of_half) of its capacity; so a limit binds as soon as
   it can prune any partial path the search may hold, not only the sufficient one.  The premise of
   the property's last sentence is therefore taken in a form that leaves no doubt (sufficient
   conditions; everything outside is classified "limits_binding" and not judged):
     fee    unlimited, or >= (parts) * (largest fee of any simple suffix + 3 * amt): the search may
            deliberately over-deliver up to 3 * amt to reach an htlc_minimum and reports that as fee
     cltv   max_total_cltv - final_cltv - 2*40 (the router's allowance for its own random offset,
            MEDIAN_HOP_CLTV_EXPIRY_DELTA) >= the largest CLTV sum of any simple suffix
     length every simple path fits (max_path_length >= n - 1), and at most 19
     liquidity: the single path q is certainly usable when each of its hops can also carry the fees
            of the most expensive continuation the search may have chosen behind it (Ample), and no
            other usable channel is "tight" (admitted by the search but short of Ample: the
            router's own inverse fee computation rounds down, documented as "may be slightly lower
            than the actual max due to rounding errors", which can lose a tight path).  When every
            proportional fee is 0 that computation is exact and the slack is 0, i.e. "liquidity
            exactly equals the amount" IS judged.
     MPP    the search may split down to amt / max_paths per part and collects up to 3 * amt; q must
            stay usable for such parts (minimum) and amounts (limit).                            *)
AllSuffixes(g, req) ==
  UNION {PathsFrom(g, req, u, {u}) : u \in 0..(g.n - 1)}

MppAllowed(req) == req.mpp /\ req.max_paths > 1
Parts(req) == IF MppAllowed(req) THEN req.max_paths ELSE 1
SearchAmt(req) == IF MppAllowed(req) THEN 3 * req.amt ELSE req.amt
MinPart(req) == IF MppAllowed(req) THEN (req.amt + req.max_paths - 1) \div req.max_paths ELSE req.amt

RECURSIVE Shr(_, _)
Shr(x, s) == IF s = 0 THEN x ELSE Shr(x \div 2, s - 1)
(* the limit the search applies while the saturation restriction (s) is in force *)
LimitS(e, s) ==
  IF e.kind # "pub" THEN Limit(e)
  ELSE IF e.cap >= 0 THEN Min2(Shr(e.cap, s), e.hmax)
  ELSE Shr(e.hmax, s)

UsableEdges(g, req) == {k \in DOMAIN g.edges : Usable(g, req, k)}

MaxOf(S) == IF S = {} THEN 0 ELSE CHOOSE w \in S : \A x \in S : x <= w
(* largest fee total of any simple continuation from node v to the payee at the search amount *)
WorstFees(g, req, v) ==
  MaxOf({NeedInto(g, s, SearchAmt(req)) - SearchAmt(req) : s \in PathsFrom(g, req, v, {v})})

Slack(g, req) ==
  IF \A k \in UsableEdges(g, req) : g.edges[k].prop = 0 THEN 0
  ELSE g.n * (2 + SearchAmt(req) \div 100000)

Ample(g, req, e, s) ==
  LimitS(e, s) >= SearchAmt(req) + Parts(req) * WorstFees(g, req, e.dst) + Slack(g, req)

NoTightEdge(g, req) ==
  \A k \in UsableEdges(g, req) : \A s \in {0, req.sat} :
     LimitS(g.edges[k], s) < MinPart(req) \/ Ample(g, req, g.edges[k], s)

LimitsNotBinding(g, req) ==
  LET S == AllSuffixes(g, req) IN
  /\ req.max_len >= g.n - 1 /\ g.n - 1 <= 19
  /\ req.max_fee >= 0 =>
       \A q \in S : Parts(req) * ((NeedInto(g, q, SearchAmt(req)) - SearchAmt(req)) + 3 * req.amt)
                      <= req.max_fee
  /\ \A q \in S : SuffixCltv(g, q) + req.final_cltv + 80 <= req.max_cltv

RobustlySuffices(g, req, q) ==
  /\ PathSuffices(g, req, q)
  /\ \A i \in 1..Len(q) :
       /\ g.edges[q[i]].min <= MinPart(req)
       /\ Ample(g, req, g.edges[q[i]], 0)

MustNotFail(g, req) ==
  /\ g.payer # g.payee /\ req.amt >= 1 /\ req.max_paths >= 1
  /\ req.final_cltv < req.max_cltv
  /\ LimitsNotBinding(g, req)
  /\ NoTightEdge(g, req)
  /\ \E q \in PathsFrom(g, req, g.payer, {g.payer}) : RobustlySuffices(g, req, q)

(* classification of an Err result (for the evidence; "violation" is the only bad one) *)
ErrClass(g, req) ==
  IF g.payer = g.payee \/ PathsFrom(g, req, g.payer, {g.payer}) = {} THEN "unreachable"
  ELSE IF ~SomeSinglePathSuffices(g, req) THEN "no_single_path"
  ELSE IF ~MustNotFail(g, req) THEN "limits_binding"
  ELSE "violation"
=============================================================================
