--------------------------- MODULE DeadlinesTrace ---------------------------
(* Trace validation for C08: every run recorded by the engine `deadlines` on real nodes must be a
   behaviour of Deadlines.tla -- each logged outcome is the observable action of that name, taken
   at the logged height, and the property's invariants hold on every state of the trace.  A trace
   file holds many runs; each starts with a `case` record. *)
EXTENDS Deadlines, Json, IOUtils

VARIABLE l

Rec == ndJsonDeserialize(IOEnv.TRACE)
tvars == <<vars, l>>
R == Rec[l]

IsEvent(e) == l <= Len(Rec) /\ Rec[l].ev = e /\ l' = l + 1

TraceInit ==
  /\ l = 1
  /\ h = 0 /\ role = "none" /\ upMode = "honest" /\ dnMode = "offchain" /\ d = 0
  /\ eu = 0 /\ ed = 0 /\ dl = 0 /\ up = "none" /\ upH = -1 /\ pre = FALSE /\ preLate = FALSE
  /\ dn = "none" /\ dnH = -1 /\ xH = -1 /\ cD = "open" /\ cDb = -1 /\ cDc = -1 /\ toB = -1
  /\ cU = "open" /\ cUb = -1 /\ cUc = -1 /\ suB = -1 /\ suC = -1 /\ lost = FALSE /\ viol = ""

\* the engine's names of the downstream peer's behaviour
DnModeOf(s) == IF s \in {"silent", "early", "dust", "onchain"} THEN s ELSE "offchain"

\* the constants the binary under test was built with are the ones this spec is instantiated with
ConstsMatch(c) == /\ c.CCB = CCB /\ c.LGP = LGP /\ c.MBC = MBC /\ c.ARD = ARD /\ c.HFB = HFB
                  /\ c.MIND = MIND /\ c.MINF = MINF /\ c.FAR = FAR

TCase == IsEvent("case") /\ ConstsMatch(R.consts) /\ Reset(R.role, R.up, DnModeOf(R.dn), R.d, R.h)
TOffer == IsEvent("offer") /\ R.h = h /\ Offer(R.eu, R.ed)
TShow == IsEvent("show") /\ R.h = h /\ Show(R.deadline)
TForward == IsEvent("forward") /\ R.h = h /\ Forward(R.ed)
TClaim == IsEvent("claim") /\ R.h = h /\ Claim(R.ok)

TResolve ==
  /\ IsEvent("resolve") /\ R.h = h
  /\ CASE R.dir = "up" /\ R.kind = "fail" -> FailUp
       [] R.dir = "up" /\ R.kind = "fulfill" -> FulfilUp
       [] R.dir = "dn" /\ R.kind = "fulfill" -> DnFulfil
       [] R.dir = "dn" /\ R.kind = "fail" -> DnFail
       [] R.dir = "dn" /\ R.kind = "fulfill_ignored" -> UNCHANGED vars

\* a transaction reached a node's broadcaster; only B's (node 1) are actions of the observed node
TBcast ==
  /\ IsEvent("bcast")
  /\ IF R.node # 1 THEN UNCHANGED vars
     ELSE /\ R.h = h
          /\ CASE R.kind = "commitment" /\ R.chan = "dn" /\ cD = "open" -> GoOnChainDn(FALSE)
               [] R.kind = "commitment" /\ R.chan = "up" /\ cU = "open" -> GoOnChainUp(FALSE)
               [] R.kind = "htlc_timeout" /\ R.chan = "dn" -> BcastTimeoutDn
               [] R.kind = "htlc_success" /\ R.chan = "up" -> BcastSuccessUp
               [] OTHER -> UNCHANGED vars

TxName(c) ==
  CASE c.kind = "commitment" /\ c.node = 1 /\ c.chan = "dn" -> "commitD"
    [] c.kind = "htlc_timeout" /\ c.node = 1 /\ c.chan = "dn" -> "timeoutD"
    [] c.kind = "htlc_success" /\ c.node = 2 /\ c.chan = "dn" -> "claimD"
    [] c.kind = "commitment" /\ c.node = 1 /\ c.chan = "up" -> "commitU"
    [] c.kind = "htlc_success" /\ c.node = 1 /\ c.chan = "up" -> "successU"
    [] c.kind = "htlc_timeout" /\ c.node = 0 /\ c.chan = "up" -> "timeoutU"
    [] OTHER -> "other"

\* B's confirmed commitment transaction of the downstream channel has no output of the HTLC's value (read
\* from the transaction itself)
NoHtlc(c) == c.kind = "commitment" /\ c.node = 1 /\ c.chan = "dn" /\ ~c.htlc

TBlock ==
  /\ IsEvent("block") /\ R.h = h + 1
  /\ Block({TxName(R.conf[k]) : k \in 1..Len(R.conf)}
           \cup {"noHtlcD" : k \in {j \in 1..Len(R.conf) : NoHtlc(R.conf[j])}})

\* R.n empty blocks in a row, the last one at height R.h, nothing recorded in between
TBlocks == IsEvent("blocks") /\ R.h = h + R.n /\ Blocks(R.n)

\* B stopped and restarted from its persisted state
TRestart == IsEvent("restart") /\ R.h = h /\ R.node = 1 /\ Restart

TClosed ==
  /\ IsEvent("closed")
  /\ IF R.node = 0 /\ R.chan = "up" THEN PeerClosedUp ELSE UNCHANGED vars

TEnd == IsEvent("end") /\ R.h = h /\ EndRun(R.a_sent, R.c_paid, R.ab_open)
\* the sender refused to build the payment: not a run
TSkip == IsEvent("skip") /\ UNCHANGED vars
\* other per-block work of one of B's channels (splice_locked / channel_ready / announcement_signatures
\* sent by B on this block): not part of the property -- the deadlines stand whatever else a block triggers
TCo == IsEvent("co") /\ R.h = h /\ UNCHANGED vars

TraceNext == TCase \/ TOffer \/ TShow \/ TForward \/ TClaim \/ TResolve \/ TBcast \/ TBlock \/ TClosed
             \/ TEnd \/ TSkip \/ TRestart \/ TCo \/ TBlocks

TraceSpec == TraceInit /\ [][TraceNext]_tvars

TraceAccepted ==
  LET dd == TLCGet("stats").diameter IN
  IF dd - 1 = Len(Rec) THEN TRUE
  ELSE /\ PrintT(<<"REJECT", dd, Len(Rec)>>)
       /\ FALSE
=============================================================================
