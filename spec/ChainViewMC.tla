---------------------------- MODULE ChainViewMC ----------------------------
(***************************************************************************)
(* Bounded instance of ChainView: chain shapes x role placements x         *)
(* delivery schedules.                                                     *)
(*                                                                         *)
(* Shapes: branch A = blocks 1..la (la = MaxA; shorter A chains are its    *)
(* prefixes, reached as intermediate targets), branch B = lb blocks        *)
(* forking from block f of A (0 <= f < la).  Every role of UseRoles is     *)
(* absent from / placed in one block of A, and absent from / placed in one *)
(* block of B's own part (present, absent or moved in the competing fork). *)
(* The client's best chain visits: (an intermediate block of A,) the tip   *)
(* of A, (the fork point,) the tip of B.                                   *)
(*                                                                         *)
(* Schedules: every transition between two targets is either delivered in  *)
(* the plain way (one blocks_disconnected to the fork point, whole blocks  *)
(* in order: MPlain, one step) or explored call by call under the guards   *)
(* of the contract (at most MaxExplored transitions per behaviour);        *)
(* restarts may happen at synchronisation points; the interface (Listen /  *)
(* Confirm) changes only across a restart.                                 *)
(*                                                                         *)
(* Dependencies: Dep gives, per role, the role whose output it spends.     *)
(* With Dep = <<0,1,2,1>> the histories contain dependency chains of depth *)
(* up to three (1 <- 2 <- 3, and 1 <- 4) packed into one block or spread   *)
(* over blocks, present / absent / moved (packed on one branch, spread on  *)
(* the other) in the competing fork.  Transactions of one block are given  *)
(* in a topological order; independent ones in ascending or descending     *)
(* order (rev).  transactions_confirmed may hand over ANY part of a block  *)
(* that respects the dependencies (one generation per call, the parent     *)
(* with its child and the grandchild later, ...).                          *)
(*                                                                         *)
(* Checked: the environment is consistent -- whenever the client has done  *)
(* everything the contract asks for, the object has been told exactly the  *)
(* best chain (EnvConsistent), and it can always finish (no deadlock).     *)
(* Every completed behaviour is printed as a driver script.                *)
(***************************************************************************)
EXTENDS ChainView, Json

CONSTANTS MaxA, MaxB, MaxBlocks, UseRoles, MinH2, MinH3, MinH4, Dep3, FundingRole, MaxExplored, MaxDup, MaxRestarts,
          Intermediate   \* allow an intermediate synchronisation point on A / a stop at the fork point

VARIABLES
  tp, cf, ifc, gv,     \* the notified object's knowledge (see ChainView)
  phase,               \* "idle" | "moving"
  todo,                \* remaining targets
  explored, dups, restarts,
  rev,                 \* independent transactions of a block are ordered by descending role number
  hist                 \* the script so far

mvars == <<hvars, target, tp, cf, ifc, gv, phase, todo, explored, dups, restarts, rev, hist>>

NoConf == [r \in Roles |-> None]
MinH == <<0, MinH2, MinH3, MinH4>>
\* role 3 spends an output of role Dep3 (1: star; 2: the chain 1 <- 2 <- 3); roles 2 and 4 spend role 1
Dep == <<0, 1, Dep3, 1>>

\* a topological order of a set of roles; ties broken by ascending (descending if rv) role number
RECURSIVE Ord(_, _)
Ord(S, rv) == IF S = {} THEN <<>> ELSE
  LET ready == {r \in S : Dep[r] \notin S}
      x == IF rv THEN CHOOSE r \in ready : \A q \in ready : q <= r
                 ELSE CHOOSE r \in ready : \A q \in ready : r <= q
  IN <<x>> \o Ord(S \ {x}, rv)

\* ---- histories
Shape(la, f, lb) == [k \in 1..(la + lb) |-> IF k <= la THEN k - 1 ELSE IF k = la + 1 THEN f ELSE k - 1]

Placements(la, lb) ==
  { pl \in [UseRoles -> (0..la) \X ({0} \cup ((la + 1)..(la + lb)))] : TRUE }

TxIn(n, pl) == [b \in 1..n |-> {r \in UseRoles : pl[r][1] = b \/ pl[r][2] = b}]

Targets(la, f, lb) ==
  LET pre  == IF Intermediate THEN {<<>>} \cup {<<i>> : i \in 1..(la - 1)} ELSE {<<>>}
      post == IF lb = 0 THEN {<<>>}
              ELSE IF Intermediate /\ f # la THEN {<<la + lb>>, <<f, la + lb>>} ELSE {<<la + lb>>}
  IN {p \o <<la>> \o q : p \in pre, q \in post}

MCInit ==
  \E la \in {MaxA}, lb \in 0..MaxB :
    /\ la + lb <= MaxBlocks
    /\ \E f \in 0..(la - 1) :
       \E pl \in Placements(la, lb) :
       \E tg \in Targets(la, f, lb) :
         /\ nb = la + lb
         /\ parent = Shape(la, f, lb)
         /\ txin = TxIn(la + lb, pl)
         /\ has = UseRoles
         /\ minh = [r \in Roles |-> MinH[r]]
         /\ fundingRole = FundingRole
         /\ dep = Dep
         /\ TreeOK
         /\ \A i \in 1..Len(tg) : MoveOK(IF i = 1 THEN 0 ELSE tg[i - 1], tg[i])
         /\ \E r \in UseRoles : \E b \in 1..(la + lb) : r \in txin[b]   \* something relevant happens
         /\ todo = tg
         /\ rev \in BOOLEAN
         /\ rev => \E b \in 1..(la + lb) : Ord(txin[b], TRUE) # Ord(txin[b], FALSE)
  /\ target = 0
  /\ tp = 0 /\ cf = NoConf /\ ifc = "none" /\ gv = FALSE
  /\ phase = "idle" /\ explored = 0 /\ dups = 0 /\ restarts = 0
  /\ hist = <<>>

\* ---- the client
Path(from, to) == {b \in Chain(to) : ~Anc(b, from)}

\* plain delivery of the next transition, in one step
MPlain ==
  /\ todo # <<>>
  /\ phase = "idle" \/ (phase = "restarted" /\ explored >= MaxExplored)
  /\ ifc \in {"none", "listen"}
  /\ target' = Head(todo) /\ todo' = Tail(todo)
  /\ tp' = Head(todo)
  /\ cf' = [r \in Roles |-> Place(r, Head(todo))]
  /\ ifc' = "listen" /\ gv' = FALSE
  /\ hist' = Append(hist, [op |-> "plain", t |-> Head(todo)])
  /\ phase' = "idle"
  /\ UNCHANGED <<hvars, rev, explored, dups, restarts>>

MBegin ==
  /\ phase \in {"idle", "restarted"} /\ todo # <<>>
  /\ explored < MaxExplored
  /\ target' = Head(todo) /\ todo' = Tail(todo)
  /\ phase' = "moving" /\ explored' = explored + 1
  /\ gv' = FALSE
  /\ hist' = Append(hist, [op |-> "begin", t |-> Head(todo)])
  /\ UNCHANGED <<hvars, rev, tp, cf, ifc, dups, restarts>>

MRestart ==
  /\ phase = "idle" /\ todo # <<>> /\ hist # <<>>
  /\ restarts < MaxRestarts \/ (ifc = "confirm" /\ explored >= MaxExplored)
  /\ hist[Len(hist)].op # "restart"
  /\ explored < MaxExplored \/ ifc = "confirm"
  /\ ifc' = "none" /\ restarts' = restarts + 1
  /\ phase' = "restarted"                  \* (in this instance) always followed by an explored transition
  /\ hist' = Append(hist, [op |-> "restart"])
  /\ UNCHANGED <<hvars, rev, target, tp, cf, gv, todo, explored, dups>>

MConnect ==
  /\ phase = "moving"
  /\ \E b \in 1..nb :
       /\ CanConnect(tp, ifc, b)
       /\ tp' = b /\ cf' = ConfAfterConnect(cf, b) /\ ifc' = "listen"
       /\ hist' = Append(hist, [op |-> "conn", b |-> b])
  /\ UNCHANGED <<hvars, rev, target, gv, phase, todo, explored, dups, restarts>>

MDisconnect ==
  /\ phase = "moving"
  /\ \E f \in Blocks :
       /\ CanDisconnect(tp, ifc, f)
       /\ tp' = f /\ cf' = ConfAfterRewind(cf, f) /\ ifc' = "listen"
       /\ hist' = Append(hist, [op |-> "disc", to |-> f])
  /\ UNCHANGED <<hvars, rev, target, gv, phase, todo, explored, dups, restarts>>

\* selections offered: any part of the block (CanTxs admits those that respect the dependencies:
\* the whole block, one generation per call, a parent with its child and the grandchild later, ...)
Selections(b) == (SUBSET txin[b]) \ {{}}

MTxs ==
  /\ phase = "moving"
  /\ \E b \in 1..nb : \E sel \in Selections(b) :
       /\ CanTxs(cf, ifc, b, sel)
       /\ LET isdup == \A r \in sel : cf[r] = b IN
          /\ isdup => dups < MaxDup
          /\ dups' = IF isdup THEN dups + 1 ELSE dups
       /\ cf' = ConfAfterTxs(cf, b, sel) /\ ifc' = "confirm" /\ gv' = TRUE
       /\ hist' = Append(hist, [op |-> "txs", b |-> b, sel |-> Ord(sel, rev)])
  /\ UNCHANGED <<hvars, rev, target, tp, phase, todo, explored, restarts>>

MUnconfirm ==
  /\ phase = "moving"
  /\ CanUnconfirm(cf, ifc, gv) /\ Stale(cf) # {}
  /\ cf' = ConfAfterUnconfirm(cf) /\ ifc' = "confirm"
  /\ hist' = Append(hist, [op |-> "unconf"])
  /\ UNCHANGED <<hvars, rev, target, tp, gv, phase, todo, explored, dups, restarts>>

MBest ==
  /\ phase = "moving"
  /\ \E b \in Blocks :
       /\ CanBest(tp, cf, ifc, b)
       /\ tp' = b /\ cf' = ConfAfterBest(tp, cf, b) /\ ifc' = "confirm"
       /\ hist' = Append(hist, [op |-> "best", b |-> b])
  /\ UNCHANGED <<hvars, rev, target, gv, phase, todo, explored, dups, restarts>>

MSync ==
  /\ phase = "moving"
  /\ SyncedTo(tp, cf)
  /\ phase' = "idle"
  /\ hist' = Append(hist, [op |-> "sync"])
  /\ UNCHANGED <<hvars, rev, target, tp, cf, ifc, gv, todo, explored, dups, restarts>>

MDone == phase = "idle" /\ todo = <<>> /\ UNCHANGED mvars
\* out of budget (a bound of this instance, not of the contract): the behaviour is abandoned
MAbandon == FALSE /\ UNCHANGED mvars

MCNext == MPlain \/ MBegin \/ MRestart \/ MConnect \/ MDisconnect \/ MTxs \/ MUnconfirm \/ MBest
          \/ MSync \/ MDone \/ MAbandon

MCSpec == MCInit /\ [][MCNext]_mvars

\* ---- what is checked
\* Whatever legal schedule the client followed, once it has nothing left to do the object knows
\* exactly the best chain; in particular all schedules of a history end in the same knowledge.
NothingLeft ==
  /\ phase = "moving"
  /\ tp = target
  /\ Stale(cf) = {}
  /\ \A r \in Roles : Place(r, target) # None => cf[r] = Place(r, target)
EnvConsistent == NothingLeft => SyncedTo(tp, cf)
IdleIsSynced == phase \in {"idle", "restarted"} => SyncedTo(tp, cf)
HistoryOK == TreeOK

\* a behaviour is only interesting when at least one transition was explored call by call
EmitScripts ==
  (phase = "idle" /\ todo = <<>> /\ explored > 0)
    => PrintT(<<"SCRIPT", ToJson([parent |-> parent, dep |-> dep, txs |-> [b \in 1..nb |-> Ord(txin[b], rev)], ops |-> hist])>>)
=============================================================================
