SPECIFICATION MCSpec
CONSTANTS
  MaxPendings = {0, 2, 3}
  MaxUpd = 4
  MaxFaults = 0
  MaxCrashes = 0
  MaxCleanups = 0
  MaxSyncs = 0
  Kinds = {"pre", "fc"}
  MaxCloses = 1
  MaxArchives = 0
  MaxDeferred = 0
  RefusedAsUpdate = TRUE
VIEW View
INVARIANT CrashRecoveredCoversReported
INVARIANT CrashRecoveredIsSomeInMemoryState
INVARIANT CrashRecoveredNotFromTheFuture
INVARIANT CleanupSafe
INVARIANT RecoveredCoversReported
CHECK_DEADLOCK TRUE
