SPECIFICATION MCSpec
CONSTANTS
  Relax = {}
  MaxAdds = 1
  Amounts = {600000}
  MaxFee = 1
  MaxDisc = 0
  QLen = 4
  MaxCrash = 0
  ChanType = "static"
VIEW View
INVARIANT TypeOK
INVARIANT CountersSane
INVARIANT ExactlyOnce
INVARIANT NonNegative
INVARIANT Agreement
INVARIANT ConservesAll
INVARIANT BalancesAgree
INVARIANT ViewsAgree
INVARIANT EmitScripts
CHECK_DEADLOCK TRUE
