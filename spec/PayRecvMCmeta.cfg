SPECIFICATION MCSpec
CONSTANTS
  C = 2
  MaxParts = 2
  Amts = {2, 4}
  Tots = {4}
  Secs = {"ok"}
  Cls = {"far"}
  RegAmt = 4
  RegMin = 0
  BUF = 39
  MPPT = 1
  MaxTicks = 1
  MaxBlocks = 0
  MaxDev = 0
  MaxOps = 4
  StaleClaim = FALSE
  Flds = {"none", "mnone", "mflip", "o1"}
  Sks = {"no"}
  Ups = {FALSE}
  RegMeta = 5
  ClaimKinds = {"claim"}
  Bug = "none"
  EmitMod = 1
CONSTRAINT Bound
VIEW View
INVARIANT AllOrNothing
INVARIANT EmitScripts
CHECK_DEADLOCK TRUE
