SPECIFICATION TraceSpec
CONSTANT MaxThreads = 4
INVARIANT LazyOnlyAbsent
POSTCONDITION TraceAccepted
CHECK_DEADLOCK FALSE
