SPECIFICATION TraceSpec
CONSTANT MaxThreads = 6
INVARIANT LazyOnlyAbsent
INVARIANT IssueOrder
POSTCONDITION TraceAccepted
CHECK_DEADLOCK FALSE
