SPECIFICATION MCSpec
CONSTANTS
  MaxThreads = 2
  NKeys = 2
  NNs = 1
  MaxOps = 3
CONSTRAINT Bound
INVARIANT TypeOK
INVARIANT LazyOnlyAbsent
INVARIANT SoloReadExact
INVARIANT SeenWritten
INVARIANT CurrentSeen
INVARIANT EmitScripts
CHECK_DEADLOCK TRUE
