SPECIFICATION MCSpec
CONSTANTS
  Async = FALSE
  MaxThreads = 2
  NKeys = 2
  NNs = 1
  MaxOps = 3
CONSTRAINT Bound
INVARIANT TypeOK
INVARIANT LazyOnlyAbsent
INVARIANT SoloReadExact
INVARIANT SeenWritten
INVARIANT CurrentSeen
INVARIANT IssueOrder
INVARIANT EmitScripts
CHECK_DEADLOCK TRUE
