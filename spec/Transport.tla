------------------------------ MODULE Transport ------------------------------
(***************************************************************************)
(* C15 -- design model of the BOLT-8 transport at the granularity of        *)
(* peer_handler.rs / peer_channel_encryptor.rs:                             *)
(*   sender   pending_outbound_buffer (one entry per frame), first-message  *)
(*            offset, awaiting_write_event, read-pause flag, the socket's   *)
(*            free space (partial accepts), write_buffer_space_avail;       *)
(*   cipher   sn/rn nonce counters, two per message, key rotation when a    *)
(*            counter has reached RotAt (both counters start at StartN so   *)
(*            that rotations happen within a few messages);                 *)
(*   reader   pending_read_buffer length / fill / is_header, noise step,    *)
(*            Init gating, disconnect on any MAC failure;                   *)
(*   network  delivers any prefix of the bytes in flight, flips one byte,   *)
(*            closes the connection.                                        *)
(* One side may be a raw peer that speaks the handshake itself and may send *)
(* a message before Init or garbage instead of act one.                     *)
(* Every action conjoins the corresponding observable action(s) of          *)
(* TransportAbstract, so the model refines it by construction; the clauses  *)
(* of the property are checked as invariants of the model, together with    *)
(* KeysMatch and ReaderAligned.  One API call produces several observable   *)
(* events: they are queued in `plan` and emitted one per step.              *)
(***************************************************************************)
EXTENDS TransportAbstract

CONSTANTS Mode,      \* "pm" | "raw1" | "raw2"
          RotAt,     \* 1000
          StartN,    \* value of the nonce counters after the handshake (0 in reality)
          PauseAt,   \* OUTBOUND_BUFFER_LIMIT_READ_PAUSE (12 in reality)
          MsgSize,   \* size of every queued message in the model
          Classes    \* message classes the raw peer sends (wire message types, see NoDeliver)

VARIABLES
  ob,       \* [1..2 -> Seq(frame)]  pending_outbound_buffer
  off,      \* [1..2 -> Nat]         pending_outbound_buffer_first_msg_offset
  awe,      \* [1..2 -> BOOLEAN]     awaiting_write_event
  budget,   \* [1..2 -> Int]         bytes the socket still accepts, -1 = unlimited
  pausedrd, \* [1..2 -> BOOLEAN]     the driver was told to stop reading (sent_pause_read)
  sframes,  \* [1..2 -> Seq(frame)]  every frame of stream d in stream order
  sn, sep,  \* [1..2 -> Nat]         send nonce / send key epoch
  rn, rep,  \* [1..2 -> Nat]         receive nonce / receive key epoch
  rstep,    \* [1..2 -> "act1"|"act2"|"act3"|"done"|"raw"]  next noise step of the reader
  ru,       \* [1..2 -> Nat]         stream offset at which the unit being read starts
  rneed,    \* [1..2 -> Nat]         pending_read_buffer.len()
  rhdr,     \* [1..2 -> BOOLEAN]     pending_read_is_header
  appq,     \* [1..2 -> Seq(id)]     messages waiting in the handler
  nextid,   \* next message id
  rawst,    \* raw peer: 0 nothing sent, 1 waiting for the peer's act, 2 handshake done, 9 gave up
  rawgot,   \* raw peer: bytes of the PeerManager's stream it has read
  rawinit,  \* raw peer: Init sent
  kerr,     \* a MAC check failed on an untampered unit
  misal,    \* the reader's unit did not coincide with a unit of the stream
  plan      \* observable events the current API call still has to emit

dvars == <<ob, off, awe, budget, pausedrd, sframes, sn, sep, rn, rep, rstep, ru, rneed, rhdr, appq,
           nextid, rawst, rawgot, rawinit, kerr, misal, plan>>
cvars == <<avars, dvars>>

PM(s) == ~Raw(s)
RawSide == IF Mode = "raw1" THEN 1 ELSE IF Mode = "raw2" THEN 2 ELSE 0

Frame(kind, id, size, len, hn, bn, ep) ==
  [kind |-> kind, cls |-> kind, id |-> id, size |-> size, len |-> len, hn |-> hn, bn |-> bn, ep |-> ep]

\* Message classes.  Every class is a well-formed message of one wire type.  A class outside NoDeliver
\* is handed, once the peer's Init has been received, to exactly one handler callback (frame kind
\* "msg": every channel message type, the gossip messages, onion messages, custom messages).  The
\* classes in NoDeliver have no one-to-one callback (answered, ignored, batched, or a reason to
\* disconnect; frame kind "typed"); the model sends them only as messages BEFORE Init, where every
\* class has the same fate: "Peer sent non-Init first message".
NoDeliver == {"ping", "ping_nopong", "pong", "warning", "error_chan", "error_all", "start_batch",
              "gossip_timestamp_filter", "unknown_odd", "unknown_even"}
MsgKinds == {"init", "msg", "typed"}
ActFrame(kind) == Frame(kind, -1, 0, IF kind = "act3" THEN Act3Len ELSE IF kind = "act1" THEN Act1Len ELSE Act2Len,
                        0, 0, 0)

\* encrypt_message: rotate when the counter has reached RotAt, then two nonces
EncN(n) == IF n >= RotAt THEN 0 ELSE n
EncE(n, e) == IF n >= RotAt THEN e + 1 ELSE e
MsgFrame(kind, id, size, n, e) == Frame(kind, id, size, FrameLen(size), EncN(n), EncN(n) + 1, EncE(n, e))
ClsFrame(c, id, n, e) ==
  [MsgFrame(IF c \in NoDeliver THEN "typed" ELSE "msg", id, MsgSize, n, e) EXCEPT !.cls = c]

RECURSIVE SumLen(_, _)
SumLen(fs, k) == IF k = 0 THEN 0 ELSE fs[k].len + SumLen(fs, k - 1)
StartOf(d, k) == SumLen(sframes[d], k - 1)

\* the unit of stream d that starts at offset a: [f, part, len], part "none" if there is none
RECURSIVE LocateFrom(_, _, _, _)
LocateFrom(fs, k, start, a) ==
  IF k > Len(fs) THEN [f |-> 0, part |-> "none", len |-> 0]
  ELSE LET fr == fs[k] IN
       IF a = start THEN
            (IF fr.kind \in {"act1", "act2", "act3", "garbage"}
             THEN [f |-> k, part |-> "act", len |-> fr.len]
             ELSE [f |-> k, part |-> "hdr", len |-> HdrLen])
       ELSE IF fr.kind \in MsgKinds /\ a = start + HdrLen
            THEN [f |-> k, part |-> "body", len |-> fr.len - HdrLen]
       ELSE IF a < start + fr.len THEN [f |-> 0, part |-> "none", len |-> 0]
       ELSE LocateFrom(fs, k + 1, start + fr.len, a)
Locate(d, a) == LocateFrom(sframes[d], 1, 0, a)

-----------------------------------------------------------------------------
(* do_attempt_write_data.  Returns the send_data calls and the new sender state. *)
RECURSIVE WL(_, _, _, _, _, _)
WL(obq, o, bud, aw, force, calls) ==
  IF ~(force \/ ~aw) THEN [calls |-> calls, ob |-> obq, off |-> o, awe |-> aw, bud |-> bud]
  ELSE IF obq = <<>> THEN
         [calls |-> IF force THEN Append(calls, [offered |-> 0, accepted |-> 0, resume |-> TRUE]) ELSE calls,
          ob |-> obq, off |-> 0, awe |-> aw, bud |-> bud]
  ELSE LET rem == Head(obq).len - o
           acc == IF bud = -1 THEN rem ELSE Min(rem, bud)
           nb == IF bud = -1 THEN -1 ELSE bud - acc
           c == Append(calls, [offered |-> rem, accepted |-> acc, resume |-> Len(obq) < PauseAt])
       IN IF acc = rem THEN WL(Tail(obq), 0, nb, aw, FALSE, c)
          ELSE WL(obq, o + acc, nb, TRUE, FALSE, c)

SendEvents(s, calls) == [k \in 1..Len(calls) |-> [t |-> "send", s |-> s, offered |-> calls[k].offered,
                                                   accepted |-> calls[k].accepted]]
LastResume(s, calls) == IF calls = <<>> THEN pausedrd[s] ELSE ~calls[Len(calls)].resume

\* encrypt the messages ids[1..] in order: [frames, n, e]
RECURSIVE EncAll(_, _, _, _)
EncAll(ids, n, e, acc) ==
  IF ids = <<>> THEN [frames |-> acc, n |-> n, e |-> e]
  ELSE EncAll(Tail(ids), EncN(n) + 2, EncE(n, e), Append(acc, MsgFrame("msg", Head(ids), MsgSize, n, e)))

Write(s, obq, force) ==
  LET w == WL(obq, off[s], budget[s], awe[s], force \/ ((Len(obq) < PauseAt) = pausedrd[s]), <<>>) IN w

-----------------------------------------------------------------------------
Init ==
  /\ mode = Mode
  /\ up = [s \in 1..2 |-> TRUE]
  /\ slen = [s \in 1..2 |-> 0] /\ hw = [s \in 1..2 |-> 0] /\ given = [s \in 1..2 |-> 0]
  /\ extra = [s \in 1..2 |-> 0]
  /\ queued = [s \in 1..2 |-> <<>>]
  /\ qend = [s \in 1..2 |-> IF s = RawSide THEN 0 ELSE HS(s) + FrameLen(MinInitLen)]
  /\ tamp = [s \in 1..2 |-> -1] /\ tub = [s \in 1..2 |-> -1]
  /\ mustdrop = [s \in 1..2 |-> FALSE] /\ initrx = [s \in 1..2 |-> FALSE]
  /\ initend = [s \in 1..2 |-> -1] /\ fends = [s \in 1..2 |-> <<>>]
  /\ reading = 0 /\ dirty = FALSE /\ viol = ""
  /\ ob = [s \in 1..2 |-> <<>>] /\ off = [s \in 1..2 |-> 0] /\ awe = [s \in 1..2 |-> FALSE]
  /\ budget = [s \in 1..2 |-> -1] /\ pausedrd = [s \in 1..2 |-> FALSE]
  /\ sframes = [s \in 1..2 |-> <<>>]
  /\ sn = [s \in 1..2 |-> StartN] /\ sep = [s \in 1..2 |-> 0]
  /\ rn = [s \in 1..2 |-> StartN] /\ rep = [s \in 1..2 |-> 0]
  /\ rstep = [s \in 1..2 |-> IF s = RawSide THEN "raw" ELSE IF s = 1 THEN "act2" ELSE "act1"]
  /\ ru = [s \in 1..2 |-> 0]
  /\ rneed = [s \in 1..2 |-> IF s = 1 THEN Act2Len ELSE Act1Len]
  /\ rhdr = [s \in 1..2 |-> FALSE]
  /\ appq = [s \in 1..2 |-> <<>>] /\ nextid = 1
  /\ rawst = 0 /\ rawgot = 0 /\ rawinit = FALSE /\ kerr = FALSE /\ misal = FALSE
  \* new_outbound_connection of a PeerManager initiator returns act one at once
  /\ plan = IF RawSide = 1 THEN <<>> ELSE <<[t |-> "actone"]>>

Idle == plan = <<>>

(* the pending observable events of the running API call, one per step *)
CStep ==
  /\ plan # <<>>
  /\ LET e == Head(plan) IN
     CASE e.t = "actone" -> ActOne(Act1Len)
       [] e.t = "queue" -> Queue(e.d, e.id, e.size)
       [] e.t = "send" -> SendData(e.s, e.offered, e.accepted)
       [] e.t = "deliver" -> Delivered(e.s, e.id, e.size, TRUE)
       [] e.t = "pconn" -> PeerConnected(e.s)
       [] e.t = "pdisc" -> PeerDisconnected(e.s)
       [] e.t = "rend" -> ReadEnd(e.s, e.ok)
       [] e.t = "sdisc" -> SocketDisconnected(e.s)
  /\ plan' = Tail(plan)
  /\ IF Head(plan).t = "actone"
     THEN sframes' = [sframes EXCEPT ![1] = <<ActFrame("act1")>>]
     ELSE UNCHANGED sframes
  /\ UNCHANGED <<ob, off, awe, budget, pausedrd, sn, sep, rn, rep, rstep, ru, rneed, rhdr, appq, nextid,
                 rawst, rawgot, rawinit, kerr, misal>>

(* the application puts a message into the handler of side d *)
CQueue(d) ==
  /\ Idle /\ PM(d) /\ up[d]
  /\ appq' = [appq EXCEPT ![d] = Append(@, nextid)]
  /\ nextid' = nextid + 1
  /\ UNCHANGED avars
  /\ UNCHANGED <<ob, off, awe, budget, pausedrd, sframes, sn, sep, rn, rep, rstep, ru, rneed, rhdr, rawst,
                 rawgot, rawinit, kerr, misal, plan>>

(* process_events(s): the handler's messages are taken (only while it is connected), encrypted  *)
(* and appended to the outbound buffer; then do_attempt_write_data                              *)
CProcessEvents(s) ==
  /\ Idle /\ PM(s) /\ up[s]
  /\ LET ids == IF initrx[s] THEN appq[s] ELSE <<>>
         enc == EncAll(ids, sn[s], sep[s], <<>>)
         w == Write(s, ob[s] \o enc.frames, FALSE)
         qev == [k \in 1..Len(ids) |-> [t |-> "queue", d |-> s, id |-> ids[k], size |-> MsgSize]]
     IN /\ appq' = [appq EXCEPT ![s] = IF initrx[s] THEN <<>> ELSE @]
        /\ sn' = [sn EXCEPT ![s] = enc.n] /\ sep' = [sep EXCEPT ![s] = enc.e]
        /\ sframes' = [sframes EXCEPT ![s] = @ \o enc.frames]
        /\ ob' = [ob EXCEPT ![s] = w.ob] /\ off' = [off EXCEPT ![s] = w.off]
        /\ awe' = [awe EXCEPT ![s] = w.awe] /\ budget' = [budget EXCEPT ![s] = w.bud]
        /\ pausedrd' = [pausedrd EXCEPT ![s] = LastResume(s, w.calls)]
        /\ plan' = qev \o SendEvents(s, w.calls)
  /\ UNCHANGED avars
  /\ UNCHANGED <<rn, rep, rstep, ru, rneed, rhdr, nextid, rawst, rawgot, rawinit, kerr, misal>>

(* the socket of side s can take k more bytes (-1: any number); if a write was pending the      *)
(* driver calls write_buffer_space_avail                                                        *)
CSocketAccepts(s, k) ==
  /\ Idle /\ PM(s) /\ up[s]
  /\ k # budget[s]
  /\ IF awe[s] /\ k # 0
     THEN LET w == WL(ob[s], off[s], k, FALSE, TRUE, <<>>) IN
          /\ ob' = [ob EXCEPT ![s] = w.ob] /\ off' = [off EXCEPT ![s] = w.off]
          /\ awe' = [awe EXCEPT ![s] = w.awe] /\ budget' = [budget EXCEPT ![s] = w.bud]
          /\ pausedrd' = [pausedrd EXCEPT ![s] = LastResume(s, w.calls)]
          /\ plan' = SendEvents(s, w.calls)
     ELSE /\ budget' = [budget EXCEPT ![s] = k]
          /\ UNCHANGED <<ob, off, awe, pausedrd, plan>>
  /\ UNCHANGED avars
  /\ UNCHANGED <<sframes, sn, sep, rn, rep, rstep, ru, rneed, rhdr, appq, nextid, rawst, rawgot, rawinit,
                 kerr, misal>>

-----------------------------------------------------------------------------
(* do_read_event.  st = [fill, ru, rneed, rhdr, rstep, rn, rep, irx, sn, sep, enq, evs, err, kerr, misal] *)
Complete(s, st) ==
  LET d == Other(s)
      a == st.ru
      b == st.ru + st.rneed
      u == Locate(d, a)
      fr == sframes[d][u.f]
      hit == tamp[d] # -1 /\ tamp[d] >= a /\ tamp[d] < b
      aligned == u.part # "none" /\ u.len = st.rneed
      fail(k, m) == [st EXCEPT !.err = TRUE, !.kerr = @ \/ k, !.misal = @ \/ m]
      next == [st EXCEPT !.ru = b, !.fill = 0]
      initF == MsgFrame("init", -1, MinInitLen, st.sn, st.sep)
      withInit(x) == [x EXCEPT !.enq = Append(@, initF), !.sn = EncN(st.sn) + 2, !.sep = EncE(st.sn, st.sep),
                               !.rneed = HdrLen, !.rhdr = TRUE, !.rstep = "done"]
  IN
  IF ~aligned THEN fail(FALSE, ~hit /\ tamp[d] = -1)
  ELSE IF st.rstep = "act1" THEN
         (IF u.part = "act" /\ fr.kind = "act1" /\ ~hit
          THEN [next EXCEPT !.enq = Append(@, ActFrame("act2")), !.rstep = "act3", !.rneed = Act3Len]
          ELSE fail(~hit /\ fr.kind = "act1", FALSE))
  ELSE IF st.rstep = "act2" THEN
         (IF u.part = "act" /\ fr.kind = "act2" /\ ~hit
          THEN withInit([next EXCEPT !.enq = Append(@, ActFrame("act3"))])
          ELSE fail(~hit /\ fr.kind = "act2", FALSE))
  ELSE IF st.rstep = "act3" THEN
         (IF u.part = "act" /\ fr.kind = "act3" /\ ~hit
          THEN withInit(next)
          ELSE fail(~hit /\ fr.kind = "act3", FALSE))
  ELSE IF st.rhdr THEN
         \* decrypt_length_header: rotate first, then check the MAC
         LET n == EncN(st.rn)
             e == EncE(st.rn, st.rep)
             ok == u.part = "hdr" /\ ~hit /\ fr.ep = e /\ fr.hn = n IN
         IF ok THEN [next EXCEPT !.rn = n + 1, !.rep = e, !.rneed = fr.len - HdrLen, !.rhdr = FALSE]
         ELSE fail(~hit, u.part # "hdr")
  ELSE
         LET ok == u.part = "body" /\ ~hit /\ fr.ep = st.rep /\ fr.bn = st.rn
             nx == [next EXCEPT !.rn = st.rn + 1, !.rneed = HdrLen, !.rhdr = TRUE] IN
         IF ~ok THEN fail(~hit, u.part # "body")
         ELSE IF fr.kind = "init" THEN
                (IF st.irx THEN [nx EXCEPT !.err = TRUE]
                 ELSE [nx EXCEPT !.irx = TRUE, !.evs = Append(@, [t |-> "pconn", s |-> s])])
         ELSE (IF ~st.irx THEN [nx EXCEPT !.err = TRUE]       \* "Peer sent non-Init first message"
               ELSE IF fr.kind = "typed" THEN nx               \* (not reachable: sent before Init only)
               ELSE [nx EXCEPT !.evs = Append(@, [t |-> "deliver", s |-> s, id |-> fr.id, size |-> fr.size])])

RECURSIVE Consume(_, _, _)
Consume(s, st, left) ==
  IF left = 0 \/ st.err THEN st
  ELSE LET take == Min(st.rneed - st.fill, left) IN
       IF st.fill + take < st.rneed THEN [st EXCEPT !.fill = @ + take]
       ELSE Consume(s, Complete(s, st), left - take)

(* read_event(s, k bytes).  On Err the PeerManager forgets the peer (telling the handlers if    *)
(* they knew it) and the driver closes the connection, which the other side is told.            *)
CReadEvent(s, k) ==
  LET d == Other(s)
      o == Other(s)
      st0 == [fill |-> given[d] - ru[s], ru |-> ru[s], rneed |-> rneed[s], rhdr |-> rhdr[s],
              rstep |-> rstep[s], rn |-> rn[s], rep |-> rep[s], irx |-> initrx[s], sn |-> sn[s],
              sep |-> sep[s], enq |-> <<>>, evs |-> <<>>, err |-> FALSE, kerr |-> kerr, misal |-> misal]
      st == Consume(s, st0, k)
      closeEv == IF st.err
                 THEN (IF st.irx THEN <<[t |-> "pdisc", s |-> s]>> ELSE <<>>)
                      \o <<[t |-> "rend", s |-> s, ok |-> FALSE]>>
                      \o (IF PM(o) /\ up[o] THEN <<[t |-> "sdisc", s |-> o]>> ELSE <<>>)
                      \o (IF PM(o) /\ up[o] /\ initrx[o] THEN <<[t |-> "pdisc", s |-> o]>> ELSE <<>>)
                 ELSE <<[t |-> "rend", s |-> s, ok |-> TRUE]>>
  IN
  /\ Idle /\ PM(s) /\ up[s] /\ ~pausedrd[s]
  /\ k >= 1 /\ given[d] + k <= slen[d]
  /\ ReadBegin(s, k)
  /\ ru' = [ru EXCEPT ![s] = st.ru] /\ rneed' = [rneed EXCEPT ![s] = st.rneed]
  /\ rhdr' = [rhdr EXCEPT ![s] = st.rhdr] /\ rstep' = [rstep EXCEPT ![s] = st.rstep]
  /\ rn' = [rn EXCEPT ![s] = st.rn] /\ rep' = [rep EXCEPT ![s] = st.rep]
  /\ sn' = [sn EXCEPT ![s] = st.sn] /\ sep' = [sep EXCEPT ![s] = st.sep]
  /\ ob' = [ob EXCEPT ![s] = @ \o st.enq]
  /\ sframes' = [sframes EXCEPT ![s] = @ \o st.enq]
  /\ kerr' = st.kerr /\ misal' = st.misal
  /\ plan' = st.evs \o closeEv
  /\ UNCHANGED <<off, awe, budget, pausedrd, appq, nextid, rawst, rawgot, rawinit>>

-----------------------------------------------------------------------------
(* the network flips the byte at offset p of stream d (in flight, at most one per stream) *)
CTamper(d, p) ==
  /\ Idle /\ tamp[d] = -1 /\ (up[1] \/ up[2])
  /\ p >= given[d] /\ p < slen[d]
  /\ Tamper(d, p, "flip", 0)
  /\ UNCHANGED dvars

(* the driver loses the connection at side s (and then, being one TCP connection, at the other) *)
CDisconnect(s) ==
  LET o == Other(s) IN
  /\ Idle /\ PM(s) /\ up[s] /\ up[o]
  /\ SocketDisconnected(s)
  /\ plan' = (IF initrx[s] THEN <<[t |-> "pdisc", s |-> s]>> ELSE <<>>)
             \o (IF PM(o) THEN <<[t |-> "sdisc", s |-> o]>> ELSE <<>>)
             \o (IF PM(o) /\ initrx[o] THEN <<[t |-> "pdisc", s |-> o]>> ELSE <<>>)
  /\ UNCHANGED <<ob, off, awe, budget, pausedrd, sframes, sn, sep, rn, rep, rstep, ru, rneed, rhdr, appq,
                 nextid, rawst, rawgot, rawinit, kerr, misal>>

-----------------------------------------------------------------------------
(* the raw peer *)
RawUp == RawSide # 0 /\ up[Other(RawSide)]     \* it stops once the PeerManager has dropped it

RawEmit(fr, kind) ==
  /\ RawSend(RawSide, kind, fr.id, fr.size, fr.len)
  /\ sframes' = [sframes EXCEPT ![RawSide] = Append(@, fr)]

\* raw initiator starts the handshake
CRawStart ==
  /\ Idle /\ RawSide = 1 /\ rawst = 0 /\ RawUp
  /\ RawEmit(ActFrame("act1"), "act1")
  /\ rawst' = 1
  /\ UNCHANGED <<ob, off, awe, budget, pausedrd, sn, sep, rn, rep, rstep, ru, rneed, rhdr, appq, nextid,
                 rawgot, rawinit, kerr, misal, plan>>

\* arbitrary bytes instead of act one
CRawGarbage ==
  /\ Idle /\ RawSide = 1 /\ rawst = 0 /\ RawUp
  /\ RawEmit(Frame("garbage", -1, 0, Act1Len, 0, 0, 0), "garbage")
  /\ rawst' = 9
  /\ UNCHANGED <<ob, off, awe, budget, pausedrd, sn, sep, rn, rep, rstep, ru, rneed, rhdr, appq, nextid,
                 rawgot, rawinit, kerr, misal, plan>>

\* the raw peer reads what the PeerManager has written and answers handshake acts at once
CRawRead ==
  LET p == Other(RawSide)
      got == slen[p] IN
  /\ Idle /\ RawSide # 0 /\ RawUp /\ got > rawgot
  /\ rawgot' = got
  /\ IF RawSide = 1 /\ rawst = 1 /\ got >= Act2Len
     THEN RawEmit(ActFrame("act3"), "act3") /\ rawst' = 2
     ELSE IF RawSide = 2 /\ rawst = 0 /\ got >= Act1Len
     THEN RawEmit(ActFrame("act2"), "act2") /\ rawst' = 1
     ELSE IF RawSide = 2 /\ rawst = 1 /\ got >= Act1Len + Act3Len
     THEN rawst' = 2 /\ UNCHANGED avars /\ UNCHANGED sframes
     ELSE UNCHANGED avars /\ UNCHANGED <<sframes, rawst>>
  /\ UNCHANGED <<ob, off, awe, budget, pausedrd, sn, sep, rn, rep, rstep, ru, rneed, rhdr, appq, nextid,
                 rawinit, kerr, misal, plan>>

CRawInit ==
  LET r == RawSide IN
  /\ Idle /\ r # 0 /\ rawst = 2 /\ ~rawinit /\ RawUp
  /\ RawEmit(MsgFrame("init", -1, MinInitLen, sn[r], sep[r]), "init")
  /\ sn' = [sn EXCEPT ![r] = EncN(@) + 2] /\ sep' = [sep EXCEPT ![r] = EncE(sn[r], @)]
  /\ rawinit' = TRUE
  /\ UNCHANGED <<ob, off, awe, budget, pausedrd, rn, rep, rstep, ru, rneed, rhdr, appq, nextid, rawst,
                 rawgot, kerr, misal, plan>>

\* a message of class c, possibly before Init
CRawMsg(c) ==
  LET r == RawSide
      fr == ClsFrame(c, IF c \in NoDeliver THEN -1 ELSE nextid, sn[r], sep[r]) IN
  /\ Idle /\ r # 0 /\ rawst = 2 /\ RawUp
  /\ c \in NoDeliver => ~rawinit
  /\ RawEmit(fr, fr.kind)
  /\ sn' = [sn EXCEPT ![r] = EncN(@) + 2] /\ sep' = [sep EXCEPT ![r] = EncE(sn[r], @)]
  /\ nextid' = nextid + 1
  /\ UNCHANGED <<ob, off, awe, budget, pausedrd, rn, rep, rstep, ru, rneed, rhdr, appq, rawst, rawgot,
                 rawinit, kerr, misal, plan>>

-----------------------------------------------------------------------------
(* nothing is left to flush: what the harness' drain operation establishes *)
Drained ==
  /\ Idle
  /\ \A s \in 1..2 : (PM(s) /\ up[s]) =>
        /\ ob[s] = <<>> /\ ~awe[s]
        /\ (appq[s] = <<>> \/ ~initrx[s])
        /\ given[Other(s)] = slen[Other(s)]
  /\ RawSide # 0 => (~RawUp \/ rawgot = slen[Other(RawSide)])

CQuiesce ==
  /\ Drained
  /\ Quiesce(TRUE)
  /\ UNCHANGED dvars

-----------------------------------------------------------------------------
(* Invariants of the design *)
KeysMatch == ~kerr          \* an untampered unit never fails its MAC: both ends rotate in step
ReaderAligned == ~misal     \* without tampering the reader's units are the stream's units
TypeOK == Idle =>
  /\ \A s \in 1..2 : off[s] >= 0 /\ (ob[s] # <<>> => off[s] < Head(ob[s]).len)
  /\ \A s \in 1..2 : given[s] <= slen[s] /\ slen[s] <= hw[s]
  /\ \A s \in 1..2 : (PM(s) /\ up[s]) => ru[s] <= given[Other(s)] /\ given[Other(s)] - ru[s] < rneed[s]
=============================================================================
