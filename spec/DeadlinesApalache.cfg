\* Example obligation (inductive step); `./check C08 thorough` generates one cfg per obligation
\* (INIT Init / IndInit, INVARIANT IndInv / Safe) under work/C08/apalache with the code's constants:
\*   apalache-mc check --config=DeadlinesApalache.cfg --length=1 DeadlinesApalache.tla
CONSTANTS
  CCB = 36
  LGP = 3
  MBC = 18
  ARD = 6
  HFB = 39
  MIND = 48
INIT IndInit
NEXT Next
INVARIANT IndInv
