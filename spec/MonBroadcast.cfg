SPECIFICATION Spec
CONSTANTS
  Lock = TRUE
  Kinds = {"add", "reply", "remove", "fee"}
INVARIANT NeverRevokeBroadcast
INVARIANT EmitScripts
CHECK_DEADLOCK TRUE
