------------------------------ MODULE OnChainMC ------------------------------
(***************************************************************************)
(* Bounded design model for C06 / C07: an *ideal* monitor (it claims what   *)
(* OnChain.tla obliges it to claim, reports what it is owed, hands over and *)
(* sweeps what is buried) against an adversarial environment: the cheater   *)
(* confirming any subset of its second-stage transactions at any time its   *)
(* timelocks allow, the honest peer racing for contended HTLC outputs, and a *)
(* miner choosing which of the broadcast transactions confirm when.         *)
(* TLC checks that the obligations of OnChain.tla are jointly satisfiable in *)
(* every such environment (the model's steps ARE the observed actions of    *)
(* OnChain.tla, so an unmet guard is a deadlock, an unmet obligation an      *)
(* invariant violation) and prints one driver script per completed run.     *)
(***************************************************************************)
EXTENDS OnChain, Json

CONSTANTS Mode,        \* "revoked" | "honest"
          MaxBlocks,   \* adversarial blocks before the environment turns fair
          MaxReload

VARIABLES stage,   \* "start" | "react" | "idle" | "fair" | "done"
          nextId, shape, blocks, reloads, hist
mvars == <<ovars, stage, nextId, shape, blocks, reloads, hist>>

H0 == 10
ExpAt == H0 + 3            \* HTLC expiry: two blocks after the commitment confirms
AR == 2                    \* ANTI_REORG_DELAY of the model
Owner == 1                 \* whose commitment confirms (the cheater in revoked mode)
Other == 0

\* the HTLC outputs a commitment may carry; `pk`: the preimage is known to the receiver at closing
Menu == { [k |-> "offered", amt |-> 5000, hash |-> 1, pk |-> FALSE],
          [k |-> "received", amt |-> 6000, hash |-> 2, pk |-> TRUE],
          [k |-> "received", amt |-> 7000, hash |-> 3, pk |-> FALSE] }

RECURSIVE SeqOf(_)
SeqOf(S) == IF S = {} THEN <<>> ELSE LET x == CHOOSE y \in S : \A z \in S : y.hash <= z.hash
                                     IN <<x>> \o SeqOf(S \ {x})
ComOuts(S) ==
  LET hs == SeqOf(S) IN
  [i \in 1..(Len(hs) + 2) |->
     IF i <= Len(hs) THEN [v |-> i - 1, k |-> hs[i].k, amt |-> hs[i].amt, hash |-> hs[i].hash, exp |-> ExpAt, msat |-> 0]
     ELSE IF i = Len(hs) + 1 THEN [v |-> i - 1, k |-> "to_local", amt |-> 400000, hash |-> 0, exp |-> 0, msat |-> 0]
     ELSE [v |-> i - 1, k |-> "to_remote", amt |-> 500000, hash |-> 0, exp |-> 0, msat |-> 0]]
\* who knows which preimage when the channel closes: the receiver of a `pk` HTLC
KnownAtClose(S, n) == {h.hash : h \in {x \in S : x.pk /\ ((n = Owner /\ x.k = "received") \/ (n # Owner /\ x.k = "offered"))}}

Rec(by, ins, nout, sweep) ==
  [by |-> by, ins |-> ins, wal |-> [k \in 1..Len(ins) |-> FALSE], nout |-> nout,
   outwal |-> [k \in 1..nout |-> sweep], feerate |-> 253, ok |-> TRUE, valid |-> TRUE, final |-> TRUE,
   sweep |-> sweep, dup |-> FALSE, bh |-> height, own |-> 253, weight |-> 1, inval |-> 0, onrb |-> FALSE]

MCInit ==
  /\ OInit
  /\ stage = "start" /\ nextId = 3 /\ shape \in SUBSET Menu /\ blocks = 0 /\ reloads = 0
  /\ hist = <<>>

Live2 == IF Mode = "revoked" THEN {Other} ELSE {0, 1}

\* ---- the run begins: parameters, the commitment is broadcast and confirms
MOpen ==
  /\ stage = "start" /\ par.kind = "none"
  /\ Open([kind |-> Mode, live |-> Live2, owner |-> Owner, delays |-> <<144, 144>>, anti_reorg |-> AR,
           chan_type |-> "static", h |-> H0, est |-> <<253, 253>>])
  /\ UNCHANGED <<stage, nextId, shape, blocks, reloads, hist>>
MBcastCommit ==
  /\ stage = "start" /\ par.kind # "none" /\ 2 \notin DOMAIN txs
  /\ Bcast(2, Rec(IF Mode = "revoked" THEN Cheater ELSE 3, <<<<1, 0>>>>, Cardinality(shape) + 2, FALSE))
  /\ UNCHANGED <<stage, nextId, shape, blocks, reloads, hist>>
MCommit ==
  /\ stage = "start" /\ 2 \in DOMAIN txs /\ ~HasCom
  /\ Commit([tx |-> 2, owner |-> Owner, revoked |-> (Mode = "revoked"), h |-> H0 + 1, outs |-> ComOuts(shape),
             known |-> <<KnownAtClose(shape, 0), KnownAtClose(shape, 1)>>])
  /\ UNCHANGED <<stage, nextId, shape, blocks, reloads, hist>>
MFirstBlock ==
  /\ stage = "start" /\ HasCom
  /\ Block(height + 1, {2})
  /\ stage' = "react"
  /\ UNCHANGED <<nextId, shape, blocks, reloads, hist>>

\* ---- what an ideal monitor of node n has to claim right now
Needs(n) ==
  IF ~HasCom THEN {}
  ELSE IF com.revoked
    THEN IF n = Victim THEN {o \in CheaterClaimable : ~Spent(o) /\ ~HasLiveClaim(n, o)} ELSE {}
    ELSE {OP(r) : r \in {x \in Outs : /\ IsHtlc(x) /\ ~Spent(OP(x)) /\ ~HasLiveClaim(n, OP(x))
                                       /\ \/ (Outbound(n, x) /\ height >= x.exp)
                                          \/ (Inbound(n, x) /\ x.hash \in known[n + 1])}}
SeqOfOps(S) == LET RECURSIVE F(_)
                   F(T) == IF T = {} THEN <<>> ELSE LET x == CHOOSE y \in T : \A z \in T : (y[1] < z[1] \/ (y[1] = z[1] /\ y[2] <= z[2])) IN <<x>> \o F(T \ {x})
               IN F(S)
\* The ideal monitor's reaction is one deterministic sequence of observed actions (lower node
\* first; claims, then hand-overs, then sweeps, then balances) -- the order among them is not
\* observable from outside a checkpoint, so exploring one order loses nothing.
Buried(t) == Confirmed(t) /\ height >= conf[t] + AR - 1
Produced(n) ==
  {OP(r) : r \in {x \in Outs : Main(n, x)}}
  \cup {<<t, 0>> : t \in {u \in DOMAIN conf : txs[u].by = n /\ ~txs[u].sweep /\ u # com.tx}}
Reportable(n) == {o \in Produced(n) : Buried(o[1])}
Unswept(n) == {o \in handed[n + 1] : ~\E t \in DOMAIN txs : txs[t].sweep /\ o \in Ins(t)}
BalItems(n) ==
  IF ~HasCom \/ com.revoked THEN <<>>
  ELSE LET S == {r \in Outs : Mine(n, r) /\ ~HandedOver(n, r) /\ ~TakenByPeer(n, r)}
           RECURSIVE F(_)
           F(T) == IF T = {} THEN <<>> ELSE LET x == CHOOSE y \in T : \A z \in T : y.v <= z.v
                                            IN <<[k |-> "awaiting", amt |-> x.amt, hash |-> x.hash, hh |-> 0, src |-> ""]>> \o F(T \ {x})
       IN F(S)
CanReact(n) == n \in par.live /\ Needs(n) # {}
CanSpend(n) == n \in par.live /\ HasCom /\ Reportable(n) \ handed[n + 1] # {}
CanSweep(n) == n \in par.live /\ Unswept(n) # {}
CanBal(n) == n \in par.live /\ bal[n + 1] # BalItems(n)
First(P(_), n) == P(n) /\ \A m \in {0, 1} : m < n => ~P(m)
None(P(_)) == \A m \in {0, 1} : ~P(m)

MReact(n) ==
  /\ stage = "react" /\ First(CanReact, n)
  /\ Bcast(nextId, Rec(n, SeqOfOps(Needs(n)), 1, FALSE))
  /\ nextId' = nextId + 1
  /\ UNCHANGED <<stage, shape, blocks, reloads, hist>>
MSpendable(n) ==
  /\ stage = "react" /\ None(CanReact) /\ First(CanSpend, n)
  /\ LET o == CHOOSE x \in Reportable(n) \ handed[n + 1] : TRUE IN
        Spendable(n, <<[op |-> o, confirmed |-> TRUE, amt |-> 1, real_amt |-> 1]>>)
  /\ UNCHANGED <<stage, nextId, shape, blocks, reloads, hist>>
MSweep(n) ==
  /\ stage = "react" /\ None(CanReact) /\ None(CanSpend) /\ First(CanSweep, n)
  /\ LET o == CHOOSE x \in Unswept(n) : TRUE IN Sweep(n, nextId, Rec(n, <<o>>, 1, TRUE), TRUE)
  /\ nextId' = nextId + 1
  /\ UNCHANGED <<stage, shape, blocks, reloads, hist>>
MBal(n) ==
  /\ stage = "react" /\ None(CanReact) /\ None(CanSpend) /\ None(CanSweep) /\ First(CanBal, n)
  /\ Balances(n, BalItems(n))
  /\ UNCHANGED <<stage, nextId, shape, blocks, reloads, hist>>

Settled(n) == ~CanReact(n) /\ ~CanSpend(n) /\ ~CanSweep(n) /\ ~CanBal(n)
MCheck ==
  /\ stage = "react" /\ \A n \in par.live : Settled(n)
  /\ Checkpoint(height)
  /\ stage' = IF blocks >= MaxBlocks THEN "fair" ELSE "idle"
  /\ UNCHANGED <<nextId, shape, blocks, reloads, hist>>

\* ---- the adversarial environment
\* second-stage transactions the cheater may get confirmed now
CheatOpts == IF ~HasCom \/ ~com.revoked THEN {}
             ELSE {r \in Outs : /\ IsHtlc(r) /\ ~Spent(OP(r))
                                /\ \/ (r.k = "offered" /\ height >= r.exp)
                                   \/ (r.k = "received" /\ r.hash \in com.known[Owner + 1])}
Minable == {t \in DOMAIN txs : Live(t)}
ConflictFree(ids) == \A a, b \in ids : a # b => Ins(a) \cap Ins(b) = {}
\* one adversarial block: the cheater's second-stage transaction for the subset S confirms together
\* with the transactions of the senders in W (newest version of each claim)
MBlockAdv(W, S) ==
  /\ stage = "idle" /\ blocks < MaxBlocks
  /\ S \subseteq CheatOpts
  /\ LET cheatTx == IF S = {} THEN {} ELSE {nextId}
         txs1 == IF S = {} THEN txs
                 ELSE [x \in DOMAIN txs \cup {nextId} |->
                         IF x = nextId THEN Rec(Cheater, SeqOfOps({OP(r) : r \in S}), Cardinality(S), FALSE) ELSE txs[x]]
         cand == {t \in Minable : txs[t].by \in W /\ \A o \in Ins(t) : o \notin {OP(r) : r \in S}}
     IN \E ids \in SUBSET cand :
          /\ ConflictFree(ids)
          /\ \A t \in cand \ ids : \E u \in ids : Ins(t) \cap Ins(u) # {}       \* maximal
          /\ height' = height + 1 /\ phase' = "op"
          /\ txs' = txs1
          /\ conf' = [x \in DOMAIN conf \cup ids \cup cheatTx |-> IF x \in DOMAIN conf THEN conf[x] ELSE height + 1]
          /\ starved' = <<starved[1] \/ LeftOut(0, ids), starved[2] \/ LeftOut(1, ids)>>
          /\ UNCHANGED <<par, com, known, handed, bal, asked, est, gaveup>> /\ rb' = NoRb
  /\ nextId' = IF S = {} THEN nextId ELSE nextId + 1
  /\ blocks' = blocks + 1 /\ stage' = "react"
  /\ hist' = Append(hist, [op |-> "block", who |-> W, cheat |-> {r.hash : r \in S}, h |-> height + 1])
  /\ UNCHANGED <<shape, reloads>>

\* a fair block: everything minable confirms (newest first)
MBlockFair ==
  /\ stage = "fair"
  /\ \E ids \in SUBSET Minable :
        /\ ConflictFree(ids)
        /\ \A t \in Minable \ ids : \E u \in ids : Ins(t) \cap Ins(u) # {}
        /\ Block(height + 1, ids)
  /\ stage' = "react"
  /\ UNCHANGED <<nextId, shape, blocks, reloads, hist>>

\* a preimage turns up after the close (honest mode)
MPreimage(n, r) ==
  /\ stage = "idle" /\ Mode = "honest" /\ n \in par.live /\ HasCom
  /\ r \in Outs /\ Inbound(n, r) /\ r.hash \notin known[n + 1] /\ ~Spent(OP(r)) /\ height < r.exp
  /\ Preimage(n, r.hash)
  /\ stage' = "react"
  /\ hist' = Append(hist, [op |-> "preimage", node |-> n, hash |-> r.hash])
  /\ UNCHANGED <<nextId, shape, blocks, reloads>>

MReload(n) ==
  /\ stage = "idle" /\ n \in par.live /\ reloads < MaxReload
  /\ Silent /\ reloads' = reloads + 1
  /\ hist' = Append(hist, [op |-> "reload", node |-> n])
  /\ UNCHANGED <<stage, nextId, shape, blocks>>

AllDone == /\ HasCom /\ Minable = {}
           /\ \A n \in par.live : Settled(n) /\ Len(bal[n + 1]) = 0 /\ Produced(n) \subseteq handed[n + 1]
           /\ \A r \in Outs : (IsHtlc(r) /\ ~Spent(OP(r))) => \A n \in par.live : ~Outbound(n, r) /\ ~(com.revoked /\ n = Victim)
MFinal ==
  /\ stage = "fair" /\ phase = "check" /\ AllDone
  /\ Final([unswept |-> 0, mempool_left |-> <<>>])
  /\ stage' = "done"
  /\ UNCHANGED <<nextId, shape, blocks, reloads, hist>>
MDone == stage = "done" /\ UNCHANGED mvars

Senders == IF Mode = "revoked" THEN {{}, {Other}} ELSE {{}, {0}, {1}, {0, 1}}
MCNext ==
  \/ MOpen \/ MBcastCommit \/ MCommit \/ MFirstBlock
  \/ \E n \in {0, 1} : MReact(n) \/ MSpendable(n) \/ MSweep(n) \/ MBal(n) \/ MReload(n)
  \/ MCheck
  \/ \E W \in Senders : \E S \in SUBSET (IF HasCom THEN Outs ELSE {}) : MBlockAdv(W, S)
  \/ MBlockFair
  \/ \E n \in {0, 1} : \E r \in (IF HasCom THEN Outs ELSE {}) : MPreimage(n, r)
  \/ MFinal \/ MDone

MCSpec == MCInit /\ [][MCNext]_mvars

View == <<ovars, stage, nextId, shape, blocks, reloads>>
\* bounded liveness: under fair mining a run is over within a few blocks
Bounded == height <= H0 + 1 + MaxBlocks + 4 * AR + 6

EmitScripts ==
  stage = "done" =>
    PrintT(<<"SCRIPT", ToJson([mode |-> Mode, shape |-> SeqOf(shape), ops |-> hist])>>)
=============================================================================
