------------------------------ MODULE OnChainMC ------------------------------
(***************************************************************************)
(* Bounded design model for C06 / C07: an *ideal* monitor (it claims what   *)
(* OnChain.tla obliges it to claim, reports what it is owed, hands over and *)
(* sweeps what is buried) against an adversarial environment: the cheater   *)
(* confirming any subset of its second-stage transactions at any time its   *)
(* timelocks allow, the honest peer racing for contended HTLC outputs, and a *)
(* miner choosing which of the broadcast transactions confirm when.         *)
(* TLC checks that the obligations of OnChain.tla are jointly satisfiable in *)
(* every such environment (the model's steps ARE the observed actions of    *)
(* OnChain.tla, so an unmet guard is a deadlock, an unmet obligation an      *)
(* invariant violation) and prints one driver script per completed run.     *)
(***************************************************************************)
EXTENDS OnChain, Json

CONSTANTS Mode,        \* "revoked" | "honest"
          MaxBlocks,   \* adversarial blocks before the environment turns fair
          MaxReload,
          Layouts,     \* the shapes of second-stage transactions the cheater may use (see Layout)
          MaxUnwind,   \* reorganisations that take confirmed transactions out of the chain again
          Defect,      \* "none"; a planted defect of the monitor (spec mutants: TLC must refute them)
          Features     \* "dup_hash": two pending HTLCs with one payment hash
                       \* "second": node Hub has a second unilaterally closed channel whose outputs mature meanwhile
                       \* "few": at most one HTLC output on the commitment (keeps the quick instances with "second" small)

VARIABLES stage,   \* "start" | "react" | "idle" | "fair" | "done"
          nextId, shape, blocks, reloads, unwinds, hist,
          hold     \* the application sweeps only once the adversarial blocks are over (everything handed over by then in one go)
mvars == <<ovars, stage, nextId, shape, blocks, reloads, unwinds, hist, hold>>

H0 == 10
ExpAt == H0 + 3            \* HTLC expiry: two blocks after the commitment confirms
AR == 2                    \* ANTI_REORG_DELAY of the model
Owner == 1                 \* whose commitment confirms (the cheater in revoked mode)
Other == 0

\* the HTLC outputs a commitment may carry; `pk`: the preimage is known to the receiver at closing
\* (aggregated second-stage transactions need two HTLCs of one kind: a second claimed HTLC when the cheater's
\*  shapes are explored)
Menu == { [k |-> "offered", amt |-> 5000, hash |-> 1, pk |-> FALSE],
          [k |-> "received", amt |-> 6000, hash |-> 2, pk |-> TRUE],
          [k |-> "received", amt |-> 7000, hash |-> 3, pk |-> FALSE] }
        \cup (IF "fee_between" \in Layouts THEN {[k |-> "received", amt |-> 8000, hash |-> 4, pk |-> TRUE]} ELSE {})
        \cup (IF "dup_hash" \in Features THEN {[k |-> "received", amt |-> 7500, hash |-> 3, pk |-> FALSE]} ELSE {})

RECURSIVE SeqOf(_)
SeqOf(S) == IF S = {} THEN <<>> ELSE LET x == CHOOSE y \in S : \A z \in S : y.hash <= z.hash
                                     IN <<x>> \o SeqOf(S \ {x})
ComOuts(S) ==
  LET hs == SeqOf(S) IN
  [i \in 1..(Len(hs) + 2) |->
     IF i <= Len(hs) THEN [v |-> i - 1, k |-> hs[i].k, amt |-> hs[i].amt, hash |-> hs[i].hash, exp |-> ExpAt, msat |-> 0]
     ELSE IF i = Len(hs) + 1 THEN [v |-> i - 1, k |-> "to_local", amt |-> 400000, hash |-> 0, exp |-> 0, msat |-> 0]
     ELSE [v |-> i - 1, k |-> "to_remote", amt |-> 500000, hash |-> 0, exp |-> 0, msat |-> 0]]
\* who knows which preimage when the channel closes: the receiver of a `pk` HTLC
KnownAtClose(S, n) == {h.hash : h \in {x \in S : x.pk /\ ((n = Owner /\ x.k = "received") \/ (n # Owner /\ x.k = "offered"))}}

Rec(by, ins, nout, sweep) ==
  [by |-> by, ins |-> ins, wal |-> [k \in 1..Len(ins) |-> FALSE], nout |-> nout,
   outwal |-> [k \in 1..nout |-> sweep], feerate |-> 253, ok |-> TRUE, valid |-> TRUE, final |-> TRUE,
   sweep |-> sweep, dup |-> FALSE, bh |-> height, own |-> 253, weight |-> 1, inval |-> 0, onrb |-> FALSE, old |-> FALSE]

\* The node with two channels (the victim in revoked mode) and what its other channel -- closed unilaterally as
\* well, its commitment `0` confirmed somewhere below -- hands over at moments of the environment's choosing:
\* outputs that need that channel's signer (the delayed balance / the balance on the peer's commitment).
Hub == Other
OtherOuts == IF "second" \in Features THEN {<<0, 1>>, <<0, 2>>} ELSE {}

MCInit ==
  /\ OInit
  /\ stage = "start" /\ nextId = 3 /\ shape \in SUBSET Menu /\ ("few" \in Features => Cardinality(shape) <= 1) /\ blocks = 0 /\ reloads = 0 /\ unwinds = 0
  /\ hist = <<>>
  /\ hold \in (IF "second" \in Features THEN BOOLEAN ELSE {FALSE})

Live2 == IF Mode = "revoked" THEN {Other} ELSE {0, 1}

\* ---- the run begins: parameters, the commitment is broadcast and confirms
MOpen ==
  /\ stage = "start" /\ par.kind = "none"
  /\ Open([kind |-> Mode, live |-> Live2, owner |-> Owner, delays |-> <<144, 144>>, anti_reorg |-> AR,
           chan_type |-> "static", h |-> H0, est |-> <<253, 253>>])
  /\ UNCHANGED <<stage, nextId, shape, blocks, reloads, unwinds, hist, hold>>
MBcastCommit ==
  /\ stage = "start" /\ par.kind # "none" /\ 2 \notin DOMAIN txs
  /\ Bcast(2, Rec(IF Mode = "revoked" THEN Cheater ELSE 3, <<<<1, 0>>>>, Cardinality(shape) + 2, FALSE))
  /\ UNCHANGED <<stage, nextId, shape, blocks, reloads, unwinds, hist, hold>>
MCommit ==
  /\ stage = "start" /\ 2 \in DOMAIN txs /\ ~HasCom
  /\ Commit([tx |-> 2, owner |-> Owner, revoked |-> (Mode = "revoked"), h |-> H0 + 1, outs |-> ComOuts(shape), gone |-> FALSE,
             known |-> <<KnownAtClose(shape, 0), KnownAtClose(shape, 1)>>])
  /\ UNCHANGED <<stage, nextId, shape, blocks, reloads, unwinds, hist, hold>>
MFirstBlock ==
  /\ stage = "start" /\ HasCom
  /\ Block(height + 1, {2})
  /\ stage' = "react"
  /\ UNCHANGED <<nextId, shape, blocks, reloads, unwinds, hist, hold>>

\* ---- what an ideal monitor of node n has to claim right now
\* planted defects (spec mutants).  "ignore_unpaired": second-stage transactions whose numbers of inputs
\* and outputs differ are not recognised; "no_reissue": an output that was claimed once is never claimed
\* again, whatever happened to that claim.
SeenClaimable ==
  IF Defect = "ignore_unpaired"
    THEN {OP(r) : r \in {x \in Outs : x.k \in {"to_local", "offered", "received"}}}
         \cup UNION {SecondStage(t) : t \in {u \in DOMAIN conf : txs[u].by = Cheater /\ u # com.tx /\ Len(txs[u].ins) = txs[u].nout}}
    ELSE CheaterClaimable
ClaimedBefore(n, o) == Defect = "no_reissue" /\ \E t \in DOMAIN txs : txs[t].by = n /\ ~txs[t].sweep /\ o \in ChanIns(t)
Needs(n) ==
  IF ~ComConf THEN {}
  ELSE IF com.revoked
    THEN IF n = Victim THEN {o \in SeenClaimable : ~Spent(o) /\ ~HasLiveClaim(n, o) /\ ~ClaimedBefore(n, o)} ELSE {}
    \* ("first_match": of several HTLCs with one payment hash only the first is claimed with the preimage)
    ELSE {OP(r) : r \in {x \in Outs : /\ IsHtlc(x) /\ ~Spent(OP(x)) /\ ~HasLiveClaim(n, OP(x)) /\ ~ClaimedBefore(n, OP(x))
                                       /\ ((Defect = "first_match" /\ Inbound(n, x)) => (\A y \in Outs : (IsHtlc(y) /\ y.hash = x.hash) => x.v <= y.v))
                                       /\ \/ (Outbound(n, x) /\ height >= x.exp)
                                          \/ (Inbound(n, x) /\ x.hash \in known[n + 1])}}
SeqOfOps(S) == LET RECURSIVE F(_)
                   F(T) == IF T = {} THEN <<>> ELSE LET x == CHOOSE y \in T : \A z \in T : (y[1] < z[1] \/ (y[1] = z[1] /\ y[2] <= z[2])) IN <<x>> \o F(T \ {x})
               IN F(S)
\* The ideal monitor's reaction is one deterministic sequence of observed actions (lower node
\* first; claims, then hand-overs, then sweeps, then balances) -- the order among them is not
\* observable from outside a checkpoint, so exploring one order loses nothing.
Buried(t) == Confirmed(t) /\ height >= conf[t] + AR - 1
Produced(n) ==
  {OP(r) : r \in {x \in Outs : Main(n, x) /\ ComConf}}
  \cup {<<t, 0>> : t \in {u \in DOMAIN conf : txs[u].by = n /\ ~txs[u].sweep /\ u # com.tx}}
Reportable(n) == {o \in Produced(n) : Buried(o[1])}
Unswept(n) == {o \in handed[n + 1] : ~\E t \in DOMAIN txs : txs[t].sweep /\ o \in Ins(t)}
BalItems(n) ==
  IF ~ComConf \/ com.revoked THEN <<>>
  ELSE LET S == {r \in Outs : Mine(n, r) /\ ~HandedOver(n, r) /\ ~TakenByPeer(n, r)}
           RECURSIVE F(_)
           F(T) == IF T = {} THEN <<>> ELSE LET x == CHOOSE y \in T : \A z \in T : y.v <= z.v
                                            IN <<[k |-> "awaiting", amt |-> x.amt, hash |-> x.hash, hh |-> 0, src |-> ""]>> \o F(T \ {x})
       IN F(S)
CanReact(n) == n \in par.live /\ Needs(n) # {}
CanSpend(n) == n \in par.live /\ ComConf /\ Reportable(n) \ handed[n + 1] # {}
\* planted defect "one_signer": the node's spender keeps the first channel's signer for a whole call -- asked
\* (as OutputSweeper asks) for everything it holds, it fails as soon as that spans two channels
SweepRefused(n) == Defect = "one_signer" /\ \E a, b \in Unswept(n) : (a[1] = 0) # (b[1] = 0)
CanSweep(n) == n \in par.live /\ Unswept(n) # {} /\ (hold => blocks >= MaxBlocks) /\ ~SweepRefused(n)
\* one call for everything the node holds, or one call for a single output
SweepSets(n) == IF "second" \in Features THEN {Unswept(n)} \cup (IF hold THEN {} ELSE {{o} : o \in Unswept(n)})
                ELSE {{CHOOSE x \in Unswept(n) : TRUE}}
CanBal(n) == n \in par.live /\ bal[n + 1] # BalItems(n)
First(P(_), n) == P(n) /\ \A m \in {0, 1} : m < n => ~P(m)
None(P(_)) == \A m \in {0, 1} : ~P(m)

MReact(n) ==
  /\ stage = "react" /\ First(CanReact, n)
  /\ Bcast(nextId, Rec(n, SeqOfOps(Needs(n)), 1, FALSE))
  /\ nextId' = nextId + 1
  /\ UNCHANGED <<stage, shape, blocks, reloads, unwinds, hist, hold>>
MSpendable(n) ==
  /\ stage = "react" /\ None(CanReact) /\ First(CanSpend, n)
  /\ LET o == CHOOSE x \in Reportable(n) \ handed[n + 1] : TRUE IN
        Spendable(n, <<[op |-> o, confirmed |-> TRUE, amt |-> 1, real_amt |-> 1]>>)
  /\ UNCHANGED <<stage, nextId, shape, blocks, reloads, unwinds, hist, hold>>
MSweep(n) ==
  /\ stage = "react" /\ None(CanReact) /\ None(CanSpend) /\ First(CanSweep, n)
  /\ \E S \in SweepSets(n) :
        /\ Sweep(n, nextId, Rec(n, SeqOfOps(S), 1, TRUE), S, TRUE)
        /\ hist' = IF Cardinality(S) > 1 THEN Append(hist, [op |-> "sweep", node |-> n, k |-> Cardinality(S),
                                                              other |-> Cardinality({o \in S : o[1] = 0})]) ELSE hist
  /\ nextId' = nextId + 1
  /\ UNCHANGED <<stage, shape, blocks, reloads, unwinds, hold>>
MBal(n) ==
  /\ stage = "react" /\ None(CanReact) /\ None(CanSpend) /\ None(CanSweep) /\ First(CanBal, n)
  /\ Balances(n, BalItems(n))
  /\ UNCHANGED <<stage, nextId, shape, blocks, reloads, unwinds, hist, hold>>

Settled(n) == ~CanReact(n) /\ ~CanSpend(n) /\ ~CanSweep(n) /\ ~CanBal(n)
MCheck ==
  /\ stage = "react" /\ \A n \in par.live : Settled(n)
  /\ Checkpoint(height)
  /\ stage' = IF blocks >= MaxBlocks THEN "fair" ELSE "idle"
  /\ UNCHANGED <<nextId, shape, blocks, reloads, unwinds, hist, hold>>

\* ---- the adversarial environment
\* second-stage transactions the cheater may get confirmed now
CheatOpts == IF ~HasCom \/ ~com.revoked THEN {}
             ELSE {r \in Outs : /\ IsHtlc(r) /\ ~Spent(OP(r))
                                /\ \/ (r.k = "offered" /\ height >= r.exp)
                                   \/ (r.k = "received" /\ r.hash \in com.known[Owner + 1])}
\* a transaction can be mined only with (or after) its parents, and never once a parent is forgotten
Minable == {t \in DOMAIN txs : Live(t)}
ConflictFree(ids) == \A a, b \in ids : a # b => Ins(a) \cap Ins(b) = {}
ParentsOK(ids) == \A t \in ids : \A o \in Ins(t) : o[1] \in DOMAIN txs => (Confirmed(o[1]) \/ o[1] \in ids)
\* The shapes of the cheater's second-stage transaction for the HTLC outpoints hs (a sequence): where its
\* own (foreign) inputs F stand and how many outputs there are.  [ins, wal, nout]; the outputs at the
\* positions of the HTLC inputs are the HTLCs' delayed outputs, all others are the cheater's own.
Foreign(k) == <<0, k>>
Layout(name, hs, id) ==
  LET n == Len(hs)
      F == <<Foreign(2 * id)>>
      G == <<Foreign(2 * id + 1)>>
      no == [k \in 1..n |-> FALSE]
  IN CASE name = "plain"            -> [ins |-> hs, wal |-> no, nout |-> n]
       [] name = "fee_after"        -> [ins |-> hs \o F, wal |-> no \o <<TRUE>>, nout |-> n]
       [] name = "fee_after_change" -> [ins |-> hs \o F, wal |-> no \o <<TRUE>>, nout |-> n + 1]
       [] name = "fee_before"       -> [ins |-> F \o hs, wal |-> <<TRUE>> \o no, nout |-> n + 1]
       [] name = "fee_between"      -> [ins |-> <<hs[1]>> \o F \o Tail(hs), wal |-> <<FALSE, TRUE>> \o Tail(no), nout |-> n + 1]
       [] name = "extra_out"        -> [ins |-> hs, wal |-> no, nout |-> n + 2]
       [] name = "two_fees"         -> [ins |-> F \o hs \o G, wal |-> <<TRUE>> \o no \o <<TRUE>>, nout |-> n + 1]
\* for the driver script: per input / output the position (1-based) of the HTLC in hs, 0 = the cheater's own
LayoutIns(l, hs) == [k \in 1..Len(l.ins) |-> IF l.wal[k] THEN 0 ELSE CHOOSE j \in 1..Len(hs) : hs[j] = l.ins[k]]
LayoutOuts(l, hs) == [k \in 1..l.nout |-> IF k <= Len(l.ins) /\ ~l.wal[k] THEN CHOOSE j \in 1..Len(hs) : hs[j] = l.ins[k] ELSE 0]
HashOf(o) == (CHOOSE r \in Outs : OP(r) = o).hash
\* one adversarial block: the cheater's second-stage transaction for the subset S confirms together
\* with the transactions of the senders in W (newest version of each claim)
MBlockAdv(W, S, L) ==
  /\ stage = "idle" /\ blocks < MaxBlocks
  /\ S \subseteq CheatOpts
  /\ (S = {} => L = "plain") /\ (L = "fee_between" => Cardinality(S) >= 2)
  \* (both signatures on an HTLC transaction commit to nLockTime: one transaction holds HTLC-success
  \*  inputs only or HTLC-timeout inputs of one expiry only; the "plain" shape with a mixed set stands for
  \*  separate transactions in one block)
  /\ (L # "plain" => \A a, b \in S : a.k = b.k)
  /\ LET hs == SeqOfOps({OP(r) : r \in S})
         lay == Layout(L, hs, nextId)
         cheatTx == IF S = {} THEN {} ELSE {nextId}
         txs1 == IF S = {} THEN txs
                 ELSE [x \in DOMAIN txs \cup {nextId} |->
                         IF x = nextId THEN [Rec(Cheater, lay.ins, lay.nout, FALSE) EXCEPT !.wal = lay.wal] ELSE txs[x]]
         cand == {t \in Minable : txs[t].by \in W /\ \A o \in Ins(t) : o \notin {OP(r) : r \in S}}
     IN \E ids \in SUBSET cand :
          /\ ConflictFree(ids) /\ ParentsOK(ids)
          /\ \A t \in cand \ ids : (\E u \in ids : Ins(t) \cap Ins(u) # {}) \/ ~ParentsOK(ids \cup {t})       \* maximal
          /\ height' = height + 1 /\ phase' = "op"
          /\ txs' = txs1
          /\ conf' = [x \in DOMAIN conf \cup ids \cup cheatTx |-> IF x \in DOMAIN conf THEN conf[x] ELSE height + 1]
          /\ starved' = <<starved[1] \/ LeftOut(0, ids), starved[2] \/ LeftOut(1, ids)>>
          /\ UNCHANGED <<par, com, known, handed, bal, asked, est, gaveup>> /\ rb' = NoRb
          /\ hist' = Append(hist, [op |-> "block", who |-> W, cheat |-> {r.hash : r \in S}, h |-> height + 1,
                                   seq |-> [k \in 1..Len(hs) |-> HashOf(hs[k])], layout |-> L,
                                   ins |-> IF S = {} THEN <<>> ELSE LayoutIns(lay, hs),
                                   outs |-> IF S = {} THEN <<>> ELSE LayoutOuts(lay, hs)])
  /\ nextId' = IF S = {} THEN nextId ELSE nextId + 1
  /\ blocks' = blocks + 1 /\ stage' = "react"
  /\ UNCHANGED <<shape, reloads, unwinds, hold>>

\* The chain is reorganised down to just below the commitment ("commit"), the cheater's lowest
\* second-stage transaction ("stage2") or the victim's / nodes' lowest confirmed claim ("claim"), `x` blocks
\* further if there is room; with `evict` the network forgets every claim of a node under test that hangs
\* on a transaction that left the chain.  The commitment and the cheater's transactions are mined again by
\* MBlockBack or, at the latest, by the fair blocks -- at the same height or a later one.
\* Fork points around the block B of the target transaction: x = 0 is B - 1 (the transaction leaves the
\* chain), x = 1 is B - 2; x = -1 is EXACTLY B (the transaction stays, whatever was built on top of its
\* block goes -- what the node recorded for block B must survive, what it recorded above must not), x = -2
\* is B + 1.  (Blocks on top of B need not hold any transaction of the run.)
UnwindExtras == {-2, -1, 0, 1}
UnwindTo(target) ==
  LET hts == IF target = "commit" THEN {conf[com.tx]}
             ELSE IF target = "stage2" THEN {conf[t] : t \in {u \in DOMAIN conf : txs[u].by = Cheater /\ u # com.tx}}
             ELSE {conf[t] : t \in {u \in DOMAIN conf : txs[u].by \in par.live /\ ~txs[u].sweep}}
  IN IF hts = {} THEN -1 ELSE Min(hts) - 1
MUnwind(target, x, evict) ==
  /\ stage = "idle" /\ unwinds < MaxUnwind /\ ComConf
  /\ UnwindTo(target) >= H0
  /\ LET h == UnwindTo(target) - x
         gone == {t \in DOMAIN conf : conf[t] > h}
         ev == IF evict THEN {t \in DOMAIN txs : /\ txs[t].by \in par.live /\ ~txs[t].sweep /\ (t \notin DOMAIN conf \/ t \in gone)
                                                  /\ \E o \in Ins(t) : o[1] \in gone \/ (t \notin gone /\ Spent(o) /\ SpenderOf(o) \in gone)}
               ELSE {}
     IN /\ h >= H0
        /\ Rewind(h, ev)
        /\ hist' = Append(hist, [op |-> "unwind", target |-> target, extra |-> x, evict |-> evict, h |-> h])
  /\ unwinds' = unwinds + 1 /\ stage' = "react"
  /\ UNCHANGED <<nextId, shape, blocks, reloads, hold>>
\* the transactions that left the chain come back (those of the cheater / the harness; with W the nodes' too)
MBlockBack(W) ==
  /\ stage = "idle" /\ unwinds > 0
  /\ LET back == {t \in Minable : txs[t].by \in {Cheater, 3}}
         cand == {t \in Minable : txs[t].by \in W}
     IN /\ back # {}
        /\ \E ids \in SUBSET cand :
             /\ ConflictFree(ids \cup back) /\ ParentsOK(ids \cup back)
             /\ \A t \in cand \ ids : (\E u \in ids \cup back : Ins(t) \cap Ins(u) # {}) \/ ~ParentsOK(ids \cup back \cup {t})
             /\ Block(height + 1, ids \cup back)
  /\ stage' = "react"
  /\ hist' = Append(hist, [op |-> "back", who |-> W, h |-> height + 1])
  /\ UNCHANGED <<nextId, shape, blocks, reloads, unwinds, hold>>

\* a fair block: everything minable confirms (newest first)
MBlockFair ==
  /\ stage = "fair"
  /\ \E ids \in SUBSET Minable :
        /\ ConflictFree(ids) /\ ParentsOK(ids)
        /\ \A t \in Minable \ ids : (\E u \in ids : Ins(t) \cap Ins(u) # {}) \/ ~ParentsOK(ids \cup {t})
        /\ Block(height + 1, ids)
  /\ stage' = "react"
  /\ UNCHANGED <<nextId, shape, blocks, reloads, unwinds, hist, hold>>

\* an output of the node's other channel matures and is reported
MOther(o) ==
  /\ stage \in {"idle", "fair"} /\ Hub \in par.live
  /\ o \in OtherOuts \ handed[Hub + 1]
  /\ ~\E t \in DOMAIN txs : o \in Ins(t)
  /\ Spendable(Hub, <<[op |-> o, confirmed |-> TRUE, amt |-> 1, real_amt |-> 1]>>)
  /\ stage' = "react"
  /\ hist' = Append(hist, [op |-> "other", node |-> Hub, out |-> o[2]])
  /\ UNCHANGED <<nextId, shape, blocks, reloads, unwinds, hold>>

\* a preimage turns up after the close (honest mode)
MPreimage(n, r) ==
  /\ stage = "idle" /\ Mode = "honest" /\ n \in par.live /\ HasCom
  /\ r \in Outs /\ Inbound(n, r) /\ r.hash \notin known[n + 1] /\ ~Spent(OP(r)) /\ height < r.exp
  /\ Preimage(n, r.hash)
  /\ stage' = "react"
  /\ hist' = Append(hist, [op |-> "preimage", node |-> n, hash |-> r.hash])
  /\ UNCHANGED <<nextId, shape, blocks, reloads, unwinds, hold>>

MReload(n) ==
  /\ stage = "idle" /\ n \in par.live /\ reloads < MaxReload
  /\ Silent /\ reloads' = reloads + 1
  /\ hist' = Append(hist, [op |-> "reload", node |-> n])
  /\ UNCHANGED <<stage, nextId, shape, blocks, unwinds, hold>>

AllDone == /\ ComConf /\ Minable = {}
           /\ (Hub \in par.live => OtherOuts \subseteq handed[Hub + 1])
           /\ \A n \in par.live : Settled(n) /\ Len(bal[n + 1]) = 0 /\ Produced(n) \subseteq handed[n + 1]
           /\ \A r \in Outs : (IsHtlc(r) /\ ~Spent(OP(r))) => \A n \in par.live : ~Outbound(n, r) /\ ~(com.revoked /\ n = Victim)
MFinal ==
  /\ stage = "fair" /\ phase = "check" /\ AllDone
  /\ Final([unswept |-> 0, mempool_left |-> <<>>, other_left |-> 0])
  /\ stage' = "done"
  /\ UNCHANGED <<nextId, shape, blocks, reloads, unwinds, hist, hold>>
MDone == stage = "done" /\ UNCHANGED mvars

Senders == IF Mode = "revoked" THEN {{}, {Other}} ELSE {{}, {0}, {1}, {0, 1}}
MCNext ==
  \/ MOpen \/ MBcastCommit \/ MCommit \/ MFirstBlock
  \/ \E n \in {0, 1} : MReact(n) \/ MSpendable(n) \/ MSweep(n) \/ MBal(n) \/ MReload(n)
  \/ MCheck
  \/ \E W \in Senders : \E S \in SUBSET (IF HasCom THEN Outs ELSE {}) : \E L \in Layouts : MBlockAdv(W, S, L)
  \/ \E target \in {"commit", "stage2", "claim"} : \E x \in UnwindExtras : \E evict \in BOOLEAN : MUnwind(target, x, evict)
  \/ \E W \in Senders : MBlockBack(W)
  \/ MBlockFair
  \/ \E n \in {0, 1} : \E r \in (IF HasCom THEN Outs ELSE {}) : MPreimage(n, r)
  \/ \E o \in OtherOuts : MOther(o)
  \/ MFinal \/ MDone

MCSpec == MCInit /\ [][MCNext]_mvars

View == <<ovars, stage, nextId, shape, blocks, reloads, unwinds, hold>>
\* bounded liveness: under fair mining a run is over within a few blocks
Bounded == height <= H0 + 1 + MaxBlocks + 4 * AR + 6 + 4 * MaxUnwind

EmitScripts ==
  stage = "done" =>
    PrintT(<<"SCRIPT", ToJson([mode |-> Mode, shape |-> SeqOf(shape), ops |-> hist,
                               second |-> ("second" \in Features), hold |-> hold])>>)
=============================================================================
