SPECIFICATION TraceSpec
CONSTANTS
  ReqTicks = 1
INVARIANT TermSane
INVARIANT OneHashPerId
INVARIANT OnePaymentPerId
POSTCONDITION TraceAccepted
CHECK_DEADLOCK FALSE
