SPECIFICATION Spec
CONSTANTS
  N = 2
  CheckAll = TRUE
INVARIANT BroadcastOnlyWhenAllDurable
INVARIANT NotStuck
INVARIANT EmitScripts
CHECK_DEADLOCK TRUE
