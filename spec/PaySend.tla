------------------------------ MODULE PaySend ------------------------------
(***************************************************************************)
(* C03 -- every outbound payment reaches a truthful terminal outcome.      *)
(*                                                                         *)
(* Stated only over what the paying user and the wire can observe:         *)
(*   - the result of each send_payment* call,                              *)
(*   - the update_add_htlc messages the payer emits and the                *)
(*     update_fulfill_htlc / update_fail_htlc messages handed to it,       *)
(*   - the update_fail_htlc messages emitted anywhere on the route (ground *)
(*     truth for "where did the path fail"),                               *)
(*   - claim_funds calls of recipients (ground truth for "the recipient    *)
(*     released the preimage"),                                            *)
(*   - the events the payer's user handles (PaymentSent, PaymentFailed,    *)
(*     PaymentPathFailed), list_recent_payments after a restart, manager   *)
(*     snapshots / restarts, and the payer's balances at quiescence.       *)
(*   - what the payer's own persister told it: a monitor write it reported  *)
(*     InProgress, and the user's call that reports it complete.            *)
(*   - what the chain shows once a channel has been closed: the commitment *)
(*     transaction that confirmed (its output values), and each spend of   *)
(*     one of its HTLC outputs, with the preimage (the recipient's claim   *)
(*     was settled through an on-chain HTLC output) or without (timeout).  *)
(* Nothing about pending_outbound_payments, session keys, retry counters   *)
(* or the event queue appears here.  Each operator is a guard (what the    *)
(* property demands of this observation) plus the update of the ghost      *)
(* state; the trace spec conjoins them with the recorded events, the       *)
(* design model (PaySendMC) with the steps of the payer's algorithm.       *)
(***************************************************************************)
EXTENDS Integers, Sequences, FiniteSets, FiniteSetsExt, TLC

VARIABLES
  pay,      \* [pid -> [node, hash, amt, chs, fixed, gen, term, fee, rep, dead, refd, intf, owed, blame, solo]]  (gen: how often the id was accepted)
            \*   chs: the first-hop channel of every part of the first attempt (the route the user / its router chose), when known
            \*   (`fixed`); refd: the first-hop channels of the parts the payer refused at once (PaymentPathFailed, InitialSend);
            \*   intf: the first-hop channels of the parts the payer had accepted but failed itself before they were ever offered
            \*   to the peer (a PaymentPathFailed that no update_fail_htlc on the path explains, while a part waits on that channel);
            \*   solo: no other payment id of the run has used the payment hash
  ht,       \* [<<chan, adder, id>> -> [hash, pid, gen, st, amt]]   every HTLC offered anywhere; pid = 0: not a payer's own part
            \*   st: "flight" | "ful" | "fail" | "lost"; an HTLC stays in flight after its channel was closed for as long as
            \*   an output of its value sits unspent in the confirmed (or a not yet confirmed) commitment
  pidOf,    \* [hash -> pid]  the payment id the payer last used this hash with
  released, \* set of hashes whose preimage a recipient released (claim_funds was called)
  failSeen, \* set of <<hash, chan>>: an update_fail_htlc for that hash was emitted on that channel
  snap,     \* [node -> [pid -> [term, owed]]]  what the last manager snapshot of the node knew
  spent,    \* [node -> msat]  sum of (amount + reported fee) over the node's PaymentSent events
  feeKnown, \* [node -> BOOLEAN]  every PaymentSent of the node reported its fee
  initBal,  \* [node -> msat]
  gotAdd,   \* set of nodes that were ever offered an HTLC (they are not pure payers)
  stale,    \* a node restarted from a manager snapshot its monitors had overtaken: channels were closed
  wip       \* set of <<node, chan, update id>>: monitor writes the node's persister reported InProgress and that the
            \*   user has not yet reported complete

svars == <<pay, ht, pidOf, released, failSeen, snap, spent, feeKnown, initBal, gotAdd, stale, wip>>

Pids == DOMAIN pay
Own(pid) == {k \in DOMAIN ht : ht[k].pid = pid /\ ht[k].gen = pay[pid].gen}
InFlight(pid) == \E k \in Own(pid) : ht[k].st = "flight"
Settled(pid) == \E k \in Own(pid) : ht[k].st = "ful"
Lost(pid) == \E k \in Own(pid) : ht[k].st = "lost"
(* The outcome of every part of a send call that returned Ok, at the time it returned:                       *)
(*   sent            its update_add_htlc left the payer (it is in `ht`),                                        *)
(*   refused         the payer could not hand it to the first-hop channel: PaymentPathFailed (InitialSend),     *)
(*   held            neither: the HTLC sits in the channel but cannot leave yet -- the monitor write that      *)
(*                   records it is still in flight (send_payment_along_path: MonitorUpdateInProgress), or it    *)
(*                   waits in the holding cell.  It is a pending HTLC of the payment although nothing of it is  *)
(*                   on the wire: it will be offered to the peer, or the payer fails it itself when it turns    *)
(*                   out to be unsendable once the channel can move again (`intf`, reported by a                *)
(*                   PaymentPathFailed like any other failed part).                                             *)
(* Counted per first-hop channel, so that a part a retry sends over another channel does not stand in for it.  *)
Count(sq, c) == Cardinality({i \in 1..Len(sq) : sq[i] = c})
SeqSet(sq) == {sq[i] : i \in 1..Len(sq)}
OutOn(pid, c) == Cardinality({k \in Own(pid) : k[1] = c /\ k[2] = pay[pid].node})
HeldOn(pid, c) == Count(pay[pid].chs, c) > OutOn(pid, c) + Count(pay[pid].refd, c) + Count(pay[pid].intf, c)
Held(pid) == pay[pid].fixed /\ \E c \in SeqSet(pay[pid].chs) : HeldOn(pid, c)
\* every part the payer meant to send exists as an HTLC or was refused at once
AllPartsOut(pid) == ~Held(pid)
\* the channel of a held part has a monitor write in flight (why it is held; recorded for the runs' statistics)
HeldByWrite(pid) == pay[pid].fixed /\ \E c \in SeqSet(pay[pid].chs) : HeldOn(pid, c) /\ \E w \in wip : w[1] = pay[pid].node /\ w[2] = c

SInit ==
  /\ pay = <<>> /\ ht = <<>> /\ pidOf = <<>> /\ released = {} /\ failSeen = {}
  /\ snap = <<>> /\ spent = <<>> /\ feeKnown = <<>> /\ initBal = <<>> /\ gotAdd = {} /\ stale = FALSE /\ wip = {}

SOpen(nodes, bal) ==
  /\ pay' = <<>> /\ ht' = <<>> /\ pidOf' = <<>> /\ released' = {} /\ failSeen' = {} /\ gotAdd' = {} /\ stale' = FALSE /\ wip' = {}
  /\ snap' = [n \in nodes |-> <<>>]
  /\ spent' = [n \in nodes |-> 0]
  /\ feeKnown' = [n \in nodes |-> TRUE]
  /\ initBal' = bal

Put(f, k, v) == [x \in DOMAIN f \cup {k} |-> IF x = k THEN v ELSE f[x]]

(* ---- send_payment* returned `res` ("ok" | "dup" | "err").  chs: first-hop channel of every part of the  *)
(* route of the first attempt (meaningful when `fixed`); handled: the user had handled every event queued   *)
(* before the call.                                                                                          *)
(* DupRefused: while any HTLC of the id is unresolved -- on the wire, or held back in the payer (known for  *)
(* sure once the PaymentPathFailed events of the parts refused at once have been handled) -- a second send  *)
(* is refused.                                                                                               *)
SSend(node, pid, hash, amt, chs, fixed, handled, res) ==
  LET rec == [node |-> node, hash |-> hash, amt |-> amt, chs |-> chs, fixed |-> fixed,
              gen |-> IF pid \in Pids THEN pay[pid].gen + 1 ELSE 1, term |-> "none", fee |-> -1, rep |-> FALSE, dead |-> FALSE, refd |-> <<>>, intf |-> <<>>,
              \* the id was re-used after all its HTLCs failed but before the user handled the
              \* PaymentFailed of the earlier use (or a legal repetition of it): `owed` such
              \* events may still arrive
              owed |-> IF pid \in Pids
                       THEN pay[pid].owed + (IF pay[pid].term = "none" \/ (pay[pid].term = "failed" /\ pay[pid].rep) THEN 1 ELSE 0)
                       ELSE 0,
              \* the channel named by PaymentPathFailed is compared with the ground truth only while it is
              \* unambiguous: first use of the id, hash used by no other id, no restart (events of an earlier
              \* use, of another payment of the same hash, or repetitions cannot be told apart)
              blame |-> pid \notin Pids /\ hash \notin DOMAIN pidOf,
              solo |-> hash \notin DOMAIN pidOf \/ (pidOf[hash] = pid /\ pid \in Pids /\ pay[pid].solo)]
      other == IF hash \in DOMAIN pidOf /\ pidOf[hash] # pid /\ pidOf[hash] \in Pids THEN {pidOf[hash]} ELSE {}
      base == [p \in Pids |-> IF p \in other THEN [pay[p] EXCEPT !.blame = FALSE, !.solo = FALSE] ELSE pay[p]]
  IN
  /\ (res = "ok" /\ pid \in Pids) => (~InFlight(pid) /\ (handled => ~Held(pid)))
  /\ pidOf' = IF res = "ok" THEN Put(pidOf, hash, pid) ELSE pidOf
  /\ pay' = IF res = "ok" THEN Put(base, pid, rec) ELSE pay
  /\ UNCHANGED <<ht, released, failSeen, snap, spent, feeKnown, initBal, gotAdd, stale, wip>>

(* ---- an update_add_htlc leaves `node` (retransmissions after a reconnection repeat the key). *)
(* A payment that already reported its outcome, or that a restarted node forgot, gets no new HTLC. *)
(* The wire does not say which payment an HTLC belongs to: it is a part of the payment the payer last used *)
(* the hash with -- or, when a part of an earlier payment id of the same hash still waits inside the payer   *)
(* on that very channel (behind a monitor write / in the holding cell: an add may leave long after its send  *)
(* call returned), possibly that part.  The run is accepted if some attribution satisfies every guard.       *)
SAdd(node, chan, id, hash, amt) ==
  LET k == <<chan, node, id>>
      mine == hash \in DOMAIN pidOf /\ pidOf[hash] \in Pids /\ pay[pidOf[hash]].node = node
      live(p) == pay[p].term = "none" /\ ~pay[p].dead
      waiting == IF mine THEN {p \in Pids \ {pidOf[hash]} : pay[p].node = node /\ pay[p].hash = hash /\ live(p)
                                                             /\ pay[p].fixed /\ HeldOn(p, chan)}
                 ELSE {}
  IN /\ IF k \in DOMAIN ht THEN ht' = ht
        ELSE \E o \in (IF mine THEN {pidOf[hash]} ELSE {0}) \cup waiting :
             /\ o # 0 => live(o)
             /\ ht' = Put(ht, k, [hash |-> hash, pid |-> o,
                                   gen |-> IF o # 0 THEN pay[o].gen ELSE 0, st |-> "flight", amt |-> amt])
     /\ UNCHANGED <<pay, pidOf, released, failSeen, snap, spent, feeKnown, initBal, gotAdd, stale, wip>>

(* ---- an update_add_htlc is handed to `node`: it is not a pure payer. *)
SGotAdd(node) == gotAdd' = gotAdd \cup {node} /\ UNCHANGED <<pay, ht, pidOf, released, failSeen, snap, spent, feeKnown, initBal, stale, wip>>

(* ---- an update_fail_htlc is emitted on `chan` towards `adder` (ground truth of the failing hop). *)
SFailMsg(chan, adder, id) ==
  LET k == <<chan, adder, id>> IN
  /\ failSeen' = IF k \in DOMAIN ht THEN failSeen \cup {<<ht[k].hash, chan>>} ELSE failSeen
  /\ UNCHANGED <<pay, ht, pidOf, released, snap, spent, feeKnown, initBal, gotAdd, stale, wip>>

(* ---- an update_fulfill_htlc / update_fail_htlc is handed to the node that offered the HTLC.  *)
(* Duplicates (retransmission after a reconnection, replay after a restart) change nothing.      *)
SResolve(chan, adder, id, how) ==
  LET k == <<chan, adder, id>> IN
  /\ ht' = IF k \in DOMAIN ht /\ ht[k].st = "flight" THEN [ht EXCEPT ![k].st = how] ELSE ht
  /\ UNCHANGED <<pay, pidOf, released, failSeen, snap, spent, feeKnown, initBal, gotAdd, stale, wip>>

(* ---- a recipient calls claim_funds for `hash`: from now on the preimage is released. *)
SClaimCall(hash) ==
  /\ released' = released \cup {hash}
  /\ UNCHANGED <<pay, ht, pidOf, failSeen, snap, spent, feeKnown, initBal, gotAdd, stale, wip>>

(* ---- the payer's user handles Event::PaymentSent.                                        *)
(* SentTruthful: the recipient released the preimage and the reported preimage matches.     *)
(* Exactly one terminal event; a repetition only after a restart from a snapshot that did   *)
(* not know the event had been handled; never after PaymentFailed; never for a payment a    *)
(* restarted node no longer listed.                                                         *)
SEvSent(node, pid, hash, preimageOk, fee) ==
  /\ pid \in Pids /\ pay[pid].node = node /\ pay[pid].hash = hash
  /\ hash \in released
  /\ preimageOk
  /\ ~pay[pid].dead
  /\ pay[pid].term = "none" \/ (pay[pid].term = "sent" /\ pay[pid].rep)
  /\ pay' = [pay EXCEPT ![pid].term = "sent", ![pid].rep = FALSE, ![pid].fee = fee]
  /\ IF pay[pid].term = "none"
     THEN /\ spent' = [spent EXCEPT ![node] = @ + pay[pid].amt + (IF fee >= 0 THEN fee ELSE 0)]
          /\ feeKnown' = [feeKnown EXCEPT ![node] = @ /\ fee >= 0]
     ELSE UNCHANGED <<spent, feeKnown>>
  /\ UNCHANGED <<ht, pidOf, released, failSeen, snap, initBal, gotAdd, stale, wip>>

(* ---- the payer's user handles Event::PaymentFailed.                                      *)
(* FailedTruthful: no part was settled and none is still pending: in flight, or held back in *)
(* the payer behind a monitor write that has not completed / in a holding cell (AllPartsOut),*)
(* and the payer's own channels list no HTLC of the payment any more (pend: the number of    *)
(* entries of that payment hash in ChannelDetails::pending_outbound_htlcs over the node's    *)
(* list_channels when the event is handled; compared while no other id uses the hash).       *)
SEvFailed(node, pid, pend) ==
  /\ pid \in Pids /\ pay[pid].node = node
  /\ \/ /\ pay[pid].owed > 0
        /\ pay' = [pay EXCEPT ![pid].owed = @ - 1]
     \/ /\ ~Settled(pid) /\ ~InFlight(pid) /\ AllPartsOut(pid)
        /\ pay[pid].solo => pend = 0
        /\ pay[pid].term = "none" \/ (pay[pid].term = "failed" /\ pay[pid].rep)
        /\ pay' = [pay EXCEPT ![pid].term = "failed", ![pid].rep = FALSE]
  /\ UNCHANGED <<ht, pidOf, released, failSeen, snap, spent, feeKnown, initBal, gotAdd, stale, wip>>

(* ---- Event::PaymentPathFailed.  BlameChannel: the named channel is the one at which the   *)
(* failure occurred: the hop the failing node received the HTLC on or the hop it could not   *)
(* use (both readings of "the channel responsible" are accepted); a recipient's rejection    *)
(* may name no channel.  blamed = 0: none named;  -1: a channel that is not in the network.  *)
MaxOf(S) == CHOOSE x \in S : \A y \in S : y <= x
SEvPathFailed(node, pid, hash, blamed, initial, path) ==
  LET K == {j \in 1..Len(path) : <<hash, path[j]>> \in failSeen}
      k == MaxOf(K)
  IN
  /\ pid \in Pids /\ pay[pid].node = node
  /\ IF ~pay[pid].blame THEN TRUE
     ELSE IF initial THEN blamed = 0 \/ (Len(path) > 0 /\ blamed = path[1])
     ELSE IF K = {} THEN TRUE     \* failed inside the payer itself: nothing to compare with
     ELSE IF k = Len(path) THEN blamed \in {path[k], 0}
     ELSE blamed \in {path[k], path[k + 1]}
  \* (events are handled in the order they were queued: while a PaymentFailed of an earlier use of the id is still
  \* owed, this event stems from that use, not from the parts of the present one)
  \* a failure that no update_fail_htlc on the path explains, on a first hop where a part of the payment still waits
  \* inside the payer: the payer failed that part itself (it found it unsendable when it freed the holding cell)
  \* (while such an event of an earlier use is owed the wire cannot tell which use this event belongs to: either reading
  \* is followed -- the id was used again before the events of the earlier use were handled)
  /\ \E present \in (IF pay[pid].owed = 0 THEN {TRUE} ELSE {TRUE, FALSE}) :
       pay' = IF initial /\ present THEN [pay EXCEPT ![pid].refd = Append(@, IF Len(path) > 0 THEN path[1] ELSE 0)]
              ELSE IF ~initial /\ present /\ K = {} /\ Len(path) > 0 /\ pay[pid].fixed /\ HeldOn(pid, path[1])
              THEN [pay EXCEPT ![pid].intf = Append(@, path[1])]
              ELSE pay
  /\ failSeen' = failSeen \ {<<hash, path[j]>> : j \in 1..Len(path)}
  /\ UNCHANGED <<ht, pidOf, released, snap, spent, feeKnown, initBal, gotAdd, stale, wip>>

(* ---- the node's manager is persisted / the node restarts from that snapshot.             *)
SSave(node) ==
  /\ snap' = [snap EXCEPT ![node] = [p \in {q \in Pids : pay[q].node = node} |->
                                      \* while a repetition is pending the restarted manager does not know the event was handled
                                      [term |-> IF pay[p].rep THEN "none" ELSE pay[p].term, owed |-> pay[p].owed]]]
  /\ UNCHANGED <<pay, ht, pidOf, released, failSeen, spent, feeKnown, initBal, gotAdd, stale, wip>>

(* isStale: the monitors were ahead of the snapshot (LDK closes those channels).  A part the crash  *)
(* caught before its update_add_htlc left the node is gone for good: the number of parts is no      *)
(* longer known from the send call.                                                                *)
SRestart(node, isStale) ==
  /\ pay' = [p \in Pids |->
       IF pay[p].node = node
       THEN [pay[p] EXCEPT !.rep = (pay[p].term # "none" /\ (p \notin DOMAIN snap[node] \/ snap[node][p].term = "none")),
                           !.blame = FALSE,
                           !.fixed = @ /\ ~isStale,
                           !.owed = IF p \in DOMAIN snap[node] /\ snap[node][p].owed > @ THEN snap[node][p].owed ELSE @]
       ELSE pay[p]]
  /\ stale' = (stale \/ isStale)
  /\ UNCHANGED <<ht, pidOf, released, failSeen, snap, spent, feeKnown, initBal, gotAdd, wip>>

(* ---- a commitment transaction of `chan` confirmed with output values `outs` (sat).  An HTLC in   *)
(* flight on that channel without an output of its value (dust, or not part of this commitment) can *)
(* no longer be claimed: it is forfeited / failed.  The others stay in flight until their output is *)
(* spent.                                                                                           *)
SChainCommit(chan, outs) ==
  LET noOutput(k) == k[1] = chan /\ (ht[k].amt \div 1000) \notin outs
      \* an off-chain fulfil that was handed to a payer which then restarted from a stale snapshot, before its user
      \* saw PaymentSent, may have been lost with the crash; without an output (dust) it cannot be repeated on chain:
      \* the amount is forfeited and either outcome may be reported
      unreported(k) == /\ ht[k].st = "ful" /\ stale /\ ht[k].pid \in Pids
                       /\ pay[ht[k].pid].gen = ht[k].gen /\ pay[ht[k].pid].term # "sent"
  IN
  /\ ht' = [k \in DOMAIN ht |-> IF noOutput(k) /\ ht[k].st = "flight" THEN [ht[k] EXCEPT !.st = "fail"]
                                 ELSE IF noOutput(k) /\ unreported(k) THEN [ht[k] EXCEPT !.st = "lost"]
                                 ELSE ht[k]]
  /\ UNCHANGED <<pay, pidOf, released, failSeen, snap, spent, feeKnown, initBal, gotAdd, stale, wip>>

(* ---- a confirmed transaction spends an HTLC output of `chan`'s commitment whose script commits   *)
(* to `hash`: with the preimage the recipient's claim was settled on-chain, without it the HTLC     *)
(* timed out.                                                                                       *)
SChainHtlc(chan, hash, preimage) ==
  /\ ht' = [k \in DOMAIN ht |-> IF k[1] = chan /\ ht[k].hash = hash /\ ht[k].st = "flight"
                                 THEN [ht[k] EXCEPT !.st = IF preimage THEN "ful" ELSE "fail"] ELSE ht[k]]
  /\ UNCHANGED <<pay, pidOf, released, failSeen, snap, spent, feeKnown, initBal, gotAdd, stale, wip>>

(* ---- the node's persister reported the write `id` of `chan`'s monitor InProgress / the user reports it   *)
(* complete (ChainMonitor::channel_monitor_updated).  Nothing is demanded of these observations themselves;  *)
(* they say why a part of a payment may be held back (HeldByWrite) and when a run is quiet.                  *)
SPersistInProgress(node, chan, id) ==
  /\ wip' = wip \cup {<<node, chan, id>>}
  /\ UNCHANGED <<pay, ht, pidOf, released, failSeen, snap, spent, feeKnown, initBal, gotAdd, stale>>
SPersistComplete(node, chan, id) ==
  /\ <<node, chan, id>> \in wip
  /\ wip' = wip \ {<<node, chan, id>>}
  /\ UNCHANGED <<pay, ht, pidOf, released, failSeen, snap, spent, feeKnown, initBal, gotAdd, stale>>

(* ---- list_recent_payments right after a restart.  ForgottenIsDead: a payment that is no   *)
(* longer listed has no HTLC in flight and (guards of SAdd / SEvSent) never completes.       *)
(* A part of it that still waited inside the payer (holding cell: no monitor write records   *)
(* it, so a snapshot older than the send is not stale) went with the crash: nothing is held  *)
(* back any more, the id is free again ("safe to retry").                                    *)
SRecentAfterRestart(node, listed) ==
  /\ \A p \in Pids : (pay[p].node = node /\ p \notin listed) => ~InFlight(p)
  /\ pay' = [p \in Pids |-> IF pay[p].node = node /\ p \notin listed /\ pay[p].term # "sent"
                            THEN [pay[p] EXCEPT !.dead = TRUE, !.fixed = FALSE] ELSE pay[p]]
  /\ UNCHANGED <<ht, pidOf, released, failSeen, snap, spent, feeKnown, initBal, gotAdd, stale, wip>>

(* ---- quiescence: every link is up and empty, every event has been handled, every monitor   *)
(* write has been reported complete.                                                          *)
(* SentComplete / FailedComplete: a payment none of whose HTLCs is pending has reported its   *)
(* outcome, PaymentSent if any part was settled.  Nothing waits inside the payer any more     *)
(* (NothingHeld): a part the payer accepted has been offered to the peer or reported failed   *)
(* -- a part that silently disappeared leaves a payment that is pending for good.             *)
(* BalanceDelta: a pure payer whose channels carry no HTLC has paid exactly amount +          *)
(* reported fee for every PaymentSent, nothing else.                                          *)
TerminalOK(p) ==
  (~InFlight(p) /\ ~pay[p].dead) =>
     IF Settled(p) THEN pay[p].term = "sent" ELSE IF Lost(p) THEN pay[p].term \in {"sent", "failed"} ELSE pay[p].term = "failed"
NothingHeld(p) == ~pay[p].dead => ~Held(p)
SQuietOK(balOf, idle) ==
  /\ \A p \in Pids : TerminalOK(p) /\ NothingHeld(p)
  /\ \A n \in DOMAIN initBal :
       (n \in idle /\ n \notin gotAdd /\ feeKnown[n] /\ \A p \in Pids : pay[p].node = n => ~InFlight(p))
          => initBal[n] - balOf[n] = spent[n]

(* ---- quiescence after channels were closed and the chain has settled (every broadcast         *)
(* transaction mined as soon as it could confirm, every timelock expired): SentComplete /         *)
(* FailedComplete as above, a part counting as settled if its on-chain output was claimed with    *)
(* the preimage.  (Balances are not compared: closing costs fees.)                                *)
SQuietChainOK == \A p \in Pids : TerminalOK(p)

(* state invariant evaluated on every state of every trace / model state *)
NeverBoth == \A p \in Pids : pay[p].term \in {"none", "sent", "failed"}
=============================================================================
