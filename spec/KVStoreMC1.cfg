SPECIFICATION MCSpec
CONSTANTS
  Async = FALSE
  MaxThreads = 1
  NKeys = 2
  NNs = 2
  MaxOps = 4
CONSTRAINT Bound
INVARIANT TypeOK
INVARIANT LazyOnlyAbsent
INVARIANT SoloReadExact
INVARIANT SeenWritten
INVARIANT CurrentSeen
INVARIANT IssueOrder
INVARIANT EmitScripts
CHECK_DEADLOCK TRUE
