"""Shared machinery of the /verif checks: harness build, TLC model checking, TLC trace
validation (the single oracle), evidence and violation reporting.

Exit-code contract (see DESIGN.md App. D): 0 = property held on everything explored,
1 = violation (a line `VIOLATION property=<id> replay=<path>` was printed), 2 = tool error.
"""
import json, os, re, subprocess, sys, time, hashlib, shutil

VERIF = os.path.dirname(os.path.dirname(os.path.abspath(__file__)))
HARNESS = os.path.join(VERIF, "harness")
SPEC = os.path.join(VERIF, "spec")
WORK = os.path.join(VERIF, "work")
EVID = os.path.join(VERIF, "evidence")
REPLAYS = os.path.join(VERIF, "replays")
TLAJAR = "/opt/veriftools/tla/tla2tools.jar:/opt/veriftools/tla/CommunityModules-deps.jar"
KNOWN = os.path.join(VERIF, "KNOWN_FINDINGS.jsonl")


class ToolError(Exception):
    pass


def log(*a):
    print(*a, flush=True)


def workdir(pid):
    d = os.path.join(WORK, pid)
    os.makedirs(d, exist_ok=True)
    return d


# --------------------------------------------------------------------------- build

def build(bins, timeout=1500):
    """(Re)build harness binaries from /repo's current working tree."""
    t0 = time.time()
    cmd = ["cargo", "build", "--offline", "-q"]
    for b in bins:
        cmd += ["--bin", b]
    env = dict(os.environ, CARGO_NET_OFFLINE="true")
    tdir = os.environ.get("VERIF_TARGET_DIR", os.path.join(HARNESS, "target"))
    env["CARGO_TARGET_DIR"] = tdir
    p = subprocess.run(cmd, cwd=HARNESS, env=env, stdout=subprocess.PIPE, stderr=subprocess.STDOUT,
                       text=True, timeout=timeout)
    if p.returncode != 0:
        log(p.stdout[-4000:])
        raise ToolError("harness build failed")
    log("[build] %s ok in %.1fs" % (",".join(bins), time.time() - t0))
    # private copies: a rebuild by someone else while the check runs must not swap the engine under it
    out = {}
    for b in bins:
        d = os.path.join(WORK, "bin-%d" % os.getpid())
        os.makedirs(d, exist_ok=True)
        shutil.copy2(os.path.join(tdir, "debug", b), os.path.join(d, b))
        out[b] = os.path.join(d, b)
    import atexit
    atexit.register(lambda: shutil.rmtree(os.path.join(WORK, "bin-%d" % os.getpid()), ignore_errors=True))
    return out


def run_bin(path, args, timeout=1800, env=None, cwd=None, ok_codes=(0,), discard_stdout=False):
    e = dict(os.environ)
    e.setdefault("RUST_BACKTRACE", "0")
    if env:
        e.update(env)
    p = subprocess.run([path] + [str(a) for a in args],
                       stdout=subprocess.DEVNULL if discard_stdout else subprocess.PIPE, stderr=subprocess.PIPE,
                       text=True, timeout=timeout, env=e, cwd=cwd)
    if p.returncode not in ok_codes:
        log((p.stdout or "")[-3000:])
        log(p.stderr[-3000:])
        raise ToolError("engine %s exited %d" % (os.path.basename(path), p.returncode))
    return p


# --------------------------------------------------------------------------- TLC

def _java(extra_props=(), xmx="8g", xss=None):
    cmd = ["java", "-XX:+UseParallelGC", "-Xmx" + xmx]
    if xss:
        cmd.append("-Xss" + xss)
    for pr in extra_props:
        cmd.append("-D" + pr)
    cmd += ["-cp", TLAJAR, "tlc2.TLC"]
    return cmd


_RE_STATES = re.compile(r"(\d+) states generated, (\d+) distinct states found, (\d+) states left on queue")
_RE_DEPTH = re.compile(r"The depth of the complete state graph search is (\d+)")
_RE_COV = re.compile(r"^<(\w+) line (\d+), col \d+ to line \d+, col \d+ of module (\w+)(?: \([\d ]+\))?>: (\d+):(\d+)", re.M)
_RE_INV = re.compile(r"Error: Invariant (\w+) is violated")
_RE_ACTPROP = re.compile(r"Error: Action property (\w+) is violated")


def tlc_mc(pid, module, cfg, workers=12, timeout=900, simulate=None, depth=None, seed=None,
           xmx="12g", env=None, coverage=True, extra=()):
    """Run TLC on spec/<module>.tla with spec/<cfg>. Returns dict(states, distinct, depth,
    coverage{action: count}, violated: None|name, out)."""
    wd = workdir(pid)
    meta = os.path.join(wd, "meta-" + cfg.replace(".cfg", ""))
    shutil.rmtree(meta, ignore_errors=True)
    cmd = ["timeout", str(timeout)] + _java(xmx=xmx, xss="512m")
    cmd += ["-workers", str(workers), "-metadir", meta, "-cleanup", "-noGenerateSpecTE",
            "-config", cfg]
    if coverage and not simulate:
        cmd += ["-coverage", "1"]
    if simulate:
        cmd += ["-simulate", "num=%d" % simulate]
        if depth:
            cmd += ["-depth", str(depth)]
    if seed is not None:
        cmd += ["-seed", str(seed)]
    cmd += list(extra)
    cmd += [module + ".tla"]
    e = dict(os.environ)
    if env:
        e.update({k: str(v) for k, v in env.items()})
    t0 = time.time()
    p = subprocess.run(cmd, cwd=SPEC, stdout=subprocess.PIPE, stderr=subprocess.STDOUT, text=True, env=e)
    out = p.stdout
    shutil.rmtree(meta, ignore_errors=True)
    with open(os.path.join(wd, "tlc-%s.out" % cfg.replace(".cfg", "")), "w") as f:
        f.write(out)
    res = {"out": out, "wall_s": time.time() - t0, "rc": p.returncode, "violated": None,
           "states": 0, "distinct": 0, "depth": 0, "coverage": {}}
    if p.returncode == 124:
        raise ToolError("TLC timeout on %s/%s" % (module, cfg))
    m = None
    for m in _RE_STATES.finditer(out):
        pass
    if m:
        res["states"], res["distinct"] = int(m.group(1)), int(m.group(2))
    m = _RE_DEPTH.search(out)
    if m:
        res["depth"] = int(m.group(1))
    cov = {}
    for m in _RE_COV.finditer(out):
        name, cnt = m.group(1), int(m.group(4))
        cov[name] = cov.get(name, 0) + cnt
    res["coverage"] = cov
    m = _RE_INV.search(out) or _RE_ACTPROP.search(out)
    if m:
        res["violated"] = m.group(1)
    elif "Error:" in out and "Model checking completed. No error has been found" not in out and not simulate:
        log(out[-3000:])
        raise ToolError("TLC error on %s/%s" % (module, cfg))
    elif simulate and "Error:" in out and "violated" not in out:
        log(out[-3000:])
        raise ToolError("TLC simulate error on %s/%s" % (module, cfg))
    return res


def require_coverage(res, actions, what):
    """Vacuity guard: every named action must have been taken at least once."""
    missing = [a for a in actions if res["coverage"].get(a, 0) == 0]
    if missing:
        raise ToolError("vacuity: actions never taken in %s: %s" % (what, missing))


def tlc_printed(out, tag):
    """Extract values printed with PrintT(<<tag, ToJson(x)>>) -> list of python objects."""
    res = []
    pat = re.compile(r'^<<"%s", "(.*)">>$' % re.escape(tag))
    for line in out.splitlines():
        m = pat.match(line.strip())
        if m:
            s = m.group(1).replace('\\"', '"').replace("\\\\", "\\")
            try:
                res.append(json.loads(s))
            except Exception:
                pass
    return res


# --------------------------------------------------------------------------- trace validation

_RE_REJECT = re.compile(r'^<<"REJECT", (\d+), (\d+)>>', re.M)
_RE_L = re.compile(r"^/?\\? ?l = (\d+)\s*$", re.M)


def _tlc_trace_once(pid, module, cfg, trace_path, timeout, env, tag):
    wd = workdir(pid)
    meta = os.path.join(wd, "meta-trace-" + tag)
    shutil.rmtree(meta, ignore_errors=True)
    cmd = ["timeout", str(timeout)] + _java(("tlc2.tool.queue.IStateQueue=StateDeque",), xmx="6g", xss="1g")
    cmd += ["-workers", "1", "-metadir", meta, "-cleanup", "-noGenerateSpecTE", "-config", cfg,
            module + ".tla"]
    e = dict(os.environ, TRACE=trace_path)
    if env:
        e.update({k: str(v) for k, v in env.items()})
    p = subprocess.run(cmd, cwd=SPEC, stdout=subprocess.PIPE, stderr=subprocess.STDOUT, text=True, env=e)
    shutil.rmtree(meta, ignore_errors=True)
    with open(os.path.join(wd, "tlc-trace-%s.out" % tag), "w") as f:
        f.write(p.stdout)
    if p.returncode == 124:
        raise ToolError("TLC trace validation timeout (%s)" % module)
    return p.stdout


def validate_trace(pid, module, cfg, trace_path, timeout=600, env=None, max_failures=5, tag="t"):
    """Validate an NDJSON trace (possibly many runs separated by `reset` events, each record
    carrying a `run` field) against spec/<module>.tla. Returns (events_validated, failures) where
    each failure = dict(kind='rejected'|'invariant', inv, line, rec, run, last_state).
    After a failure the offending run is cut out and the remainder re-validated, so one failing
    run does not hide the others."""
    with open(trace_path) as f:
        lines = [ln for ln in f.read().splitlines() if ln.strip()]
    failures = []
    total = len(lines)
    cur = lines
    it = 0
    while True:
        it += 1
        path = trace_path if it == 1 else trace_path + ".cut%d" % it
        if it > 1:
            with open(path, "w") as f:
                f.write("\n".join(cur) + "\n")
        if not cur:
            break
        out = _tlc_trace_once(pid, module, cfg, path, timeout, env, "%s%d" % (tag, it))
        fail = None
        m = _RE_INV.search(out) or _RE_ACTPROP.search(out)
        if m:
            # invariant violated on a trace state: find l in the last printed state
            ls = re.findall(r"\bl = (\d+)", out)
            idx = int(ls[-1]) - 1 if ls else 1   # l points at the next record to consume
            idx = max(1, min(idx, len(cur)))
            tail = out[out.rfind("State "):][:3000] if "State " in out else ""
            fail = {"kind": "invariant", "inv": m.group(1), "line": idx, "last_state": tail}
        else:
            m = _RE_REJECT.search(out)
            if m:
                idx = int(m.group(1))
                idx = max(1, min(idx, len(cur)))
                fail = {"kind": "rejected", "inv": None, "line": idx, "last_state": ""}
            elif "Model checking completed. No error has been found" not in out:
                log(out[-4000:])
                raise ToolError("TLC trace validation error (%s)" % module)
        if fail is None:
            break
        rec = json.loads(cur[fail["line"] - 1])
        fail["rec"] = rec
        fail["run"] = rec.get("run")
        run_lines = [json.loads(x) for x in cur if json.loads(x).get("run") == fail["run"]]
        fail["run_events"] = run_lines
        # position inside the run
        pos = 0
        for i, x in enumerate(cur[:fail["line"]]):
            if json.loads(x).get("run") == fail["run"]:
                pos += 1
        fail["pos_in_run"] = pos
        failures.append(fail)
        if len(failures) >= max_failures:
            break
        cur = [x for x in cur if json.loads(x).get("run") != fail["run"]]
    for i in range(2, it + 1):
        try:
            os.remove(trace_path + ".cut%d" % i)
        except OSError:
            pass
    return total, failures


# --------------------------------------------------------------------------- reporting

def load_known():
    known = []
    if os.path.exists(KNOWN):
        for ln in open(KNOWN):
            ln = ln.strip()
            if ln and not ln.startswith("#") and not ln.startswith("fixed:"):
                try:
                    known.append(json.loads(ln))
                except Exception:
                    pass
    return known


VIOLATIONS_REPORTED = 0


def report_violation(pid, name, replay_obj, key=None):
    """Write a replay file and print the VIOLATION line (or KNOWN-FINDING if `key` is listed).
    Returns True if it counts as a violation."""
    for k in load_known():
        if (k.get("property") == pid or pid in k.get("also", [])) and key is not None and k.get("key") == key:
            log("KNOWN-FINDING: property=%s %s" % (pid, k.get("what_fails", "")))
            return False
    os.makedirs(REPLAYS, exist_ok=True)
    h = hashlib.sha1(json.dumps(replay_obj, sort_keys=True, default=str).encode()).hexdigest()[:10]
    path = os.path.join(REPLAYS, "%s-%s-%s.json" % (pid, name, h))
    with open(path, "w") as f:
        json.dump(replay_obj, f, indent=1, default=str)
    log("VIOLATION property=%s replay=%s" % (pid, path))
    global VIOLATIONS_REPORTED
    VIOLATIONS_REPORTED += 1
    return True


def write_evidence(pid, tier, seed, level, coverage, assumptions, wall_s, violations):
    os.makedirs(EVID, exist_ok=True)
    ev = {"property_id": pid, "tier": tier, "seed": int(seed), "level": level, "coverage": coverage,
          "assumptions": assumptions, "wall_s": round(wall_s, 2), "violations": int(violations)}
    with open(os.path.join(EVID, pid + ".json"), "w") as f:
        json.dump(ev, f, indent=1, default=str)


def distinct_count(items):
    return len({hashlib.sha1(json.dumps(x, sort_keys=True, default=str).encode()).hexdigest() for x in items})


def isolate(pid):
    """Work on a private copy of spec/ so that a check in progress is not disturbed by edits."""
    global SPEC
    dst = os.path.join(workdir(pid), "spec")
    shutil.rmtree(dst, ignore_errors=True)
    shutil.copytree(os.path.join(VERIF, "spec"), dst, ignore=shutil.ignore_patterns("states", "*_TTrace_*"))
    SPEC = dst


def main_wrapper(pid, fn):
    """Run fn(tier, seed) -> number of violations; map exceptions to exit codes."""
    isolate(pid)
    tier = os.environ.get("VERIF_TIER", "quick")
    if len(sys.argv) > 2 and sys.argv[2] in ("quick", "thorough"):
        tier = sys.argv[2]
    seed = int(os.environ.get("VERIF_SEED", "1"))
    for i, a in enumerate(sys.argv):
        if a == "--seed" and i + 1 < len(sys.argv):
            seed = int(sys.argv[i + 1])
    try:
        v = fn(tier, seed)
    except ToolError as e:
        # a verdict already reached stands: sanity / vacuity guards that trip afterwards (the code under test
        # behaving differently is exactly why there are violations) do not turn it into a tool error
        if VIOLATIONS_REPORTED:
            log("NOTE property=%s after %d violation(s): %s" % (pid, VIOLATIONS_REPORTED, e))
            sys.exit(1)
        log("TOOL-ERROR property=%s %s" % (pid, e))
        sys.exit(2)
    except subprocess.TimeoutExpired as e:
        if VIOLATIONS_REPORTED:
            log("NOTE property=%s after %d violation(s): timeout %s" % (pid, VIOLATIONS_REPORTED, e))
            sys.exit(1)
        log("TOOL-ERROR property=%s timeout %s" % (pid, e))
        sys.exit(2)
    sys.exit(1 if v else 0)
